"""Runs the real WebSocketApp.run_forever in virtual time against a scripted network.

scenario = {
  "scheme": "ws"|"wss", "callbacks": {"on_open": "ret"|"raise"|"close"|"kbd", ...}   (absent key = callback not set),
  "attempts": [ {"refuse": true} | {"status": 404} | {"events": [[t, "D", hex] | [t, "EOF"] | [t, "R"]], "tls": bool} ... ],
  "args": {"ping_interval":.., "ping_timeout":.., "ping_payload":.., "reconnect":.., "skip_utf8_validation":..},
  "closer": [t, ...]            a second thread calls app.close() at these virtual times,
  "tie": ["ping"|"main"|"closer"]  who goes first when several threads are runnable at the same instant,
  "runs": 1|2                    run_forever is called this many times on the same object
  "custom_dispatcher": bool      use a simulated external event loop instead of the built-in one
}
Returns {"trace": [...], "returns": [...], "attempts": [times], "sockets": [...], ...}."""
import errno
import socket as real_socket
import types

from sim.vtime import World, VSock, Patched, Stuck


def unmask_client_frames(data):
    """Decode the client's (masked) frames from bytes written after the handshake request."""
    out = []
    i = data.find(b"\r\n\r\n")
    data = data[i + 4:] if i >= 0 else data
    while len(data) >= 2:
        b0, b1 = data[0], data[1]
        n = b1 & 0x7F
        pos = 2
        if n == 126:
            n = int.from_bytes(data[2:4], "big"); pos = 4
        elif n == 127:
            n = int.from_bytes(data[2:10], "big"); pos = 10
        key = data[pos:pos + 4] if b1 & 0x80 else b""
        pos += len(key)
        payload = data[pos:pos + n]
        if len(payload) < n:
            break
        if key:
            payload = bytes(b ^ key[j % 4] for j, b in enumerate(payload))
        out.append((b0 & 0x0F, b0 >> 7, payload))
        data = data[pos + n:]
    return out


class ExternalLoop:
    """A minimal external dispatcher (rel-style API used by WrappedDispatcher: read, timeout, signal, abort, buffwrite)."""

    def __init__(self, world):
        self.w = world
        self.readers = []       # (sock, callback)
        self.timers = []        # (deadline, callback, args)
        self.aborted = False

    def read(self, sock, callback):
        self.readers = [(sock, callback)]

    def timeout(self, seconds, callback, *args):
        self.timers.append((self.w.now + seconds, callback, args, seconds, False))

    def signal(self, sig, callback):
        pass

    def abort(self):
        self.aborted = True

    def buffwrite(self, sock, data, send, on_disconnect):
        send(sock, data)

    def dispatch(self, app):
        """Run until there is nothing left to wait for."""
        while not self.aborted:
            self.readers = [(s, cb) for s, cb in self.readers if not s.closed]
            if not self.readers and all(t[4] for t in self.timers):
                return          # nothing left but periodic timers that re-arm themselves (rel would sit there until abort())
            def ready():
                return (any(s.readable() or s.closed for s, _ in self.readers) or any(t[0] <= self.w.now + 1e-12 for t in self.timers)
                        or self.aborted)
            deadline = min([t[0] for t in self.timers], default=None)
            if not ready():
                self.w.block(ready, deadline, wake_times=lambda: [t for s, _ in self.readers for t in s.arrival_times()],
                             desc="external-loop")
            due = [t for t in self.timers if t[0] <= self.w.now + 1e-12]
            for t in due:
                self.timers.remove(t)
                # rel / pyevent rule: a timer is re-armed with the same delay for as long as its callback returns a true value;
                # an exception of the callback comes out of dispatch()
                if t[1](*t[2]):
                    self.timers.append((self.w.now + t[3], t[1], t[2], t[3], True))
            for s, cb in list(self.readers):
                if s.readable() and not s.closed:
                    if not cb():
                        self.readers = [(s2, c2) for s2, c2 in self.readers if s2 is not s]


class Runaway(BaseException):
    """the application keeps opening connections long after the scripted network has nothing more to offer"""


def run_app(sc):
    import websocket
    from websocket import _http
    w = World(tie_order=sc.get("tie", ()))
    trace = []
    attempts_at = []
    socks = []
    pending = list(sc["attempts"])

    class FakeSocketModule:
        def __getattr__(self, name):
            return getattr(real_socket, name)

        def getaddrinfo(self, host, port, *a, **k):
            return [(real_socket.AF_INET, real_socket.SOCK_STREAM, 6, "", ("10.0.0.1", port))]

        def socket(self_, *a, **k):
            spec = pending.pop(0) if pending else {"refuse": True}
            attempts_at.append(w.now)
            if len(attempts_at) > len(sc["attempts"]) + 25:
                result["runaway"] = True
                raise Runaway(f"{len(attempts_at)} connection attempts for a script of {len(sc['attempts'])}")
            s = VSock(w, [(e[0], e[1]) + ((bytes.fromhex(e[2]),) if len(e) > 2 else ()) for e in spec.get("events", [])],
                      status=spec.get("status"), tls_pending=bool(spec.get("tls")), pong_latency=spec.get("pong_latency"))
            s.spec = spec
            if spec.get("glue"):
                s.glue = bytes.fromhex(spec["glue"])
            if spec.get("send_stalls_from") is not None:
                s.send_stalls_from = spec["send_stalls_from"]
            if spec.get("send_stalls_until") is not None:
                s.send_stalls_until = tuple(spec["send_stalls_until"])
            if spec.get("short_body"):
                # a rejection whose declared body is longer than what arrives before the peer closes
                s.reject_tail = b"Content-Length: 50\r\n\r\nabc"
            real_connect = None

            def connect(address):
                if spec.get("refuse"):
                    raise ConnectionRefusedError(errno.ECONNREFUSED, "Connection refused")
                if spec.get("unreachable"):
                    raise OSError(spec["unreachable"], "No route to host / network is unreachable")
            s.connect = connect
            socks.append(s)
            return s

    raised_by_callbacks, kept = set(), []

    def make_cb(name, nargs):
        mode = sc["callbacks"].get(name)
        if mode is None:
            return None

        def cb(app, *args):
            canon = []
            for a in args:
                if isinstance(a, (bytes, bytearray)):
                    canon.append("b:" + bytes(a).hex())
                elif isinstance(a, str):
                    canon.append("s:" + a.encode("utf-8", "surrogatepass").hex())
                elif isinstance(a, BaseException):
                    from corr.common import exn_class
                    canon.append("exc:Other:RuntimeError" if id(a) in raised_by_callbacks else "exc:" + exn_class(a))
                elif hasattr(a, "opcode") and hasattr(a, "data"):
                    canon.append(f"frame:{a.opcode}")
                else:
                    canon.append(repr(a))
            trace.append([round(w.now, 6), name[3:]] + canon)
            if name == "on_error":
                return
            if mode == "raise":
                raise RuntimeError("callback " + name)
            if mode == "raise-closed":
                # e.g. the callback relays to another websocket that is already closed: still just an exception of a user callback
                exc = websocket.WebSocketConnectionClosedException("relay target is closed")
                raised_by_callbacks.add(id(exc))
                kept.append(exc)
                raise exc
            if mode == "close":
                app.close()
            if mode == "kbd":
                raise KeyboardInterrupt()
        # the documented callbacks are "callable objects": plain functions, partial objects, instances with __call__, bound methods
        form = sc.get("callback_form", "function")
        if form == "partial":
            import functools
            return functools.partial(lambda tag, app, *args: cb(app, *args), name)
        if form == "object":
            class Handler:
                __slots__ = ()

                def __call__(self, app, *args):
                    return cb(app, *args)
            return Handler()
        if form == "method":
            class Owner:
                def handle(self, app, *args):
                    return cb(app, *args)
            owner = Owner()
            kept.append(owner)
            return owner.handle
        return cb

    result = {"returns": [], "exceptions": []}
    with Patched(w):
        saved_sock_mod = _http.socket
        saved_ssl = _http._ssl_socket
        _http.socket = FakeSocketModule()
        _http._ssl_socket = lambda sock, sslopt, hostname: sock     # TLS itself is not simulated (C11 covers the options)
        try:
            cbs = {n: make_cb(n, 0) for n in ("on_open", "on_reconnect", "on_message", "on_data", "on_error", "on_close",
                                              "on_ping", "on_pong", "on_cont_message")}
            extra = {}
            if sc.get("header_callable"):
                # the documented callable form of the header option: called just before every connection attempt
                calls = []

                def header_fn():
                    calls.append(1)
                    return [f"X-Attempt: {len(calls)}"]
                extra["header"] = header_fn
            if sc.get("prepared"):
                # the caller hands over an already connected (for wss: already TLS-wrapped) socket through the socket= option
                spec0 = pending.pop(0)
                attempts_at.append(w.now)
                ps = VSock(w, [(e[0], e[1]) + ((bytes.fromhex(e[2]),) if len(e) > 2 else ()) for e in spec0.get("events", [])],
                           tls_pending=bool(spec0.get("tls")), pong_latency=spec0.get("pong_latency"))
                ps.spec = spec0
                socks.append(ps)
                extra["socket"] = ps
            app = websocket.WebSocketApp(f"{sc.get('scheme', 'ws')}://sim.test/app", **{k: v for k, v in cbs.items() if v}, **extra)
            ext = ExternalLoop(w) if sc.get("custom_dispatcher") else None

            def main():
                for _ in range(sc.get("runs", 1)):
                    try:
                        args = dict(sc.get("args", {}))
                        if sc.get("reconnect_via_setter") and "reconnect" in args:
                            # the documented module-level default instead of the argument
                            websocket.setReconnect(args.pop("reconnect"))
                        if ext is not None:
                            args["dispatcher"] = ext
                        r = app.run_forever(**args)
                        if ext is not None:
                            try:
                                ext.dispatch(app)
                            except Exception:
                                # an exception of a timer callback (the ping/pong timeout under an external dispatcher) comes out of
                                # the caller's own loop; the caller then cleans up
                                trace.append([round(w.now, 6), "dispatch-raised"])
                                app.close()
                                raise
                            r = app.has_errored
                        result["returns"].append(r)
                    except BaseException as e:   # noqa
                        from corr.common import exn_class
                        result["returns"].append("raise:" + exn_class(e))
                    trace.append([round(w.now, 6), "returned"])
            w.spawn("main", main)
            for i, t in enumerate(sc.get("closer", [])):
                def closer(t=t):
                    w.block(lambda: False, t, desc="closer-sleep")
                    trace.append([round(w.now, 6), "closer-calls-close"])
                    app.close()
                w.spawn("closer", closer)
            try:
                w.run()
            except Stuck as e:
                result["stuck"] = str(e)
        finally:
            _http.socket = saved_sock_mod
            _http._ssl_socket = saved_ssl
            if sc.get("reconnect_via_setter"):
                websocket.setReconnect(0)
    result["trace"] = trace
    result["attempts"] = [round(t, 6) for t in attempts_at]
    result["sockets"] = [{"closed": s.closed, "frames": [(op, fin, p.hex()) for op, fin, p in unmask_client_frames(bytes(s.written))],
                          "write_times": [round(e[0], 6) for e in s.log if e[1] == "w"][1:]} for s in socks]
    result["errors"] = [(n, type(e).__name__ + ":" + str(e)[:80]) for n, e in w.errors]
    result["threads_alive_at_end"] = [n for n in w.order if not w.ctl[n]["done"]]
    result["max_live_ping_threads"] = max([sum(1 for n in w.order if n.startswith("ping") and not w.ctl[n]["done"])] +
                                          [0])
    result["requests"] = [bytes(s.request).decode("latin-1") for s in socks]
    result["app_sock_none"] = app.sock is None
    result["spun"] = any(getattr(s, "spun", False) for s in socks)
    result["end_time"] = round(w.now, 6)
    return result
