"""Virtual time for WebSocketApp: real Python threads, exactly one running at a time, control changes hands
only at blocking calls (Event.wait, sleep, select, Thread.join, blocking recv), and the clock jumps to the
next deadline or network arrival when every thread is blocked.  All choices at equal instants come from the
scenario (`tie_order`), so a run is a pure function of the scenario."""
import base64
import hashlib
import socket
import threading
import types

GUID = b"258EAFA5-E914-47DA-95CA-C5AB0DC85B11"


class Stuck(Exception):
    pass


class World:
    def __init__(self, tie_order=(), max_steps=40000, horizon=20000.0):
        self.now = 0.0
        self.cv = threading.Condition()
        self.ctl = {}          # name -> dict
        self.ident = {}
        self.order = []        # creation order of thread names
        self.tie_order = list(tie_order)   # preferred thread names when several are runnable at one instant
        self.current = None
        self.steps = 0
        self.max_steps = max_steps
        self.horizon = horizon
        self.errors = []
        self.trace = []        # (time, thread) wake-ups, for diagnostics
        self.live_threads_log = []   # (time, number of live non-main threads) at every wake-up

    # ---------------- worker side
    def me(self):
        return self.ident.get(threading.get_ident())

    def block(self, ready=None, deadline=None, wake_times=None, desc=""):
        """Park the calling thread until ready() is true (returns True) or the clock reaches `deadline`
        (returns False).  wake_times(): future instants at which ready() may become true by itself."""
        name = self.me()
        if name is None:
            raise RuntimeError("blocking call from an unmanaged thread: " + desc)
        c = self.ctl[name]
        with self.cv:
            c.update(state="parked", ready=ready, deadline=deadline, wake_times=wake_times, desc=desc, result=None)
            self.cv.notify_all()
        c["sem"].acquire()
        c["state"] = "running"
        return c["result"]

    def spawn(self, name, fn):
        if name in self.ctl:
            i = 2
            while f"{name}#{i}" in self.ctl:
                i += 1
            name = f"{name}#{i}"
        c = {"sem": threading.Semaphore(0), "state": "parked", "ready": None, "deadline": None, "wake_times": None,
             "desc": "start", "result": True, "done": False}
        with self.cv:            # the scheduler iterates over ctl while holding cv
            self.ctl[name] = c
            self.order.append(name)

        def body():
            self.ident[threading.get_ident()] = name
            c["sem"].acquire()
            c["state"] = "running"
            try:
                fn()
            except BaseException as e:   # noqa
                self.errors.append((name, e))
            finally:
                with self.cv:
                    c["state"] = "done"
                    c["done"] = True
                    self.cv.notify_all()
        t = threading.Thread(target=body, daemon=True)
        c["thread"] = t
        t.start()
        return name

    # ---------------- scheduler (caller's thread)
    def run(self):
        while True:
            with self.cv:
                ok = self.cv.wait_for(lambda: all(c["state"] in ("parked", "done") for c in self.ctl.values()), timeout=30)
                if not ok:
                    raise Stuck("a thread neither blocked in the simulation nor finished (real blocking call?)")
                parked = [n for n in self.order if self.ctl[n]["state"] == "parked"]
                if not parked:
                    return
                runnable = []
                for n in parked:
                    c = self.ctl[n]
                    if c["ready"] is None or c["ready"]():
                        runnable.append((n, True))
                    elif c["deadline"] is not None and c["deadline"] <= self.now + 1e-12:
                        runnable.append((n, False))
                if not runnable:
                    times = []
                    for n in parked:
                        c = self.ctl[n]
                        if c["deadline"] is not None:
                            times.append(c["deadline"])
                        if c["wake_times"] is not None:
                            times.extend(t for t in c["wake_times"]() if t > self.now)
                    if not times:
                        raise Stuck(f"deadlock at t={self.now}: " + str([(n, self.ctl[n]['desc']) for n in parked]))
                    self.now = min(times)
                    if self.now > self.horizon:
                        raise Stuck(f"virtual time horizon exceeded: {[(n, self.ctl[n]['desc']) for n in parked]}")
                    continue
                names = [n for n, _ in runnable]
                pick = None
                for pref in self.tie_order:
                    for n in names:
                        if n == pref or n.split("#")[0] == pref:
                            pick = n
                            break
                    if pick:
                        break
                if pick is None:
                    pick = self.current if self.current in names else names[0]
                res = dict(runnable)[pick]
                self.current = pick
                self.steps += 1
                if self.steps > self.max_steps:
                    raise Stuck("step budget exceeded (spinning without blocking?)")
                self.trace.append((self.now, pick))
                self.live_threads_log.append((self.now, sum(1 for n in self.order if n != "main" and not self.ctl[n]["done"])))
                c = self.ctl[pick]
                c["result"] = res
                c["state"] = "released"
            c["sem"].release()

    # ---------------- shims handed to the library
    def time_module(self):
        w = self
        # the two clocks have different origins, as the real ones do (both exact in binary floating point at the 1/8 s grid)
        return types.SimpleNamespace(time=lambda: w.now + 1073741824.0, sleep=lambda d: w.block(lambda: False, w.now + max(0, d or 0), desc="sleep"),
                                     monotonic=lambda: w.now + 4096.0)

    def threading_module(self):
        w = self

        class VEvent:
            def __init__(self):
                self.flag = False

            def set(self):
                self.flag = True

            def clear(self):
                self.flag = False

            def is_set(self):
                return self.flag

            def wait(self, timeout=None):
                if self.flag:
                    return True
                w.block(lambda: self.flag, None if timeout is None else w.now + timeout, desc="Event.wait")
                return self.flag

        class VThread:
            def __init__(self, target=None, args=(), kwargs=None, name=None, daemon=None):
                self.target, self.args, self.kwargs = target, args, kwargs or {}
                self.daemon = daemon
                self.vname = None
                self.base = name or "ping"

            def start(self):
                self.vname = w.spawn(self.base, lambda: self.target(*self.args, **self.kwargs))

            def is_alive(self):
                return self.vname is not None and not w.ctl[self.vname]["done"]

            def join(self, timeout=None):
                if not self.is_alive():
                    return
                w.block(lambda: not self.is_alive(), None if timeout is None else w.now + timeout, desc="join")

        class VLock:
            """a lock whose contention is a blocking point of the simulation (two managed threads may contend for the
            frame lock while one of them is parked in recv)"""

            def __init__(self):
                self.owner = None

            def acquire(self, blocking=True, timeout=-1):
                me = w.me()
                if self.owner is not None and self.owner != me:
                    if not blocking:
                        return False
                    w.block(lambda: self.owner is None, None if timeout is None or timeout < 0 else w.now + timeout, desc="lock")
                    if self.owner is not None:
                        return False
                self.owner = me if me is not None else "unmanaged"
                return True

            def release(self):
                self.owner = None

            def locked(self):
                return self.owner is not None

            def __enter__(self):
                self.acquire()
                return self

            def __exit__(self, *a):
                self.release()

        w.VLock = VLock
        return types.SimpleNamespace(Event=VEvent, Thread=VThread, Lock=VLock, RLock=threading.RLock,
                                     current_thread=threading.current_thread, get_ident=threading.get_ident)

    def selectors_module(self):
        w = self

        class VSelector:
            """selectors.DefaultSelector as far as the library uses it: registrations are keyed by descriptor number (a number that is
            already registered is refused with KeyError, a closed file object with ValueError; a closed object is still found for
            unregister by exhaustive search); a closed descriptor is never reported ready."""

            def __init__(self):
                self.map = {}

            @property
            def socks(self):
                return [s for s in self.map.values() if not s.closed]

            def register(self, sock, events, data=None):
                fd = sock.fileno()
                if not isinstance(fd, int) or fd < 0:
                    raise ValueError(f"Invalid file descriptor: {fd}")
                if fd in self.map:
                    raise KeyError(f"{sock!r} (FD {fd}) is already registered")
                self.map[fd] = sock

            def unregister(self, sock):
                for fd, s_ in list(self.map.items()):
                    if s_ is sock:
                        del self.map[fd]
                        return
                raise KeyError(f"{sock!r} is not registered")

            def close(self):
                self.map = {}

            def select(self, timeout=None):
                def ready():
                    return any(s.readable() for s in self.socks)
                ok = ready() or w.block(ready, None if timeout is None else w.now + timeout,
                                        wake_times=lambda: [t for s in self.socks for t in s.arrival_times()],
                                        desc="select") or ready()
                if ok and ready():
                    return [(types.SimpleNamespace(fileobj=s), 1) for s in self.socks if s.readable()]
                return []
        return types.SimpleNamespace(DefaultSelector=VSelector, EVENT_READ=1, EVENT_WRITE=2)


class VSock:
    """Timed scripted transport.  events: (t, "D", bytes) | (t, "EOF") | (t, "R") — t relative to the moment the
    handshake response is sent.  Answers the opening request like sim.sock.HandshakeSock unless refuse/status set."""

    def __init__(self, world, events=(), status=None, silent_after=True, tls_pending=False, pong_latency=None):
        self.w = world
        # descriptor numbers as the kernel hands them out: the lowest free one (so a new connection usually REUSES the number of the
        # connection that was just closed -- selectors key their registrations by that number)
        if not hasattr(world, "open_fds"):
            world.open_fds = set()
        self.fd = next(n for n in range(5, 10 ** 6) if n not in world.open_fds)
        world.open_fds.add(self.fd)
        self.script = list(events)
        self.inbox = []              # (arrival, kind, data)
        self.log = []
        self.written = bytearray()
        self.request = bytearray()
        self.answered = False
        self.closed = 0
        self.timeout = None
        self.status = status         # None -> 101 ; else reject with that status
        self.t0 = None
        self.silent_after = silent_after
        self.tls_pending = tls_pending
        self.pending_buf = b""       # bytes "already decrypted" (TLS): not visible to select()
        self.pong_latency = pong_latency   # k-th client ping is answered after pong_latency[k] seconds (None = never)
        self.npings = 0

    # -- time helpers
    def _avail(self):
        return [e for e in self.inbox if e[0] <= self.w.now + 1e-12]

    def readable(self):
        return bool(self._avail()) and not self.closed

    def arrival_times(self):
        return [e[0] for e in self.inbox]

    def pending(self):
        return len(self.pending_buf)

    # -- socket API
    def send(self, data):
        if self.closed:
            raise OSError(9, "Bad file descriptor")
        data = bytes(data)
        stall = getattr(self, "send_stalls_from", None)
        if stall is not None and self.answered and self.w.now >= stall - 1e-12:
            # the peer has stopped reading and the send buffer is full: the write times out (nothing reaches the wire)
            self.log.append((self.w.now, "wfail", data))
            raise socket.timeout("timed out")
        until = getattr(self, "send_stalls_until", None)
        if until is not None and self.answered and stall is None and until[0] - 1e-12 <= self.w.now < until[1] - 1e-12:
            # a transient stall: writes in this window time out, the connection survives
            self.log.append((self.w.now, "wfail", data))
            raise socket.timeout("timed out")
        self.log.append((self.w.now, "w", data))
        self.written += data
        if self.answered and self.pong_latency is not None and len(data) >= 2 and (data[0] & 0x0F) == 9:
            # a client ping: the peer's pong arrives pong_latency[k] later (the reply cannot precede the ping)
            n = data[1] & 0x7F
            key = data[2:6]
            payload = bytes(b ^ key[i % 4] for i, b in enumerate(data[6:6 + n]))
            k = self.npings
            self.npings += 1
            lat = self.pong_latency[k] if k < len(self.pong_latency) else None
            if lat is not None:
                self.inbox.append((self.w.now + lat, "D", bytes([0x8A, len(payload)]) + payload))
                self.inbox.sort(key=lambda e: e[0])
            if self.w.me() not in (None, "main"):
                # a write from the ping thread is a point where the reading loop may run first
                self.w.block(lambda: True, None, desc="send")
        if not self.answered:
            self.request += data
            if b"\r\n\r\n" in self.request:
                self.answered = True
                self.t0 = self.w.now
                key = b""
                for line in bytes(self.request).split(b"\r\n"):
                    if line.lower().startswith(b"sec-websocket-key:"):
                        key = line.split(b":", 1)[1].strip()
                if self.status is None:
                    acc = base64.b64encode(hashlib.sha1(key + GUID).digest())
                    head = (b"HTTP/1.1 101 Switching Protocols\r\nUpgrade: websocket\r\nConnection: Upgrade\r\n"
                            b"Sec-WebSocket-Accept: " + acc + b"\r\n\r\n")
                else:
                    head = b"HTTP/1.1 %d Nope\r\n" % self.status + getattr(self, "reject_tail", b"\r\n")
                self.inbox.append((self.w.now, "D", head + getattr(self, "glue", b"")))      # glue: frames sharing the segment / TLS record of the response
                for e in self.script:
                    self.inbox.append((self.w.now + e[0],) + tuple(e[1:]))
        return len(data)

    def recv(self, n):
        self.log.append((self.w.now, "r", n))
        if self.closed:
            raise OSError(9, "Bad file descriptor")
        if self.pending_buf:
            out, self.pending_buf = self.pending_buf[:n], self.pending_buf[n:]
            return out
        if getattr(self, "at_eof", False):
            # end of stream is sticky on a real socket: every further read returns b"" at once
            self.eof_reads = getattr(self, "eof_reads", 0) + 1
            if self.eof_reads > 200:
                self.spun = True
                from sim.sock import SpinDetected
                raise SpinDetected(f"{self.eof_reads} reads at end of stream")
            return b""
        if not self._avail():
            # blocking read with the socket timeout
            ok = self.w.block(lambda: bool(self._avail()) or self.closed,
                              None if self.timeout is None else self.w.now + self.timeout,
                              wake_times=self.arrival_times, desc="recv")
            if self.closed:
                raise OSError(9, "Bad file descriptor")
            if not self._avail():
                raise socket.timeout("timed out")
        e = self._avail()[0]
        i = self.inbox.index(e)
        if e[1] == "D":
            data = e[2]
            if self.tls_pending:
                # a TLS record is decrypted whole: what the caller did not ask for stays in the SSL object
                self.inbox.pop(i)
                self.pending_buf = data[n:]
                return data[:n]
            chunk, rest = data[:n], data[n:]
            if rest:
                self.inbox[i] = (e[0], "D", rest)
            else:
                self.inbox.pop(i)
            return chunk
        self.inbox.pop(i)
        if e[1] == "EOF":
            self.at_eof = True
            return b""
        if e[1] == "R":
            self.was_reset = True
            raise ConnectionResetError(104, "Connection reset by peer")
        raise AssertionError(e)

    def gettimeout(self):
        return self.timeout

    def settimeout(self, t):
        self.timeout = t

    def setsockopt(self, *a):
        pass

    def close(self):
        self.log.append((self.w.now, "close"))
        self.closed += 1
        if self.fd is not None:
            self.w.open_fds.discard(self.fd)      # the descriptor number is free again: the next socket will get it
            self.fd = None

    def shutdown(self, how=None):
        if getattr(self, "was_reset", False):
            raise OSError(107, "Transport endpoint is not connected")      # what a TCP socket says after the peer's RST
        self.log.append((self.w.now, "shutdown"))
        # wakes up a thread blocked in recv on this socket
        self.inbox.append((self.w.now, "EOF"))

    def fileno(self):
        return -1 if self.closed or self.fd is None else self.fd


class Patched:
    """Context manager installing the world's shims into the library modules."""

    def __init__(self, world):
        self.w = world
        self.saved = []

    def __enter__(self):
        from websocket import _app, _dispatcher, _core, _socket, _abnf
        tm, th, sel = self.w.time_module(), self.w.threading_module(), self.w.selectors_module()
        for mod, attr, val in ((_app, "time", tm), (_app, "threading", th), (_dispatcher, "time", tm),
                               (_dispatcher, "selectors", sel), (_core, "time", tm), (_socket, "selectors", sel),
                               (_core, "threading", th), (_abnf, "Lock", th.Lock)):
            self.saved.append((mod, attr, getattr(mod, attr)))
            setattr(mod, attr, val)
        return self

    def __exit__(self, *a):
        for mod, attr, val in reversed(self.saved):
            setattr(mod, attr, val)
