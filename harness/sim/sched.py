"""Deterministic scheduling of real Python threads: exactly one managed thread runs at a time and
control changes hands only at yield points (lock acquisition, transport send/recv).  Every choice comes
from the `choose` callback, so a run is a pure function of the schedule; `explore` enumerates schedules
systematically up to a preemption bound (stateless re-execution)."""
import threading


class Deadlock(Exception):
    pass


class Scheduler:
    def __init__(self, prefix=(), trace_lines=False, rng=None):
        self.prefix = list(prefix)
        self.trace_lines = trace_lines     # every line of websocket/_core.py and _abnf.py is a scheduling point
        self.rng = rng                     # random choice among enabled threads beyond the prefix
        self.cv = threading.Condition()
        self.ctl = {}            # tid -> dict(sem, state, enabled, desc)
        self.ident = {}          # thread ident -> tid
        self.trace = []          # (enabled tids, chosen, current)
        self.current = None
        self.errors = []

    # ---- worker side
    def me(self):
        return self.ident.get(threading.get_ident())

    def yield_point(self, desc, enabled=None):
        tid = self.me()
        if tid is None:
            return                      # unmanaged thread (set-up code): no scheduling
        c = self.ctl[tid]
        with self.cv:
            c["state"], c["enabled"], c["desc"] = "parked", enabled, desc
            self.cv.notify_all()
        c["sem"].acquire()
        c["state"] = "running"

    def spawn(self, tid, fn):
        c = {"sem": threading.Semaphore(0), "state": "parked", "enabled": None, "desc": "start"}
        with self.cv:
            self.ctl[tid] = c

        def body():
            self.ident[threading.get_ident()] = tid
            c["sem"].acquire()
            c["state"] = "running"
            if self.trace_lines:
                import sys

                def local(frame, event, arg):
                    if event == "line":
                        self.yield_point("line")
                    return local

                def tracer(frame, event, arg):
                    fn_ = frame.f_code.co_filename
                    if fn_.endswith(("websocket/_core.py", "websocket/_abnf.py")):
                        return local
                    return None
                sys.settrace(tracer)
            try:
                fn()
            except BaseException as e:   # noqa
                self.errors.append((tid, e))
            finally:
                with self.cv:
                    c["state"] = "done"
                    self.cv.notify_all()
        t = threading.Thread(target=body, daemon=True)
        c["thread"] = t
        t.start()

    # ---- scheduler side (runs in the calling thread)
    def run(self, max_steps=100000):
        step = 0
        while True:
            with self.cv:
                ok = self.cv.wait_for(lambda: all(c["state"] in ("parked", "done") for c in self.ctl.values()), timeout=20)
                if not ok:
                    raise Deadlock("a thread neither reached a scheduling point nor finished (blocked outside the scheduler)")
                live = [t for t, c in self.ctl.items() if c["state"] == "parked"]
                if not live:
                    return
                enabled = sorted(t for t in live if self.ctl[t]["enabled"] is None or self.ctl[t]["enabled"]())
                if not enabled:
                    raise Deadlock(f"all live threads blocked: {[(t, self.ctl[t]['desc']) for t in live]}")
                if step < len(self.prefix) and self.prefix[step] in enabled:
                    pick = self.prefix[step]
                elif self.rng is not None:
                    # preemption-bounded random schedule: keep running the current thread except at a few
                    # randomly chosen steps (uniform choice would almost never let one thread run a long stretch)
                    if not hasattr(self, "switch_at"):
                        self.switch_at = {self.rng.randrange(1, 260) for _ in range(self.rng.randrange(1, 4))}
                    others = [t for t in enabled if t != self.current]
                    if self.current in enabled and not (step in self.switch_at and others):
                        pick = self.current
                    else:
                        pick = self.rng.choice(others or enabled)
                elif self.current in enabled:
                    pick = self.current
                else:
                    pick = enabled[0]
                self.trace.append((tuple(enabled), pick, self.current))
                self.current = pick
                step += 1
                if step > max_steps:
                    raise Deadlock("step budget exceeded")
                c = self.ctl[pick]
                c["state"] = "released"
            c["sem"].release()


class SchedLock:
    """Stand-in for threading.Lock whose acquisition is a scheduling point."""

    def __init__(self, sched):
        self.sched = sched
        self.owner = None
        self.real = threading.Lock()
        if sched.me() is not None:
            # a lock created by a running thread (lazily, on first use): creating it is a point where another thread may run
            sched.yield_point("lock-create")

    def acquire(self, blocking=True, timeout=-1):
        if self.sched.me() is None:
            return self.real.acquire(blocking, timeout)
        self.sched.yield_point("acquire", enabled=lambda: self.owner is None)
        self.owner = self.sched.me()
        return True

    def release(self):
        if self.owner is None:
            return self.real.release()
        self.owner = None

    def locked(self):
        return self.owner is not None or self.real.locked()

    def __enter__(self):
        self.acquire()
        return self

    def __exit__(self, *a):
        self.release()


def preemptions(trace):
    return sum(1 for en, pick, cur in trace if cur is not None and cur in en and pick != cur)


def explore(run_once, bound, max_runs):
    """run_once(prefix) -> (trace, result).  Enumerates schedules with at most `bound` preemptions."""
    seen = set()
    stack = [()]
    runs = 0
    while stack and runs < max_runs:
        prefix = stack.pop()
        trace, result = run_once(prefix)
        runs += 1
        yield prefix, trace, result
        picks = [p for _, p, _ in trace]
        for j in range(len(prefix), len(trace)):
            en, pick, cur = trace[j]
            for alt in en:
                if alt == pick:
                    continue
                newp = tuple(picks[:j]) + (alt,)
                # count preemptions of the new prefix
                pre = 0
                for i in range(len(newp)):
                    e_i, _, c_i = trace[i]
                    if c_i is not None and c_i in e_i and newp[i] != c_i:
                        pre += 1
                if pre <= bound and newp not in seen:
                    seen.add(newp)
                    stack.append(newp)
