"""A stand-in for the `socket` module as seen by websocket._http: scripted resolver, per-address connect
outcomes, and scripted transports for the accepted address (C09 redirects, C18 address fall-through, C19 tunnel)."""
import errno
import socket as real_socket

from sim.sock import Sock


class FakeNetSock(Sock):
    def __init__(self, net, conn, index, outcome, script):
        super().__init__(script)
        self.net, self.conn, self.index, self.outcome = net, conn, index, outcome
        self.oplog = [("create",)]

    def settimeout(self, t):
        self.oplog.append(("settimeout", t))
        self.timeout = t if t is not None else self.timeout

    def setsockopt(self, *a):
        self.oplog.append(("setsockopt",) + a)

    def connect(self, address):
        self.oplog.append(("connect", address))
        self.address = address
        if self.outcome == "A":
            return
        if self.outcome == "R":
            raise ConnectionRefusedError(errno.ECONNREFUSED, "Connection refused")
        if self.outcome == "U":
            raise OSError(errno.ENETUNREACH, "Network is unreachable")
        raise OSError(int(self.outcome[1:]), "other error")

    def close(self):
        self.oplog.append(("close",))
        super().close()


class FakeNet:
    """conns: list of {"addrs": ["A"|"R"|"U"|"O<errno>", ...], "script": [events], "responder": callable|None}"""

    def __init__(self, conns):
        self.conns = list(conns)
        self.opened = []          # one list of FakeNetSock per connection opened
        self.cur = None
        self.resolved = []        # (host, port) passed to getaddrinfo

    # --- module API
    def __getattr__(self, name):
        return getattr(real_socket, name)

    def getaddrinfo(self, host, port, *a, **k):
        self.resolved.append((host, port))
        if not self.conns:
            raise real_socket.gaierror(-2, "Name or service not known")
        self.cur = self.conns.pop(0)
        self.cur["_socks"] = []
        self.opened.append(self.cur["_socks"])
        fams = self.cur.get("fams")      # optional address families, "4" / "6" per address, in resolver order
        out = []
        for i in range(len(self.cur["addrs"])):
            if fams and fams[i] == "6":
                out.append((real_socket.AF_INET6, real_socket.SOCK_STREAM, 6, "", (f"fd00::{i + 1}", port, 0, 0)))
            else:
                out.append((real_socket.AF_INET, real_socket.SOCK_STREAM, 6, "", (f"10.0.0.{i + 1}", port)))
        self.resolved_addrs = getattr(self, "resolved_addrs", []) + [[a[4][0] for a in out]]
        return out

    def socket(self, *a, **k):
        i = len(self.cur["_socks"])
        outcome = self.cur["addrs"][i]
        mk = self.cur.get("make")
        s = FakeNetSock(self, self.cur, i, outcome, self.cur.get("script", []))
        if mk:
            mk(s)
        self.cur["_socks"].append(s)
        return s

    def all_socks(self):
        return [s for conn in self.opened for s in conn]


def socklog_str(socks, default_opts, user_opts):
    """The same alphabet as the model's sockev list."""
    out = []
    for i, s in enumerate(socks):
        ops = list(s.oplog)
        k = 0
        while k < len(ops):
            op = ops[k]
            if op[0] == "create":
                out.append(f"c{i}")
            elif op[0] == "settimeout":
                out.append(f"t{i}")
            elif op[0] == "setsockopt":
                run = []
                while k < len(ops) and ops[k][0] == "setsockopt":
                    run.append(tuple(ops[k][1:]))
                    k += 1
                k -= 1
                nd = len(default_opts)
                if run[:nd] == [tuple(o) for o in default_opts]:
                    out.append(f"d{i}")
                    if run[nd:] == [tuple(o) for o in user_opts]:
                        out.append(f"u{i}")
                    else:
                        out.append(f"?u{i}")
                else:
                    out.append(f"?d{i}")
            elif op[0] == "connect":
                out.append(f"n{i}")
            elif op[0] == "close":
                if s.outcome != "A":          # closing an accepted transport later is not part of _open_socket
                    out.append(f"x{i}")
            k += 1
    return "".join(out)
