"""Scripted transport used in place of a real socket (documented `socket=` option).

inbox events: ("D", bytes) data segment | ("T",) receive timeout | ("R",) connection reset.
End of the inbox = orderly end of stream (recv returns b"").  One recv(n) takes at most n
bytes of the head segment and leaves the rest (a real socket never returns more than asked).
Every call is logged: ("r", n) ("w", bytes) ("close",) ("shutdown",) ("settimeout", t)."""
import base64
import hashlib
import socket

GUID = b"258EAFA5-E914-47DA-95CA-C5AB0DC85B11"


class SpinDetected(BaseException):
    """the library keeps polling a transport that is at end of stream: it spins without consuming input"""


class BlocksForever(BaseException):
    """the library reads from a transport that has no timeout while the peer stays silent"""


class Sock:
    def __init__(self, events=(), accept=None, timeout=1):
        self.inbox = [tuple(e) for e in events]
        self.log = []
        self.accept = list(accept) if accept else None   # short-write pattern: max bytes taken per send
        self.timeout = timeout
        self.closed = 0
        self.written = bytearray()
        self.silence_after = False    # when the inbox is exhausted: True -> timeout forever, False -> EOF

    # --- reading
    def recv(self, n):
        self.log.append(("r", n))
        if self.closed:
            raise OSError(9, "Bad file descriptor")
        if not self.inbox:
            if self.silence_after:
                if self.timeout is None and getattr(self, "strict_blocking", False):
                    # a blocking socket and a silent peer: the real call would never come back
                    self.blocked_forever = True        # (the library's bare `except:` clauses swallow even BaseException)
                    raise BlocksForever("read on a blocking transport while the peer is silent")
                raise socket.timeout("timed out")
            self.eof_reads = getattr(self, "eof_reads", 0) + 1
            if self.eof_reads > 200:
                raise SpinDetected(f"{self.eof_reads} reads at end of stream")
            return b""
        ev = self.inbox[0]
        if ev[0] == "D":
            data = ev[1]
            chunk, rest = data[:n], data[n:]
            if rest:
                self.inbox[0] = ("D", rest)
            else:
                self.inbox.pop(0)
            return bytes(chunk)
        self.inbox.pop(0)
        if ev[0] == "T":
            raise socket.timeout("timed out")
        if ev[0] == "R":
            raise ConnectionResetError(104, "Connection reset by peer")
        raise AssertionError(ev)

    # --- writing
    def send(self, data):
        if self.closed:
            raise OSError(9, "Bad file descriptor")
        data = bytes(data)
        n = len(data)
        self.send_calls = getattr(self, "send_calls", 0) + 1
        fault = getattr(self, "send_faults", {}).get(self.send_calls)
        if fault is not None:
            # a write fault: `fault[0]` bytes reach the wire, then the call fails (timeout or broken pipe)
            part = data[:fault[0]]
            if part:
                self.log.append(("w", part))
                self.written += part
            self.log.append(("wfail", fault[1]))
            if fault[1] == "timeout":
                raise socket.timeout("timed out")
            raise BrokenPipeError(32, "Broken pipe")
        if self.accept:
            n = max(1, min(n, self.accept.pop(0)))
        self.log.append(("w", data[:n]))
        self.written += data[:n]
        self.on_write(data[:n])
        return n

    def on_write(self, data):
        pass

    def sendall(self, data):
        self.send(data)

    # --- misc
    def gettimeout(self):
        return self.timeout

    def settimeout(self, t):
        self.log.append(("settimeout", t))
        self.timeout = t

    def setsockopt(self, *a):
        self.log.append(("setsockopt",) + a)

    def close(self):
        self.log.append(("close",))
        self.closed += 1

    def shutdown(self, how=None):
        self.log.append(("shutdown",))

    def fileno(self):
        return -1 if self.closed else 99

    def pending(self):
        return 0

    # helpers
    def writes(self):
        return [e[1] for e in self.log if e[0] == "w"]

    def reads(self):
        return [e[1] for e in self.log if e[0] == "r"]


def accept_for(key: bytes) -> bytes:
    return base64.b64encode(hashlib.sha1(key + GUID).digest())


class HandshakeSock(Sock):
    """Answers the opening request with a valid 101 response computed from the key it received;
    `after` are the inbox events that follow the response head.  `glue=True` puts the first
    data segment of `after` into the same segment as the response head."""

    def __init__(self, after=(), glue=False, head_chunks=None, extra_headers=b"", **kw):
        super().__init__((), **kw)
        self.after = [tuple(e) for e in after]
        self.glue = glue
        self.head_chunks = head_chunks
        self.extra_headers = extra_headers
        self.request = bytearray()
        self.answered = False

    def on_write(self, data):
        if self.answered:
            return
        self.request += data
        if b"\r\n\r\n" not in self.request:
            return
        self.answered = True
        key = b""
        for line in bytes(self.request).split(b"\r\n"):
            if line.lower().startswith(b"sec-websocket-key:"):
                key = line.split(b":", 1)[1].strip()
        head = (b"HTTP/1.1 101 Switching Protocols\r\nUpgrade: websocket\r\nConnection: Upgrade\r\n"
                b"Sec-WebSocket-Accept: " + accept_for(key) + b"\r\n" + self.extra_headers + b"\r\n")
        after = list(self.after)
        if self.glue and after and after[0][0] == "D":
            head = head + after[0][1]
            after = after[1:]
        if self.head_chunks:
            evs = []
            pos = 0
            for c in self.head_chunks:
                if pos >= len(head):
                    break
                evs.append(("D", head[pos:pos + c]))
                pos += c
            if pos < len(head):
                evs.append(("D", head[pos:]))
        else:
            evs = [("D", head)]
        self.inbox = evs + after
        self.hs_log_len = None

    def frame_log(self):
        """log entries after the handshake (everything after the last handshake read)."""
        return self.log[self.hs_mark:] if hasattr(self, "hs_mark") else self.log


def connected_ws(after=(), glue=False, sock_kw=None, head_chunks=None, **ws_kw):
    """A WebSocket connected through the public API over a HandshakeSock."""
    import websocket
    s = HandshakeSock(after, glue=glue, head_chunks=head_chunks, **(sock_kw or {}))
    ws = websocket.WebSocket(**ws_kw)
    ws.connect("ws://sim.test/", socket=s, suppress_origin=True)
    s.hs_mark = len(s.log)
    return ws, s


def lcg_bytes(n, seed):
    """Same generator as ocaml/common.ml lcg_bytes."""
    out = bytearray(n)
    x = seed
    for i in range(n):
        x = (x * 1103515245 + 12345) & 0x7FFFFFFF
        out[i] = (x >> 16) & 255
    return bytes(out)


def server_frame(opcode, payload=b"", fin=1, rsv=0, mask=None, length_form=None):
    """An RFC 6455 frame as a server would send it (unmasked unless `mask` is a 4-byte key).
    length_form: None = shortest, 16 or 64 forces a longer encoding."""
    b0 = (fin << 7) | (rsv << 4) | opcode
    n = len(payload)
    mbit = 0x80 if mask is not None else 0
    if length_form is None:
        length_form = 7 if n <= 125 else 16 if n <= 65535 else 64
    if length_form == 7:
        hdr = bytes([b0, mbit | n])
    elif length_form == 16:
        hdr = bytes([b0, mbit | 126]) + n.to_bytes(2, "big")
    else:
        hdr = bytes([b0, mbit | 127]) + n.to_bytes(8, "big")
    if mask is not None:
        payload = bytes(b ^ mask[i % 4] for i, b in enumerate(payload))
        hdr += bytes(mask)
    return hdr + payload
