#!/bin/bash
# usage: mut.sh <prop> <file> <python-expr-old> <new>   -- applies a textual mutation to /repo, runs the quick check, reverts
prop=$1; file=$2; old=$3; new=$4
cd /repo || exit 2
python3 - "$file" "$old" "$new" <<'PY'
import sys
p,old,new=sys.argv[1:4]
s=open(p).read()
assert s.count(old)>=1, "pattern not found"
open(p,'w').write(s.replace(old,new,1))
PY
[ $? -eq 0 ] || { git checkout -- .; exit 2; }
(/venv/bin/python -m pytest -q -p no:cacheprovider --timeout=900 --continue-on-collection-errors 2>&1 | tail -1)
cd /verif && timeout 900 ./check $prop quick 2>&1 | grep -v "^$" | tail -4
cd /repo && git checkout -- . && git status --short | head -2
