"""py2v — fail-closed translator from a whitelisted mini-Python fragment of
/repo/websocket/*.py to Gallina (coq/Gen/*.v).

Every definition the Coq model relies on for its decision logic is regenerated
from the current source on every run.  Anything outside the supported fragment
raises TranslationError (file, line, node); the caller treats that as "tie
broken", never as "skip".

Types known to the translator: 'Z', 'bool', 'bytes' (list Z), 'unit',
('tuple', [types]), ('opt', t).  Python truthiness is resolved through them.
"""
import ast
import hashlib
import http
import os
import sys


class TranslationError(Exception):
    pass


def fail(node, msg, fname="?"):
    line = getattr(node, "lineno", "?")
    try:
        src = ast.unparse(node)
    except Exception:
        src = repr(node)
    raise TranslationError(f"{fname}:{line}: {msg}: `{src[:120]}`")


def zlit(n):
    return f"({n})" if n < 0 else str(n)


EXC_MAP = {
    "WebSocketProtocolException": "Protocol",
    "WebSocketPayloadException": "Payload",
    "WebSocketConnectionClosedException": "ConnClosed",
    "WebSocketTimeoutException": "TimedOut",
    "WebSocketException": "WsGeneric",
    "WebSocketProxyException": "ProxyErr",
    "WebSocketAddressException": "AddressErr",
    "ValueError": "ValueErr",
}


CONST_VALUES = {}   # coq constant name -> python int (for tuple indices given by named constants)


class Fn:
    """Translation context for one function."""

    def __init__(self, fname, env, locals_, raising, ret_type, consts):
        self.fname = fname
        self.env = dict(env)          # unparsed source fragment -> (coq, type)
        self.locals = dict(locals_)   # python local name -> type (grows with assignments)
        self.raising = raising
        self.ret_type = ret_type
        self.consts = consts          # module/class constants: name -> (coq, type)
        self.funcs = {}               # callable source text -> (coq name, [arg types], ret type)
        self.state = []               # coq names of modelled fields returned alongside the result
        self.fresh = 0

    # ------------------------------------------------------------ expressions
    def lookup(self, node):
        key = ast.unparse(node)
        if key in self.env:
            return self.env[key]
        return None

    def expr(self, node):
        hit = self.lookup(node)
        if hit is not None:
            return hit
        if isinstance(node, ast.Constant):
            v = node.value
            if isinstance(v, bool):
                return ("true" if v else "false", "bool")
            if isinstance(v, int):
                return (zlit(v), "Z")
            if isinstance(v, bytes):
                return ("[" + "; ".join(str(b) for b in v) + "]", "bytes")
            if isinstance(v, str):
                if all(ord(c) < 128 for c in v):
                    return ("[" + "; ".join(str(ord(c)) for c in v) + "]", "bytes")
            fail(node, "unsupported constant", self.fname)
        if isinstance(node, ast.Name):
            if node.id in self.locals:
                return (self.pyname(node.id), self.locals[node.id])
            if node.id in self.consts:
                return self.consts[node.id]
            fail(node, "unknown name", self.fname)
        if isinstance(node, ast.Attribute):
            key = ast.unparse(node)
            # ABNF.OPCODE_TEXT, frame_buffer._HEADER_MASK_INDEX ...
            if node.attr in self.consts and isinstance(node.value, ast.Name):
                return self.consts[node.attr]
            fail(node, "unknown attribute (not in the function's fragment table)", self.fname)
        if isinstance(node, ast.List):
            parts = [self.expr(e) for e in node.elts]
            for e, (_, t) in zip(node.elts, parts):
                self.need(e, t, "bytes")
            return ("(" + " ++ ".join([c for c, _ in parts] + ["[]"]) + ")", "chunks")
        if isinstance(node, ast.Tuple):
            parts = [self.expr(e) for e in node.elts]
            return ("(" + ", ".join(p[0] for p in parts) + ")", ("tuple", [p[1] for p in parts]))
        if isinstance(node, ast.UnaryOp):
            if isinstance(node.op, ast.Not):
                return (f"(negb {self.truth(node.operand)})", "bool")
            if isinstance(node.op, ast.USub):
                c, t = self.expr(node.operand)
                self.need(node, t, "Z")
                return (f"(- {c})", "Z")
            fail(node, "unsupported unary operator", self.fname)
        if isinstance(node, ast.BinOp):
            return self.binop(node)
        if isinstance(node, ast.BoolOp):
            parts = [self.truth(v) for v in node.values]
            op = " && " if isinstance(node.op, ast.And) else " || "
            return ("(" + op.join(parts) + ")", "bool")
        if isinstance(node, ast.Compare):
            return (self.compare(node), "bool")
        if isinstance(node, ast.IfExp):
            a, ta = self.expr(node.body)
            b, tb = self.expr(node.orelse)
            if ta != tb:
                fail(node, f"conditional branches of different types {ta} / {tb}", self.fname)
            return (f"(if {self.truth(node.test)} then {a} else {b})", ta)
        if isinstance(node, ast.Subscript):
            return self.subscript(node)
        if isinstance(node, ast.Call):
            return self.call(node)
        fail(node, "unsupported expression", self.fname)

    def need(self, node, t, want):
        if t != want:
            fail(node, f"type {t} where {want} is required", self.fname)

    def pyname(self, name):
        reserved = {"l": "l_", "length": "length_", "at": "at_", "in": "in_", "mod": "mod_",
                    "fun": "fun_", "end": "end_", "exists": "exists_", "key": "key_"}
        return reserved.get(name, name)

    def truth(self, node):
        """Python truthiness of an expression, as a Coq bool."""
        if isinstance(node, ast.BoolOp):
            parts = [self.truth(v) for v in node.values]
            op = " && " if isinstance(node.op, ast.And) else " || "
            return "(" + op.join(parts) + ")"
        if isinstance(node, ast.UnaryOp) and isinstance(node.op, ast.Not):
            return f"(negb {self.truth(node.operand)})"
        c, t = self.expr(node)
        if t == "bool":
            return c
        if t == "Z":
            return f"(negb ({c} =? 0))"
        if t == "bytes":
            return f"(negb (zlen {c} =? 0))"
        if isinstance(t, tuple) and t[0] == "opt":
            return f"(truthy_opt_{self.tname(t[1])} {c})"
        fail(node, f"truthiness of type {t} is not defined in the fragment", self.fname)

    def tname(self, t):
        if isinstance(t, str):
            return t
        return "_".join([t[0]] + [self.tname(x) for x in t[1]] if t[0] == "tuple" else [t[0], self.tname(t[1])])

    BIN = {ast.Add: "+", ast.Sub: "-", ast.Mult: "*"}

    def binop(self, node):
        a, ta = self.expr(node.left)
        b, tb = self.expr(node.right)
        op = type(node.op)
        if ta == "bytes" and tb == "bytes" and op is ast.Add:
            return (f"({a} ++ {b})", "bytes")
        if ta == "bytes" and tb == "Z" and op is ast.Mult:
            return (f"(repeat_list {a} {b})", "bytes")
        self.need(node.left, ta, "Z")
        self.need(node.right, tb, "Z")
        if op in self.BIN:
            return (f"({a} {self.BIN[op]} {b})", "Z")
        table = {ast.FloorDiv: "Z.div", ast.Mod: "Z.modulo", ast.LShift: "Z.shiftl",
                 ast.RShift: "Z.shiftr", ast.BitAnd: "Z.land", ast.BitOr: "Z.lor",
                 ast.BitXor: "Z.lxor"}
        if op in table:
            return (f"({table[op]} {a} {b})", "Z")
        fail(node, "unsupported binary operator", self.fname)

    CMP = {ast.Lt: "<?", ast.LtE: "<=?", ast.Gt: ">?", ast.GtE: ">=?", ast.Eq: "=?"}

    def compare(self, node):
        lefts = [node.left] + node.comparators[:-1]
        parts = []
        for l, op, r in zip(lefts, node.ops, node.comparators):
            parts.append(self.compare1(node, l, op, r))
        return parts[0] if len(parts) == 1 else "(" + " && ".join(parts) + ")"

    def compare1(self, node, l, op, r):
        if isinstance(op, (ast.In, ast.NotIn)):
            a, ta = self.expr(l)
            self.need(l, ta, "Z")
            if isinstance(r, (ast.Tuple, ast.List)):
                elems = [self.expr(e) for e in r.elts]
                for e, (_, t) in zip(r.elts, elems):
                    self.need(e, t, "Z")
                lst = "[" + "; ".join(c for c, _ in elems) + "]"
            else:
                lst, tl = self.expr(r)
                if tl != "listZ":
                    fail(r, f"membership in a value of type {tl}", self.fname)
            m = f"(existsb (Z.eqb {a}) {lst})"
            return m if isinstance(op, ast.In) else f"(negb {m})"
        if isinstance(op, (ast.Is, ast.IsNot)):
            # x is None / x is not None, on option-typed operands
            if isinstance(r, ast.Constant) and r.value is None:
                a, ta = self.expr(l)
                if not (isinstance(ta, tuple) and ta[0] == "opt"):
                    fail(node, f"`is None` on type {ta}", self.fname)
                m = f"(is_none {a})"
                return m if isinstance(op, ast.Is) else f"(negb {m})"
            fail(node, "unsupported identity comparison", self.fname)
        a, ta = self.expr(l)
        b, tb = self.expr(r)
        if isinstance(op, ast.NotEq):
            if ta == "Z" and tb == "Z":
                return f"(negb ({a} =? {b}))"
            if ta == "bool" and tb == "bool":
                return f"(negb (Bool.eqb {a} {b}))"
            fail(node, f"!= on types {ta}/{tb}", self.fname)
        if type(op) not in self.CMP:
            fail(node, "unsupported comparison", self.fname)
        if ta == "bool" and tb == "bool" and isinstance(op, ast.Eq):
            return f"(Bool.eqb {a} {b})"
        if ta == "bool" and isinstance(op, ast.Eq) and tb == "Z":
            # e.g. `self.keep_running is False` is handled elsewhere; bool == int not supported
            fail(node, "bool compared with int", self.fname)
        self.need(l, ta, "Z")
        self.need(r, tb, "Z")
        return f"({a} {self.CMP[type(op)]} {b})"

    def subscript(self, node):
        base, tb = self.expr(node.value)
        sl = node.slice
        if tb == "bytes":
            if isinstance(sl, ast.Slice):
                if sl.step is not None:
                    fail(node, "slice step", self.fname)
                lo = self.expr(sl.lower) if sl.lower is not None else None
                hi = self.expr(sl.upper) if sl.upper is not None else None
                for part, e in ((sl.lower, lo), (sl.upper, hi)):
                    if e is not None:
                        self.need(part, e[1], "Z")
                if lo is None and hi is None:
                    return (base, "bytes")
                if lo is None:
                    return (f"(ztake {hi[0]} {base})", "bytes")
                if hi is None:
                    return (f"(zdrop {lo[0]} {base})", "bytes")
                return (f"(zdrop {lo[0]} (ztake {hi[0]} {base}))", "bytes")
            i, ti = self.expr(sl)
            self.need(sl, ti, "Z")
            return (f"(byte_at {base} {i})", "Z")
        if tb == "listZ":
            i, ti = self.expr(sl)
            self.need(sl, ti, "Z")
            return (f"(byte_at {base} {i})", "Z")
        if isinstance(tb, tuple) and tb[0] == "tuple":
            if isinstance(sl, ast.Constant) and isinstance(sl.value, int):
                i = sl.value
            else:
                c = self.expr(sl)
                try:
                    i = int(CONST_VALUES.get(c[0], c[0].strip("()")))
                except ValueError:
                    fail(node, "tuple index is not a literal", self.fname)
            n = len(tb[1])
            if not (0 <= i < n):
                fail(node, "tuple index out of range", self.fname)
            return (f"(tup{n}_{i} {base})", tb[1][i])
        fail(node, f"subscript of type {tb}", self.fname)

    def call(self, node):
        f = node.func
        fn = ast.unparse(f)
        args = node.args
        if node.keywords:
            fail(node, "keyword arguments", self.fname)
        if fn == "len" and len(args) == 1:
            c, t = self.expr(args[0])
            if t not in ("bytes", "listZ"):
                fail(node, f"len of type {t}", self.fname)
            return (f"(zlen {c})", "Z")
        if fn == "int" and len(args) == 1:
            c, t = self.expr(args[0])
            self.need(args[0], t, "Z")
            return (c, "Z")
        if fn == "bool" and len(args) == 1:
            return (self.truth(args[0]), "bool")
        if fn == "min" and len(args) == 2:
            a, ta = self.expr(args[0]); b, tb = self.expr(args[1])
            self.need(args[0], ta, "Z"); self.need(args[1], tb, "Z")
            return (f"(Z.min {a} {b})", "Z")
        if fn == "struct.pack" and len(args) == 2 and isinstance(args[0], ast.Constant):
            fmt = args[0].value
            c, t = self.expr(args[1])
            self.need(args[1], t, "Z")
            width = {"!H": 2, "!Q": 8, "!I": 4, "!B": 1}.get(fmt)
            if width is None:
                fail(node, "struct format outside the fragment (only big-endian !B !H !I !Q)", self.fname)
            return (f"(be_encode {width}%nat {c})", "bytes")
        # struct.unpack(fmt, v)[0] is handled as a whole in subscript -> see env hook below
        if isinstance(f, ast.Attribute) and f.attr == "encode" and len(args) == 1 \
                and isinstance(args[0], ast.Constant) and args[0].value == "latin-1" \
                and isinstance(f.value, ast.Call) and ast.unparse(f.value.func) == "chr":
            c, t = self.expr(f.value.args[0])
            self.need(f.value.args[0], t, "Z")
            return (f"[{c}]", "bytes")
        if fn == "any" and len(args) == 1 and isinstance(args[0], ast.GeneratorExp):
            g = args[0]
            if len(g.generators) != 1 or g.generators[0].ifs or not isinstance(g.generators[0].target, ast.Name) \
                    or not isinstance(g.generators[0].iter, (ast.List, ast.Tuple)):
                fail(node, "generator shape outside the fragment", self.fname)
            var = g.generators[0].target.id
            elems = [self.expr(e) for e in g.generators[0].iter.elts]
            for e, (_, t) in zip(g.generators[0].iter.elts, elems):
                self.need(e, t, "Z")
            saved = self.locals.get(var)
            self.locals[var] = "Z"
            body = self.truth(g.elt)
            if saved is None:
                del self.locals[var]
            else:
                self.locals[var] = saved
            lst = "[" + "; ".join(c for c, _ in elems) + "]"
            return (f"(existsb (fun {self.pyname(var)} => {body}) {lst})", "bool")
        if fn == "int.from_bytes" and len(args) == 2 and ast.unparse(args[1]) == "native_byteorder":
            if sys.byteorder != "little":
                fail(node, "native byte order is not little-endian on this platform", self.fname)
            c, t = self.expr(args[0])
            self.need(args[0], t, "bytes")
            return (f"(le_decode {c})", "Z")
        if isinstance(f, ast.Attribute) and f.attr == "to_bytes" and len(args) == 2 \
                and ast.unparse(args[1]) == "native_byteorder":
            c, t = self.expr(f.value)
            self.need(f.value, t, "Z")
            n, tn = self.expr(args[0])
            self.need(args[0], tn, "Z")
            return (f"(le_encode {n} {c})", "bytes")
        if fn in self.funcs:
            coqname, argtypes, rett = self.funcs[fn]
            if len(args) != len(argtypes):
                fail(node, "arity differs from the translated callee", self.fname)
            cs = []
            for a, want in zip(args, argtypes):
                c, t = self.expr(a)
                self.need(a, t, want)
                cs.append(c)
            return ("(" + " ".join([coqname] + cs) + ")", rett)
        fail(node, "call outside the fragment", self.fname)

    # ------------------------------------------------------------- statements
    def ret(self, coq):
        if self.state:
            coq = "(" + ", ".join([coq] + [n for n in self.state]) + ")"
        return f"(Ok {coq})" if self.raising else coq

    def block(self, stmts, k):
        """Translate a statement list; k() gives the term for falling off the end."""
        if not stmts:
            return k()
        s, rest = stmts[0], stmts[1:]
        cont = lambda: self.block(rest, k)
        if isinstance(s, ast.Expr) and isinstance(s.value, ast.Constant):
            return cont()                      # docstring
        if isinstance(s, ast.Pass):
            return cont()
        if isinstance(s, ast.Return):
            if s.value is None:
                if self.ret_type != "unit":
                    fail(s, "bare return in a function with a result", self.fname)
                return self.ret("tt")
            if self.ret_type == "bool":
                return self.ret(self.truth(s.value))
            if self.ret_type == "Z" and isinstance(s.value, ast.Constant) and isinstance(s.value.value, bool):
                return self.ret("1" if s.value.value else "0")
            c, t = self.expr(s.value)
            if t != self.ret_type:
                fail(s, f"returns {t}, declared {self.ret_type}", self.fname)
            return self.ret(c)
        if isinstance(s, ast.Raise):
            if not self.raising:
                fail(s, "raise in a function declared non-raising", self.fname)
            exc = s.exc
            name = ast.unparse(exc.func) if isinstance(exc, ast.Call) else ast.unparse(exc)
            if name not in EXC_MAP:
                fail(s, "exception class outside the fragment", self.fname)
            return f"(Raise {EXC_MAP[name]})"
        if isinstance(s, ast.Assign):
            if len(s.targets) != 1:
                fail(s, "multiple assignment targets", self.fname)
            return self.assign(s, s.targets[0], s.value, cont)
        if isinstance(s, ast.AnnAssign) and s.value is not None:
            return self.assign(s, s.target, s.value, cont)
        if isinstance(s, ast.AugAssign):
            fake = ast.BinOp(left=s.target, op=s.op, right=s.value)
            ast.copy_location(fake, s)
            return self.assign(s, s.target, fake, cont)
        if isinstance(s, ast.Expr) and isinstance(s.value, ast.Call) and isinstance(s.value.func, ast.Attribute) \
                and s.value.func.attr == "append" and len(s.value.args) == 1 \
                and ast.unparse(s.value.func.value) in self.env \
                and self.env[ast.unparse(s.value.func.value)][1] == "chunks":
            name, _ = self.env[ast.unparse(s.value.func.value)]
            c, t = self.expr(s.value.args[0])
            self.need(s.value.args[0], t, "bytes")
            return f"(let {name} := ({name} ++ {c}) in\n {cont()})"
        if isinstance(s, ast.If):
            saved = dict(self.locals), dict(self.env)
            test = self.truth(s.test)
            if test == "false":      # a branch that is dead in the typed model (isinstance(.., str))
                return self.block(s.orelse + rest, k)
            a = self.block(s.body + rest, k)
            self.locals, self.env = dict(saved[0]), dict(saved[1])
            b = self.block(s.orelse + rest, k)
            self.locals, self.env = saved
            return f"(if {test}\n then {a}\n else {b})"
        fail(s, "statement outside the fragment", self.fname)

    def assign(self, s, target, value, cont):
        if isinstance(target, ast.Name):
            c, t = self.expr(value)
            self.locals[target.id] = t
            # a re-bound local shadows any fragment-table entry of the same text
            self.env.pop(target.id, None)
            return f"(let {self.pyname(target.id)} := {c} in\n {cont()})"
        if isinstance(target, ast.Tuple) and all(isinstance(e, ast.Name) for e in target.elts):
            c, t = self.expr(value)
            if not (isinstance(t, tuple) and t[0] == "tuple" and len(t[1]) == len(target.elts)):
                fail(s, f"tuple unpacking of type {t}", self.fname)
            names = []
            for e, te in zip(target.elts, t[1]):
                self.locals[e.id] = te
                self.env.pop(e.id, None)
                names.append(self.pyname(e.id))
            pat = names[0]
            for n in names[1:]:
                pat = f"({pat}, {n})"
            # Coq tuples are left-nested pairs: (a, b, c) = ((a, b), c)
            return f"(let '{pat} := {c} in\n {cont()})"
        if isinstance(target, ast.Attribute) and ast.unparse(target) in self.env:
            # assignment to a modelled field (self.x = e): rebind the field variable
            name, tfield = self.env[ast.unparse(target)]
            c, t = self.expr(value)
            if t != tfield and not (tfield == "chunks" and t == "bytes"):
                fail(s, f"field of type {tfield} assigned a {t}", self.fname)
            return f"(let {name} := {c} in\n {cont()})"
        fail(s, "assignment target outside the fragment", self.fname)


# ----------------------------------------------------------------------------
# module access helpers

class Source:
    def __init__(self, repo, rel):
        self.path = os.path.join(repo, rel)
        self.rel = rel
        with open(self.path, "rb") as f:
            raw = f.read()
        self.sha = hashlib.sha256(raw).hexdigest()
        self.tree = ast.parse(raw.decode("utf-8"), filename=self.path)
        self.toplevel = self._flatten(self.tree.body)

    def _flatten(self, body):
        """Top-level statements, looking through `try: ... except ImportError:`
        blocks (the pure-Python fallback is the branch that is active here:
        wsaccel is not installed; the check verifies that separately)."""
        out = []
        for s in body:
            if isinstance(s, ast.Try):
                for h in s.handlers:
                    out.extend(self._flatten(h.body))
            else:
                out.append(s)
        return out

    def func(self, name, cls=None):
        body = self.toplevel
        if cls is not None:
            c = self.klass(cls)
            body = c.body
        found = [s for s in body if isinstance(s, ast.FunctionDef) and s.name == name]
        if len(found) != 1:
            raise TranslationError(f"{self.rel}: expected exactly one definition of "
                                   f"{(cls + '.') if cls else ''}{name}, found {len(found)}")
        return found[0]

    def klass(self, name):
        found = [s for s in self.toplevel if isinstance(s, ast.ClassDef) and s.name == name]
        if len(found) != 1:
            raise TranslationError(f"{self.rel}: expected exactly one class {name}, found {len(found)}")
        return found[0]

    def assign_value(self, name, cls=None):
        body = self.klass(cls).body if cls else self.toplevel
        found = [s for s in body if isinstance(s, ast.Assign) and len(s.targets) == 1
                 and isinstance(s.targets[0], ast.Name) and s.targets[0].id == name]
        if len(found) != 1:
            raise TranslationError(f"{self.rel}: expected exactly one assignment to "
                                   f"{(cls + '.') if cls else ''}{name}, found {len(found)}")
        return found[0].value


def const_eval(node, known, fname="?"):
    """Evaluate a constant expression made of int literals, names of already
    known constants, tuples/lists, + - * << | and http.HTTPStatus members."""
    if isinstance(node, ast.Constant) and isinstance(node.value, (int, str)) and not isinstance(node.value, bool):
        return node.value
    if isinstance(node, ast.Name) and node.id in known:
        return known[node.id]
    if isinstance(node, (ast.Tuple, ast.List)):
        return tuple(const_eval(e, known, fname) for e in node.elts)
    if isinstance(node, ast.Dict):
        return {const_eval(k, known, fname): const_eval(v, known, fname) for k, v in zip(node.keys, node.values)}
    if isinstance(node, ast.BinOp):
        a = const_eval(node.left, known, fname); b = const_eval(node.right, known, fname)
        ops = {ast.Add: lambda: a + b, ast.Sub: lambda: a - b, ast.Mult: lambda: a * b,
               ast.LShift: lambda: a << b, ast.BitOr: lambda: a | b}
        if type(node.op) in ops:
            return ops[type(node.op)]()
    if isinstance(node, ast.Attribute) and isinstance(node.value, ast.Name) and node.value.id == "HTTPStatus":
        try:
            return int(getattr(http.HTTPStatus, node.attr))
        except AttributeError:
            pass
    if isinstance(node, ast.Attribute) and isinstance(node.value, ast.Name) and node.attr in known:
        return known[node.attr]
    fail(node, "constant expression outside the fragment", fname)


def coq_zlist(vals):
    return "[" + "; ".join(zlit(v) for v in vals) + "]"


def coq_str(s):
    """ASCII string as list Z."""
    if not all(ord(c) < 128 for c in s):
        raise TranslationError(f"non-ASCII string constant {s!r}")
    return "[" + "; ".join(str(ord(c)) for c in s) + "]"


def coq_type(t):
    if t == "Z":
        return "Z"
    if t == "bool":
        return "bool"
    if t in ("bytes", "listZ", "chunks"):
        return "list Z"
    if t == "unit":
        return "unit"
    if isinstance(t, tuple) and t[0] == "tuple":
        return "(" + " * ".join(coq_type(x) for x in t[1]) + ")"
    if isinstance(t, tuple) and t[0] == "opt":
        return f"(option {coq_type(t[1])})"
    raise TranslationError(f"no Coq type for {t}")


def translate_function(src, fdef, coqname, params, ret_type, raising, env, consts, funcs=None,
                       skip_params=("self",), state=None, end_value=None, stmts=None, check_params=True):
    """Straight-line / branching function -> Definition.
    params: list of (python name or None, coq name, type) in Coq argument order;
    a python name binds the corresponding parameter of the def."""
    fn = Fn(f"{src.rel}:{fdef.name}", env, {}, raising, ret_type, consts)
    fn.funcs = dict(funcs or {})
    fn.state = list(state or [])
    pyparams = [a.arg for a in fdef.args.args if a.arg not in skip_params]
    declared = [p for p, _, _ in params if p is not None]
    if check_params and sorted(pyparams) != sorted(declared):
        raise TranslationError(f"{src.rel}:{fdef.lineno}: parameters of {fdef.name} are {pyparams}, "
                               f"the fragment table expects {declared}")
    for p, c, t in params:
        if p is not None:
            fn.locals[p] = t
            if fn.pyname(p) != c:
                fn.env[p] = (c, t)
    def off_end():
        if end_value is not None:
            return fn.ret(end_value)
        if ret_type != "unit":
            raise TranslationError(f"{src.rel}:{fdef.lineno}: {fdef.name} can fall off its end but has a result")
        return fn.ret("tt")
    body = fn.block(fdef.body if stmts is None else stmts, off_end)
    args = " ".join(f"({c} : {coq_type(t)})" for _, c, t in params)
    rt = coq_type(ret_type)
    if fn.state:
        rt = "(" + " * ".join([rt] + ["list Z"] * len(fn.state)) + ")"
    if raising:
        rt = f"res ({rt})"
    return f"Definition {coqname} {args} : {rt} :=\n {body}.\n"


def translate_loop_function(src, fdef, coqname, params, ret_type, raising, env, consts, funcs=None):
    """Template: <assignments>; for x in <bytes param>: <body>; <tail>
    -> Fixpoint over the list with the loop-carried locals as accumulators."""
    fn = Fn(f"{src.rel}:{fdef.name}", env, {}, raising, ret_type, consts)
    fn.funcs = dict(funcs or {})
    for p, c, t in params:
        if p is not None:
            fn.locals[p] = t
    stmts = [s for s in fdef.body if not (isinstance(s, ast.Expr) and isinstance(s.value, ast.Constant))]
    idx = [i for i, s in enumerate(stmts) if isinstance(s, ast.For)]
    if len(idx) != 1:
        raise TranslationError(f"{src.rel}:{fdef.lineno}: {fdef.name}: expected exactly one for loop")
    pre, loop, post = stmts[:idx[0]], stmts[idx[0]], stmts[idx[0] + 1:]
    if loop.orelse or not isinstance(loop.target, ast.Name) or not isinstance(loop.iter, ast.Name):
        fail(loop, "loop shape outside the template", fn.fname)
    it = loop.iter.id
    if fn.locals.get(it) != "bytes":
        fail(loop, "loop does not iterate over a bytes parameter", fn.fname)
    # loop-carried variables: assigned before the loop
    carried = []
    for s in pre:
        if not (isinstance(s, ast.Assign) and len(s.targets) == 1 and isinstance(s.targets[0], ast.Name)):
            fail(s, "pre-loop statement outside the template", fn.fname)
        c, t = fn.expr(s.value)
        fn.locals[s.targets[0].id] = t
        carried.append((s.targets[0].id, c, t))
    # every name stored in the loop body must be carried or the element / a fresh local
    names = [n for n, _, _ in carried]
    elem = loop.target.id
    fn.locals[elem] = "Z"
    rest = it + "'"
    rec = lambda: "(" + " ".join([coqname + "_loop", rest] + [fn.pyname(n) for n in names]) + ")"
    saved = dict(fn.locals), dict(fn.env)
    body = fn.block(loop.body, rec)
    fn.locals, fn.env = saved
    def off_end():
        raise TranslationError(f"{src.rel}:{fdef.lineno}: {fdef.name} falls off its end after the loop")
    tail = fn.block(post, off_end)
    rt = coq_type(ret_type)
    if raising:
        rt = f"res {rt}"
    accs = " ".join(f"({fn.pyname(n)} : {coq_type(t)})" for n, _, t in carried)
    out = (f"Fixpoint {coqname}_loop ({it} : list Z) {accs} {{struct {it}}} : {rt} :=\n"
           f" match {it} with\n | [] => {tail}\n | {fn.pyname(elem)} :: {rest} =>\n {body}\n end.\n")
    args = " ".join(f"({c} : {coq_type(t)})" for _, c, t in params)
    init = " ".join(f"({c})" for _, c, _ in carried)
    out += f"Definition {coqname} {args} : {rt} := {coqname}_loop {it} {init}.\n"
    return out


def contains_call(node, text):
    for n in ast.walk(node):
        if isinstance(n, ast.Call) and ast.unparse(n.func) == text:
            return n
    return None


def translate_need(src, fdef, coqname, params, env, consts, calltext="self.recv_strict"):
    """How many bytes does this function request from `calltext(<n>)`, as a function of its
    (already parsed) inputs?  Statements before the call are translated normally; the first
    statement containing the call yields its argument; no call on a path yields 0."""
    fn = Fn(f"{src.rel}:{fdef.name}[need]", env, {}, False, "Z", consts)
    for p, c, t in params:
        if p is not None:
            fn.locals[p] = t

    def need_expr(e):
        if isinstance(e, ast.IfExp):
            return f"(if {fn.truth(e.test)} then {need_expr(e.body)} else {need_expr(e.orelse)})"
        call = contains_call(e, calltext)
        if call is None:
            return "0"
        if len(call.args) != 1:
            fail(call, "request call shape", fn.fname)
        c, t = fn.expr(call.args[0])
        fn.need(call.args[0], t, "Z")
        return c

    def block(stmts):
        if not stmts:
            return "0"
        s, rest = stmts[0], stmts[1:]
        if isinstance(s, ast.Expr) and isinstance(s.value, ast.Constant):
            return block(rest)
        if isinstance(s, ast.If):
            if contains_call(s.test, calltext):
                fail(s, "request inside a condition", fn.fname)
            saved = dict(fn.locals), dict(fn.env)
            a = block(s.body + rest)
            fn.locals, fn.env = dict(saved[0]), dict(saved[1])
            b = block(s.orelse + rest)
            fn.locals, fn.env = saved
            return f"(if {fn.truth(s.test)} then {a} else {b})"
        if contains_call(s, calltext):
            value = s.value if isinstance(s, (ast.Assign, ast.AnnAssign, ast.Expr, ast.Return)) else None
            if value is None:
                fail(s, "request in an unsupported statement", fn.fname)
            return need_expr(value)
        if isinstance(s, (ast.Assign, ast.AnnAssign)):
            tgt = s.targets[0] if isinstance(s, ast.Assign) else s.target
            if isinstance(tgt, ast.Attribute) and ast.unparse(tgt) not in fn.env:
                return block(rest)      # a field write that cannot influence the amount requested
            return fn.assign(s, tgt, s.value, lambda: block(rest))
        fail(s, "statement outside the fragment", fn.fname)

    body = block(fdef.body)
    args = " ".join(f"({c} : {coq_type(t)})" for _, c, t in params)
    return f"Definition {coqname} {args} : Z :=\n {body}.\n"


def translate_expr(src, node, coqname, params, ret_type, env, consts, funcs=None):
    fn = Fn(f"{src.rel}:{coqname}", env, {}, False, ret_type, consts)
    fn.funcs = dict(funcs or {})
    for p, c, t in params:
        if p is not None:
            fn.locals[p] = t
            if fn.pyname(p) != c:
                fn.env[p] = (c, t)
    if ret_type == "bool":
        c = fn.truth(node)
    else:
        c, t = fn.expr(node)
        if t != ret_type:
            fail(node, f"expression of type {t}, expected {ret_type}", fn.fname)
    args = " ".join(f"({c_} : {coq_type(t)})" for _, c_, t in params)
    return f"Definition {coqname} {args} : {coq_type(ret_type)} :=\n {c}.\n"
