"""Shared machinery of ./check: regeneration, Coq/OCaml builds, driver processes,
evidence, known findings, violation reports."""
import fcntl
import glob
import hashlib
import json
import os
import re
import shutil
import subprocess
import sys
import time

VERIF = os.path.dirname(os.path.dirname(os.path.abspath(__file__)))
REPO = os.environ.get("VERIF_REPO", "/repo")
COQ = os.path.join(VERIF, "coq")
BUILD = os.path.join(VERIF, "build")
PY = "/venv/bin/python"
NPROC = int(os.environ.get("VERIF_NPROC", "0") or 0) or os.cpu_count() or 4

HYGIENE_RE = re.compile(
    r"\b(Admitted|admit|Axiom|Axioms|Parameter|Parameters|Conjecture|Conjectures|Unset\s+Guard|"
    r"bypass_check|Admit\s+Obligations|type-in-type|impredicative-set|native_compute)\b")
STMT_RE = re.compile(r"^\s*(Lemma|Theorem|Corollary|Example|Fact|Remark|Proposition)\s+([A-Za-z0-9_']+)", re.M)

# axioms of the standard library that a theorem may depend on (none expected at present)
ALLOWED_AXIOMS = set()


def log(*a):
    print(*a, file=sys.stderr, flush=True)


def sh(cmd, cwd=None, timeout=600, env=None):
    try:
        p = subprocess.run(cmd, cwd=cwd, timeout=timeout, env=env, stdout=subprocess.PIPE,
                           stderr=subprocess.STDOUT, text=True, shell=isinstance(cmd, str))
        return p.returncode, p.stdout
    except subprocess.TimeoutExpired as e:
        out = e.stdout or ""
        if isinstance(out, bytes):
            out = out.decode("utf-8", "replace")
        return 124, out + f"\n[timeout after {timeout}s]"


class Lock:
    def __init__(self):
        os.makedirs(BUILD, exist_ok=True)
        self.path = os.path.join(BUILD, ".lock")

    def __enter__(self):
        self.f = open(self.path, "w")
        fcntl.flock(self.f, fcntl.LOCK_EX)
        return self

    def __exit__(self, *a):
        fcntl.flock(self.f, fcntl.LOCK_UN)
        self.f.close()


def all_v_files(include_properties=False):
    files = []
    for root, _, names in os.walk(COQ):
        for n in names:
            if n.endswith(".v"):
                rel = os.path.relpath(os.path.join(root, n), COQ)
                if rel.startswith("Properties/") and not include_properties:
                    continue
                files.append(rel)
    return sorted(files)


def regen():
    """Tie A: regenerate coq/Gen/*.v from REPO's working tree."""
    rc, out = sh([PY, os.path.join(VERIF, "harness/py2v/gen.py"), REPO, os.path.join(COQ, "Gen")], timeout=120)
    return rc == 0, out


def coq_makefile():
    files = all_v_files()
    # placeholder Gen files must exist for dependency computation even when translation failed
    stamp = "\n".join(files)
    sp = os.path.join(BUILD, "vfiles.txt")
    old = open(sp).read() if os.path.exists(sp) else None
    if old != stamp or not os.path.exists(os.path.join(COQ, "Makefile")):
        rc, out = sh(["coq_makefile", "-f", "_CoqProject", "-o", "Makefile"] + files, cwd=COQ)
        if rc != 0:
            return False, out
        with open(sp, "w") as f:
            f.write(stamp)
    return True, ""


def make(targets, timeout=1500):
    return sh(["make", f"-j{NPROC}", "-k"] + targets, cwd=COQ, timeout=timeout)


def requires_of(vfile):
    """WS-internal .v files a file Requires (direct)."""
    txt = open(os.path.join(COQ, vfile)).read()
    deps = []
    for m in re.finditer(r"From\s+WS\s+Require\s+(?:Import\s+|Export\s+)?([\w.\s]+?)\.(?:\s|$)", txt):
        for name in m.group(1).split():
            deps.append(name.replace(".", "/") + ".v")
    return deps


def cone_of(vfile):
    seen, todo = [], [vfile]
    while todo:
        f = todo.pop()
        if f in seen:
            continue
        seen.append(f)
        if os.path.exists(os.path.join(COQ, f)):
            todo.extend(requires_of(f))
    return seen


def build_driver(kind):
    """kind = 'full' | 'spec'.  Needs Extract/Extract(.Spec).vo built (writes coq/core_<kind>.ml)."""
    src_ml = os.path.join(COQ, f"core_{kind}.ml")
    if not os.path.exists(src_ml):
        return False, f"{src_ml} missing"
    d = os.path.join(BUILD, f"ocaml-{kind}")
    os.makedirs(d, exist_ok=True)
    srcs = ["common.ml", "spec_handlers.ml"] + (["model_handlers.ml"] if kind == "full" else []) + ["main.ml"]
    h = hashlib.sha256()
    for p in [src_ml, src_ml + "i"] + [os.path.join(VERIF, "ocaml", s) for s in srcs]:
        h.update(open(p, "rb").read())
    stamp = os.path.join(d, "stamp")
    exe = os.path.join(d, "wsmodel")
    if os.path.exists(exe) and os.path.exists(stamp) and open(stamp).read() == h.hexdigest():
        return True, ""
    shutil.copy(src_ml, os.path.join(d, "core.ml"))
    shutil.copy(src_ml + "i", os.path.join(d, "core.mli"))
    for s in srcs:
        shutil.copy(os.path.join(VERIF, "ocaml", s), os.path.join(d, s))
    rc, out = sh(["ocamlfind", "ocamlopt", "-O3", "-w", "-a", "core.mli", "core.ml"] + srcs + ["-o", "wsmodel"],
                 cwd=d, timeout=300)
    if rc == 0:
        with open(stamp, "w") as f:
            f.write(h.hexdigest())
    elif os.path.exists(exe):
        os.remove(exe)
    return rc == 0, out


class Driver:
    """Batch interface to the extracted model / spec oracle."""

    def __init__(self, kind):
        self.kind = kind
        self.exe = os.path.join(BUILD, f"ocaml-{kind}", "wsmodel")

    def run(self, lines, timeout=420):
        if not lines:
            return []
        env = dict(os.environ)
        p = subprocess.run(["bash", "-c", f"ulimit -s unlimited 2>/dev/null; exec {self.exe}"],
                           input="\n".join(lines) + "\n", stdout=subprocess.PIPE,
                           stderr=subprocess.PIPE, text=True, timeout=timeout, env=env)
        out = p.stdout.split("\n")
        if out and out[-1] == "":
            out.pop()
        if len(out) != len(lines):
            raise RuntimeError(f"driver returned {len(out)} lines for {len(lines)} requests "
                               f"(rc={p.returncode}) stderr={p.stderr[:500]}")
        return out

    def run_parallel(self, lines, chunks=None, timeout=420):
        from concurrent.futures import ThreadPoolExecutor
        chunks = chunks or NPROC
        if len(lines) < 32:
            return self.run(lines, timeout)
        # round-robin distribution balances runs of expensive neighbours
        parts = [lines[i::chunks] for i in range(chunks)]
        with ThreadPoolExecutor(max_workers=chunks) as ex:
            res = list(ex.map(lambda p: self.run(p, timeout), parts))
        out = [None] * len(lines)
        for i, r in enumerate(res):
            out[i::chunks] = r
        return out


def hygiene():
    bad = []
    for f in all_v_files(include_properties=True):
        txt = open(os.path.join(COQ, f)).read()
        # strip comments (non-nested is enough for our files; nested handled by loop)
        prev = None
        while prev != txt:
            prev = txt
            txt = re.sub(r"\(\*(?:(?!\(\*|\*\)).)*\*\)", " ", txt, flags=re.S)
        for m in HYGIENE_RE.finditer(txt):
            bad.append(f"{f}: {m.group(0)}")
        # Variable / Hypothesis outside a Section
        depth = 0
        for line in txt.split("\n"):
            if re.match(r"\s*Section\s+\w+", line):
                depth += 1
            elif re.match(r"\s*End\s+\w+", line) and depth > 0:
                depth -= 1
            elif depth == 0 and re.match(r"\s*(Variable|Variables|Hypothesis|Hypotheses|Context)\b", line):
                bad.append(f"{f}: {line.strip()} outside a Section")
    return bad


def count_statements(files):
    n = 0
    names = []
    for f in files:
        p = os.path.join(COQ, f)
        if os.path.exists(p):
            for m in STMT_RE.finditer(open(p).read()):
                n += 1
                names.append(f"{f}:{m.group(2)}")
    return n, names


class Prepared:
    pass


def prepare(prop, tier="quick", clean=False):
    """Regenerate, build the model + extractor + the property's proof cone.
    Nothing here decides the property; it reports what built and what did not."""
    t0 = time.time()
    r = Prepared()
    r.prop, r.tier = prop, tier
    r.notes = []
    propfile = f"Properties/{prop}.v"
    with Lock():
        r.gen_ok, r.gen_log = regen()
        ok, out = coq_makefile()
        if not ok:
            r.notes.append("coq_makefile failed: " + out[-500:])
        if clean:
            cone = cone_of(propfile)
            for f in cone:
                for ext in (".vo", ".vok", ".vos", ".glob"):
                    p = os.path.join(COQ, f[:-2] + ext)
                    if os.path.exists(p):
                        os.remove(p)
        # spec oracle driver (no dependency on Gen/Model)
        rc, out = make(["Extract/ExtractSpec.vo"])
        r.spec_ok = rc == 0
        r.spec_log = out
        if r.spec_ok:
            ok, out2 = build_driver("spec")
            r.spec_ok = ok
            r.spec_log += out2
        # model + extractor
        rc, out = make(["Extract/Extract.vo"]) if r.gen_ok else (1, "translation failed; model not built")
        r.model_ok = rc == 0
        r.model_log = out
        if r.model_ok:
            ok, out2 = build_driver("full")
            r.model_ok = ok
            r.model_log += out2
        # proof cone
        deps = [d[:-2] + ".vo" for d in requires_of(propfile)] if os.path.exists(os.path.join(COQ, propfile)) else []
        r.cone = cone_of(propfile)
        if r.gen_ok:
            rc, out = make(deps)
        else:
            rc, out = 1, "translation failed; proofs not attempted"
        r.proof_log = out
        r.proof_ok = rc == 0
        r.assumptions = []
        r.assumption_text = ""
        if r.proof_ok:
            rc, out = sh(["coqc", "-Q", ".", "WS", "-w", "-notation-overridden,-deprecated-hint-without-locality",
                          propfile], cwd=COQ, timeout=900)
            r.proof_log += out
            r.proof_ok = rc == 0
            r.assumption_text = out
            # every "Print Assumptions" must answer "Closed under the global context"
            n_print = len(re.findall(r"^\s*Print\s+Assumptions\b", open(os.path.join(COQ, propfile)).read(), re.M))
            n_closed = out.count("Closed under the global context")
            r.n_print, r.n_closed = n_print, n_closed
            if "Axioms:" in out:
                axioms = re.findall(r"^([A-Za-z0-9_.']+)\s*:", out.split("Axioms:", 1)[1], re.M)
                r.assumptions = axioms
        r.failed_files = re.findall(r"\*\*\* \[[^\]]*: ([A-Za-z0-9_/]+\.vo)\] Error", r.proof_log + r.model_log)
        r.hygiene = hygiene()
    r.obligations, r.statement_names = count_statements(r.cone)
    built = [f for f in r.cone if os.path.exists(os.path.join(COQ, f[:-2] + ".vo"))]
    r.discharged, _ = count_statements(built) if r.proof_ok else count_statements(
        [f for f in built if f != propfile and (f[:-2] + ".vo") not in r.failed_files])
    r.prep_s = time.time() - t0
    return r


def first_error(logtext):
    m = re.search(r'File "([^"]+)", line (\d+).*?\n(Error:.*?)(?:\n\n|\nmake|\Z)', logtext, re.S)
    if m:
        return f'{m.group(1)}:{m.group(2)}: ' + " ".join(m.group(3).split())[:600]
    return " ".join(logtext.strip().split())[-600:]


# ------------------------------------------------------------------ findings

def known_findings():
    p = os.path.join(VERIF, "known_findings.jsonl")
    out = []
    if os.path.exists(p):
        for line in open(p):
            line = line.strip()
            if line:
                out.append(json.loads(line))
    return out


def match_known(prop, signature):
    """A failing case matches a 'known' entry when its canonical signature equals the entry's."""
    for k in known_findings():
        if k.get("status") == "known" and k.get("property") == prop and k.get("signature") == signature:
            return k
    return None


def write_replay(prop, payload):
    d = os.path.join(BUILD, "replays")
    os.makedirs(d, exist_ok=True)
    blob = json.dumps(payload, sort_keys=True, indent=1, default=str)
    h = hashlib.sha256(blob.encode()).hexdigest()[:12]
    path = os.path.join(d, f"{prop}-{h}.json")
    with open(path, "w") as f:
        f.write(blob)
    # prune: keep the newest 200 replay files
    files = sorted(glob.glob(os.path.join(d, "*.json")), key=os.path.getmtime)
    for old in files[:-200]:
        try:
            os.remove(old)
        except OSError:
            pass
    return path


def write_evidence(prop, tier, seed, coverage, assumptions, wall_s, violations):
    os.makedirs(os.path.join(VERIF, "evidence"), exist_ok=True)
    ev = {"property_id": prop, "tier": tier, "seed": seed, "level": "proof", "coverage": coverage,
          "assumptions": assumptions, "wall_s": round(wall_s, 2), "violations": violations}
    tmp = os.path.join(VERIF, "evidence", f".{prop}.json.tmp")
    with open(tmp, "w") as f:
        json.dump(ev, f, indent=1, default=str)
    os.replace(tmp, os.path.join(VERIF, "evidence", f"{prop}.json"))


TRUSTED_BASE = [
    "Coq 8.16.1 kernel and vm_compute (no native_compute)",
    "axioms: none (Print Assumptions under every property theorem must print 'Closed under the global context')",
    "py2v translator (harness/py2v): maps the whitelisted mini-Python fragment to Gallina; fail-closed; validated per function against the real Python functions on every run",
    "extraction: ExtrOcamlBasic only (Extract Inductive bool, option, unit, list, prod, sumbool, sumor; no Extract Constant); Z/positive/nat extracted as inductives; OCaml 4.13.1; ocaml/common.ml glue",
    "correspondence harness (harness/): simulated transport, generators, canonicaliser",
    "CPython 3.12 built-ins and stdlib used by the code are modelled, not verified (struct, int.from_bytes/to_bytes, str.encode/decode, hashlib, base64, urllib.parse, http.cookies, socket, ssl, selectors, threading)",
    "coq/Spec/*.v transcriptions of RFC 6455 / Unicode Table 3-7 / documentation are trusted to say what the property text says",
]
