#!/usr/bin/env python3
"""Validates one seeded change and records it under /verif/seeded/<id>/.
usage: seed.py <property> <letter> [extra properties to check ...]
Takes /tmp/mut-<property>/out/<letter>.diff + demo_<letter>.py + notes.md."""
import json
import os
import shutil
import subprocess
import sys
import time

prop, letter = sys.argv[1], sys.argv[2]
also = sys.argv[3:]
newletter = letter
if "--as" in also:
    i = also.index("--as")
    newletter = also[i + 1]
    also = also[:i] + also[i + 2:]
src = f"/tmp/mut-{prop}/out"
sid = f"{prop}-{newletter}"
dst = f"/verif/seeded/{sid}"
os.makedirs(dst, exist_ok=True)
if os.path.exists(f"{src}/{letter}.diff"):
    shutil.copy(f"{src}/{letter}.diff", f"{dst}/patch.diff")
    shutil.copy(f"{src}/demo_{letter}.py", f"{dst}/demo.py")
    notes = open(f"{src}/notes.md").read() if os.path.exists(f"{src}/notes.md") else ""
    open(f"{dst}/notes.md", "w").write(notes)
# else: re-validate what is already recorded under seeded/


def sh(cmd, cwd=None, timeout=1800):
    p = subprocess.run(cmd, shell=True, cwd=cwd, capture_output=True, text=True, timeout=timeout)
    return p.returncode, (p.stdout + p.stderr)


val = f"/var/tmp/ws-val-{sid}"
sh(f"git -C /repo worktree remove --force {val}")
rc, out = sh(f"git -C /repo worktree add -q {val} HEAD")
meta = {"id": sid, "property": prop, "ran": []}
if os.path.exists(f"{dst}/meta.json"):
    try:
        _old = json.load(open(f"{dst}/meta.json"))
        for k in ("change", "needs_to_manifest", "what_was_run", "history"):
            if k in _old:
                meta[k] = _old[k]
        # keep a short history of earlier runs of the checks against this change
        meta.setdefault("history", []).append({"caught_by": _old.get("caught_by"), "replay_kinds": _old.get("replay_kinds")})
    except Exception:
        pass
try:
    rc, out = sh(f"PYTHONPATH={val} /venv/bin/python {dst}/demo.py", cwd=val, timeout=300)
    meta["demo_without_change"] = {"rc": rc, "tail": out[-300:]}
    rc, out = sh(f"git apply {dst}/patch.diff", cwd=val)
    meta["patch_applies"] = rc == 0
    rc, out = sh("/venv/bin/python -m pytest -q -p no:cacheprovider --timeout=900 websocket/tests 2>&1 | tail -1", cwd=val, timeout=900)
    meta["tests_with_change"] = out.strip()
    rc, out = sh(f"PYTHONPATH={val} /venv/bin/python {dst}/demo.py", cwd=val, timeout=300)
    meta["demo_with_change"] = {"rc": rc, "tail": out[-500:]}
finally:
    sh(f"git -C /repo worktree remove --force {val}")
meta["confirmed"] = (meta["demo_without_change"]["rc"] == 0 and meta["patch_applies"] and "38 passed" in meta["tests_with_change"]
                     and meta["demo_with_change"]["rc"] != 0)
# run our checks against it
if meta["confirmed"]:
    assert sh("git -C /repo status --short")[1].strip() == "", "/repo not clean"
    rc, out = sh(f"git -C /repo apply {dst}/patch.diff")
    try:
        for p in [prop] + also:
            t0 = time.time()
            rc, out = sh(f"./check {p} quick", cwd="/verif", timeout=3000)
            lines = [l for l in out.split("\n") if l.startswith(("VIOLATION", "KNOWN-FINDING")) or " quick:" in l]
            meta["ran"].append({"cmd": f"./check {p} quick", "rc": rc, "output": [l[:300] for l in lines], "wall_s": round(time.time() - t0, 1)})
    finally:
        sh("git -C /repo checkout -- .")
        sh("git -C /verif checkout -- evidence")     # evidence written while a seeded change was applied is not evidence
    meta["caught_by"] = [r["cmd"].split()[1] for r in meta["ran"] if r["rc"] == 1]
    meta["replay_kinds"] = ["no-failing-input-found" if any("no-failing-input-found" in l for l in r["output"]) and
                            not any(l.startswith("VIOLATION") and "no-failing-input-found" not in l for l in r["output"]) else "replay"
                            for r in meta["ran"] if r["rc"] == 1]
json.dump(meta, open(f"{dst}/meta.json", "w"), indent=1)
print(json.dumps({k: meta[k] for k in ("id", "confirmed", "tests_with_change") if k in meta}), "caught_by=", meta.get("caught_by"), meta.get("replay_kinds"))
print("  demo with change:", meta.get("demo_with_change", {}).get("tail", "")[-200:].replace("\n", " | "))
