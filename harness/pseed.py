#!/usr/bin/env python3
"""Validates and checks many seeded changes in parallel, each worker with its own copy of /verif and its own worktree of /repo
(so that /repo itself and /verif's build directory are not touched).
usage: pseed.py [-j N] "C01 a --as e [extra props]" "C02 b" ...     (same item syntax as seed.py)"""
import concurrent.futures
import json
import os
import queue
import shutil
import subprocess
import sys
import time

N = 5
items = sys.argv[1:]
if items and items[0] == "-j":
    N = int(items[1])
    items = items[2:]


def sh(cmd, cwd=None, timeout=3000, env=None):
    p = subprocess.run(cmd, shell=True, cwd=cwd, capture_output=True, text=True, timeout=timeout, env=env)
    return p.returncode, (p.stdout + p.stderr)


workers = queue.Queue()
for k in range(N):
    vw, rw = f"/var/tmp/vw-{k}", f"/var/tmp/rw-{k}"
    sh(f"git -C /repo worktree remove --force {rw}")
    sh(f"rsync -a --delete --exclude .git /verif/ {vw}/")
    rc, out = sh(f"git -C /repo worktree add -q --detach {rw} HEAD")
    assert rc == 0, out
    workers.put((vw, rw))


def one(item):
    parts = item.split()
    prop, letter, also = parts[0], parts[1], parts[2:]
    newletter = letter
    if "--as" in also:
        i = also.index("--as")
        newletter = also[i + 1]
        also = also[:i] + also[i + 2:]
    src, sid = f"/tmp/mut-{prop}/out", f"{prop}-{newletter}"
    dst = f"/verif/seeded/{sid}"
    os.makedirs(dst, exist_ok=True)
    if os.path.exists(f"{src}/{letter}.diff") and not os.path.exists(f"{dst}/patch.diff"):
        shutil.copy(f"{src}/{letter}.diff", f"{dst}/patch.diff")
        shutil.copy(f"{src}/demo_{letter}.py", f"{dst}/demo.py")
        open(f"{dst}/notes.md", "w").write(open(f"{src}/notes.md").read() if os.path.exists(f"{src}/notes.md") else "")
    meta = {"id": sid, "property": prop, "ran": []}
    if os.path.exists(f"{dst}/meta.json"):
        try:
            old = json.load(open(f"{dst}/meta.json"))
            for k in ("change", "needs_to_manifest", "history", "outside_property_quantifier"):
                if k in old:
                    meta[k] = old[k]
            meta.setdefault("history", []).append({"caught_by": old.get("caught_by"), "replay_kinds": old.get("replay_kinds")})
        except Exception:
            pass
    vw, rw = workers.get()
    try:
        sh("git checkout -q -- . && git clean -fdq", cwd=rw)
        rc, out = sh(f"PYTHONPATH={rw} /venv/bin/python {dst}/demo.py", cwd=rw, timeout=600)
        meta["demo_without_change"] = {"rc": rc, "tail": out[-300:]}
        rc, out = sh(f"git apply {dst}/patch.diff", cwd=rw)
        meta["patch_applies"] = rc == 0
        rc, out = sh("/venv/bin/python -m pytest -q -p no:cacheprovider --timeout=900 websocket/tests 2>&1 | tail -1", cwd=rw, timeout=900)
        meta["tests_with_change"] = out.strip()
        rc, out = sh(f"PYTHONPATH={rw} /venv/bin/python {dst}/demo.py", cwd=rw, timeout=600)
        meta["demo_with_change"] = {"rc": rc, "tail": out[-500:]}
        meta["confirmed"] = (meta["demo_without_change"]["rc"] == 0 and meta["patch_applies"] and "38 passed" in meta["tests_with_change"]
                             and meta["demo_with_change"]["rc"] != 0)
        if meta["confirmed"]:
            sh("find . -name __pycache__ -prune -exec rm -rf {} +", cwd=rw)
            env = dict(os.environ, VERIF_REPO=rw, VERIF_NPROC="6")
            for p in [prop] + also:
                t0 = time.time()
                rc, out = sh(f"./check {p} quick", cwd=vw, timeout=3000, env=env)
                lines = [l for l in out.split("\n") if l.startswith(("VIOLATION", "KNOWN-FINDING")) or " quick:" in l]
                meta["ran"].append({"cmd": f"./check {p} quick", "rc": rc, "output": [l[:300] for l in lines], "wall_s": round(time.time() - t0, 1)})
            meta["caught_by"] = [r["cmd"].split()[1] for r in meta["ran"] if r["rc"] == 1]
            meta["replay_kinds"] = ["no-failing-input-found" if any("no-failing-input-found" in l for l in r["output"]) and
                                    not any(l.startswith("VIOLATION") and "no-failing-input-found" not in l for l in r["output"]) else "replay"
                                    for r in meta["ran"] if r["rc"] == 1]
    finally:
        sh("git checkout -q -- . && git clean -fdq", cwd=rw)
        workers.put((vw, rw))
    json.dump(meta, open(f"{dst}/meta.json", "w"), indent=1)
    return f'{sid} confirmed={meta.get("confirmed")} tests="{meta.get("tests_with_change")}" caught_by={meta.get("caught_by")} {meta.get("replay_kinds")}'


with concurrent.futures.ThreadPoolExecutor(N) as ex:
    for line in ex.map(one, items):
        print(line, flush=True)
while not workers.empty():
    vw, rw = workers.get()
    sh(f"git -C /repo worktree remove --force {rw}")
    shutil.rmtree(vw, ignore_errors=True)
sh("git -C /repo worktree prune")
