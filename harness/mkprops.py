#!/usr/bin/env python3
"""Writes coq/Properties/Cxx.v for the properties whose theorems are proved in Proofs/*.v by restating each
statement verbatim (taken from the proof file) and closing it with `exact`."""
import re
import sys

COQ = "/verif/coq"

SPEC = {
 "C09": dict(title="C09 — a connection is reported established only after a valid upgrade response.",
   imports="Base.Res Base.Bytes Base.Str Base.B64 Gen.GenHandshake Spec.HttpReq Model.Xport Model.Http Model.Handshake Model.Url Model.Open Model.Connect Proofs.HandshakeProof Proofs.ConnectProof",
   items=[("HandshakeProof", "validate_sound", "C09_validate_sound", "the regenerated-constant validator accepts only what RFC 6455 4.2.2 accepts"),
          ("HandshakeProof", "validate_complete_partial", "C09_validate_complete", "... and accepts every valid response (corner: an empty offered subprotocol echoed as an empty value)"),
          ("HandshakeProof", "handshake_ok_only_if", "C09_exchange_only_if", "one request/response exchange succeeds only with status 101 and a valid upgrade for the key sent"),
          ("HandshakeProof", "handshake_redirect_is_not_ok", "C09_redirect_is_not_success", None),
          ("ConnectProof", "connect_ok_only_if", "C09_connected_only_if", "connect() returns connected only if the FINAL response is a valid upgrade for the key sent in that very request"),
          ("ConnectProof", "connect_redirect_bound", "C09_redirect_bound", "at most redirect_limit redirects are followed"),
          ("ConnectProof", "connect_redirect_never_success", "C09_redirect_never_success", None),
          ("ConnectProof", "connect_failure_clean", "C09_failure_clean", "in every other case the call raises and the object stays unconnected"),
          ("ConnectProof", "connect_failure_closes", "C09_failure_closes", "... and every transport that was opened has been closed"),
          ("ConnectProof", "connect_success_closes", "C09_success_closes", None),
          ("ConnectProof", "connect_fresh_keys", "C09_fresh_keys", "every request carries the base64 of its own fresh 16-byte draw")]),
 "C10": dict(title="C10 — the opening handshake request is well-formed and reflects URL and options.",
   imports="Base.Res Base.Bytes Base.Str Base.B64 Gen.GenHandshake Spec.HttpReq Model.Xport Model.Http Model.Handshake Proofs.HandshakeProof Model.Url Model.Open Model.Connect Proofs.RedirectHops",
   items=[("HandshakeProof", "request_wellformed", "C10_request_wellformed", "one syntactically valid GET request ended by an empty line, target = resource"),
          ("HandshakeProof", "request_parse", "C10_request_parse", "the parsed header list, in order"),
          ("HandshakeProof", "request_headers_explicit", "C10_headers_explicit", None),
          ("HandshakeProof", "handshake_writes_once", "C10_exactly_one_write", "exactly one write (the request), then only reads"),
          ("HandshakeProof", "host_header_default", "C10_host_default", "Host = URL host (bracketed if IPv6) with the port unless 80/443"),
          ("HandshakeProof", "host_header_override", "C10_host_override", None),
          ("HandshakeProof", "upgrade_header", "C10_upgrade", None),
          ("HandshakeProof", "version_header", "C10_version", None),
          ("HandshakeProof", "key_header_b64", "C10_key", "the key header is the base64 of the 16 random bytes drawn"),
          ("HandshakeProof", "key_is_fresh_b64", "C10_key_b64", None),
          ("HandshakeProof", "connection_header_default", "C10_connection_default", None),
          ("HandshakeProof", "connection_header_override", "C10_connection_override", None),
          ("HandshakeProof", "origin_header_suppressed", "C10_origin_suppressed", None),
          ("HandshakeProof", "origin_header_given", "C10_origin_given", None),
          ("HandshakeProof", "origin_header_default", "C10_origin_default", None),
          ("HandshakeProof", "protocol_header_some", "C10_protocol", None),
          ("HandshakeProof", "protocol_header_none", "C10_protocol_none", None),
          ("HandshakeProof", "cookie_header_present", "C10_cookie", None),
          ("HandshakeProof", "cookie_header_absent", "C10_cookie_absent", None),
          ("HandshakeProof", "cookie_header_last", "C10_cookie_last", None),
          ("HandshakeProof", "custom_headers_position", "C10_custom_headers", None),
          ("HandshakeProof", "custom_dict_headers", "C10_custom_dict_none_skipped", None),
          ("RedirectHops", "do_handshake_records", "C10_request_recorded", "every opening handshake records exactly the request built from its own URL, target, options and the next random draw"),
          ("RedirectHops", "redirect_hops_are_direct", "C10_redirect_hops_are_direct", "REDIRECTS: the requests of one connect() are the requests of its hops, each built from the hop's own URL (the initial URL, then the Location of each redirect response), one draw per hop"),
          ("RedirectHops", "single_hop_is_direct", "C10_redirect_target_request_is_direct", "the request sent to a redirect target equals the request of a direct connection to that target with the same options and key draw")]),
 "C16": dict(title="C16 — keepalive pings detect a silent peer in bounded time and never a responsive one.",
   imports="Base.Res Base.Bytes Gen.GenApp Model.PingTimer Proofs.PingProof",
   items=[("PingProof", "C16_args", "C16_args", "exactly the inconsistent interval/timeout pairs are refused"),
          ("PingProof", "C16_periodic", "C16_periodic", "pings at t0+2I, t0+3I, ... until the run stops, none skipped, none after"),
          ("PingProof", "C16_no_false_alarm_partial", "C16_no_false_alarm", "a peer answering every ping within the timeout is never reported, whatever other traffic (pong window closed on the side of the tie order)"),
          ("PingProof", "C16_no_false_alarm_strict", "C16_no_false_alarm_strict", None),
          ("PingProof", "C16_detect_2T", "C16_detect_2T_when_interval_exceeds_twice_timeout", "the property's bound holds when ping_interval > 2 * ping_timeout"),
          ("PingProof", "C16_detect_2T_window", "C16_detect_window", None),
          ("PingProof", "C16_2T_refuted", "C16_2T_refuted", "KNOWN FINDING: for accepted pairs with T < I <= 2T the bound of two timeouts is false"),
          ("PingProof", "C16_2T_refuted_never", "C16_2T_refuted_never", "... and with the other tie order the silent peer is never reported")]),
 "C18": dict(title="C18 — the URL alone determines target, port, resource and TLS; all addresses are tried.",
   imports="Base.Res Base.Bytes Base.Str Base.StrMore Gen.GenHandshake Model.Url Model.Open Spec.Url Proofs.UrlProof Proofs.ConnectProof",
   items=[("UrlProof", "C18_parse", "C18_parse", "every URL of the grammar parses to (host without brackets, port or default, path-or-/ ++ ?query, wss flag)"),
          ("UrlProof", "C18_default_ports", "C18_default_ports", None),
          ("UrlProof", "C18_code_constants", "C18_code_constants", "the defaults are the constants regenerated from the source"),
          ("UrlProof", "C18_reject_no_colon", "C18_reject_no_colon", None),
          ("UrlProof", "C18_reject_scheme_general", "C18_reject_scheme", None),
          ("UrlProof", "C18_reject_no_host", "C18_reject_no_host", None),
          ("UrlProof", "C18_trailing_semicolon_refuted", "C18_trailing_semicolon_refuted", "KNOWN FINDING: a path ending in ';' loses that character"),
          ("ConnectProof", "open_socket_accept", "C18_addresses_accept", "addresses are tried in order until one accepts; refused/unreachable never abort"),
          ("ConnectProof", "open_socket_other", "C18_addresses_other_error", None),
          ("ConnectProof", "open_socket_all_soft", "C18_addresses_all_fail", "all fail: the last refusal is raised, every socket was prepared and closed"),
          ("ConnectProof", "open_socket_prepared", "C18_every_socket_prepared", "timeout, default and user options are applied to every socket before connect")]),
 "C19": dict(title="C19 — proxying is decided by options, environment and no_proxy exactly as documented.",
   imports="Base.Res Base.Bytes Base.Str Base.StrMore Base.B64 Gen.GenHandshake Model.Xport Model.Http Model.Url Model.Proxy Model.Tunnel Spec.Url Spec.Proxy Proofs.UrlProof Proofs.TunnelProof",
   items=[("UrlProof", "C19_exempt", "C19_exempt", "is_no_proxy_host = the documented exemption rule, general strings, every prefix length"),
          ("UrlProof", "C19_exempt_any_source", "C19_exempt_any_source", None),
          ("UrlProof", "C19_exempt_env", "C19_exempt_env", None),
          ("UrlProof", "C19_decision", "C19_decision", "the full decision table of get_proxy_info"),
          ("UrlProof", "C19_direct", "C19_direct", None),
          ("UrlProof", "C19_proxied", "C19_proxied", None),
          ("UrlProof", "C19_scheme_variable", "C19_scheme_variable", "https_proxy is never used for ws"),
          ("UrlProof", "C19_scheme_variable_secure", "C19_scheme_variable_secure", "http_proxy is never used for wss"),
          ("UrlProof", "C19_env_value_form", "C19_env_value_form", None),
          ("TunnelProof", "tunnel_only_on_200", "C19_tunnel_only_on_200", "through an HTTP proxy the client proceeds only on a 200 reply"),
          ("TunnelProof", "tunnel_failure_is_proxy_error", "C19_tunnel_failure_is_proxy_error", None),
          ("TunnelProof", "tunnel_first_bytes", "C19_tunnel_first_bytes", "the first transport event is the write of CONNECT host:port with Host and, when configured, Basic credentials"),
          ("TunnelProof", "credentials_roundtrip", "C19_credentials_roundtrip", None)]),
 "C20": dict(title="C20 — cookies are replayed only to hosts inside the domain that set them.",
   imports="Base.Res Base.Bytes Base.Str Model.Cookie Spec.Cookie Proofs.CookieProof",
   items=[("CookieProof", "C20_scope", "C20_scope", "a cookie is only ever sent to a host covered by a Domain named in the response that stored it"),
          ("CookieProof", "C20_never_outside", "C20_never_outside", None),
          ("CookieProof", "C20_no_domain_stores_nothing", "C20_no_domain_stores_nothing", None),
          ("CookieProof", "C20_exact", "C20_exact", "for ALL histories the Cookie header equals the spec's"),
          ("CookieProof", "C20_exact_empty_host_refuted", "C20_exact_empty_host_refuted", "degenerate corner (empty host), unreachable through connect()"),
          ("CookieProof", "C20_latest_wins_is_per_domain", "C20_latest_wins_is_per_domain", None)]),
 "C11": dict(title="C11 — TLS peers are authenticated by default; only explicit options relax it.",
   imports="Base.Res Base.Bytes Base.Str Model.Tls Proofs.TlsProof",
   items=[("TlsProof", "C11_default", "C11_default", "wss with no options: CERT_REQUIRED, hostname check, SNI = URL host, default CAs"),
          ("TlsProof", "C11_ws_never", "C11_ws_never", None),
          ("TlsProof", "C11_wss_never_plain", "C11_wss_never_plain", None),
          ("TlsProof", "C11_only_documented", "C11_only_documented", "verification is weakened only through the documented options"),
          ("TlsProof", "C11_other_keys_do_not_interfere", "C11_other_keys_do_not_interfere", None),
          ("TlsProof", "C11_check_hostname_own_check", "C11_check_hostname_own_check", None),
          ("TlsProof", "C11_ca_options_own_check", "C11_ca_options_own_check", None),
          ("TlsProof", "C11_server_hostname_own_check", "C11_server_hostname_own_check", None),
          ("TlsProof", "C11_cert_reqs_own_check_partial", "C11_cert_reqs_own_check_partial", None),
          ("TlsProof", "C11_cert_reqs_own_check_refuted", "C11_cert_reqs_own_check_refuted", "KNOWN FINDING: CERT_NONE also switches the host-name check off (CPython couples the two)"),
          ("TlsProof", "C11_errors", "C11_errors", None),
          ("TlsProof", "C11_wss_first", "C11_wss_first", "TLS wrap precedes the handshake write, directly and after a tunnel"),
          ("TlsProof", "C11_sweep", "C11_sweep", None)]),
 "C13": dict(title="C13 — WebSocketApp delivers every event to its callback exactly once, in order.",
   imports="Base.Res Base.Bytes Spec.Frame Spec.Legal Spec.AppTrace Gen.GenAbnf Model.Recv Model.Conn Model.App Proofs.RecvSpec Proofs.ConnSpec Proofs.ConnProof Proofs.RecvProof Proofs.AppProof Gen.GenApp Proofs.AppGen",
   items=[("AppProof", "C13_trace", "C13_trace", "on one connection the callbacks are: on_open, then for every item of the RFC-level reading of the frames (whole messages, pings, pongs) its callbacks once each, in arrival order; a raising callback is reported to on_error and delivery continues"),
          ("AppProof", "C13_trace_all", "C13_trace_all", None),
          ("AppProof", "C13_open_first", "C13_open_first", "on_open / on_reconnect is the first callback of every established connection"),
          ("AppProof", "C13_open_first_run", "C13_open_first_run", None),
          ("AppGen", "deliver_gen", "C13_routing_is_the_code", "CODE TIE: the routing of a received frame to on_ping / on_pong / on_data+on_message / teardown is the opcode chain regenerated from read() in run_forever (Gen/GenApp.v); text is decoded exactly when the regenerated test says so"),
          ("RecvProof", "recv_frame_call", "C13_no_hidden_bytes", "promptness, structural part: after every frame returned the parser holds no bytes (fb' = fb_init in call_post), so a complete frame is never left undelivered inside the library while the loop blocks in select")]),
 "C14": dict(title="C14 — run_forever always terminates; on_close fires once, last, with the close reason.",
   imports="Base.Res Base.Bytes Spec.Frame Spec.Legal Spec.AppTrace Gen.GenAbnf Gen.GenApp Model.Recv Model.Conn Model.App Proofs.RecvSpec Proofs.ConnSpec Proofs.ConnProof Proofs.AppProof Proofs.AppGen",
   items=[("AppProof", "C14_close_once", "C14_close_once", "for EVERY configuration (raising, closing, interrupting callbacks) and EVERY environment: exactly one on_close"),
          ("AppProof", "C14_close_absent", "C14_close_absent", None),
          ("AppProof", "C14_close_last", "C14_close_last", "... and it is the last callback"),
          ("AppProof", "C14_close_last_gen", "C14_close_last_gen", None),
          ("AppProof", "C14_close_last_any", "C14_close_last_any", "in general only error reports can follow on_close (when on_close itself raises)"),
          ("AppProof", "C14_close_last_interrupt_example", "C14_close_last_interrupt_example", "KNOWN FINDING: KeyboardInterrupt raised inside on_close is reported to on_error after on_close"),
          ("AppProof", "C14_args", "C14_args", "on_close gets (None, None) or the code and reason of a close frame the server sent"),
          ("AppProof", "C14_args_server_close_code", "C14_args_server_close_code", None),
          ("AppProof", "C14_args_server_close_empty", "C14_args_server_close_empty", None),
          ("AppProof", "C14_ret_false_server_close", "C14_ret_false_server_close", "return value False for a run ended by a close frame"),
          ("AppProof", "C14_ret_false_own_close", "C14_ret_false_own_close", "... or by the application's own close()"),
          ("AppProof", "C14_ret_false_clean", "C14_ret_false_clean", None),
          ("AppProof", "C14_ret_true_on_loss", "C14_ret_true_on_loss", "True (and an error report) for a lost connection / protocol error"),
          ("AppProof", "C14_ret_true_ping_timeout", "C14_ret_true_ping_timeout", None),
          ("AppProof", "C14_ret_true_refused", "C14_ret_true_refused", None),
          ("AppProof", "C14_ret_true_rejected", "C14_ret_true_rejected", None),
          ("AppProof", "C14_ret_true_reported_partial", "C14_ret_true_reported", "a True return value always comes with an error report"),
          ("AppProof", "C14_ret_false_unreported", "C14_ret_false_unreported", None),
          ("AppProof", "C14_clean", "C14_clean", "whatever happened: no socket, transport released, loop stopped, torn down"),
          ("AppGen", "close_args_gen", "C14_close_args_are_the_code", "CODE TIE: the arguments of on_close are the decisions and values regenerated from WebSocketApp._get_close_args (the reason as raw bytes; CPython's decode(errors='replace') of them is outside the model)")]),
 "C15": dict(title="C15 — automatic reconnection restores service after loss and stops on request.",
   imports="Base.Res Base.Bytes Spec.Frame Spec.Legal Spec.AppTrace Gen.GenAbnf Model.Recv Model.Conn Model.App Proofs.RecvSpec Proofs.ConnSpec Proofs.ConnProof Proofs.AppProof Gen.GenApp Proofs.AppGen Proofs.AppGuard",
   items=[("AppProof", "C15_retry", "C15_retry", "every abnormal loss is followed by a new attempt until one succeeds; no on_close in between"),
          ("AppProof", "C15_resume", "C15_resume", "success fires on_reconnect (on_open if none was given)"),
          ("AppProof", "C15_stop", "C15_stop", "once the run has ended no further attempt is made"),
          ("AppGuard", "run_forever_g_eq", "C15_guarded_run_is_the_run", "the run with setSock's regenerated refusal (reconnecting after close()) in front of every attempt is the run the other theorems are about: in sequential histories the refusal is never reached"),
          ("AppGuard", "set_sock_g_refuses", "C15_no_attempt_after_close", "asked to reconnect once keep_running is cleared, setSock does nothing: no connection attempt, no callback"),
          ("AppGen", "reconnect_guard_gen", "C15_reconnect_guard_is_the_code", "CODE TIE: the outer loop asks for a reconnection exactly when setSock's regenerated first test (reconnecting and not keep_running: return) would not refuse it"),
          ("AppProof", "C15_stop_server_close", "C15_stop_server_close", None),
          ("AppProof", "C15_stop_own_close", "C15_stop_own_close", None),
          ("AppProof", "C15_stop_callback_close", "C15_stop_callback_close", None),
          ("AppProof", "C15_single", "C15_single", "never more than one live transport: at each connection attempt all earlier transports are released"),
          ("AppProof", "C15_single_step", "C15_single_step", None)]),
}


def statement(mod, name):
    txt = open(f"{COQ}/Proofs/{mod}.v").read()
    m = re.search(r"^(Theorem|Corollary|Lemma|Example)\s+" + re.escape(name) + r"\b(.*?)^Proof\.", txt, re.S | re.M)
    if not m:
        if re.search(r"^\s+(Theorem|Corollary|Lemma)\s+" + re.escape(name) + r"\b", txt, re.M):
            return None       # proved inside a Section: its closed statement is shown with Check
        raise SystemExit(f"statement of {mod}.{name} not found")
    body = m.group(2).rstrip()
    body = re.sub(r"\s*\(\*[^*]*\*\)\s*$", "", body).rstrip()      # a trailing comment after the final period
    if not body.endswith("."):
        raise SystemExit(f"{mod}.{name}: statement does not end with a period")
    return body


for prop, spec in SPEC.items():
    if len(sys.argv) > 1 and prop not in sys.argv[1:]:
        continue
    out = [f"(* {spec['title']}\n   Statements only (restated verbatim from Proofs/*.v), each closed by [exact]. *)",
           "From Coq Require Import ZArith List Bool Permutation.",
           f"From WS Require Import {spec['imports']}.",
           "Import ListNotations.", "Open Scope Z_scope.", ""]
    for mod, src, new, comment in spec["items"]:
        st = statement(mod, src)
        if comment:
            out.append(f"(* {comment} *)")
        if st is not None and st.split(":", 1)[0].strip():
            st = None         # binders before the colon: use the alias form
        if st is None:
            out.append(f"(* alias of Proofs/{mod}.v:{src} (proved inside a Section or with binders): the closed statement is printed by Check *)")
            out.append(f"Definition {new} := @{mod}.{src}.")
            out.append(f"Check {new}.")
            out.append(f"Print Assumptions {new}.")
            out.append("")
            continue
        out.append(f"Theorem {new}{st}")
        out.append(f"Proof. exact {mod}.{src}. Qed.")
        out.append(f"Print Assumptions {new}.")
        out.append("")
    open(f"{COQ}/Properties/{prop}.v", "w").write("\n".join(out))
    print("wrote", prop)
