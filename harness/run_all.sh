#!/bin/bash
# runs the quick (or $1) check of every claimed property on the current tree; prints a summary
tier=${1:-quick}
cd "$(dirname "$0")/.."
props=$(python3 -c "import json; print(' '.join(c['property_id'] for c in json.load(open('MANIFEST.json'))['checks']))")
fail=0
for p in $props; do
  out=$(timeout 3000 ./check $p $tier 2>&1 | grep -v "^$" | tail -3)
  rc=$?
  echo "$out" | tail -2
  echo "$out" | grep -q "VIOLATION" && fail=1
done
git -C "${VERIF_REPO:-/repo}" status --short | head -3
exit $fail
