#!/usr/bin/env python3
"""Prints the markdown table of seeded changes from seeded/*/meta.json (ids given as arguments or all)."""
import glob
import json
import os
import sys

VERIF = os.path.dirname(os.path.dirname(os.path.abspath(__file__)))
ids = sys.argv[1:] or sorted(os.path.basename(d) for d in glob.glob(f"{VERIF}/seeded/C*"))
print("| id | change | needs | caught by (quick) | kind |")
print("|---|---|---|---|---|")
for sid in ids:
    m = json.load(open(f"{VERIF}/seeded/{sid}/meta.json"))
    first = (m.get("history") or [{}])[0]
    note = ""
    if first.get("caught_by") is not None and first.get("caught_by") != m.get("caught_by") or \
            (first.get("replay_kinds") and first.get("replay_kinds") != m.get("replay_kinds")):
        fk = ", ".join(f"{a}: {b}" for a, b in zip(first.get("caught_by") or [], first.get("replay_kinds") or [])) or "missed"
        note = f" (before strengthening: {fk})"
    print(f"| {sid} | {m.get('change', '?')} | {m.get('needs_to_manifest', '?')} | {', '.join(m.get('caught_by', [])) or 'MISSED'} | "
          f"{', '.join(m.get('replay_kinds', []))}{note} |")
