"""Scenario <-> model line <-> simulation scenario for WebSocketApp (C13-C15)."""
from corr.common import digest
from sim.sock import server_frame

CBS = ["on_open", "on_reconnect", "on_message", "on_data", "on_error", "on_close", "on_ping", "on_pong"]
MODE_LETTER = {None: "A", "ret": "R", "raise": "X", "raise-closed": "X", "close": "C", "kbd": "K"}   # the model has one "raises an Exception" mode


def close_body_legal(body, skip):
    """RFC 6455 7.4 / 5.5.1 as the frame layer enforces it (Spec/Legal.v): empty, or a valid code followed by well-formed UTF-8
    (the reason is only checked while validation is on)."""
    if len(body) == 0:
        return True
    if len(body) == 1:
        return False
    code = int.from_bytes(body[:2], "big")
    if not (code in (1000, 1001, 1002, 1003, 1007, 1008, 1009, 1010, 1011, 1012, 1013, 1014) or 3000 <= code < 5000):
        return False
    if skip:
        return True
    try:
        body[2:].decode("utf-8")
        return True
    except UnicodeDecodeError:
        return False


def model_line(sc):
    modes = "".join(MODE_LETTER[sc["callbacks"].get(c)] for c in CBS)
    atts = []
    for a in sc["attempts"]:
        if a.get("refuse") or a.get("unreachable"):
            atts.append("R")              # for the model every failed TCP connect is the same event
        elif "status" in a:
            atts.append(f"J{a['status']}")
        else:
            evs = []
            for e in a["evs"]:
                if e[0] == "F" and e[1] == 8 and not close_body_legal(bytes.fromhex(e[3]), bool(sc.get("skip"))):
                    evs.append("BP")      # the app model takes validated frames; an illegal close frame is its protocol-error event
                elif e[0] == "F":
                    evs.append(f"F{e[2]}.{e[1]}:{e[3] or '-'}")
                elif e[0] == "P":
                    pass                  # the beginning of a frame that never completes: nothing for the (frame-level) app model
                else:
                    evs.append(e[0])
            atts.append("E" + ",".join(evs))
    return f"apprun {modes}:{sc.get('reconnect', 0)}:{int(bool(sc.get('skip')))} " + "|".join(atts)


def sim_scenario(sc):
    """Events one second apart; T = silence until the ping timeout strikes; O = a second thread closing."""
    attempts = []
    closer = []
    base = 0.0
    args = {"skip_utf8_validation": bool(sc.get("skip"))}
    if sc.get("reconnect"):
        args["reconnect"] = sc["reconnect"]
    uses_ping = any(e[0] == "T" for a in sc["attempts"] for e in a.get("evs", []))
    if uses_ping:
        args.update(ping_interval=500, ping_timeout=400)
    for a in sc["attempts"]:
        if a.get("refuse"):
            attempts.append({"refuse": True})
            continue
        if a.get("unreachable"):
            attempts.append({"unreachable": a["unreachable"]})
            continue
        if "status" in a:
            attempts.append({"status": a["status"], "short_body": bool(a.get("short_body")), "events": [[0.0, "EOF"]] if a.get("short_body") else []})
            continue
        evs = []
        t = 0.0
        for e in a["evs"]:
            t += 1.0
            if e[0] == "F":
                evs.append([t, "D", server_frame(e[1], bytes.fromhex(e[3]), fin=e[2]).hex()])
            elif e[0] == "P":
                evs.append([t, "D", e[1]])          # raw bytes: an incomplete frame
            elif e[0] == "BP":
                evs.append([t, "D", server_frame(3, b"bad").hex()])
            elif e[0] == "BY":
                evs.append([t, "D", server_frame(1, b"\xff\xfe").hex()])
            elif e[0] == "BC":
                evs.append([t, "EOF"])
            elif e[0] == "BR":
                evs.append([t, "R"])
            elif e[0] == "T":
                pass                      # nothing arrives: the ping/pong timeout ends the connection
            elif e[0] == "O":
                closer.append(("attempt", len(attempts), t - 0.5))
        attempts.append({"events": evs, "tls": bool(a.get("tls"))})
    return {"scheme": sc.get("scheme", "ws"), "callbacks": dict(sc["callbacks"]), "attempts": attempts, "args": args,
            "closer_rel": closer, "runs": 1, "custom_dispatcher": bool(sc.get("custom_dispatcher")), "reconnect_via_setter": bool(sc.get("reconnect_via_setter")), "header_callable": bool(sc.get("header_callable")),
            "callback_form": sc.get("callback_form", "function"), "tie": sc.get("tie", [])}


def impl_line(res):
    """Callback trace of a simulation run in the model's alphabet."""
    out = []
    for ev in res["trace"]:
        name = ev[1]
        a = ev[2:]
        def dg(x):
            kind, _, h = x.partition(":")
            return digest(bytes.fromhex(h)), ("t" if kind == "s" else "b")
        if name == "open":
            out.append("open")
        elif name == "reconnect":
            out.append("reconnect")
        elif name == "data":
            d, k = dg(a[0])
            out.append(f"data:{d}:{a[1]}:{1 if a[2] in ('True', '1') else 0}:{k}")
        elif name == "message":
            d, k = dg(a[0])
            out.append(f"msg:{d}:{k}")
        elif name in ("ping", "pong"):
            out.append(f"{name}:{dg(a[0])[0]}")
        elif name == "error":
            cls = a[0].split(":", 1)[1] if a[0].startswith("exc:") else a[0]
            cls = {"Other:RuntimeError": "Callback", "Other:KeyboardInterrupt": "Kbd", "Transport:111": "Refused", "Transport:113": "Refused", "Transport:101": "Refused"}.get(cls, cls)
            out.append("err:" + cls)
        elif name == "close":
            code = a[0]
            reason = "None" if a[1] == "None" else dg(a[1])[0]
            out.append(f"close:{code}:{reason}")
    ret = res["returns"][0] if res["returns"] else "none"
    ret = {True: "1", False: "0"}.get(ret, str(ret))
    return ",".join(out) + f";ret={ret};sock={0 if res['app_sock_none'] else 1}"


def reason_digest(raw):
    """What on_close is told for the reason bytes `raw`: CPython's bytes.decode("utf-8", errors="replace") (glue outside the model:
    the model carries the raw bytes; for well-formed UTF-8 this is the exact decoding)."""
    return digest(raw.decode("utf-8", errors="replace").encode("utf-8"))


def model_callbacks(line, sc=None):
    """Drop the resource markers (#connect ...) from the model's trace; with a scenario, spell the close reason the way the
    implementation reports it (decoded str) instead of the model's raw bytes."""
    tr, _, rest = line.partition(";")
    items = [t for t in tr.split(",") if t and not t.startswith("#")]
    if sc is not None:
        remap = {}
        for a in sc.get("attempts", []):
            for e in a.get("evs", []):
                if e[0] == "F" and e[1] == 8 and len(bytes.fromhex(e[3])) >= 2:
                    raw = bytes.fromhex(e[3])[2:]
                    remap[digest(raw)] = reason_digest(raw)
        out = []
        for t in items:
            p = t.split(":")
            if p[0] == "close" and len(p) == 3 and p[2] in remap:
                t = f"close:{p[1]}:{remap[p[2]]}"
            out.append(t)
        items = out
    return ",".join(items) + ";" + rest
