"""C17 — arbitrary server bytes produce only documented exceptions, never hangs, never unbounded read requests."""
import base64
import itertools
import random

from corr.common import Tally, hx, exn_class
from corr import connrun, wsrun
from corr.recvprops import KEYS, legal_stream, encode_frames
from sim.sock import accept_for, server_frame

DRAW = bytes(range(40, 56)).hex()
KEY = base64.b64encode(bytes.fromhex(DRAW))
GOOD = (b"HTTP/1.1 101 Switching Protocols\r\nUpgrade: websocket\r\nConnection: Upgrade\r\nSec-WebSocket-Accept: "
        + accept_for(KEY) + b"\r\n\r\n")


def documented(cls):
    # every scenario of this check starts from a valid URL, so a ValueError can only be the server's doing: not documented
    return not (cls.startswith("Internal") or cls.startswith("Other") or cls == "ValueErr")


def hs_inputs(tier, rng):
    yield b""
    for n in (1, 2):
        for t in itertools.product([0x00, 0x0A, 0x0D, 0x20, 0x3A, 0x41, 0x31, 0x80, 0xC3, 0xFF], repeat=n):
            yield bytes(t)
    lines = [b"HTTP/1.1\r\n\r\n", b"HTTP/1.1 \r\n\r\n", b"HTTP/1.1 abc OK\r\n\r\n", b"HTTP/1.1 1_0_1 OK\r\n\r\n", b"HTTP/1.1 +101 OK\r\n\r\n",
             b"HTTP/1.1  101 OK\r\n\r\n", b"\r\n", b"\n", b"HTTP/1.1 101\r\nNoColon\r\n\r\n", b"HTTP/1.1 101 OK\r\nX: \xff\r\n\r\n",
             b"HTTP/1.1 101 OK\r\n: empty\r\n\r\n", b"HTTP/1.1 0 OK\r\nHTTP/1.1 101 OK\r\n\r\n", b"HTTP/1.1 302 Found\r\n\r\n",
             b"HTTP/1.1 302 Found\r\nLocation: \r\n\r\n", b"HTTP/1.1 302 Found\r\nLocation: http://x/\r\n\r\n",
             b"HTTP/1.1 302 Found\r\nLocation: ws://[::1/\r\n\r\n", b"HTTP/1.1 302 Found\r\nLocation: ws://h:99999/\r\n\r\n",
             b"HTTP/1.1 404 NF\r\nContent-Length: abc\r\n\r\n", b"HTTP/1.1 404 NF\r\nContent-Length: 999999999999\r\n\r\nbody",
             b"HTTP/1.1 404 NF\r\nContent-Length: -5\r\n\r\n", b"HTTP/1.1 404 NF\r\nContent-Length: 3\r\n\r\n",
             b"HTTP/1.1 500 E\r\nContent-Length: 1_0\r\n\r\nxxxxxxxxxxxx", b"HTTP/1.1 101 OK\r\nSet-Cookie: a=1; Domain=x.test\r\nSet-Cookie: =\r\n\r\n",
             b"HTTP/1.1 101 OK\r\nSet-Cookie: a[]=1; Domain=x\r\n\r\n", b"HTTP/1.1 101 OK\r\nSet-Cookie: \x01=2; domain=y\r\n\r\n",
             b"HTTP/1.1 101 OK\r\nSec-WebSocket-Accept: \r\nUpgrade: websocket\r\nConnection: upgrade\r\n\r\n",
             b"HTTP/1.1 101 " + b"A" * 70000 + b"\r\n\r\n", b"A" * 5000]
    for l in lines:
        yield l
    # rejected handshakes whose body is "chunked" with peer-declared chunk sizes (no read may be sized by them)
    for size in (b"ffff", b"10000", b"7fffffff", b"ffffffffffffffff", b"-1", b"zz", b""):
        for st in (b"400 Bad", b"503 Busy", b"200 OK"):
            yield b"HTTP/1.1 " + st + b"\r\nTransfer-Encoding: chunked\r\n\r\n" + size + b"\r\nbody"
            yield b"HTTP/1.1 " + st + b"\r\nTransfer-Encoding: gzip, chunked\r\nContent-Length: x\r\n\r\n" + size + b";ext=1\r\n" + b"b" * 40 + b"\r\n0\r\n\r\n"
    # cookie names made of every printable ASCII character (http.cookies refuses several), in an otherwise valid upgrade response
    for ch in range(0x21, 0x7F):
        yield GOOD.replace(b"\r\n\r\n", b"\r\nSet-Cookie: a" + bytes([ch]) + b"b=1; Domain=x.test\r\n\r\n")
    for v in (b"a=1; Domain=x.test; Expires=zzz", b"a=1; Max-Age=x; Domain=x.test", b"a=\"unterminated; Domain=x.test", b"; ; =; Domain=x", b"a=1; Domain=x.test; Secure=what; HttpOnly=1"):
        yield GOOD.replace(b"\r\n\r\n", b"\r\nSet-Cookie: " + v + b"\r\n\r\n")
    # well-formed UTF-8 that Python's str methods treat specially: digits that are not decimal (isdigit/int disagree), decimal digits of
    # other scripts (int() accepts them), Unicode spaces and line separators (strip/split/splitlines), case-folding oddities
    uni = ["²", "¹⁰¹", "①②", "١٠١", "１０１", "१०१", "\u00a0", "\u2028", "\u0085", "\u3000", "ſ", "İ", "ß", "K", "\u200b", "\ufeff", "\U0001d7cf"]
    for u in uni:
        ub = u.encode("utf-8")
        yield b"HTTP/1.1 " + ub + b" OK\r\n\r\n"
        yield b"HTTP/1.1 10" + ub + b" OK\r\n\r\n"
        yield b"HTTP/1.1 " + ub + b"101 Switching Protocols\r\n\r\n"
        yield b"HTTP/1.1" + ub + b"101 OK\r\n\r\n"
        yield b"HTTP/1.1 404 NF\r\nContent-Length: " + ub + b"\r\n\r\nbody"
        yield b"HTTP/1.1 404 NF\r\nContent-Length: 1" + ub + b"\r\n\r\nbodybodybodybody"
        yield b"HTTP/1.1 302 Found\r\nLocation: ws://h" + ub + b".test:80" + ub + b"/\r\n\r\n"
        yield b"HTTP/1.1 302 Found\r\nLocation" + ub + b": ws://h.test/\r\n\r\n"
        yield GOOD.replace(b"Upgrade: websocket", b"Upgrade: web" + ub + b"socket")
        yield GOOD.replace(b"Upgrade:", b"Upgrade" + ub + b":")
        yield GOOD.replace(b"\r\n\r\n", b"\r\nSet-Cookie: a" + ub + b"=1; Domain=" + ub + b"\r\n\r\n")
        yield GOOD.replace(b"Sec-WebSocket-Accept: ", b"Sec-WebSocket-Accept: " + ub)
    # single-field corruptions and truncations of a valid response
    for i in range(len(GOOD)):
        yield GOOD[:i]
        b = bytearray(GOOD)
        b[i] = rng.choice([0, 10, 13, 32, 58, 0x80, 0xFF, 0x41])
        yield bytes(b)
    n = 400 if tier == "quick" else 100000
    for _ in range(n):
        b = bytearray(GOOD)
        for _ in range(rng.randrange(1, 4)):
            op = rng.randrange(3)
            pos = rng.randrange(len(b))
            if op == 0:
                b[pos] = rng.randrange(256)
            elif op == 1:
                del b[pos]
            else:
                b.insert(pos, rng.choice([10, 13, 58, 32, 0xC3, 0xA9]))
        yield bytes(b)
    for _ in range(200 if tier == "quick" else 20000):
        yield bytes(rng.randrange(256) for _ in range(rng.randrange(1, 60)))


def frame_inputs(tier, rng):
    for n in (1, 2):
        for t in itertools.product(range(0, 256, 1 if n == 1 else 5), repeat=n):
            yield bytes(t)
    if tier != "quick":
        for t in itertools.product(range(0, 256, 17), range(256), range(0, 256, 51)):
            yield bytes(t)
    # oversized declared lengths followed by EOF or a little data
    for op in (1, 2, 8, 9):
        for decl in (126, 65536, 2 ** 31, 2 ** 62, 2 ** 63 - 1, 2 ** 63, 2 ** 64 - 1):
            hdr = bytes([0x80 | op, 127]) + decl.to_bytes(8, "big")
            yield hdr
            yield hdr + b"x" * 10
        yield bytes([0x80 | op, 126]) + b"\xff\xff" + b"y" * 100
    # text that is legal as a whole but cut inside a character between fragments, and ill-formed text, single and fragmented
    for fr in (b"\x01\x04caf\xc3\x80\x01\xa9", b"\x01\x02\xe2\x82\x00\x01\xac\x80\x00", b"\x81\x02\xff\xfe", b"\x01\x01\xf0\x00\x01\x9f\x89\x00\x80\x02\x98\x80",
               b"\x01\x01a\x80\x02\xc3\x28", b"\x01\x02\xed\xa0\x80\x01\x80", b"\x81\x03\xe2\x82\xac\x01\x01\xc3\x89\x04\x01\x02\x03\x04\x80\x01\xa9"):
        yield fr
    for _ in range(300 if tier == "quick" else 50000):
        frames = legal_stream(rng, lens=(0, 1, 5, 126))
        s = bytearray(encode_frames(frames, rng, mask_some=True))
        for _ in range(rng.randrange(1, 4)):
            if not s:
                break
            op = rng.randrange(3)
            pos = rng.randrange(len(s))
            if op == 0:
                s[pos] = rng.randrange(256)
            elif op == 1:
                s = s[:pos]
            else:
                s.insert(pos, rng.randrange(256))
        yield bytes(s)
    for _ in range(200 if tier == "quick" else 20000):
        yield bytes(rng.randrange(256) for _ in range(rng.randrange(1, 40)))


def wouldblock_transport(T):
    """A transport that reports "would block" (EAGAIN) instead of blocking, with a finite timeout -- what a TLS or non-blocking socket
    does: after the timeout of silence every call ends with a documented exception; it never polls for ever."""
    import base64
    import hashlib
    import socket as so
    import threading
    import websocket

    class WB:
        def __init__(self, real):
            self.real = real

        def recv(self, n):
            return self.real.recv(n, so.MSG_DONTWAIT)          # BlockingIOError(EAGAIN) when nothing is there

        def send(self, data):
            return self.real.send(data)

        def gettimeout(self):
            return 0.05

        def settimeout(self, t):
            pass

        def fileno(self):
            return self.real.fileno()

        def close(self):
            self.real.close()

        def shutdown(self, how=None):
            pass

    def server(peer, reply_head, then):
        req = b""
        while b"\r\n\r\n" not in req:
            req += peer.recv(4096)
        key = [l.split(b":", 1)[1].strip() for l in req.split(b"\r\n") if l.lower().startswith(b"sec-websocket-key")][0]
        acc = base64.b64encode(hashlib.sha1(key + b"258EAFA5-E914-47DA-95CA-C5AB0DC85B11").digest())
        head = b"HTTP/1.1 101 SP\r\nUpgrade: websocket\r\nConnection: Upgrade\r\nSec-WebSocket-Accept: " + acc + b"\r\n\r\n"
        peer.sendall(head[:reply_head] if reply_head else head)
        if then:
            peer.sendall(then)

    for name, reply_head, then, calls in (("silence-after-handshake", 0, b"", 1), ("half-a-frame", 0, b"\x82\x7e\x01", 1), ("half-a-status-line", 12, b"", 0),
                                          ("frame-then-silence", 0, b"\x81\x02hi", 2)):
        a, b = so.socketpair()
        out = {}

        def client():
            try:
                ws = websocket.WebSocket()
                ws.connect("ws://sim.test/", socket=WB(a))
                res = []
                for _ in range(calls):
                    try:
                        res.append("ok:" + repr(ws.recv()))
                    except Exception as e:
                        res.append("raise:" + exn_class(e))
                out["res"] = res
            except Exception as e:
                out["res"] = ["connect-raise:" + exn_class(e)]
        ts = threading.Thread(target=server, args=(b, reply_head, then), daemon=True)
        tc = threading.Thread(target=client, daemon=True)
        ts.start()
        tc.start()
        tc.join(3.0)
        hung = tc.is_alive()
        T.case(("wouldblock", name), nontrivial=True, bucket="wouldblock", sample={"scenario": name, "result": out.get("res"), "hung": hung})
        try:
            b.close()           # lets a polling client thread die
            a.close()
        except OSError:
            pass
        res = out.get("res") or []
        if hung or not res or not res[-1].split(":", 1)[0].endswith("raise") or not documented(res[-1].split(":", 1)[1]):
            T.fail("spec", {"kind": "wouldblock", "scenario": name}, "a documented exception once the peer has been silent for the timeout", f"hung={hung} results={res}",
                   {"site": "_socket.recv", "cls": "polls-forever" if hung else "internal-exception"},
                   what="on a transport that reports 'would block' the call did not end after the timeout")
            return


def run(ctx):
    T = Tally()
    rng = random.Random(ctx.seed)
    wouldblock_transport(T)
    # ---- handshake phase
    hs = list(dict.fromkeys(hs_inputs(ctx.tier, rng)))
    scs = []
    for b in hs:
        for tail in ("eof", "silence"):
            script = ([["D", b.hex()]] if b else []) + ([["T"]] if tail == "silence" else [])
            scs.append(({"url": "ws://sim.test/", "rand": [DRAW, DRAW], "net": [{"addrs": ["A"], "script": script},
                                                                                    {"addrs": ["A"], "script": []}]}, b, tail))
    # the model reads the head one byte at a time with list appends (quadratic): compare on heads <= 1500 bytes
    midx = [i for i, s in enumerate(scs) if len(s[1]) <= 1500]
    mouts = ctx.model.run_parallel([connrun.scenario_line(scs[i][0]) for i in midx]) if ctx.model else []
    mdict = dict(zip(midx, mouts))
    model = [mdict.get(i) for i in range(len(scs))]
    for (sc, b, tail), mo in zip(scs, model):
        line, info = connrun.run_impl(sc)
        res = line.split(";")[0]
        T.case(("hs", b, tail), nontrivial=len(b) > 2, bucket="handshake/" + res.split(":")[0] + ":" + (res.split(":")[1] if ":" in res else ""),
               sample={"bytes": b[:40].hex(), "then": tail, "result": res})
        pub = {"phase": "handshake", "bytes": b.hex() if len(b) < 3000 else None, "then": tail}
        if res.startswith("raise:") and not documented(res[6:]):
            T.fail("spec", pub, "an exception from the documented hierarchy or the transport's own error", res,
                   {"site": "connect", "cls": "internal-exception", "exn": res[6:]},
                   what=f"connect() failed with {res[6:]} on server bytes {b[:60]!r}")
        mr = max([int(x) for x in dict(f.split("=", 1) for f in line.split(";")[1:])["maxread"].split(",") if x] + [0])
        if mr > 16384:
            T.fail("spec", pub, "no transport read larger than 16384 bytes", str(mr), {"site": "connect", "cls": "unbounded-read"},
                   what="the client asked the transport for an amount of data driven by a length the peer declared")
        ascii_only = all(x < 128 for x in b)
        if mo is not None and ascii_only and mo != line:
            T.fail("corr", {"line": connrun.scenario_line(sc)[:600]}, mo[:300], line[:300], {"site": "wsconnect"})
    # ---- frame phase
    fr = list(dict.fromkeys(frame_inputs(ctx.tier, rng)))
    fscs = []
    for b in fr:
        for tail in ("eof", "silence"):
            script = [["D", b.hex()]] + ([["T"], ["T"]] if tail == "silence" else [])
            fscs.append(({"fire": 0, "skip": 0, "script": script, "keys": KEYS, "ops": ["rd1"] * 6 + ["rv"] * 2, "trace": int(tail == "eof" and len(fscs) % 4 == 0)}, b, tail))
            if tail == "eof" and any(x >= 0x80 for x in b[2:]):
                # validation off and the message-level call: nothing may leak from the decoding of text either
                fscs.append(({"fire": 0, "skip": 1, "script": script, "keys": KEYS, "ops": ["rv"] * 6}, b, tail))
                # fragments delivered one by one (fire_cont_frame): a fragment is not validated on its own and may end inside a character
                fscs.append(({"fire": 1, "skip": 0, "script": script, "keys": KEYS, "ops": ["rv"] * 6}, b, tail))
    fmodel = ctx.model.run_parallel([wsrun.scenario_line(s[0]) for s in fscs]) if ctx.model else [None] * len(fscs)
    for (sc, b, tail), mo in zip(fscs, fmodel):
        line, s = wsrun.run_impl(sc)
        results = line.split(";")[0].split("|")
        T.case(("fr", b, tail), nontrivial=len(b) > 2, bucket="frames", sample={"bytes": b[:24].hex(), "then": tail, "results": results[:3]})
        pub = {"phase": "frames", "bytes": b.hex(), "then": tail, "skip": sc["skip"], "fire": sc["fire"], "ops": sc["ops"], "trace": sc.get("trace", 0)}
        for r in results:
            if r.startswith("raise:") and not documented(r[6:]):
                T.fail("spec", pub, "a documented exception", r, {"site": "recv", "cls": "internal-exception", "exn": r[6:]},
                       what=f"a receive call failed with {r[6:]} on server bytes {b[:40]!r}")
                break
        # progress: a call that reports a protocol/payload error must have consumed something (bytes read from the transport or
        # taken from the library's buffer); otherwise the same error comes back for ever and later frames are never reached
        for i, r in enumerate(results):
            if r in ("raise:Protocol", "raise:Payload") and i < len(s.buffered):
                nreads = sum(1 for e in s.log[s.marks[i]:s.marks[i + 1]] if e[0] == "r")
                if nreads == 0 and s.buffered[i] == 0:
                    T.fail("spec", pub, "every failing receive call consumes input", f"call {i} raised {r[6:]} with no transport read and an empty buffer",
                           {"site": "recv", "cls": "no-progress"},
                           what="a receive call raised without consuming any input: the connection is stuck on the same error")
                    break
        if max(s.reads()[len([e for e in s.log[:s.hs_mark] if e[0] == 'r']):] or [0]) > 16384:
            T.fail("spec", pub, "no transport read larger than 16384 bytes", str(max(s.reads())), {"site": "recv", "cls": "unbounded-read"})
        masked_big = len(b) > 400
        if mo is not None and not masked_big and wsrun.canon_model(mo) != line:
            T.fail("corr", {"line": wsrun.scenario_line(sc)[:600]}, mo[:300], line[:300], {"site": "wsrun"})
    T.validated = len(scs) + len(fscs)
    return T.result(
        "handshake phase: exhaustive 1-2 byte prefixes over 10 special bytes, 28 crafted malformed heads (missing/non-numeric "
        "status, bad UTF-8, missing colon, redirects without/with bad Location, bad/huge/negative Content-Length, odd Set-Cookie, "
        "70000-byte line), every truncation and single-byte corruption of a valid response, random multi-mutations and random "
        "bytes, each followed by end of stream or silence; frame phase (frame-level calls, and recv() with validation off and in per-fragment mode on inputs with high bytes): all 1-byte and a fifth of all 2-byte prefixes, crafted text cut inside characters, declared "
        "lengths up to 2^64-1 followed by EOF/data, mutated legal streams, random bytes, then EOF or silence; 8 receive calls "
        "each. Judged: only documented exceptions, reads <= 16384, every call returns; compared with the extracted model",
        what_is_proved="see Properties/C17.v")


def search(ctx):
    r = run(ctx)
    return [f for f in r["failures"] if f["kind"] == "spec"][:2]


def replay(ctx, sc):
    if sc.get("kind") == "wouldblock":
        T = Tally()
        wouldblock_transport(T)
        return T.failures[0] if T.failures else None
    if sc.get("bytes") is None:
        return {"note": "input too long; rerun the check"}
    b = bytes.fromhex(sc["bytes"])
    if sc["phase"] == "handshake":
        script = ([["D", b.hex()]] if b else []) + ([["T"]] if sc["then"] == "silence" else [])
        line, info = connrun.run_impl({"url": "ws://sim.test/", "rand": [DRAW, DRAW], "net": [{"addrs": ["A"], "script": script}, {"addrs": ["A"], "script": []}]})
        res = line.split(";")[0]
        return None if not (res.startswith("raise:") and not documented(res[6:])) else {"result": res}
    script = [["D", b.hex()]] + ([["T"], ["T"]] if sc["then"] == "silence" else [])
    line, s = wsrun.run_impl({"fire": sc.get("fire", 0), "skip": sc.get("skip", 0), "script": script, "keys": KEYS, "ops": sc.get("ops") or ["rd1"] * 6 + ["rv"] * 2, "trace": sc.get("trace", 0)})
    bad = [r for r in line.split(";")[0].split("|") if r.startswith("raise:") and not documented(r[6:])]
    return {"results": bad} if bad else None
