"""Shared generators, runners and spec judgements for the receive-side properties C02-C05, C07."""
import itertools
import random

from corr.common import Tally, hx, digest
from corr import wsrun
from sim.sock import server_frame, lcg_bytes

KEYS = ["0a0b0c0d", "11223344", "a1b2c3d4", "deadbeef", "01020304", "99887766", "0f0e0d0c", "13579bdf"] * 8


# ------------------------------------------------------------------ building blocks
def parse_specseq(line):
    d = {}
    for part in line.split(";"):
        k, _, v = part.partition("=")
        d[k] = v
    for k in ("frames", "verdicts", "seq", "msgs", "frags", "pongs"):
        d[k] = d[k].split(",") if d.get(k) else []
    d["n"] = int(d["n"])
    d["rest"] = int(d["rest"])
    return d


def script_of(stream, schedule):
    """schedule: list of ints (chunk sizes) and "T"; the remainder of the stream goes in one last chunk."""
    evs, pos = [], 0
    for s in schedule:
        if s == "T":
            evs.append(["T"])
        else:
            if pos >= len(stream):
                continue
            evs.append(["D", stream[pos:pos + s].hex()])
            pos += s
    if pos < len(stream):
        evs.append(["D", stream[pos:].hex()])
    return evs


def observe(stream, schedule, op, nops, fire=0, skip=0, trace=0):
    """Run `op` repeatedly; returns (results without timeouts up to the first ConnClosed, full line, sock)."""
    sc = {"fire": fire, "skip": skip, "script": script_of(stream, schedule), "keys": KEYS, "ops": [op] * nops, "trace": trace}
    line, s = wsrun.run_impl(sc)
    return sc, line, s


def results_of(line):
    obs = line.split(";")[0].split("|")
    out = []
    for o in obs:
        if o == "raise:TimedOut":
            continue
        out.append(o)
        if o == "raise:ConnClosed":
            break
    return out


def writes_of(line):
    io = line.split(";io=")[1]
    return [x for x in io.split(",") if x.startswith("w")]


def pong_wire(payload, key_hex):
    key = bytes.fromhex(key_hex)
    return server_frame(0xA, payload, fin=1, mask=key)


def close_wire(status, reason, key_hex):
    return server_frame(0x8, status.to_bytes(2, "big") + reason, fin=1, mask=bytes.fromhex(key_hex))


# ------------------------------------------------------------------ frame stream generators
def rand_payload(rng, n):
    return bytes(rng.randrange(256) for _ in range(n)) if n < 64 else lcg_bytes(n, rng.randrange(1 << 30))


def legal_stream(rng, max_msgs=3, max_frags=3, max_ctl=2, text_ok=True, lens=(0, 1, 2, 5, 125, 126, 127, 300)):
    """A legal sequence of server frames: messages cut into fragments, pings/pongs in every gap."""
    frames = []

    def ctl():
        for _ in range(rng.randrange(max_ctl + 1)):
            op = rng.choice([9, 10])
            frames.append((op, 1, rand_payload(rng, rng.choice([0, 1, 5, 125]))))
    for _ in range(rng.randrange(1, max_msgs + 1)):
        ctl()
        text = rng.random() < 0.5
        k = rng.randrange(1, max_frags + 1)
        if text:
            s = "".join(rng.choice("aé€\U0001F600z") for _ in range(rng.randrange(0, 6))).encode()
            if not text_ok and rng.random() < 0.5:
                s = s + b"\xe2\x82"
            cuts = sorted(rng.randrange(len(s) + 1) for _ in range(k - 1))
            parts = [s[a:b] for a, b in zip([0] + cuts, cuts + [len(s)])]
        else:
            parts = [rand_payload(rng, rng.choice(lens)) for _ in range(k)]
        for i, p in enumerate(parts):
            frames.append((1 if text else 2, 1 if i == k - 1 else 0, p) if i == 0 else (0, 1 if i == k - 1 else 0, p))
            if i < k - 1:
                ctl()
    ctl()
    return frames


def encode_frames(frames, rng=None, mask_some=False):
    out = b""
    for fr in frames:
        op, fin, p = fr[:3]
        kw = fr[3] if len(fr) > 3 else {}
        if mask_some and rng is not None and rng.random() < 0.3 and "mask" not in kw:
            kw = dict(kw, mask=bytes(rng.randrange(256) for _ in range(4)))
        out += server_frame(op, p, fin=fin, **kw)
    return out


def random_schedule(rng, n, timeouts=True):
    sched, pos = [], 0
    while pos < n:
        c = rng.choice([1, 1, 2, 3, 7, 16, 100, 16384, 100000])
        sched.append(c)
        pos += c
        if timeouts and rng.random() < 0.25:
            sched.append("T")
    return sched


def all_partitions(n):
    """All compositions of n (2^(n-1)) as chunk-size lists."""
    for mask in range(1 << max(0, n - 1)):
        sizes, cur = [], 1
        for i in range(n - 1):
            if mask >> i & 1:
                sizes.append(cur)
                cur = 1
            else:
                cur += 1
        sizes.append(cur)
        yield sizes


# ------------------------------------------------------------------ spec judgements
def judge_frames(T, prop, sc, results, spec, consumed=None):
    """recv_frame results against the spec decoder + per-frame legality (C02, C05)."""
    pub = dict(sc)
    for i in range(spec["n"]):
        want_v = spec["verdicts"][i]
        got = results[i] if i < len(results) else "missing"
        okform = "ok:" + spec["frames"][i]
        if want_v == "L" and got != okform:
            T.fail("spec", pub, okform, got, {"site": "recv_frame", "cls": "legal-frame-not-delivered",
                                               "frame": spec["frames"][i][:3]},
                   what=f"frame {i} is legal per RFC 6455 and must be delivered as decoded")
            return False
        if want_v == "I" and got != "raise:Protocol":
            T.fail("spec", pub, "raise:Protocol", got, {"site": "recv_frame", "cls": "illegal-frame-accepted",
                                                         "frame": spec["frames"][i][:3]},
                   what=f"frame {i} is forbidden by RFC 6455 and must raise a protocol exception")
            return False
        if want_v == "U" and got not in (okform, "raise:Protocol"):
            T.fail("spec", pub, okform + " or raise:Protocol", got, {"site": "recv_frame", "cls": "unconstrained-frame"})
            return False
    tail = results[spec["n"]] if spec["n"] < len(results) else "missing"
    if tail != "raise:ConnClosed":
        T.fail("spec", pub, "raise:ConnClosed after the last whole frame", tail,
               {"site": "recv_frame", "cls": "stream-end"})
        return False
    return True
