#!/venv/bin/python
"""C11 -- stand-alone validation of coq/Model/Tls.v against the real websocket._http._ssl_socket.

Run:  PYTHONPATH=/repo PYTHONHASHSEED=0 /venv/bin/python /verif/harness/corr/tls_validate.py

1. self-test: the recording fake SSLContext enforces the two coupling rules (and the range check of
   verify_mode) exactly like the real ssl.SSLContext -- compared on every sequence of <= 3 assignments
   to check_hostname / verify_mode, for PROTOCOL_TLS_CLIENT and for a legacy protocol constant;
2. the decision-relevant option space, exhaustively:
     cert_reqs in {absent, 0, 1, 2, 3}  x  check_hostname in {absent, True, False}
     x ca_certs in {absent, given, ""}  x  ca_cert_path in {absent, given, ""}
     x server_hostname in {absent, given, ""}  x  context in {absent, given}
     x WEBSOCKET_CLIENT_CA_BUNDLE in {unset, existing file, existing dir, missing path, ""}
   (real files / directories under /verif/build/tlscases/), plus all 32 presence combinations of
   certfile / ssl_version / ciphers / cert_chain / ecdh_curve on the cert_reqs x check_hostname x
   context x env sub-space.  For each: the REAL _ssl_socket(sock, sslopt, hostname) runs with
   websocket._http.ssl replaced by the fake module; the recorded calls are canonicalised to the shape
   of the model's plan (or the exception class) and compared with tls_plan evaluated by coqc;
3. the order of transport actions of the REAL connect() (with _open_socket/_tunnel/_ssl_socket
   replaced by recorders) against connect_order, and ws:// never reaching _ssl_socket.
Prints disagreements and exits 1, or "OK n cases".  Nothing under /repo or /tmp is touched.
"""
import itertools
import os
import re
import ssl as real_ssl
import subprocess
import sys
import types
import warnings

import websocket._http as HT
from websocket._socket import sock_opt

OUT = os.path.join(os.path.dirname(os.path.dirname(os.path.dirname(os.path.abspath(__file__)))), "build", "tlscases")
COQ = os.path.join(os.path.dirname(os.path.dirname(os.path.dirname(os.path.abspath(__file__)))), "coq")
PER_FILE = 500
HOST = "h.example"
ENVVAR = "WEBSOCKET_CLIENT_CA_BUNDLE"

CERT_NONE, CERT_OPTIONAL, CERT_REQUIRED = 0, 1, 2
PROTOCOL_TLS_CLIENT = int(real_ssl.PROTOCOL_TLS_CLIENT)
LEGACY_PROTOCOL = int(real_ssl.PROTOCOL_TLSv1_2)


# ---------------------------------------------------------------- the fake ssl module
class FakeSSLContext:
    def __init__(self, protocol=PROTOCOL_TLS_CLIENT, custom=False):
        self.log = []
        self.protocol = protocol
        self.custom = custom
        if protocol == PROTOCOL_TLS_CLIENT:
            self._check_hostname, self._verify_mode = True, CERT_REQUIRED
        else:
            self._check_hostname, self._verify_mode = False, CERT_NONE
        self._keylog = None

    # CPython Modules/_ssl.c set_check_hostname / set_verify_mode
    @property
    def check_hostname(self):
        return self._check_hostname

    @check_hostname.setter
    def check_hostname(self, value):
        value = bool(value)
        self.log.append(("check_hostname", value))
        if value and self._verify_mode == CERT_NONE:
            self._verify_mode = CERT_REQUIRED
        self._check_hostname = value

    @property
    def verify_mode(self):
        return self._verify_mode

    @verify_mode.setter
    def verify_mode(self, value):
        self.log.append(("verify_mode", value))
        value = int(value)
        if value == CERT_NONE and self._check_hostname:
            raise ValueError("Cannot set verify_mode to CERT_NONE when check_hostname is enabled.")
        if value not in (CERT_NONE, CERT_OPTIONAL, CERT_REQUIRED):
            raise ValueError("invalid value for verify_mode")
        self._verify_mode = value

    @property
    def keylog_filename(self):
        return self._keylog

    @keylog_filename.setter
    def keylog_filename(self, value):
        self._keylog = value

    def load_default_certs(self, purpose=None):
        self.log.append(("load_default_certs", purpose))

    def load_verify_locations(self, cafile=None, capath=None, cadata=None):
        self.log.append(("load_verify_locations", cafile, capath))

    def load_cert_chain(self, certfile, keyfile=None, password=None):
        self.log.append(("load_cert_chain", certfile))

    def set_ciphers(self, c):
        self.log.append(("set_ciphers", c))

    def set_ecdh_curve(self, c):
        self.log.append(("set_ecdh_curve", c))

    def wrap_socket(self, sock, server_side=False, do_handshake_on_connect=True,
                    suppress_ragged_eofs=True, server_hostname=None, session=None):
        self.log.append(("wrap_socket", server_hostname))
        return ("WRAPPED", self, sock, server_hostname)


FAKE_SSL = types.SimpleNamespace(
    SSLContext=FakeSSLContext, CERT_NONE=CERT_NONE, CERT_OPTIONAL=CERT_OPTIONAL,
    CERT_REQUIRED=CERT_REQUIRED, PROTOCOL_TLS_CLIENT=PROTOCOL_TLS_CLIENT,
    Purpose=types.SimpleNamespace(SERVER_AUTH="SERVER_AUTH", CLIENT_AUTH="CLIENT_AUTH"))


def self_test():
    """fake vs real SSLContext on all short assignment sequences."""
    assert (int(real_ssl.CERT_NONE), int(real_ssl.CERT_OPTIONAL), int(real_ssl.CERT_REQUIRED)) == (0, 1, 2)
    ops = [("check_hostname", True), ("check_hostname", False)] + [("verify_mode", v) for v in (0, 1, 2, 3)]
    n = 0
    with warnings.catch_warnings():
        warnings.simplefilter("ignore")
        for proto in (PROTOCOL_TLS_CLIENT, LEGACY_PROTOCOL):
            for k in range(0, 4):
                for seq in itertools.product(ops, repeat=k):
                    outs = []
                    for ctx in (real_ssl.SSLContext(proto), FakeSSLContext(proto)):
                        trace = [(bool(ctx.check_hostname), int(ctx.verify_mode))]
                        for attr, val in seq:
                            try:
                                setattr(ctx, attr, val)
                                trace.append((bool(ctx.check_hostname), int(ctx.verify_mode)))
                            except Exception as e:   # noqa
                                trace.append(type(e).__name__)
                        outs.append(trace)
                    n += 1
                    if outs[0] != outs[1]:
                        print("SELF-TEST DISAGREE", proto, seq, "real", outs[0], "fake", outs[1])
                        sys.exit(1)
    return n


# ---------------------------------------------------------------- the real code on one option set
def canonical(result):
    _tag, ctx, _sock, server_hostname = result
    log = ctx.log
    if ctx.custom:
        assert [e[0] for e in log] == ["wrap_socket"], log      # nothing else is touched
        return (True, -1, False, server_hostname, None, None, False, False, False, False, False)
    lvl = [e for e in log if e[0] == "load_verify_locations"]
    assert len(lvl) <= 1
    names = [e[0] for e in log]
    assert names[-1] == "wrap_socket" and names.count("wrap_socket") == 1
    # the attributes are assigned exactly once each, check_hostname first
    assert [x for x in names if x in ("check_hostname", "verify_mode")] == ["check_hostname", "verify_mode"], names
    return (False, int(ctx.verify_mode), bool(ctx.check_hostname), server_hostname,
            lvl[0][1] if lvl else None, lvl[0][2] if lvl else None,
            ("load_default_certs", "SERVER_AUTH") in log,
            "load_cert_chain" in names, "set_ciphers" in names, "set_ecdh_curve" in names,
            ctx.protocol != PROTOCOL_TLS_CLIENT)


def run_real(sslopt, envval):
    if envval is None:
        os.environ.pop(ENVVAR, None)
    else:
        os.environ[ENVVAR] = envval
    before = dict(sslopt)
    try:
        r = HT._ssl_socket("SOCK", sslopt, HOST)
    except ValueError:
        return "ValueErr"
    except Exception as e:   # noqa
        return "Other:" + type(e).__name__
    finally:
        os.environ.pop(ENVVAR, None)
    assert sslopt == before, "user sslopt mutated"
    return canonical(r)


# ---------------------------------------------------------------- Coq side
def zs(s):
    return "[" + "; ".join(str(ord(c)) for c in s) + "]"


def zopt(s):
    return "None" if s is None else f"(Some {zs(s)})"


def zb(b):
    return "true" if b else "false"


PRELUDE = """From Coq Require Import ZArith List.
From WS Require Import Base.Res Base.Str Model.Tls.
Import ListNotations.
Open Scope Z_scope.
Definition b2z (b : bool) : Z := if b then 1 else 0.
Definition enc_o (o : option str) : list Z := match o with None => [-1] | Some s => -2 :: s end.
Definition enc (r : res plan) : list Z :=
  match r with
  | Raise ValueErr => [-10]
  | Raise _ => [-11]
  | Ok NoWrap => [-12]
  | Ok (Wrap w) =>
      [-13; b2z (custom_context w); verify_mode w + 100; b2z (check_host w); b2z (load_default_certs w);
       b2z (loads_client_cert w); b2z (sets_ciphers w); b2z (sets_ecdh_curve w); b2z (explicit_protocol w)]
      ++ (-2 :: server_name w) ++ enc_o (ca_file w) ++ enc_o (ca_path w)
  end.
Definition host : str := %s.
Definition case (o : sslopt) (e : env_bundle) : list Z := enc (tls_plan true o e host).
"""


def parse_cases(nums):
    res, i = [], 0

    def string():
        nonlocal i
        j = i
        while j < len(nums) and nums[j] >= 0:
            j += 1
        s = "".join(map(chr, nums[i:j]))
        i = j
        return s

    def opt():
        nonlocal i
        tag = nums[i]
        i += 1
        if tag == -1:
            return None
        assert tag == -2
        return string()

    while i < len(nums):
        tag = nums[i]
        i += 1
        if tag == -10:
            res.append("ValueErr")
        elif tag == -11:
            res.append("OtherErr")
        elif tag == -12:
            res.append("NoWrap")
        else:
            assert tag == -13, tag
            cu, vm, ch, ld, cc, ci, ec, ex = nums[i:i + 8]
            i += 8
            assert nums[i] == -2
            i += 1
            name = string()
            caf, cap = opt(), opt()
            res.append((bool(cu), vm - 100, bool(ch), name, caf, cap, bool(ld), bool(cc), bool(ci), bool(ec), bool(ex)))
    return res


def coq_opt(c):
    (cr, ch, ca, cp, sh, cx, envk, envv, flags) = c
    cf, sv, ci, cc, ec = flags
    o = (f"(mk_sslopt {'None' if cr is None else f'(Some ({cr}))'} "
         f"{'None' if ch is None else f'(Some {zb(ch)})'} {zopt(ca)} {zopt(cp)} {zb(cx)} {zopt(sh)} "
         f"{zb(cf)} {zb(sv)} {zb(ci)} {zb(cc)} {zb(ec)})")
    e = {"unset": "NoBundle", "empty": "(BundleMissing [])",
         "file": f"(BundleFile {zs(envv or '')})", "dir": f"(BundleDir {zs(envv or '')})",
         "missing": f"(BundleMissing {zs(envv or '')})"}[envk]
    return o, e


def run_coq(idx, chunk):
    path = os.path.join(OUT, f"cases_{idx}.v")
    with open(path, "w") as f:
        f.write(PRELUDE % zs(HOST))
        f.write("Eval vm_compute in (\n")
        for c in chunk:
            o, e = coq_opt(c)
            f.write(f"  case {o} {e} ++\n")
        f.write("  []).\n")
    p = subprocess.run(["timeout", "900", "coqc", "-Q", COQ, "WS", path], cwd=OUT,
                       capture_output=True, text=True)
    if p.returncode != 0:
        print(p.stdout[-2000:], p.stderr[-4000:])
        sys.exit(f"coqc failed on {path} (exit {p.returncode})")
    m = re.search(r"=\s*\[(.*?)\]\s*:\s*list Z", p.stdout, re.S)
    nums = [int(x) for x in m.group(1).replace("\n", " ").split(";") if x.strip()]
    res = parse_cases(nums)
    assert len(res) == len(chunk), (len(res), len(chunk))
    return res


def model_connect_order():
    path = os.path.join(OUT, "order.v")
    with open(path, "w") as f:
        f.write("From Coq Require Import ZArith List.\nFrom WS Require Import Model.Tls.\nImport ListNotations.\n"
                "Open Scope Z_scope.\nDefinition s2z (s : step) : Z := match s with OpenSocket => 1 | Tunnel => 2 | TlsWrap => 3 "
                "| HandshakeWrite => 4 | SocksConnect => 5 | CallerSocket => 6 end.\n")
        for sec in (False, True):
            for tun in (False, True):
                f.write(f"Eval vm_compute in (map s2z (connect_order {zb(sec)} {zb(tun)})).\n")
        for sec in (False, True):
            f.write(f"Eval vm_compute in (map s2z (connect_order_full PathCallerSocket {zb(sec)})).\n")
    p = subprocess.run(["timeout", "300", "coqc", "-Q", COQ, "WS", path], cwd=OUT, capture_output=True, text=True)
    if p.returncode != 0:
        print(p.stdout, p.stderr)
        sys.exit("coqc failed on order.v")
    names = {1: "OpenSocket", 2: "Tunnel", 3: "TlsWrap", 4: "HandshakeWrite", 5: "SocksConnect", 6: "CallerSocket"}
    outs = [[names[int(x)] for x in m.split(";") if x.strip()]
            for m in re.findall(r"=\s*\[(.*?)\]\s*:\s*list Z", p.stdout, re.S)]
    keys = [(s, t) for s in (False, True) for t in (False, True)] + [("caller", False), ("caller", True)]
    return dict(zip(keys, outs))


def real_connect_order(secure, tunnel, caller_socket=False):
    """The real connect() with the three transport actions replaced by recorders."""
    steps = []
    saved = (HT._get_addrinfo_list, HT._open_socket, HT._tunnel, HT._ssl_socket)
    HT._get_addrinfo_list = lambda h, p, s, pr: ([("fam", "type", "proto", "", ("127.0.0.1", p))], tunnel, None)
    HT._open_socket = lambda a, so, t: (steps.append("OpenSocket"), "S0")[1]
    HT._tunnel = lambda s, h, p, a: (steps.append("Tunnel"), s)[1]
    HT._ssl_socket = lambda s, o, h: (steps.append("TlsWrap"), s)[1]
    try:
        url = ("wss" if secure else "ws") + "://" + HOST + "/x"
        opts = sock_opt(None, {})
        proxy = HT.proxy_info()
        sock, addr = HT.connect(url, opts, proxy, "CALLER" if caller_socket else None)
        if caller_socket:
            assert sock == "CALLER"
            steps.append("CallerSocket")
        steps.append("HandshakeWrite")      # WebSocket.connect calls handshake() after connect() returned
        assert addr[0] == HOST
    finally:
        HT._get_addrinfo_list, HT._open_socket, HT._tunnel, HT._ssl_socket = saved
    return steps


def main():
    os.makedirs(OUT, exist_ok=True)
    for fn in os.listdir(OUT):
        p = os.path.join(OUT, fn)
        if os.path.isdir(p):
            os.rmdir(p)
        else:
            os.remove(p)
    n_self = self_test()

    bundle_file = os.path.join(OUT, "bundle.pem")
    bundle_dir = os.path.join(OUT, "bundledir")
    missing = os.path.join(OUT, "does-not-exist")
    with open(bundle_file, "w") as f:
        f.write("# placeholder CA bundle for tls_validate.py\n")
    os.mkdir(bundle_dir)
    assert os.path.isfile(bundle_file) and os.path.isdir(bundle_dir) and not os.path.exists(missing)
    envs = [("unset", None), ("file", bundle_file), ("dir", bundle_dir), ("missing", missing), ("empty", "")]

    CA, CP, SH = os.path.join(OUT, "my-ca.pem"), os.path.join(OUT, "my-ca-dir"), "sni.example"
    cases = []
    noflags = (False,) * 5
    for cr in (None, 0, 1, 2, 3):
        for ch in (None, True, False):
            for ca in (None, CA, ""):
                for cp in (None, CP, ""):
                    for sh in (None, SH, ""):
                        for cx in (False, True):
                            for envk, envv in envs:
                                cases.append((cr, ch, ca, cp, sh, cx, envk, envv, noflags))
    for cr in (None, 0, 1, 2, 3):
        for ch in (None, True, False):
            for cx in (False, True):
                for envk, envv in envs:
                    for flags in itertools.product((False, True), repeat=5):
                        if flags != noflags:
                            cases.append((cr, ch, None, None, None, cx, envk, envv, flags))

    saved_ssl, saved_env = HT.ssl, os.environ.get(ENVVAR)
    HT.ssl = FAKE_SSL
    real = []
    try:
        for (cr, ch, ca, cp, sh, cx, envk, envv, flags) in cases:
            sslopt = {}
            if cr is not None:
                sslopt["cert_reqs"] = cr
            if ch is not None:
                sslopt["check_hostname"] = ch
            if ca is not None:
                sslopt["ca_certs"] = ca
            if cp is not None:
                sslopt["ca_cert_path"] = cp
            if sh is not None:
                sslopt["server_hostname"] = sh
            if cx:
                sslopt["context"] = FakeSSLContext(custom=True)
            cf, sv, ci, cc, ec = flags
            if cf:
                sslopt["certfile"] = "client.pem"
            if sv:
                sslopt["ssl_version"] = LEGACY_PROTOCOL
            if ci:
                sslopt["ciphers"] = "HIGH"
            if cc:
                sslopt["cert_chain"] = ("client.pem", "client.key", None)
            if ec:
                sslopt["ecdh_curve"] = "prime256v1"
            real.append(run_real(sslopt, envv))
    finally:
        HT.ssl = saved_ssl
        if saved_env is not None:
            os.environ[ENVVAR] = saved_env

    bad, n = [], 0
    stats = {"ValueErr": 0, "custom": 0, "wrap": 0}
    for ci in range(0, len(cases), PER_FILE):
        chunk = cases[ci:ci + PER_FILE]
        model = run_coq(ci // PER_FILE, chunk)
        for c, r, m in zip(chunk, real[ci:ci + PER_FILE], model):
            n += 1
            if r != m:
                bad.append((c, "real", r, "model", m))
            stats["ValueErr" if r == "ValueErr" else "custom" if (isinstance(r, tuple) and r[0]) else "wrap"] += 1

    # order of transport actions, and ws:// never reaching _ssl_socket
    morder = model_connect_order()
    for sec in (False, True):
        for tun in (False, True):
            n += 1
            r = real_connect_order(sec, tun)
            if r != morder[(sec, tun)]:
                bad.append(("connect_order", sec, tun, "real", r, "model", morder[(sec, tun)]))
        n += 1
        r = real_connect_order(sec, False, caller_socket=True)
        if r != morder[("caller", sec)]:
            bad.append(("connect_order caller socket", sec, "real", r, "model", morder[("caller", sec)]))

    if bad:
        for b in bad[:40]:
            print("DISAGREE", b)
        print(f"{len(bad)} disagreements in {n} cases")
        sys.exit(1)
    print(f"OK {n} cases (self-test: {n_self} assignment sequences fake == real ssl.SSLContext; "
          f"{len(cases)} option sets: {stats['wrap']} library-built contexts, {stats['custom']} custom contexts, "
          f"{stats['ValueErr']} refused with ValueError; 6 connect() orders)")


if __name__ == "__main__":
    main()
