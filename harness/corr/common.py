"""Helpers shared by the per-property correspondence runners."""
import random


def hx(b):
    b = bytes(b)
    return b.hex() if b else "-"


def digest(b):
    import hashlib
    b = bytes(b)
    if len(b) <= 64:
        return hx(b)
    return f"#{len(b)}:{hashlib.md5(b).hexdigest()}"


def exn_class(e):
    """Canonical class name of an exception, the same alphabet as ocaml/model_handlers.ml exn_name."""
    import socket
    import struct
    import websocket
    from websocket import _exceptions as X
    if type(e).__name__ == "SpinDetected":
        return "Other:SpinDetected"
    if isinstance(e, X.WebSocketProtocolException):
        return "Protocol"
    if isinstance(e, X.WebSocketPayloadException):
        return "Payload"
    if isinstance(e, X.WebSocketConnectionClosedException):
        return "ConnClosed"
    if isinstance(e, X.WebSocketTimeoutException):
        return "TimedOut"
    if isinstance(e, X.WebSocketBadStatusException):
        return f"BadStatus:{e.status_code}"
    if isinstance(e, X.WebSocketProxyException):
        return "ProxyErr"
    if isinstance(e, X.WebSocketAddressException):
        return "AddressErr"
    if isinstance(e, X.WebSocketException):
        return "WsGeneric"
    if isinstance(e, UnicodeDecodeError):
        return "Internal:UnicodeDecodeError"
    if isinstance(e, struct.error):
        return "Internal:struct.error"
    if isinstance(e, ValueError):
        return "ValueErr"
    if isinstance(e, IndexError):
        return "Internal:IndexError"
    if isinstance(e, KeyError):
        return "Internal:KeyError"
    if isinstance(e, AttributeError):
        return "Internal:AttributeError"
    if isinstance(e, TypeError):
        return "Internal:TypeError"
    if isinstance(e, ConnectionResetError):
        return "Transport:104"
    if isinstance(e, OSError):
        return f"Transport:{e.errno or 0}"
    return "Other:" + type(e).__name__


class Tally:
    """Counts evaluations and distinct non-trivial cases; keeps a few samples and failures."""

    def __init__(self):
        self.evaluations = 0
        self.distinct = set()
        self.samples = []
        self.failures = []
        self.dist = {}
        self.validated = 0

    def case(self, key, nontrivial=True, sample=None, bucket=None):
        self.evaluations += 1
        if nontrivial:
            self.distinct.add(key)
        if sample is not None and len(self.samples) < 12 and (self.evaluations % 997 == 1 or len(self.samples) < 4):
            self.samples.append(sample)
        if bucket is not None:
            self.dist[bucket] = self.dist.get(bucket, 0) + 1

    def fail(self, kind, scenario, expected, got, signature, what=""):
        # separate budgets: model/implementation disagreements must never crowd out spec failures, and many instances of one
        # (possibly known) failure class must never crowd out a different class
        self.fail_calls = getattr(self, "fail_calls", {})
        self.fail_calls[kind] = self.fail_calls.get(kind, 0) + 1
        same = sum(1 for f in self.failures if f["kind"] == kind and f["signature"] == signature)
        if same < 6 and sum(1 for f in self.failures if f["kind"] == kind) < (120 if kind == "spec" else 15):
            self.failures.append({"kind": kind, "scenario": scenario, "expected": expected, "got": got,
                                  "signature": signature, "what": what})

    def saturated(self, kind="spec", n=12):
        """enough failures of this kind recorded: a long-running generator loop may stop (each failure costs simulation time
        on a broken tree; on a tree where the property holds this never triggers)"""
        return getattr(self, "fail_calls", {}).get(kind, 0) >= n

    def result(self, rule, **extra):
        r = {"evaluations": self.evaluations, "distinct_nontrivial": len(self.distinct), "rule": rule,
             "samples": self.samples, "failures": self.failures, "distribution": self.dist,
             "traces_validated_against_impl": self.validated}
        r.update(extra)
        return r
