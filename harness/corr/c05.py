"""C05 — frames the RFC forbids are rejected with a protocol error, never delivered."""
import itertools
import random

from corr.common import Tally, hx, exn_class
from corr import wsrun
from corr.recvprops import parse_specseq, observe, results_of, judge_frames, rand_payload
from sim.sock import server_frame

REASONS = [b"", b"bye", "é€".encode(), b"\xc3", b"\xed\xa0\x80", b"\xf4\x90\x80\x80", b"a" * 123, b"a" * 124]


def frame_cases(tier, rng):
    lens = [0, 1, 2, 3, 125, 126, 127, 300]
    for b0 in range(256):
        op = b0 & 15
        for n in lens:
            if op == 8 and n >= 2:
                for code in (1000, 1005, 999, 3000, 5000, 1011, 1015):
                    yield server_frame(op, code.to_bytes(2, "big") + b"r" * (n - 2), fin=b0 >> 7, rsv=(b0 >> 4) & 7)
            else:
                yield server_frame(op, b"t" * n if op == 1 else rand_payload(rng, n), fin=b0 >> 7, rsv=(b0 >> 4) & 7)
    for r in REASONS:
        for code in (1000, 1001, 4999):
            yield server_frame(8, code.to_bytes(2, "big") + r)


ALPHA = {"T0": (1, 0, b"t"), "T1": (1, 1, b"t"), "B0": (2, 0, b"b"), "B1": (2, 1, b"b"), "C0": (0, 0, b"c"),
         "C1": (0, 1, b"c"), "PI": (9, 1, b"p"), "PO": (10, 1, b"o"), "CL": (8, 1, b"\x03\xe8")}


def run(ctx):
    from websocket._abnf import ABNF
    T = Tally()
    rng = random.Random(ctx.seed)
    # 1. all 65536 close codes: the implementation's verdict through validate() vs the RFC spec
    if ctx.spec:
        verdicts = ctx.spec.run_parallel([f"closecode {c}" for c in range(65536)])
        for c, v in enumerate(verdicts):
            stop = False
            for skip in (False, True):        # switching UTF-8 validation off must not switch the status-code check off
                fr = ABNF(1, 0, 0, 0, ABNF.OPCODE_CLOSE, 0, c.to_bytes(2, "big"))
                try:
                    fr.validate(skip)
                    got = "ok"
                except Exception as e:
                    got = exn_class(e)
                T.case(("code", c, skip), nontrivial=True, bucket="close-code")
                if (v == "L" and got != "ok") or (v == "I" and got != "Protocol"):
                    T.fail("spec", {"fn": "close-code", "code": c, "skip_utf8_validation": skip}, {"L": "accepted", "I": "Protocol"}[v], got,
                           {"site": "ABNF.validate", "cls": "close-code", "range": "legal" if v == "L" else "illegal", "skip": skip},
                           what=f"close status {c} (skip_utf8_validation={skip}): RFC verdict {v}, validate() -> {got}")
                    stop = True
                    break
            if stop:
                break
    # 2. single frames: every first byte x length class (x close bodies) through recv_frame
    cases = list(frame_cases(ctx.tier, rng))
    runs = []
    for fr in cases:
        sc, line, s = observe(fr, [], "rf", 2)
        runs.append((fr, sc, line))
    # close frames with every kind of reason also with per-fragment delivery on: that option concerns data frames only
    for r in REASONS:
        for code in (1000, 4999):
            fr = server_frame(8, code.to_bytes(2, "big") + r)
            sc, line, s = observe(fr, [], "rf", 2, fire=1)
            runs.append((fr, sc, line))
    if ctx.spec:
        spec = ctx.spec.run_parallel(["specseq 1 " + hx(r[0]) for r in runs])
        for (fr, sc, line), sp in zip(runs, spec):
            T.case(("frame", fr[:8], len(fr)), nontrivial=True, bucket="single-frame",
                   sample={"frame_prefix": fr[:6].hex(), "len": len(fr), "result": results_of(line)[:1]})
            judge_frames(T, "C05", {"stream": fr.hex()}, results_of(line), parse_specseq(sp))
    # 3. sequencing histories: every word over the alphabet up to length 4 (6 in thorough), via recv_data_frame
    L = 4 if ctx.tier == "quick" else 6
    words = [w for k in range(1, L + 1) for w in itertools.product(ALPHA, repeat=k)]
    if ctx.tier != "quick":
        words = [w for w in words if len(w) < 6 or hash(w) % 4 == 0]
    seqruns = []
    for w in words:
        frames = [ALPHA[a] for a in w]
        stream = b"".join(server_frame(op, p, fin=fin) for op, fin, p in frames)
        for fire in (0, 1):          # per-fragment delivery must not weaken the sequencing rules
            if fire and (ctx.tier == "quick" and len(w) == 4 and hash(w) % 3):
                continue
            sc, line, s = observe(stream, [], "rd1", len(w) + 1, fire=fire)
            seqruns.append((w, stream, sc, line, fire))
    if ctx.spec:
        spec = ctx.spec.run_parallel(["specseq 1 " + hx(r[1]) for r in seqruns])
        for (w, stream, sc, line, fire), spl in zip(seqruns, spec):
            sp = parse_specseq(spl)
            res = results_of(line)
            T.case(("seq", w, fire), nontrivial=len(w) > 1, bucket=f"history{len(w)}/fire{fire}", sample={"history": list(w), "fire": fire, "results": res[:5]})
            judge_seq(T, w, stream, sp, res, fire)
    if ctx.model:
        allr = [r[1] for r in runs] + [r[2] for r in seqruns]
        alll = [r[2] for r in runs] + [r[3] for r in seqruns]
        outs = ctx.model.run_parallel([wsrun.scenario_line(sc) for sc in allr])
        for sc, o, line in zip(allr, outs, alll):
            if wsrun.canon_model(o) != line:
                T.fail("corr", {"line": wsrun.scenario_line(sc)[:500]}, o[:300], line[:300], {"site": "wsrun"})
                break
        T.validated = len(outs)
    return T.result(
        "all 65536 close status codes (implementation validate() vs extracted Spec.close_code); single frames for all 256 "
        "first header bytes x payload lengths {0,1,2,3,125,126,127,300} x close bodies with 7 codes and 8 reasons of every "
        "UTF-8 validity class; every sequencing history over {T0,T1,B0,B1,C0,C1,ping,pong,close} up to length 4 (6); judged "
        "by the extracted RFC legality spec; whole line compared with the extracted model",
        exhaustive=False, what_is_proved="C05_sound/complete (+skip), C05_seq_reject, C05_seq_accept")


def judge_seq(T, w, stream, sp, res, fire=0):
    """recv_data_frame(True) results for a history: every frame up to the first sequencing violation is
    processed normally; the violating frame raises Protocol."""
    pub = {"history": list(w), "stream": stream.hex(), "fire": fire}
    ri = 0
    for i, a in enumerate(w):
        op, fin, p = ALPHA[a]
        if sp["seq"][i] == "0":
            if ri >= len(res) or res[ri] != "raise:Protocol":
                T.fail("spec", pub, f"raise:Protocol at frame {i} ({a})", str(res[ri:ri + 1]),
                       {"site": "recv_data_frame", "cls": "sequencing-accepted", "frame": a},
                       what="a frame that violates RFC 6455 5.4 sequencing was not rejected")
            return
        # accepted frame: produces a result only when something is returned to the caller
        returns = (op >= 8) or fin == 1 or bool(fire)
        if returns:
            if ri >= len(res) or not res[ri].startswith("ok:"):
                T.fail("spec", pub, f"a result for frame {i} ({a})", str(res[ri:ri + 1]),
                       {"site": "recv_data_frame", "cls": "legal-sequence-rejected", "frame": a},
                       what="a frame sequence RFC 6455 allows was not accepted")
                return
            ri += 1
            if op == 8:
                return


def search(ctx):
    r = run(ctx)
    return [f for f in r["failures"] if f["kind"] == "spec"][:1]


def replay(ctx, sc):
    from websocket._abnf import ABNF
    if sc.get("fn") == "close-code":
        c = sc["code"]
        v = ctx.spec.run([f"closecode {c}"])[0]
        try:
            ABNF(1, 0, 0, 0, 8, 0, c.to_bytes(2, "big")).validate(False)
            got = "ok"
        except Exception as e:
            got = exn_class(e)
        bad = (v == "L" and got != "ok") or (v == "I" and got != "Protocol")
        return {"code": c, "spec": v, "impl": got} if bad else None
    stream = bytes.fromhex(sc["stream"])
    sp = parse_specseq(ctx.spec.run(["specseq 1 " + hx(stream)])[0])
    T = Tally()
    if "history" in sc:
        _, line, _ = observe(stream, [], "rd1", sp["n"] + 1, fire=sc.get("fire", 0))
        judge_seq(T, sc["history"], stream, sp, results_of(line), sc.get("fire", 0))
    else:
        _, line, _ = observe(stream, [], "rf", sp["n"] + 1)
        judge_frames(T, "C05", sc, results_of(line), sp)
    return T.failures[0] if T.failures else None
