"""Runs a sequence of public API calls on a real WebSocket object over a scripted transport and
prints the same observation line as the OCaml driver's `wsrun` command (tie B for C02-C08, C17)."""
from corr.common import hx, digest, exn_class
from sim.sock import connected_ws


def scenario_line(sc):
    """sc = {fire, skip, script: [["D", hex] | ["T"] | ["R"]], keys: [hex], ops: [str]}"""
    script = ",".join(("D" + (e[1] or "-")) if e[0] == "D" else e[0] for e in sc["script"]) or "."
    keys = ",".join(sc.get("keys") or []) or "."
    ops = ",".join(sc["ops"]) or "."
    return f"wsrun {int(bool(sc.get('fire')))}{int(bool(sc.get('skip')))} {script} {keys} {ops}"


class Keys:
    def __init__(self, keys):
        self.keys = [bytes.fromhex(k) for k in keys]

    def __call__(self, n):
        if not self.keys:
            raise RuntimeError("scenario ran out of mask keys")
        return self.keys.pop(0)


def frame_obs(f):
    # a received frame's payload is always bytes (the RFC payload); anything else is reported as such
    if not isinstance(f.data, (bytes, bytearray)):
        return f"f{f.fin}{f.opcode}:{type(f.data).__name__}!" + digest(str(f.data).encode("utf-8"))
    return f"f{f.fin}{f.opcode}:{digest(f.data)}"


def run_impl(sc):
    import logging
    import websocket
    # trace logging on/off must not change anything observable (the trace calls format what was received)
    websocket.enableTrace(bool(sc.get("trace")), handler=logging.NullHandler())
    evs = [("D", bytes.fromhex(e[1])) if e[0] == "D" else (e[0],) for e in sc["script"]]
    ws, s = connected_ws(evs, fire_cont_frame=bool(sc.get("fire")), skip_utf8_validation=bool(sc.get("skip")),
                         get_mask_key=Keys(sc.get("keys") or []),
                         # the documented enable_multithread=False (no locking) must behave exactly like the default
                         **({"enable_multithread": False} if sc.get("nolock") else {}))
    obs = []
    rems = []
    marks = [len(s.log)]
    buffered = []
    conn_before = []
    for op in sc["ops"]:
        parts = op.split(":")
        conn_before.append(bool(ws.connected))
        try:
            buffered.append(sum(len(x) for x in ws.frame_buffer.recv_buffer))
        except Exception:
            buffered.append(-1)
        try:
            if op == "rf":
                obs.append("ok:" + frame_obs(ws.recv_frame()))
            elif op in ("rd0", "rd1"):
                o, f = ws.recv_data_frame(op == "rd1")
                obs.append(f"ok:{o}:{frame_obs(f)}")
            elif op in ("rv", "it"):
                if op == "it":
                    # `for message in ws` / next(): "iteration over websocket, implying sequential recv executions"
                    if not hasattr(s, "iterator"):
                        s.iterator = iter(ws)
                    try:
                        v = next(s.iterator)
                    except StopIteration:
                        obs.append("stop-iteration")
                        rems.append(sum(len(e[1]) for e in s.inbox if e[0] == "D"))
                        marks.append(len(s.log))
                        continue
                else:
                    v = ws.recv()
                if isinstance(v, str) and v == "" :
                    # "" is returned both for an empty text message and for non-data opcodes
                    obs.append("ok:E")
                elif isinstance(v, str):
                    obs.append("ok:t:" + digest(v.encode("utf-8")))
                else:
                    obs.append("ok:b:" + digest(v))
            elif op == "sh":
                ws.shutdown()
                obs.append("ok:none")
            elif parts[0] == "pi":
                ws.ping(bytes.fromhex(parts[1].replace("-", "")))
                obs.append("ok:none")
            elif parts[0] == "po":
                ws.pong(bytes.fromhex(parts[1].replace("-", "")))
                obs.append("ok:none")
            elif parts[0] == "sc":
                ws.send_close(int(parts[1]), bytes.fromhex(parts[2].replace("-", "")))
                obs.append("ok:none")
            elif parts[0] == "cl":
                ws.close(int(parts[1]), bytes.fromhex(parts[2].replace("-", "")))
                obs.append("ok:none")
            elif parts[0] == "sf":
                # one frame of the caller's own making (e.g. a FIN=0 fragment of a message streamed out piece by piece)
                from websocket import ABNF
                n = ws.send_frame(ABNF.create_frame(bytes.fromhex(parts[3].replace("-", "")), int(parts[1]), int(parts[2])))
                obs.append(f"ok:{n}")
            elif parts[0].startswith("s"):
                n = ws.send(bytes.fromhex(parts[1].replace("-", "")), int(parts[0][1:]))
                obs.append(f"ok:{n}")
            else:
                raise AssertionError(op)
        except BaseException as e:
            obs.append("raise:" + exn_class(e))
        rems.append(sum(len(e[1]) for e in s.inbox if e[0] == "D"))
        marks.append(len(s.log))
    s.rems = rems
    s.buffered = buffered
    s.conn_before = conn_before
    s.marks = marks
    s.ws = ws
    io = []
    for e in s.log[s.hs_mark:]:
        if e[0] == "r":
            io.append(f"r{e[1]}")
        elif e[0] == "w":
            io.append("w" + digest(e[1]))
        elif e[0] == "close":
            io.append("c")
        elif e[0] == "shutdown":
            io.append("h")
        elif e[0] == "settimeout":
            io.append("t")
    return ("|".join(obs) + f";conn={int(bool(ws.connected))};sock={int(ws.sock is not None)};io=" + ",".join(io)), s


def canon_model(line):
    """The model cannot tell an empty text message from the "" returned for other opcodes either way:
    map both spellings to ok:E."""
    return line.replace("ok:t:-", "ok:E").replace("ok:e:-", "ok:E")
