"""C18 — the URL alone determines target, port, resource and TLS; all addresses are tried."""
import itertools
import random

from corr.common import Tally, exn_class
from corr import connrun
from corr.validate_wrap import tally_from

HOSTS = [("example.com", "example.com"), ("EXAMPLE.Com", "example.com"), ("10.1.2.3", "10.1.2.3"), ("[::1]", "::1"),
         ("[2001:db8::7]", "2001:db8::7"), ("a-b.c1.test", "a-b.c1.test"), ("u:p@h.test", "h.test")]


def direct_cases(tier, rng):
    """(url, expected tuple | 'ValueError') straight from the property text."""
    ports = [None, 1, 79, 80, 81, 442, 443, 444, 8080, 65535]
    paths = ["", "/", "/chat", "/a/b", "/x;y", "/a;b/c"]
    queries = [None, "a=1", "a=1&b=2"]
    combos = list(itertools.product(("ws", "wss"), HOSTS, ports, paths, queries))
    rng.shuffle(combos)
    for scheme, (hurl, hname), port, path, q in combos[:600 if tier == "quick" else 20000]:
        url = f"{scheme}://{hurl}" + (f":{port}" if port else "") + path + (f"?{q}" if q else "")
        yield url, (hname, port or (80 if scheme == "ws" else 443), (path or "/") + (f"?{q}" if q else ""), scheme == "wss")
    for bad in ["example.com/path", "http://example.com/", "https://h/", "ws:/h/p", "ws:h", "ws:///p", "wss://:443/", "://h/", "WS://h/",
                "ftp://h/", "", "ws", "ws//h", "ws://@:80/p",
                # a foreign or empty scheme is refused whether or not a port is given
                "http://example.com:8080/r", "https://example.com:8443/chat", "://h:9000/", "tcp://[2001:db8::1]:65535/x", "wsx://h:80/", "w://h:443/"]:
        yield bad, "ValueError"
    yield "ws://h/path;", ("h", 80, "/path;", False)       # known finding: the trailing ';' is dropped


def run(ctx):
    from websocket._url import parse_url
    T = Tally()
    rng = random.Random(ctx.seed)
    # 1. the implementation against the property text, directly
    for url, want in direct_cases(ctx.tier, rng):
        try:
            got = parse_url(url)
        except Exception as e:
            got = type(e).__name__
        T.case(("direct", url), nontrivial=True, bucket="parse_url-direct", sample={"url": url, "result": str(got)})
        if got != want:
            shape = "path-ends-with-semicolon" if url.endswith(";") else "other"
            T.fail("spec", {"fn": "parse_url", "url": url}, str(want), str(got), {"site": "parse_url", "cls": "wrong-target", "shape": shape},
                   what=f"parse_url({url!r}) = {got}, the URL determines {want}")
    # 2. the hand-written model against the implementation (12932 generated cases evaluated by coqc)
    tally_from(T, "url_validate.py", [], "model-vs-impl(url,proxy)", "parse_url/_is_no_proxy_host/get_proxy_info", "C18_parse, C19_exempt, C19_decision")
    # 3. address fall-through: every outcome pattern over address lists of length 1..4, with socket options and timeout
    outcomes = ["A", "R", "U", "O13"]
    import base64
    from sim.sock import accept_for
    draw = bytes(range(16)).hex()
    ok = (b"HTTP/1.1 101 SP\r\nUpgrade: websocket\r\nConnection: Upgrade\r\nSec-WebSocket-Accept: " +
          accept_for(base64.b64encode(bytes.fromhex(draw))) + b"\r\n\r\n").hex()
    scs = []
    import socket as _so
    # caller options: none, an arbitrary one, and two whose option NUMBER collides with a default option of another level
    # (IP_TOS = TCP_NODELAY = 1, SO_DONTROUTE = TCP_KEEPINTVL = 5 on Linux): defaults are never dropped
    useropts = [[], [(1, 2, 3)], [(_so.IPPROTO_IP, _so.IP_TOS, 0xB8)], [(_so.SOL_SOCKET, _so.SO_DONTROUTE, 1)]]
    for n in range(1, 5):
        for pi_, pat in enumerate(itertools.product(outcomes, repeat=n)):
            sc_ = {"url": "ws://multi.test:8080/p", "rand": [draw], "net": [{"addrs": list(pat), "script": [["D", ok]]}],
                   "sockopt": useropts[(pi_ + n) % 4], "timeout": 7}
            if n >= 2:
                # dual-stack answers in the resolver's order (IPv6 first, mixed): the order is the resolver's, never re-sorted
                sc_["net"][0]["fams"] = [["6", "4", "6", "4"], ["6", "6", "4", "4"], ["4", "6", "4", "6"]][pi_ % 3][:n]
            scs.append(sc_)
    model = ctx.model.run_parallel([connrun.scenario_line(s) for s in scs]) if ctx.model else [None] * len(scs)
    for sc, mo in zip(scs, model):
        line, info = connrun.run_impl(sc)
        pat = sc["net"][0]["addrs"]
        T.case(("addrs", tuple(pat)), nontrivial=len(pat) > 1, bucket="address-fallthrough", sample={"addrs": pat, "line": line[:100]})
        # spec: attempts = prefix up to the first accept / other error
        k = next((i for i, a in enumerate(pat) if a in ("A", "O13")), len(pat) - 1)
        tried = info["net"].opened[0]
        pub = {"addrs": pat}
        if len(tried) != k + 1:
            T.fail("spec", pub, f"{k + 1} addresses tried", f"{len(tried)}", {"site": "_open_socket", "cls": "attempt-count"},
                   what="addresses must be tried in order until one accepts; refused/unreachable never abort while others remain")
            continue
        want_ok = pat[k] == "A"
        if line.startswith("ok;") != want_ok:
            T.fail("spec", pub, "connected" if want_ok else "raises", line[:80], {"site": "_open_socket", "cls": "outcome"})
        from websocket._socket import DEFAULT_SOCKET_OPTION
        for s in tried:
            ops = [o[0] for o in s.oplog]
            setopts = [tuple(o[1:]) for o in s.oplog if o[0] == "setsockopt"]
            want_opts = [tuple(o) for o in DEFAULT_SOCKET_OPTION] + [tuple(o) for o in sc["sockopt"]]
            before_connect = "connect" in ops and all(i < ops.index("connect") for i, o in enumerate(ops) if o in ("settimeout", "setsockopt"))
            if ops[:1] != ["create"] or ("settimeout", 7) not in s.oplog or setopts != want_opts or not before_connect:
                T.fail("spec", dict(pub, socket_index=s.index), "timeout, default and configured options applied to every socket tried, before connect",
                       str(s.oplog)[:260], {"site": "_open_socket", "cls": "socket-not-prepared", "first": s.index == 0},
                       what="a socket was tried without the timeout / default / configured socket options")
                break
            if s.outcome != "A" and s.closed < 1:
                T.fail("spec", pub, "failed sockets closed", str(s.oplog)[:200], {"site": "_open_socket", "cls": "failed-socket-not-closed"})
                break
        want_order = (getattr(info["net"], "resolved_addrs", [[]]) or [[]])[0][:len(tried)]
        got_order = [next((o[1][0] for o in s.oplog if o[0] == "connect"), None) for s in tried]
        if got_order != want_order:
            T.fail("spec", dict(pub, fams=sc["net"][0].get("fams")), f"addresses tried in the resolver's order {want_order}", str(got_order),
                   {"site": "_open_socket", "cls": "address-order"}, what="the addresses were not tried in the order the resolver returned them")
        if info["net"].resolved != [("multi.test", 8080)]:
            T.fail("spec", pub, "resolver asked for (multi.test, 8080)", str(info["net"].resolved), {"site": "connect", "cls": "resolver-target"})
        if mo is not None and mo != line:
            T.fail("corr", {"line": connrun.scenario_line(sc)[:500]}, mo[:300], line[:300], {"site": "wsconnect"})
    return T.result(
        "parse_url against the property text on 600 (20000) URLs over scheme x 7 host forms x 10 ports x 6 paths x 3 queries and 14 "
        "malformed forms; the verified model against the implementation on 12932 generated cases (url_validate.py: coqc vm_compute); "
        "every refused/unreachable/accept/other-error pattern over address lists of length 1..4 (340) with socket options and "
        "timeout, against the extracted model and the fall-through rule",
        what_is_proved="see Properties/C18.v")


def search(ctx):
    r = run(ctx)
    return [f for f in r["failures"] if f["kind"] == "spec"][:3]


def replay(ctx, sc):
    if sc.get("fn") == "parse_url":
        from websocket._url import parse_url
        try:
            got = parse_url(sc["url"])
        except Exception as e:
            got = type(e).__name__
        return {"url": sc["url"], "result": str(got)}
    return {"note": "rerun ./check C18 quick"}
