"""C16 — keepalive pings detect a silent peer in bounded time and never a responsive one (virtual time)."""
import random

from corr.common import Tally
from sim.appsim import run_app
from sim.sock import server_frame

SCALE = 8          # model ticks per second; all times are multiples of 1/8 s (exact in binary floating point)
H = 240.0          # the server closes the connection at H seconds if nothing happened before


def scenario(I, T, tie, pongs, datas, payload="kp"):
    evs = [[t, "D", server_frame(0xA, payload.encode()).hex()] for t in pongs] + \
          [[t, "D", server_frame(2, b"d").hex()] for t in datas] + [[H, "D", server_frame(8, b"\x03\xe8").hex()]]
    evs.sort(key=lambda e: e[0])
    cbs = {c: "ret" for c in ("on_open", "on_error", "on_close", "on_pong", "on_message")}
    return {"callbacks": cbs, "attempts": [{"events": evs}], "args": {"ping_interval": I, "ping_timeout": T, "ping_payload": payload},
            "tie": [tie]}


def observe(res):
    det = None
    for ev in res["trace"]:
        if ev[1] == "error" and ev[2] == "exc:TimedOut":
            det = ev[0]
            break
    s = res["sockets"][0] if res["sockets"] else {"frames": [], "write_times": []}
    pings = [t for (f, t) in zip(s["frames"], s["write_times"]) if f[0] == 9]
    payloads = [f[2] for f in s["frames"] if f[0] == 9]
    return det, pings, payloads


def model_req(I, T, tie, pongs, datas):
    arr = sorted([(t, "P") for t in pongs] + [(t, "D") for t in datas])
    a = ",".join(f"{int(round(t * SCALE))}:{k}" for t, k in arr) or "."
    return f"keepalive 0 {int(I * SCALE)} {int(T * SCALE)} {1 if tie == 'ping' else 0} {a} {int(H * SCALE)}"


def gen(tier, rng):
    pairs = []
    for T in (1.0, 2.0, 3.0):
        for I in (T + 0.125, T + 0.5, T + 1, 2 * T, 2 * T + 0.5, 3 * T + 1, 10.0):
            pairs.append((I, T))
    for (I, T) in pairs:
        npings = int(H // I) + 1
        ping_times = [k * I for k in range(2, npings + 2) if k * I < H]
        for tie in ("ping", "main"):
            # silent from the start
            yield (I, T, tie, [], [], "silent")
            # responsive with latency patterns below the timeout
            for lat in (0.125, T / 2, T):       # a pong cannot arrive before its ping has been sent
                yield (I, T, tie, [p + lat for p in ping_times], [], "responsive")
            # responsive plus data traffic at awkward moments
            datas = [p + T + 0.125 for p in ping_times[::2]] + [p - 0.125 for p in ping_times[1::3]]
            yield (I, T, tie, [p + T / 2 for p in ping_times], sorted(set(datas)), "responsive+data")
            # answers the first k pings, then silence
            for k in (1, 3):
                yield (I, T, tie, [p + 0.125 for p in ping_times[:k]], [], f"silent-after-{k}")
            # late pongs (above the timeout)
            yield (I, T, tie, [p + T + 0.125 for p in ping_times], [], "late")
            # responsive, plus one unsolicited pong late in an interval
            if I - T > 0.25:
                yield (I, T, tie, sorted([p + 0.125 for p in ping_times] + [ping_times[1] + T + 0.125]), [], "responsive+unsolicited")
    n = 40 if tier == "quick" else 1500
    for _ in range(n):
        I, T = rng.choice(pairs)
        ping_times = [k * I for k in range(2, int(H // I) + 2) if k * I < H]
        k = rng.randrange(0, len(ping_times))
        pongs = [p + rng.choice([0.125, T / 2, T]) for p in ping_times[:k]]
        datas = sorted({round(rng.randrange(1, int(H * 8)) / 8, 3) for _ in range(rng.randrange(0, 12))})
        yield (I, T, rng.choice(["ping", "main"]), pongs, datas, "random")


def run(ctx):
    T_ = Tally()
    rng = random.Random(ctx.seed)
    cases = list(gen(ctx.tier, rng))
    reqs = [model_req(I, T, tie, pongs, datas) for (I, T, tie, pongs, datas, kind) in cases]
    model = ctx.model.run_parallel(reqs) if ctx.model else [None] * len(cases)
    for (I, T, tie, pongs, datas, kind), mo in zip(cases, model):
        res = run_app(scenario(I, T, tie, pongs, datas))
        det, pings, payloads = observe(res)
        pub = {"I": I, "T": T, "tie": tie, "kind": kind, "pongs": pongs[:6], "datas": datas[:6]}
        T_.case((I, T, tie, kind, tuple(pongs[:8]), tuple(datas[:8])), nontrivial=True, bucket=kind,
                sample={"I": I, "T": T, "tie": tie, "kind": kind, "detected_at": det, "first_pings": pings[:3]})
        if res.get("stuck"):
            T_.fail("spec", pub, "run ends", res["stuck"][:200], {"site": "run_forever", "cls": "does-not-return"})
            continue
        # tie B: model vs implementation (detection time and ping times up to it)
        if mo is not None:
            mdet = mo.split(";")[0]
            mp = [int(x) for x in mo.split("pings=")[1].split(",") if x]
            want_det = "quiet" if det is None else f"detected:{int(round(det * SCALE))}"
            got_p = [int(round(t * SCALE)) for t in pings]
            lim = int(round(((det if det is not None else H) - I) * SCALE))     # ties at the very end are not compared
            if mdet != want_det or [x for x in got_p if x < lim] != [x for x in mp if x < lim]:
                T_.fail("corr", pub, mo[:200], f"{want_det};pings={got_p[:12]}", {"site": "keepalive"})
        # spec judgements
        if any(p != "6b70" for p in payloads):
            T_.fail("spec", pub, "every ping carries the configured payload", str(payloads[:3]), {"site": "_send_ping", "cls": "ping-payload"})
        expect_pings = [k * I for k in range(2, 400) if k * I < (det if det is not None else H)]
        if [round(t, 3) for t in pings[:len(expect_pings)]] != [round(t, 3) for t in expect_pings]:
            T_.fail("spec", pub, f"pings at 2I,3I,.. {expect_pings[:4]}", str(pings[:4]), {"site": "_send_ping", "cls": "ping-schedule"})
        if kind.startswith("responsive"):
            if det is not None:
                T_.fail("spec", pub, "a peer answering every ping within the timeout is never reported", f"reported at {det}",
                        {"site": "check", "cls": "false-alarm", "shape": kind},
                        what=f"I={I} T={T}: responsive peer ({kind}) reported as timed out at t={det}")
        if kind == "silent" or kind.startswith("silent-after"):
            k = 0 if kind == "silent" else int(kind.split("-")[-1])
            ping_times = [j * I for j in range(2, 400) if j * I < H]
            if k < len(ping_times):
                p = ping_times[k]
                if p + 2 * T < H and (det is None or det > p + 2 * T + 1e-9):
                    T_.fail("spec", pub, f"reported by {p + 2 * T}", f"reported at {det}",
                            {"site": "check", "cls": "late-detection", "shape": "I<=2T" if I <= 2 * T else "I>2T"},
                            what=f"I={I} T={T} tie={tie}: peer silent from the ping at t={p} reported at {det}, bound {p + 2 * T}")
    # argument validation: refused before connecting
    import websocket
    for I, T in [(1, 2), (2, 2), (0, -1), (-1, None), (3, 0), (0, 0), (5, 2), (0, 3), (2.5, 2)]:
        app = websocket.WebSocketApp("ws://sim.test/")
        bad = (T is not None and T <= 0) or (I is not None and I < 0) or bool(T and I and I <= T)
        res = run_app({"callbacks": {}, "attempts": [{"events": [[1, "EOF"]]}], "args": {"ping_interval": I, "ping_timeout": T}})
        refused = res["returns"] and str(res["returns"][0]).startswith("raise:WsGeneric") and not res["attempts"]
        T_.case(("args", I, T), bucket="args")
        if bool(refused) != bad:
            T_.fail("spec", {"I": I, "T": T}, "refused before connecting" if bad else "accepted", str(res["returns"]) + str(res["attempts"]),
                    {"site": "run_forever", "cls": "arg-check"})
        if ctx.model:
            m = ctx.model.run([f"pingargs {int(I * 8)} {'None' if T is None else int(T * 8)}"])[0]
            if (m == "1") != bad:
                T_.fail("corr", {"I": I, "T": T}, m, str(bad), {"site": "ping_args_rejected"})
    T_.validated = len(cases)
    return T_.result(
        "interval/timeout pairs T in {1,2,3} x I in {T+1/8, T+1/2, T+1, 2T, 2T+1/2, 3T+1, 10} x both tie orders x peer behaviours "
        "(silent, responsive with latencies 0, 1/8, T/2, T, responsive with data traffic, answering k pings then silent, late "
        "pongs, unsolicited pong) plus random schedules; real run_forever with its ping thread in virtual time; detection time "
        "and ping times compared with the extracted timed model; spec judgements on detection bound, false alarms, ping schedule "
        "and payload, argument validation",
        what_is_proved="see Properties/C16.v")


def search(ctx):
    r = run(ctx)
    return [f for f in r["failures"] if f["kind"] == "spec"][:3]


def replay(ctx, sc):
    return {"note": "rerun ./check C16 quick; scenario: " + str(sc)[:300]}
