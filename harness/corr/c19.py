"""C19 — proxying is decided by options, environment and no_proxy exactly as documented; CONNECT tunnel."""
import base64
import os
import random

from corr.common import Tally, exn_class, hx
from corr.validate_wrap import tally_from
from sim.fakenet import FakeNet
from sim.sock import accept_for


def direct_cases():
    """(host, no_proxy list, exempt?) from the property text."""
    L = [".example.com", "10.0.0.0/8", "192.168.1.7/32", "exact.test", "0.0.0.0/0x"]
    yield "example.com", [".example.com"], True
    yield "a.example.com", [".example.com"], True
    yield "badexample.com", [".example.com"], False
    yield "example.com.evil", [".example.com"], False
    yield "exact.test", ["exact.test"], True
    yield "sub.exact.test", ["exact.test"], False
    yield "anything", ["*"], True
    yield "10.9.8.7", ["10.0.0.0/8"], True
    yield "11.0.0.1", ["10.0.0.0/8"], False
    yield "192.168.1.7", ["192.168.1.7/32"], True
    yield "192.168.1.8", ["192.168.1.7/32"], False
    yield "1.2.3.4", ["0.0.0.0/0"], True
    for n in range(0, 33):
        net = (0xC0A84D05 & (0xFFFFFFFF << (32 - n))) & 0xFFFFFFFF        # 192.168.77.5 masked to n bits
        block = ".".join(str((net >> s) & 255) for s in (24, 16, 8, 0)) + f"/{n}"
        yield "192.168.77.5", [block], True
        outside = (net ^ (1 << (32 - n))) & 0xFFFFFFFF if n > 0 else None
        if outside is not None:
            yield ".".join(str((outside >> s) & 255) for s in (24, 16, 8, 0)), [block], False


def tunnel_run(sc):
    """connect through an HTTP proxy over the fake network; returns (result, bytes written to the proxy, dialled address)"""
    import websocket
    from websocket import _http
    draw = bytes(range(16))
    key = base64.b64encode(draw)
    ws_ok = (b"HTTP/1.1 101 SP\r\nUpgrade: websocket\r\nConnection: Upgrade\r\nSec-WebSocket-Accept: " + accept_for(key) + b"\r\n\r\n")
    reply = b"HTTP/1.1 %d X\r\n\r\n" % sc["status"]
    net = FakeNet([{"addrs": ["A"], "script": [("D", reply), ("D", ws_ok)]}])
    saved = (_http.socket, os.urandom, _http._ssl_socket)
    wrapped = []
    _http.socket = net
    os.urandom = lambda n: draw if n == 16 else saved[1](n)
    _http._ssl_socket = lambda sock, sslopt, hostname: (wrapped.append((len(sock.written), hostname)), sock)[1]
    ws = websocket.WebSocket()
    try:
        try:
            kw = dict(http_proxy_host="proxy.test", http_proxy_port=3128)
            if sc.get("auth"):
                kw["http_proxy_auth"] = sc["auth"]
            ws.connect(sc["url"], **kw)
            res = "ok"
        except Exception as e:
            res = "raise:" + exn_class(e)
    finally:
        _http.socket, os.urandom, _http._ssl_socket = saved
    s = net.all_socks()[0] if net.all_socks() else None
    return res, (bytes(s.written) if s else b""), net.resolved, wrapped


def redirect_run(first_exempt):
    """connect() to a host that answers with a redirect to a host of the OTHER exemption status: the proxy decision is
    taken per target.  Returns (result, [(host, port) resolved ...], [first bytes written on each connection])."""
    import websocket
    from websocket import _http
    draw = bytes(range(16))
    key = base64.b64encode(draw)
    ws_ok = (b"HTTP/1.1 101 SP\r\nUpgrade: websocket\r\nConnection: Upgrade\r\nSec-WebSocket-Accept: " + accept_for(key) + b"\r\n\r\n")
    ok200 = b"HTTP/1.1 200 X\r\n\r\n"
    first, second = ("inside.corp.test", "outside.test") if first_exempt else ("outside.test", "inside.corp.test")
    redir = b"HTTP/1.1 302 Found\r\nLocation: ws://" + second.encode() + b":8081/next\r\n\r\n"
    if first_exempt:
        conns = [{"addrs": ["A"], "script": [("D", redir)]}, {"addrs": ["A"], "script": [("D", ok200), ("D", ws_ok)]}]
    else:
        conns = [{"addrs": ["A"], "script": [("D", ok200), ("D", redir)]}, {"addrs": ["A"], "script": [("D", ws_ok)]}]
    net = FakeNet(conns)
    saved = (_http.socket, os.urandom)
    _http.socket = net
    os.urandom = lambda n: draw if n == 16 else saved[1](n)
    ws = websocket.WebSocket()
    try:
        try:
            ws.connect(f"ws://{first}:8080/start", http_proxy_host="proxy.test", http_proxy_port=3128, http_no_proxy=[".corp.test"])
            res = "ok"
        except Exception as e:
            res = "raise:" + exn_class(e)
    finally:
        _http.socket, os.urandom = saved
    return res, list(net.resolved), [bytes(s.written).split(b"\r\n")[0].decode("latin-1") for s in net.all_socks()]


def run(ctx):
    from websocket._url import _is_no_proxy_host, get_proxy_info
    T = Tally()
    saved_env = {k: os.environ.pop(k, None) for k in ("no_proxy", "NO_PROXY", "http_proxy", "HTTP_PROXY", "https_proxy", "HTTPS_PROXY")}
    try:
        # 1. exemption rule against the property text, every prefix length
        for host, lst, want in direct_cases():
            got = bool(_is_no_proxy_host(host, lst))
            T.case(("exempt", host, tuple(lst)), nontrivial=True, bucket="exempt-direct", sample={"host": host, "no_proxy": lst, "exempt": got})
            if got != want:
                T.fail("spec", {"fn": "is_no_proxy_host", "host": host, "no_proxy": lst}, str(want), str(got),
                       {"site": "_is_no_proxy_host", "cls": "exemption", "kind": "cidr" if "/" in lst[0] else "domain"},
                       what=f"_is_no_proxy_host({host!r}, {lst}) = {got}, documented rule says {want}")
        # 2. which environment variable is used
        for secure, var, other in ((False, "http_proxy", "https_proxy"), (True, "https_proxy", "http_proxy")):
            os.environ[other] = "http://wrong.test:1"
            got = get_proxy_info("t.test", secure)
            T.case(("envvar", secure, "other-only"), bucket="env-direct")
            if got[0] is not None:
                T.fail("spec", {"fn": "get_proxy_info", "secure": secure, "env": {other: "set"}}, "no proxy", str(got),
                       {"site": "get_proxy_info", "cls": "wrong-env-variable"})
            os.environ[var] = "http://right.test:8080"
            got = get_proxy_info("t.test", secure)
            T.case(("envvar", secure, "both"), bucket="env-direct")
            if got[0] != "right.test" or got[1] != 8080:
                T.fail("spec", {"fn": "get_proxy_info", "secure": secure}, "right.test:8080", str(got), {"site": "get_proxy_info", "cls": "wrong-env-variable"})
            got = get_proxy_info("t.test", secure, no_proxy=["t.test"])
            if got[0] is not None:
                T.fail("spec", {"fn": "get_proxy_info", "no_proxy": ["t.test"]}, "no proxy for an exempt host", str(got), {"site": "get_proxy_info", "cls": "exempt-ignored"})
            os.environ["no_proxy"] = "other.test"
            got = get_proxy_info("t.test", secure, no_proxy=["t.test"])
            if got[0] is not None:
                T.fail("spec", {"fn": "get_proxy_info"}, "option no_proxy takes precedence over the environment", str(got), {"site": "get_proxy_info", "cls": "no-proxy-precedence"})
            for k in ("http_proxy", "https_proxy", "no_proxy"):
                os.environ.pop(k, None)
    finally:
        for k, v in saved_env.items():
            if v is not None:
                os.environ[k] = v
    # 3. the verified model against the implementation (generated, evaluated by coqc)
    tally_from(T, "url_validate.py", [], "model-vs-impl(url,proxy)", "parse_url/_is_no_proxy_host/get_proxy_info", "C19_exempt, C19_decision")
    # 4. the CONNECT tunnel: first bytes, credentials, status gate, then TLS (wss) and the WebSocket handshake to the origin
    for url in ("ws://origin.test:8080/r", "wss://origin.test/s", "ws://origin.test/"):
        for auth in (None, ("user", "pw"), ("user", None), ("u:x", "p@ss"), ("svc-websocket@example.org", "t" * 64)):    # the last one exceeds one base64 line
            for status in (200, 201, 100, 301, 403, 407, 500):
                sc = {"url": url, "auth": auth, "status": status}
                res, written, resolved, wrapped = tunnel_run(sc)
                T.case(("tunnel", url, auth, status), nontrivial=True, bucket="tunnel", sample={"url": url, "auth": str(auth), "status": status, "result": res})
                secure = url.startswith("wss")
                host, port = "origin.test", (8080 if ":8080" in url else 443 if secure else 80)
                exp = f"CONNECT {host}:{port} HTTP/1.1\r\nHost: {host}:{port}\r\n"
                if auth and auth[0]:
                    cred = auth[0] + (":" + auth[1] if auth[1] else "")
                    exp += "Proxy-Authorization: Basic " + base64.b64encode(cred.encode()).decode() + "\r\n"
                exp += "\r\n"
                pub = {"url": url, "auth": auth, "status": status}
                if ctx.model:
                    m = ctx.model.run([f"tunnelreq {hx(host.encode())} {port} " + ("none none" if not (auth and auth[0]) else
                                       f"{hx(auth[0].encode())} {hx(auth[1].encode()) if auth[1] else 'none'}")])[0]
                    if bytes.fromhex(m.replace("-", "")) != exp.encode():
                        T.fail("corr", pub if False else {"url": url, "auth": auth}, exp, m, {"site": "tunnelreq"})
                if not written.startswith(exp.encode()):
                    T.fail("spec", pub, exp, written[:200].decode("latin-1"), {"site": "_tunnel", "cls": "connect-request"},
                           what="the first bytes sent to the proxy are not the documented CONNECT request")
                    continue
                rest = written[len(exp):]
                if resolved != [("proxy.test", 3128)]:
                    T.fail("spec", pub, "the proxy address is dialled", str(resolved), {"site": "connect", "cls": "dialled-address"})
                if status == 200:
                    if res != "ok" or not rest.startswith(b"GET ") or (b"Host: origin.test" not in rest):
                        T.fail("spec", pub, "handshake addressed to the origin goes through the tunnel", f"{res} {rest[:80]!r}",
                               {"site": "_tunnel", "cls": "handshake-after-tunnel"})
                    if secure and (len(wrapped) != 1 or wrapped[0][0] != len(exp) or wrapped[0][1] != "origin.test"):
                        T.fail("spec", pub, "TLS wrap right after the CONNECT exchange, for the origin's name", str(wrapped), {"site": "connect", "cls": "tls-after-tunnel"})
                    if not secure and wrapped:
                        T.fail("spec", pub, "no TLS for ws", str(wrapped), {"site": "connect", "cls": "tls-for-ws"})
                else:
                    if res != "raise:ProxyErr" or rest:
                        T.fail("spec", pub, "raise:ProxyErr and nothing further sent", f"{res} {rest[:60]!r}", {"site": "_tunnel", "cls": "status-gate", "status": status},
                               what="the client proceeds through the proxy only on a 200 reply")
    # 5. a redirect to a host of the other exemption status: the decision is taken again for the new target
    for first_exempt in (True, False):
        res, resolved, firsts = redirect_run(first_exempt)
        T.case(("redirect", first_exempt), nontrivial=True, bucket="redirect", sample={"first_exempt": first_exempt, "resolved": resolved, "first_lines": firsts})
        if first_exempt:
            want = ("ok", [("inside.corp.test", 8080), ("proxy.test", 3128)], ["GET /start HTTP/1.1", "CONNECT outside.test:8081 HTTP/1.1"])
        else:
            want = ("ok", [("proxy.test", 3128), ("inside.corp.test", 8081)], ["CONNECT outside.test:8080 HTTP/1.1", "GET /next HTTP/1.1"])
        if (res, resolved, firsts) != want:
            T.fail("spec", {"kind": "redirect", "first_exempt": first_exempt}, str(want), str((res, resolved, firsts)),
                   {"site": "connect", "cls": "proxy-decision-per-target", "first_exempt": first_exempt},
                   what="after a redirect the proxy decision must be taken for the new target (exempt hosts direct, others through the proxy)")
    return T.result(
        "exemption rule against the property text (look-alike suffixes, exact hosts, '*', CIDR blocks for every prefix length 0..32 "
        "inside/outside); environment variable selection and no_proxy precedence; the verified model against the implementation "
        "on 12932 generated cases (coqc vm_compute); CONNECT tunnel through a simulated proxy: 3 URLs x 4 credential forms x 7 reply "
        "statuses, first bytes compared with the documented request, status gate, TLS-after-tunnel ordering; redirects between an exempt and a "
        "non-exempt host in both directions (decision per target)",
        what_is_proved="see Properties/C19.v")


def search(ctx):
    r = run(ctx)
    return [f for f in r["failures"] if f["kind"] == "spec"][:3]


def replay(ctx, sc):
    if sc.get("fn") == "is_no_proxy_host":
        from websocket._url import _is_no_proxy_host
        return {"result": bool(_is_no_proxy_host(sc["host"], sc["no_proxy"]))}
    if sc.get("kind") == "redirect":
        return {"observed": str(redirect_run(sc["first_exempt"]))}
    return {"note": "rerun ./check C19 quick"}
