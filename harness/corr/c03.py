"""C03 — delivery is independent of transport segmentation and survives receive timeouts."""
import random

from corr.common import Tally, hx
from corr import wsrun
from corr.recvprops import (KEYS, parse_specseq, observe, results_of, writes_of, legal_stream, encode_frames,
                            random_schedule, all_partitions, script_of)
from sim.sock import server_frame, lcg_bytes, HandshakeSock


def curated_short_streams():
    """Streams of <= 10 bytes whose header, 16-bit length, mask key and payload can each be split."""
    out = [
        server_frame(1, b"Hi"), server_frame(2, b"\x00\xff\x10"), server_frame(9, b"p") + server_frame(1, b"x"),
        server_frame(1, b"a", fin=0) + server_frame(0, b"b"), server_frame(2, b"abc", mask=b"\x01\x02\x03\x04"),
        server_frame(8, b"\x03\xe8"), server_frame(10, b"") + server_frame(9, b"") + server_frame(2, b"z"),
        server_frame(2, b"") + server_frame(2, b"") + server_frame(1, b"ok"),
        server_frame(1, "é".encode(), fin=0) + server_frame(0, b""),
        server_frame(2, b"q", length_form=16) + server_frame(9, b"1"),
        server_frame(1, b"\xe2\x82", fin=0) + server_frame(0, b"\xac"),
        server_frame(3, b"x") + server_frame(1, b"y"),          # protocol error then a good frame
        server_frame(2, b"12345", mask=b"\xff\x00\xaa\x55")[:9],  # cut short: ends inside the payload
    ]
    return [s for s in out if len(s) <= 11]


def run_schedule(stream, sched, op, fire=0, skip=0):
    nops = stream.count(b"") and 0 or (len(stream) // 2 + sched.count("T") + 4)
    nops = min(nops, 400)
    sc, line, s = observe(stream, sched, op, nops, fire, skip)
    return sc, line, results_of(line), writes_of(line)


def handshake_segmentation(T, rng, n):
    """Frames in the same segment as the handshake response, and the response head split at every point."""
    import websocket
    for i in range(n):
        frames = encode_frames(legal_stream(rng, max_msgs=2, max_frags=2, max_ctl=1, lens=(0, 1, 5, 126)))
        ref = None
        for mode in range(4):
            if mode == 0:
                s = HandshakeSock([("D", frames)])
            elif mode == 1:
                s = HandshakeSock([("D", frames)], glue=True)
            elif mode == 2:
                s = HandshakeSock([("D", frames)], glue=True, head_chunks=[1] * 400)
            else:
                s = HandshakeSock([("D", frames)], glue=True, head_chunks=[rng.randrange(1, 40) for _ in range(50)])
            ws = websocket.WebSocket(get_mask_key=wsrun.Keys(list(KEYS)))
            obs = []
            try:
                ws.connect("ws://sim.test/", socket=s, suppress_origin=True)
                for _ in range(40):
                    try:
                        o, f = ws.recv_data_frame(True)
                        obs.append(f"ok:{o}:{wsrun.frame_obs(f)}")
                    except Exception as e:
                        from corr.common import exn_class
                        obs.append("raise:" + exn_class(e))
                        if obs[-1] == "raise:ConnClosed":
                            break
            except Exception as e:
                obs.append("connect-raise:" + type(e).__name__)
            T.case(("hs", frames[:20], mode), bucket="handshake+frames", sample=None)
            if ref is None:
                ref = obs
            elif obs != ref:
                T.fail("spec", {"kind": "handshake-segmentation", "frames": frames.hex(), "mode": mode}, str(ref)[:300],
                       str(obs)[:300], {"site": "connect+recv", "cls": "handshake-segmentation", "mode": min(mode, 2)},
                       what="frames arriving with / right after the handshake response are observed differently")
                break


def run(ctx):
    T = Tally()
    rng = random.Random(ctx.seed)
    model_reqs, model_expect = [], []

    def check(stream, scheds, op, fire=0, skip=0, spec=None, tag=""):
        ref = None
        for sched in scheds:
            sc, line, res, wr = run_schedule(stream, sched, op, fire, skip)
            T.case((stream[:32], tuple(sched[:40]), op), nontrivial=len(sched) > 0, bucket=tag,
                   sample={"stream": stream[:16].hex(), "schedule": sched[:12], "results": res[:3]})
            if len(model_reqs) < (4000 if ctx.tier == "quick" else 40000) and len(stream) < 5000:
                model_reqs.append(wsrun.scenario_line(sc))
                model_expect.append((sc, line))
            if ref is None:
                ref = (res, wr, sched)
            elif (res, wr) != ref[:2]:
                T.fail("spec", {"stream": stream.hex() if len(stream) < 3000 else None, "schedule_a": ref[2][:200],
                                "schedule_b": sched[:200], "op": op, "fire": fire, "skip": skip},
                       str(ref[:2])[:400], str((res, wr))[:400],
                       {"site": "recv", "cls": "segmentation-dependent", "op": op},
                       what="the same server bytes under two delivery schedules gave different observations")
                return
        return ref

    # 1. exhaustive partitions of short streams + every single-timeout position (+ double in thorough)
    for stream in curated_short_streams():
        n = len(stream)
        scheds = [[]]
        for part in all_partitions(n):
            scheds.append(list(part))
        bytewise = [1] * n
        for i in range(n + 1):
            scheds.append(bytewise[:i] + ["T"] + bytewise[i:])
            if ctx.tier == "thorough":
                for j in range(i, n + 1):
                    scheds.append(bytewise[:i] + ["T"] + bytewise[i:j] + ["T"] + bytewise[j:])
        for op in ("rd1", "rf"):
            check(stream, scheds, op, tag="exhaustive-short")
    # 2. random schedules of longer mixed streams
    nlong = 150 if ctx.tier == "quick" else 4000
    for i in range(nlong):
        frames = legal_stream(rng, lens=(0, 1, 2, 125, 126, 127, 300, 20000) if i % 10 else (0, 5, 65536, 40000))
        if i % 4 == 0:
            frames.insert(rng.randrange(len(frames) + 1), (rng.choice([3, 11, 1]), 1, b"bad"))
        stream = encode_frames(frames, rng, mask_some=(i % 3 == 0))
        if i % 6 == 0:
            stream = stream[:rng.randrange(len(stream) + 1)]
        scheds = [[]] + [random_schedule(rng, len(stream)) for _ in range(4)] + [[16384] * (len(stream) // 16384 + 1)]
        if len(stream) < 600:
            scheds.append([1] * len(stream))
        check(stream, scheds, rng.choice(["rd1", "rd0", "rv"]), fire=i % 5 == 0, skip=i % 7 == 0, tag="random-long")
    # 3. the handshake response itself
    handshake_segmentation(T, rng, 20 if ctx.tier == "quick" else 300)
    # 4. tie B: the same scenarios on the extracted model
    if ctx.model and model_reqs:
        outs = ctx.model.run_parallel(model_reqs)
        for (sc, line), o in zip(model_expect, outs):
            if wsrun.canon_model(o) != line:
                T.fail("corr", {"line": wsrun.scenario_line(sc)[:500]}, o[:300], line[:300], {"site": "wsrun"})
                break
        T.validated = len(outs)
    return T.result(
        "all 2^(n-1) partitions of 13 curated streams of <= 11 bytes (header / 16-bit length / mask key / payload each "
        "split), every single-timeout position in the bytewise delivery (every pair in thorough), random schedules "
        "(chunks 1..100000 and timeouts) of long mixed legal/illegal/truncated streams with control frames, fragmented "
        "and large messages, 16384-boundary chunking, and the handshake response split at every byte with frames glued to "
        "it; observations (results without timeouts + writes) must not depend on the schedule. non-trivial = schedule "
        "with at least one split or timeout; distinct = (stream, schedule, op)",
        what_is_proved="C03_segmentation / C03_resume / C03_progress: all streams x all chunkings x all timeout placements")


def search(ctx):
    r = run(ctx)
    return [f for f in r["failures"] if f["kind"] == "spec"][:1]


def replay(ctx, sc):
    if sc.get("kind") == "handshake-segmentation":
        return {"note": "rerun ./check C03 quick"}
    stream = bytes.fromhex(sc["stream"])
    a = run_schedule(stream, sc["schedule_a"], sc["op"], sc["fire"], sc["skip"])
    b = run_schedule(stream, sc["schedule_b"], sc["op"], sc["fire"], sc["skip"])
    return None if a[2:] == b[2:] else {"a": str(a[2:])[:300], "b": str(b[2:])[:300]}
