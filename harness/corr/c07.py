"""C07 — every ping is answered exactly once with a pong carrying the same payload, before reading on."""
import random

from corr.common import Tally, hx, digest
from corr import wsrun
from corr.recvprops import KEYS, parse_specseq, observe, results_of, legal_stream, encode_frames, pong_wire
from sim.sock import server_frame, lcg_bytes


def gen(tier, rng):
    # every ping payload length 0..125, alone
    for n in range(126):
        yield [(9, 1, lcg_bytes(n, n + 1))]
    # pings at every position of streams with messages / fragments / pongs
    for _ in range(1200 if tier == "quick" else 20000):
        frames = legal_stream(rng, max_msgs=3, max_frags=3, max_ctl=0, lens=(0, 1, 5, 126))
        k = rng.randrange(0, 5 if tier == "quick" else 7)
        for _ in range(k):
            pos = rng.randrange(len(frames) + 1)
            frames.insert(pos, (9, 1, lcg_bytes(rng.choice([0, 1, 2, 50, 125]), rng.randrange(1000))))
        if rng.random() < 0.5:
            frames.insert(rng.randrange(len(frames) + 1), (10, 1, b"unsolicited"))
        yield frames


def judge(T, frames, stream, control, line, s, pub):
    """Writes = one well-formed pong per ping, same payload, in order; each pong is written before any read
    issued after its ping's last byte."""
    io = line.split(";io=")[1].split(",")
    writes = [x for x in io if x.startswith("w")]
    pings = [f[2] for f in frames if f[0] == 9]
    want = ["w" + digest(pong_wire(p, KEYS[i])) for i, p in enumerate(pings)]
    if writes != want:
        T.fail("spec", pub, f"{len(want)} pongs {want[:3]}", f"{len(writes)} writes {writes[:3]}",
               {"site": "recv_data_frame", "cls": "pong-count-or-content", "control": control},
               what="writes during receive calls are not exactly one masked FIN pong per ping with the same payload, in order")
        return
    # ordering against reads: replay the log; the ping i ends at byte offset end_i; when the cumulative bytes
    # handed out reach end_i the next log entry must be the pong write
    ends, acc = [], 0
    for f in frames:
        acc += len(server_frame(f[0], f[2], fin=f[1]))
        if f[0] == 9:
            ends.append(acc)
    given, total, k = 0, len(stream), 0
    log = [e for e in s.log[s.hs_mark:] if e[0] in ("r", "w")]
    for idx, e in enumerate(log):
        if e[0] == "r":
            if k < len(ends) and given >= ends[k]:
                T.fail("spec", pub, f"pong {k} before the next read", f"read of {e[1]} bytes issued first",
                       {"site": "recv_data_frame", "cls": "pong-after-read", "control": control},
                       what="a read was issued after a ping had been fully received and before its pong was written")
                return
            given = min(total, given + e[1])
        else:
            k += 1


def pong_write_faults(T):
    """The write of the automatic pong fails (timeout, at once or after a short write): the receive call that consumed the ping must not
    go on reading as if the pong had left -- within that call nothing is read after the ping unless its complete pong was written.
    (Judged directly; the model has no write faults.)"""
    from sim.sock import connected_ws
    from corr.common import exn_class
    text, ping = server_frame(1, b"hello"), server_frame(9, b"are-you-there")
    f0, f1 = bytes([0x01, 2]) + b"ab", bytes([0x80, 2]) + b"cd"
    for stream_name, stream in (("ping,text", ping + text), ("frag,ping,cont", f0 + ping + f1), ("ping,ping,text", ping + ping + text)):
        for part in (0, 1, 6):
            for nth in ((1, 2) if stream_name == "ping,ping,text" else (1,)):
                for call in ("recv", "recv_data", "recv_data_frame(True)"):
                    ws, s = connected_ws([("D", stream)])
                    base = getattr(s, "send_calls", 0)
                    s.send_faults = {base + nth: (part, "timeout")}
                    s.settimeout(1.0)
                    for _ in range(4):          # the call in which the faulted write happens (control frames reported: one ping per call)
                        mark = len(s.log)
                        try:
                            r = {"recv": ws.recv, "recv_data": ws.recv_data, "recv_data_frame(True)": lambda: ws.recv_data_frame(True)}[call]()
                            res = "ok"
                        except Exception as e:
                            res = "raise:" + exn_class(e)
                        log = s.log[mark:]
                        fail_at = next((i for i, e in enumerate(log) if e[0] == "wfail"), None)
                        if fail_at is not None or res != "ok":
                            break
                    reads_after = [e for e in log[fail_at + 1:] if e[0] == "r"] if fail_at is not None else []
                    T.case(("pong-write-fault", stream_name, part, nth, call), nontrivial=True, bucket="pong-write-fault",
                           sample={"stream": stream_name, "bytes_before_fault": part, "call": call, "result": res})
                    if fail_at is None or reads_after:
                        T.fail("spec", {"kind": "pong-write-fault", "stream": stream_name, "part": part, "nth": nth, "call": call},
                               "the call stops at the failed pong write (nothing read after it)", f"result={res}, {len(reads_after)} transport reads after the failed write",
                               {"site": "recv_data_frame", "cls": "read-before-pong", "write_fault": True},
                               what="a receive call read further although the pong for the ping it had consumed was not written (its write timed out)")
                        return


def run(ctx):
    T = Tally()
    pong_write_faults(T)
    rng = random.Random(ctx.seed)
    runs = []
    for i, frames in enumerate(gen(ctx.tier, rng)):
        stream = encode_frames(frames)
        for control in (0, 1):
            trace = int(i % 4 == 1)
            sc, line, s = observe(stream, [], "rd1" if control else "rd0", len(frames) + 2, fire=i % 3 == 0, trace=trace)
            pub = {"stream": stream.hex() if len(stream) < 4000 else None, "control": control, "fire": int(i % 3 == 0), "trace": trace}
            np = sum(1 for f in frames if f[0] == 9)
            T.case((stream[:48], control), nontrivial=np > 0, bucket=f"pings{min(np, 5)}",
                   sample={"frames": [(f[0], f[1], len(f[2])) for f in frames][:8], "control": control})
            judge(T, frames, stream, control, line, s, pub)
            runs.append((sc, line))
    # a long run of pings swallowed inside ONE receive call (no bound on their number): all answered, the next message delivered
    long_keys = (KEYS * 25)[:1500]
    pings = [lcg_bytes(i % 126, i) for i in range(1400)]
    stream = encode_frames([(1, 1, b"before")] + [(9, 1, p_) for p_ in pings] + [(1, 1, b"after")])
    sc = {"fire": 0, "skip": 0, "script": [["D", stream.hex()]], "keys": long_keys, "ops": ["rd0", "rd0", "rd0"]}
    line, s_ = wsrun.run_impl(sc)
    T.case(("long-ping-run",), nontrivial=True, bucket="long-run", sample={"pings": len(pings), "line": line[:100]})
    writes = [x for x in line.split(";io=")[1].split(",") if x.startswith("w")]
    want = ["w" + digest(pong_wire(p_, long_keys[j])) for j, p_ in enumerate(pings)]
    res_ = line.split(";")[0].split("|")
    if writes != want or not res_[1].startswith("ok:1:"):
        T.fail("spec", {"kind": "long-ping-run", "pings": len(pings)}, f"{len(want)} pongs and the following message delivered",
               f"{len(writes)} writes, results {res_[:3]}", {"site": "recv_data_frame", "cls": "pong-count-or-content", "long_run": True},
               what="a long run of pings inside one receive call was not answered completely / the call failed")
    # pings that arrive while the application is in the middle of SENDING a fragmented message (it has written FIN=0 frames and not yet the
    # last one) are answered at once like any other: control frames may be injected in the middle of a fragmented message (judged directly)
    for i in range(12 if ctx.tier == "quick" else 120):
        pings = [lcg_bytes(rng.choice([0, 1, 7, 125]), rng.randrange(1000)) for _ in range(rng.randrange(1, 4))]
        frames = []
        for p_ in pings:
            if rng.random() < 0.5:
                frames.append((rng.choice([1, 2]), 1, b"data"))
            frames.append((9, 1, p_))
        frames.append((1, 1, b"end"))
        stream = encode_frames(frames)
        control = i % 2
        nfrag = 1 + i % 2
        ops = ["sf:1:0:" + (b"part%d" % k).hex() if k == 0 else "sf:0:0:" + (b"part%d" % k).hex() for k in range(nfrag)] + ["rd1" if control else "rd0"] * (len(frames) + 1)
        sc = {"fire": 0, "skip": 0, "script": [["D", stream.hex()]], "keys": KEYS, "ops": ops}
        line, s_ = wsrun.run_impl(sc)
        T.case(("mid-own-fragmented-send", stream[:48], control, nfrag), nontrivial=True, bucket="mid-own-fragmented-send", sample={"frames": [(f[0], len(f[2])) for f in frames], "line": line[:120]})
        writes = [x for x in line.split(";io=")[1].split(",") if x.startswith("w")]
        want = ["w" + digest(pong_wire(p_, KEYS[j + nfrag])) for j, p_ in enumerate(pings)]
        if writes[nfrag:] != want:
            T.fail("spec", {"kind": "mid-own-fragmented-send", "stream": stream.hex(), "control": control, "ops": ops}, f"{len(pings)} pongs", f"{len(writes) - nfrag} writes after the fragments: {line[:200]}",
                   {"site": "recv_data_frame", "cls": "pong-count-or-content", "mid_own_send": True},
                   what="a ping received while the application was in the middle of sending a fragmented message was not answered with its pong before the receive call went on")
            break
    # pings that arrive after the client's own send_close() and before the server's close frame are answered like any other
    for i in range(20 if ctx.tier == "quick" else 300):
        pings = [lcg_bytes(rng.choice([0, 1, 7, 125]), rng.randrange(1000)) for _ in range(rng.randrange(1, 4))]
        frames = []
        for p_ in pings:
            if rng.random() < 0.5:
                frames.append((2, 1, b"data"))
            frames.append((9, 1, p_))
        frames.append((8, 1, b"\x03\xe8"))
        stream = encode_frames(frames)
        control = i % 2
        sc = {"fire": 0, "skip": 0, "script": [["D", stream.hex()]], "keys": KEYS, "ops": ["sc:1000:-"] + ["rd1" if control else "rd0"] * (len(frames) + 1)}
        line, s_ = wsrun.run_impl(sc)
        T.case(("after-own-close", stream[:48], control), nontrivial=True, bucket="after-own-close", sample={"frames": [(f[0], len(f[2])) for f in frames], "line": line[:120]})
        io = line.split(";io=")[1].split(",")
        writes = [x for x in io if x.startswith("w")]
        from corr.recvprops import close_wire
        want = ["w" + digest(close_wire(1000, b"", KEYS[0]))] + ["w" + digest(pong_wire(p_, KEYS[j + 1])) for j, p_ in enumerate(pings)]
        if writes != want:
            T.fail("spec", {"kind": "after-own-close", "stream": stream.hex(), "control": control, "ops": sc["ops"]}, f"close frame then {len(pings)} pongs", f"{len(writes)} writes: {line[:200]}",
                   {"site": "recv_data_frame", "cls": "pong-count-or-content", "after_own_close": True},
                   what="a ping received after the client's own close frame (and before the server's) was not answered with its pong")
            break
        runs.append((sc, line))
    if ctx.model:
        outs = ctx.model.run_parallel([wsrun.scenario_line(sc) for sc, _ in runs])
        for (sc, line), o in zip(runs, outs):
            if wsrun.canon_model(o) != line:
                T.fail("corr", {"line": wsrun.scenario_line(sc)[:500]}, o[:300], line[:300], {"site": "wsrun"})
                break
        T.validated = len(outs)
    return T.result(
        "pong write faults (timeout at once / after 1 / after 6 bytes: the call stops at the failed write); every ping payload length 0..125; 0-4 (6) pings inserted at every kind of position (before, between, inside "
        "fragmented messages) of random legal streams with unsolicited pongs; with and without control-frame reporting, "
        "per-fragment mode on a third, trace logging on a quarter; writes compared byte for byte with the RFC encoding of the expected pongs (key "
        "from the scenario's key stream) and the interleaved transport log checked for 'pong before the next read'; whole "
        "line compared with the extracted model. non-trivial = at least one ping",
        what_is_proved="C07_pongs, C07_one_pong, C07_only_replies, C07_pong_wellformed")


def search(ctx):
    r = run(ctx)
    return [f for f in r["failures"] if f["kind"] == "spec"][:1]


def replay(ctx, sc):
    if sc.get("kind") == "pong-write-fault":
        T = Tally()
        pong_write_faults(T)
        return T.failures[0] if T.failures else None
    stream = bytes.fromhex(sc["stream"])
    if sc.get("kind") == "long-ping-run":
        return {"note": "rerun ./check C07 quick (the scenario is fixed: 1400 pings between two text messages)"}
    if sc.get("kind") == "mid-own-fragmented-send":
        line, s_ = wsrun.run_impl({"fire": 0, "skip": 0, "script": [["D", stream.hex()]], "keys": KEYS, "ops": sc["ops"]})
        sp = parse_specseq(ctx.spec.run(["specseq 1 " + hx(stream)])[0])
        nfrag = sum(1 for o in sc["ops"] if o.startswith("sf:"))
        writes = [x for x in line.split(";io=")[1].split(",") if x.startswith("w")]
        return None if len(writes) == nfrag + len(sp["pongs"]) else {"pongs_owed": len(sp["pongs"]), "writes": len(writes) - nfrag, "line": line[:200]}
    if sc.get("kind") == "after-own-close":
        line, s_ = wsrun.run_impl({"fire": 0, "skip": 0, "script": [["D", stream.hex()]], "keys": KEYS, "ops": sc["ops"]})
        sp = parse_specseq(ctx.spec.run(["specseq 1 " + hx(stream)])[0])
        writes = [x for x in line.split(";io=")[1].split(",") if x.startswith("w")]
        return None if len(writes) == 1 + len(sp["pongs"]) else {"pongs_owed": len(sp["pongs"]), "writes": len(writes) - 1, "line": line[:200]}
    sp = parse_specseq(ctx.spec.run(["specseq 1 " + hx(stream)])[0])
    frames = []
    for fr in sp["frames"]:
        pass
    # rebuild (op, fin, payload) from the stream with the spec decoder's boundaries is not needed: rerun & compare counts
    _, line, s = observe(stream, [], "rd1" if sc["control"] else "rd0", sp["n"] + 2, fire=sc.get("fire", 0), trace=sc.get("trace", 0))
    writes = [x for x in line.split(";io=")[1].split(",") if x.startswith("w")]
    return None if len(writes) == len(sp["pongs"]) else {"pongs_owed": len(sp["pongs"]), "writes": len(writes)}
