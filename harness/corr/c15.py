"""C15 — automatic reconnection restores service after loss and stops on request."""
from corr import c13


def run(ctx):
    return c13.run(ctx, "C15")


def search(ctx):
    return c13.search(ctx, "C15")


replay = c13.replay
