"""C01 — every frame written is a well-formed masked frame with exact payload (correspondence + search)."""
import logging
import os
import random

from corr.common import Tally, hx, digest, exn_class
from sim.sock import connected_ws, lcg_bytes

OPC = {"cont": 0, "text": 1, "binary": 2, "close": 8, "ping": 9, "pong": 10}
MODEL_MAX = 300         # the faithful big-integer masking model is quadratic: run it on small payloads only


class KeySource:
    """Recording key source."""

    def __init__(self, kind, rng):
        self.kind, self.rng, self.draws = kind, rng, []

    def __call__(self, n):
        if self.kind == "str":
            k = "".join(chr(self.rng.randrange(0x21, 0x7F)) for _ in range(n))
            self.draws.append(k.encode("latin-1"))
            return k
        k = bytes(self.rng.randrange(256) for _ in range(n))
        self.draws.append(k)
        return k


def do_send(sc, rng):
    """Run one scenario against the implementation.  Returns dict(wire, ret, draws, exc)."""
    import websocket
    from websocket._abnf import ABNF
    ks = KeySource("str" if sc["key"] == "str" else "bytes", rng)
    real_urandom = os.urandom
    websocket.enableTrace(bool(sc.get("trace")), handler=logging.NullHandler())
    try:
        if sc["key"] == "default":
            os.urandom = ks            # ABNF.__init__ binds os.urandom when the frame is created
        kw = {} if sc["key"] == "default" else {"get_mask_key": ks}
        if sc.get("via") == "create_connection":
            from sim.sock import HandshakeSock
            s = HandshakeSock([])
            ws = websocket.create_connection("ws://sim.test/", socket=s, suppress_origin=True, **kw)
            s.hs_mark = len(s.log)
        else:
            ws, s = connected_ws([], **kw)
        s.accept = list(sc["accept"]) if sc.get("accept") else None   # short writes apply to frames only
        if sc.get("dispatcher"):
            # the path every WebSocketApp connection takes: writes go through the dispatcher's send()
            from websocket._dispatcher import Dispatcher
            ws.dispatcher = Dispatcher(None, None)
        ks.draws.clear()               # the handshake key (16 bytes of os.urandom) is not a mask key
        mark = len(s.written)
        payload = sc["_payload"]
        if sc.get("bytearray") and isinstance(payload, bytes):
            payload = bytearray(payload)
        api = sc["api"]
        exc, ret = None, None
        try:
            if api == "send":
                ret = ws.send(payload, sc["op"])
            elif api == "send_default":
                ret = ws.send(payload)
            elif api == "send_binary":
                ret = ws.send_binary(payload)
            elif api == "send_bytes":
                ret = ws.send_bytes(payload)
            elif api == "send_text":
                ret = ws.send_text(payload)
            elif api == "ping":
                ret = ws.ping(payload)
            elif api == "pong":
                ret = ws.pong(payload)
            elif api == "send_close":
                ret = ws.send_close(sc["status"], payload)
            elif api == "close":
                s.inbox = []           # peer stays silent: EOF ends the wait at once
                ret = ws.close(sc["status"], payload)
            elif api == "send_frame":
                ret = ws.send_frame(ABNF.create_frame(payload, sc["op"], sc["fin"]))
            else:
                raise AssertionError(api)
        except Exception as e:
            exc = exn_class(e)
        return {"wire": bytes(s.written[mark:]), "ret": ret, "draws": list(ks.draws), "exc": exc,
                "nwrites": len([e for e in s.log[s.hs_mark:] if e[0] == "w"])}
    finally:
        os.urandom = real_urandom
        websocket.enableTrace(False, handler=logging.NullHandler())


def expected(sc):
    """(fin, opcode, payload bytes) the property names for this call; returns-length?"""
    p = sc["_payload"]
    pb = p.encode("utf-8") if isinstance(p, str) else bytes(p)
    api = sc["api"]
    if api == "send":
        return 1, sc["op"], pb, True
    if api in ("send_binary", "send_bytes"):
        return 1, 2, pb, True
    if api in ("send_text", "send_default"):
        return 1, 1, pb, True
    if api == "ping":
        return 1, 9, pb, False
    if api == "pong":
        return 1, 10, pb, False
    if api in ("send_close", "close"):
        st = sc["status"]
        return 1, 8, (st.to_bytes(2, "big") if 0 <= st < 65536 else b"") + pb, False
    if api == "send_frame":
        return sc["fin"], sc["op"], pb, True


def materialise(sc):
    if "text" in sc:
        sc["_payload"] = sc["text"]
    elif "lcg" in sc:
        sc["_payload"] = lcg_bytes(*sc["lcg"])
    else:
        sc["_payload"] = bytes.fromhex(sc["hex"])
    return sc


def scenarios(tier, rng):
    keys = ["default", "bytes", "str"]
    # every length in the boundary regions, all residues mod 4, every opcode that may carry it
    if tier == "quick":
        lengths = list(range(0, 301)) + list(range(65400, 65701, 7)) + [65534, 65535, 65536, 65537, 70000]
        lengths += [rng.randrange(1 << 20) for _ in range(12)]
    else:
        lengths = (list(range(0, 4001)) + list(range(4001, 65200, 37)) + list(range(65200, 65900)) + list(range(65900, 70001, 37))
                   + [rng.randrange(1 << 22) for _ in range(12)] + [1 << 20, (1 << 22) + 3])
    i = 0
    for n in lengths:
        i += 1
        ops = [0, 1, 2] if n > 125 else [0, 1, 2, 9, 10]
        op = ops[i % len(ops)]
        fin = (i // 3) % 2 if op in (0, 1, 2) else 1
        yield {"api": "send_frame", "op": op, "fin": fin, "lcg": [n, i], "key": keys[i % 3],
               "trace": i % 17 == 0, "bytearray": i % 5 == 0}
        if n <= 125 and i % 2 == 0:
            yield {"api": "ping" if i % 4 == 0 else "pong", "lcg": [n, i + 1], "key": keys[(i + 1) % 3]}
        if n <= 40 and i % 5 == 0:
            # str payloads of ping/pong are sent as their UTF-8 bytes
            yield {"api": "ping" if i % 2 else "pong", "text": "".join(chr(c) for c in ([0x68, 0xE9, 0x20AC, 0x1F600, 0x7A] * 8)[:n % 9]),
                   "key": keys[i % 3]}
        if n <= 123 and i % 3 == 0:
            yield {"api": "send_close" if i % 2 else "close", "status": [1000, 1001, 3000, 4999, 0, 65535][i % 6],
                   "lcg": [n, i + 2], "key": keys[(i + 2) % 3]}
        if i % 7 == 0:
            yield {"api": ["send", "send_binary", "send_bytes"][i % 3], "op": 2, "lcg": [n, i + 3],
                   "key": keys[i % 3], "bytearray": i % 2 == 0}
    # send(payload, opcode) with every opcode, 0 (continuation) included, and with the default opcode
    for n in (0, 1, 5, 125):
        for op in (0, 1, 2, 8, 9, 10):
            yield {"api": "send", "op": op, "lcg": [n, n + op + 11], "key": keys[(n + op) % 3]} if op != 1 else \
                  {"api": "send", "op": 1, "text": "t" * n, "key": keys[(n + op) % 3]}
        yield {"api": "send_default", "text": "d" * n, "key": "bytes"}
    # str payloads with every opcode: always sent as their UTF-8 bytes (continuation fragments of a text message are built this way)
    for t in ("Zoë", "€uro", "😀", "ascii", ""):
        for op in (0, 1, 2, 9, 10):
            for fin in ((0, 1) if op < 8 else (1,)):
                yield {"api": "send_frame", "op": op, "fin": fin, "text": t, "key": "bytes"}
        yield {"api": "send", "op": 2, "text": t, "key": "default"}
        yield {"api": "send", "op": 0, "text": t, "key": "str"}
    # the same calls on a connection made by create_connection(url, get_mask_key=..., ...) instead of WebSocket(...).connect()
    for n in (0, 3, 126):
        for k in ("bytes", "str", "default"):
            yield {"api": "send", "op": 2, "lcg": [n, n + 5], "key": k, "via": "create_connection"}
            yield {"api": "ping", "lcg": [min(n, 125), n + 6], "key": k, "via": "create_connection"}
    # short-write patterns
    for n in (1, 5, 126, 300):
        for pat in ([1] * 400, [2, 3, 1, 100], [1, 1000000], [7]):
            yield {"api": "send", "op": 2, "lcg": [n, n], "key": "bytes", "accept": pat}
            yield {"api": "send", "op": 2, "lcg": [n, n + 1], "key": "bytes", "accept": pat, "dispatcher": True}
    # Unicode text, BMP and astral, through send / send_text
    texts = ["", "a", "héllo", "€", "\U0001F600", "\U00010000\U0010FFFF", "a" * 125 + "é", "߿ࠀ￿", "ascii only"]
    for _ in range(40 if tier == "quick" else 2000):
        texts.append("".join(chr(rng.choice([rng.randrange(0x20, 0x7F), rng.randrange(0x80, 0x800),
                                                rng.randrange(0x800, 0xD800), rng.randrange(0xE000, 0x10000),
                                                rng.randrange(0x10000, 0x110000)]))
                             for _ in range(rng.randrange(0, 60))))
    for j, t in enumerate(texts):
        yield {"api": "send" if j % 2 else "send_text", "op": 1, "text": t, "key": keys[j % 3]}
    # out-of-range close statuses are refused before anything is written
    for st in (-1, 65536, 1 << 20):
        for api in ("send_close", "close"):
            yield {"api": api, "status": st, "hex": "", "key": "bytes"}


def judge(sc, got, spec_line, T, model_line=None):
    """Spec judgement of one implementation observation."""
    fin, op, pb, returns_len = expected(sc)
    pub = {k: v for k, v in sc.items() if not k.startswith("_")}
    sig_base = {"site": "WebSocket." + sc["api"], "op": op, "lenclass": 7 if len(pb) <= 125 else 16 if len(pb) <= 65535 else 64}
    if sc["api"] in ("send_close", "close") and not (0 <= sc["status"] < 65536):
        if got["exc"] != "ValueErr" or got["wire"]:
            T.fail("spec", pub, "ValueError and nothing written", f"exc={got['exc']} wire={got['wire'][:16].hex()}",
                   dict(sig_base, cls="status-range"))
        return
    if got["exc"]:
        T.fail("spec", pub, "a frame", f"raised {got['exc']}", dict(sig_base, cls="unexpected-exception"))
        return
    if len(got["draws"]) != 1 or len(got["draws"][0]) != 4:
        T.fail("spec", pub, "exactly one 4-byte key draw", f"draws={[d.hex() for d in got['draws']]}",
               dict(sig_base, cls="key-draws"))
        return
    key = got["draws"][0]
    want = f"F:{fin}:000:{op}:{key.hex()}:{digest(pb)}:0"
    if spec_line.startswith("#"):
        want = digest(got["wire"])      # spec_line is the digest of the canonical encoding
    if spec_line != want:
        T.fail("spec", pub, want, spec_line, dict(sig_base, cls="wire-format"),
               what=f"bytes written do not decode to the requested frame (first bytes {got['wire'][:14].hex()})")
    if returns_len and got["ret"] != len(got["wire"]):
        T.fail("spec", pub, f"return value {len(got['wire'])}", f"{got['ret']}", dict(sig_base, cls="return-value"))
    if model_line is not None:
        # model: ok:<ret>:<digest>:<nwrites>:<sizes>:<keysleft>
        mine = f"ok:{len(got['wire'])}:{digest(got['wire'])}:{got['nwrites']}"
        if not model_line.startswith(mine + ":"):
            T.fail("corr", pub, model_line, mine, dict(sig_base, cls="model"))


def cross_connection_keys(T):
    """Several connections in one process, each with its own key source, used alternately: every frame's key is the one
    just drawn from the source configured for ITS connection (nothing shared or cached between connections)."""
    import websocket
    apis = [("ping", lambda ws: ws.ping()), ("pong", lambda ws: ws.pong()), ("ping-p", lambda ws: ws.ping(b"x")),
            ("send-empty-bin", lambda ws: ws.send(b"", 2)), ("send-empty-text", lambda ws: ws.send("")), ("send", lambda ws: ws.send(b"abc", 2)),
            ("send_close", lambda ws: ws.send_close())]
    real_urandom = os.urandom
    for name, call in apis:
        ka, kb, kd = KeySource("bytes", random.Random(1)), KeySource("bytes", random.Random(2)), KeySource("bytes", random.Random(3))
        try:
            os.urandom = kd
            conns = [("custom-A", ka) + connected_ws([], get_mask_key=ka), ("default", kd) + connected_ws([]), ("custom-B", kb) + connected_ws([], get_mask_key=kb)]
            for _, ks, _, _ in conns:
                ks.draws.clear()
            order = [0, 1, 2, 1, 0, 1] if name != "send_close" else [0, 1, 2]
            for i in order:
                label, ks, ws, s = conns[i]
                mark, ndraw = len(s.written), len(ks.draws)
                call(ws)
                wire = bytes(s.written[mark:])
                drawn = ks.draws[ndraw:]
                T.case(("xconn", name, i, len(ks.draws)), nontrivial=True, bucket="cross-connection-keys")
                if len(drawn) != 1 or len(wire) < 6 or wire[2:6] != drawn[0]:
                    T.fail("spec", {"kind": "cross-connection", "api": name, "connection": label, "order": order},
                           "the 4-byte key just drawn from this connection's own source", f"drawn={[d.hex() for d in drawn]} wire={wire[:8].hex()}",
                           {"site": "WebSocket." + name.split("-")[0], "cls": "key-source", "cross_connection": True},
                           what="a frame was masked with a key that was not drawn from the key source configured for its connection")
                    return
        finally:
            os.urandom = real_urandom


def app_send_wrapper(T, ctx):
    """WebSocketApp.send / send_text / send_bytes are thin wrappers: the frame carries the opcode and payload the caller asked for"""
    import websocket
    from websocket._abnf import ABNF
    cases = [("send", (b"raw-bytes", ABNF.OPCODE_TEXT), 1, b"raw-bytes"), ("send", (bytearray(b"ba"), ABNF.OPCODE_TEXT), 1, b"ba"),
             ("send", ("text",), 1, b"text"), ("send", (b"\x00\x01", ABNF.OPCODE_BINARY), 2, b"\x00\x01"), ("send", ("Zo\u00eb", ABNF.OPCODE_TEXT), 1, "Zo\u00eb".encode()),
             ("send", (b"", ABNF.OPCODE_TEXT), 1, b""), ("send", (b"p", ABNF.OPCODE_PING), 9, b"p"), ("send_text", ("hello",), 1, b"hello"), ("send_bytes", (b"\xff\x00",), 2, b"\xff\x00")]
    for meth, args, want_op, want_payload in cases:
        ks = KeySource("bytes", random.Random(5))
        ws, s = connected_ws([], get_mask_key=ks)
        app = websocket.WebSocketApp("ws://sim.test/")
        app.sock = ws
        mark = len(s.written)
        try:
            getattr(app, meth)(*args)
            exc = None
        except Exception as e:
            exc = exn_class(e)
        wire = bytes(s.written[mark:])
        T.case(("app-wrapper", meth, str(args)[:30]), nontrivial=True, bucket="app-wrapper")
        if ctx.spec and not exc:
            f = ctx.spec.run(["decode " + hx(wire)])[0].split(":")
            ok = f[0] == "F" and f[1] == "1" and int(f[3]) == want_op and f[5] == digest(want_payload)
        else:
            ok = exc is None
        if not ok:
            T.fail("spec", {"kind": "app-wrapper", "method": meth, "args": str(args)}, f"FIN frame, opcode {want_op}, payload {want_payload!r}", f"exc={exc} wire={wire[:16].hex()}",
                   {"site": "WebSocketApp." + meth, "cls": "wire-format", "wrapper": True},
                   what="the WebSocketApp wrapper did not put the requested opcode / payload on the wire")
            return


def wouldblock_writes(T, ctx):
    """A transport that reports "would block" on writes (non-blocking / TLS socket with a timeout) while the peer reads slowly: the frame
    still reaches the wire whole and send() returns its length (real socketpair, small send buffer, a reader that stalls)."""
    import socket as so
    import threading
    import time
    import websocket

    class WB:
        def __init__(self, real):
            self.real = real

        def send(self, data):
            return self.real.send(data, so.MSG_DONTWAIT)        # BlockingIOError(EAGAIN) when the buffer is full

        def recv(self, n):
            return self.real.recv(n)

        def gettimeout(self):
            return 0.05

        def settimeout(self, t):
            pass

        def fileno(self):
            return self.real.fileno()

        def close(self):
            self.real.close()

        def shutdown(self, how=None):
            pass

    for size, stall in ((300000, 0.3), (70000, 0.15)):
        a, b = so.socketpair()
        a.setsockopt(so.SOL_SOCKET, so.SO_SNDBUF, 4096)
        got = bytearray()
        done = threading.Event()

        def reader():
            time.sleep(stall)                  # the peer stops reading for several send timeouts
            b.settimeout(2.0)
            try:
                while not done.is_set() or True:
                    chunk = b.recv(65536)
                    if not chunk:
                        break
                    got.extend(chunk)
            except OSError:
                pass
        ws = websocket.WebSocket(get_mask_key=lambda n: b"\x00" * n)
        ws.sock = WB(a)
        ws.connected = True
        out = {}

        def sender():
            try:
                out["ret"] = ws.send(lcg_bytes(size, 9), 2)
            except Exception as e:
                out["exc"] = exn_class(e)
        tr = threading.Thread(target=reader, daemon=True)
        ts = threading.Thread(target=sender, daemon=True)
        tr.start()
        ts.start()
        ts.join(8.0)
        hung = ts.is_alive()
        try:
            a.shutdown(so.SHUT_WR)
        except OSError:
            pass
        tr.join(3.0)
        a.close()
        b.close()
        want_len = 2 + 8 + 4 + size
        T.case(("wouldblock-write", size), nontrivial=True, bucket="wouldblock-write", sample={"size": size, "ret": out.get("ret"), "exc": out.get("exc"), "wire_bytes": len(got)})
        good = (not hung and out.get("ret") == want_len and len(got) == want_len and bytes(got[14:]) == lcg_bytes(size, 9) and got[0] == 0x82)
        if not good:
            T.fail("spec", {"kind": "wouldblock-write", "size": size}, f"send() returns {want_len} and the whole frame is on the wire",
                   f"hung={hung} ret={out.get('ret')} exc={out.get('exc')} wire={len(got)} bytes", {"site": "WebSocket.send", "cls": "wouldblock-write"},
                   what="under would-block writes with a slow reader the frame did not reach the wire whole")
            return


def run(ctx, only=None):
    T = Tally()
    rng = random.Random(ctx.seed)
    if only is None:
        cross_connection_keys(T)
        app_send_wrapper(T, ctx)
        wouldblock_writes(T, ctx)
    scs = [materialise(s) for s in (only if only is not None else scenarios(ctx.tier, rng))]
    gots = [do_send(s, random.Random(i * 7919 + ctx.seed)) for i, s in enumerate(scs)]
    spec_reqs, model_reqs, model_idx = [], [], []
    for i, (sc, got) in enumerate(zip(scs, gots)):
        w = got["wire"]
        fin, op, pb, _ = expected(sc)
        if "lcg" in sc and sc["api"] == "send_frame" and len(pb) > MODEL_MAX and len(got["draws"]) == 1:
            # large generated payload: compare with the spec's canonical encoding (decode . encode = id is
            # Proofs/FrameCodec.decode_encode), computed in OCaml from the same generator
            spec_reqs.append(f"specencode {fin} 0 0 0 {op} {hx(got['draws'][0])} L{sc['lcg'][0]},{sc['lcg'][1]}")
        else:
            spec_reqs.append(f"decode {hx(w)}")
        if len(pb) <= MODEL_MAX and got["draws"] and len(got["draws"]) == 1 and not got["exc"]:
            acc = ",".join(map(str, sc["accept"])) if sc.get("accept") else "."
            model_reqs.append(f"sendframe {fin} {op} {hx(pb)} {hx(got['draws'][0])} {acc}")
            model_idx.append(i)
    spec = ctx.spec.run_parallel(spec_reqs) if ctx.spec else [None] * len(scs)
    model = dict(zip(model_idx, ctx.model.run_parallel(model_reqs))) if ctx.model else {}
    for i, (sc, got) in enumerate(zip(scs, gots)):
        fin, op, pb, _ = expected(sc)
        pub = {k: v for k, v in sc.items() if not k.startswith("_")}
        T.case((sc["api"], op, fin, len(pb), sc["key"], bool(sc.get("trace")), tuple(sc.get("accept") or ())),
               nontrivial=True, bucket=f"{sc['api']}/len{7 if len(pb) <= 125 else 16 if len(pb) <= 65535 else 64}",
               sample={"scenario": pub, "wire_prefix": got["wire"][:10].hex(), "ret": got["ret"]})
        if spec[i] is not None:
            judge(sc, got, spec[i], T, model.get(i))
    T.validated = len(scs)
    return T.result(
        "API calls send/send_binary/send_bytes/send_text/ping/pong/send_close/close/send_frame over a simulated transport; "
        "quick: every payload length 0..300, 65400..65700 (step 7), 65534..65537, 70000 and random lengths < 2^20; "
        "thorough: every length 0..4000 and 65200..65900, every 37th length up to 70000, random lengths < 2^22; opcodes, FIN, three key sources, bytes/bytearray, "
        "trace on/off, short-write patterns, random Unicode text incl. astral planes, out-of-range close statuses. "
        "Each observation is decoded by the extracted RFC decoder (spec oracle) and, for payloads <= 300 bytes, compared "
        "with the extracted model. distinct = (api, opcode, fin, length, key kind, trace, accept pattern)",
        what_is_proved="C01_wellformed/C01_count_and_key/C01_mask_bigint/C01_length: for all payloads < 2^63 bytes the "
                       "regenerated ABNF.format output is the RFC canonical masked encoding, decodes back exactly, one key "
                       "per frame, return value = bytes written under any short-write pattern; bigint masking = cyclic xor")


def search(ctx):
    """Proof or tie broke: exhaustive small search of implementation vs spec decoder."""
    T = Tally()
    scs = []
    for n in list(range(0, 130)) + [65535, 65536]:
        for op in ([0, 1, 2, 8, 9, 10] if n <= 125 else [0, 1, 2]):
            for fin in (0, 1):
                if op >= 8 and fin == 0:
                    continue
                scs.append({"api": "send_frame", "op": op, "fin": fin, "lcg": [n, n + op], "key": "bytes"})
    scs = [materialise(s) for s in scs]
    gots = [do_send(s, random.Random(i)) for i, s in enumerate(scs)]
    spec = ctx.spec.run_parallel([f"decode {hx(g['wire'])}" for g in gots]) if ctx.spec else []
    for sc, got, sp in zip(scs, gots, spec):
        judge(sc, got, sp, T)
        if T.failures:
            break
    return T.failures[:1]


def replay(ctx, sc):
    T = Tally()
    if sc.get("kind") == "wouldblock-write":
        wouldblock_writes(T, ctx)
        return T.failures[0] if T.failures else None
    if sc.get("kind") == "app-wrapper":
        app_send_wrapper(T, ctx)
        return T.failures[0] if T.failures else None
    if sc.get("kind") == "cross-connection":
        cross_connection_keys(T)
        return T.failures[0] if T.failures else None
    sc = materialise(dict(sc))
    got = do_send(sc, random.Random(1))
    sp = ctx.spec.run([f"decode {hx(got['wire'])}"])[0]
    judge(sc, got, sp, T)
    return T.failures[0] if T.failures else None
