"""C13/C14/C15 shared runner: WebSocketApp in virtual time vs the extracted untimed model and the trace spec."""
import itertools
import random

from corr.common import Tally
from corr.appcommon import CBS, model_line, sim_scenario, impl_line, model_callbacks, close_body_legal
from sim.appsim import run_app

FR = {
    "text": ("F", 1, 1, b"hi".hex()), "bin": ("F", 2, 1, b"\x00\x01".hex()), "tfrag0": ("F", 1, 0, b"ab".hex()),
    "cont0": ("F", 0, 0, b"cd".hex()), "cont1": ("F", 0, 1, b"ef".hex()), "ping": ("F", 9, 1, b"pp".hex()),
    "pong": ("F", 10, 1, b"oo".hex()), "close": ("F", 8, 1, b"\x03\xe9bye".hex()), "close0": ("F", 8, 1, ""),
    "etext": ("F", 1, 1, ""), "utf": ("F", 1, 1, "é€".encode().hex()),
    "tsplit0": ("F", 1, 0, "5 €".encode()[:3].hex()), "tsplit1": ("F", 0, 1, ("5 €".encode()[3:] + b" only").hex()),
}
ENDS = [[FR["close"]], [FR["close0"]], [("BC",)], [("BR",)], [("BP",)], [("BY",)], [("T",)], [("O",), ("F", 8, 1, b"\x03\xe8".hex())], [("O",)]]
TRAFFIC = [[], [FR["text"]], [FR["bin"], FR["ping"]], [FR["tfrag0"], FR["ping"], FR["cont0"], FR["cont1"]], [FR["pong"], FR["utf"]],
           [FR["text"], FR["etext"], FR["bin"]], [FR["ping"], FR["pong"], FR["ping"]],
           [FR["tsplit0"], FR["ping"], FR["tsplit1"], FR["text"]]]       # a text message cut inside a multi-byte character


def gen(tier, rng, reconnect_values=(0,)):
    allret = {c: "ret" for c in CBS}
    # 1. every traffic pattern x every ending, all callbacks set and returning
    for tr in TRAFFIC:
        for end in ENDS:
            yield {"callbacks": dict(allret), "attempts": [{"evs": tr + end}]}
    # 2. subsets of callbacks
    n = 600 if tier == "quick" else 3000
    for _ in range(n):
        cbs = {c: "ret" for c in CBS if rng.random() < 0.6}
        tr = rng.choice(TRAFFIC) + rng.choice(TRAFFIC)
        skip = rng.random() < 0.2
        end = rng.choice(ENDS)
        if skip and end == [("BY",)]:
            end = [("BC",)]           # with validation off an ill-formed text is delivered, it ends nothing
        yield {"callbacks": cbs, "attempts": [{"evs": tr + end, "tls": True}], "skip": skip,
               "scheme": rng.choice(["ws", "wss"])}
    # 3. callbacks that raise / close / KeyboardInterrupt
    for cb in CBS:
        for mode in ("raise", "raise-closed", "close", "kbd"):
            if cb == "on_error" and mode != "kbd":
                continue
            if mode == "raise-closed" and cb in ("on_close", "on_reconnect"):
                continue
            for tr in (TRAFFIC[2], TRAFFIC[3], TRAFFIC[5]):
                for end in (ENDS[0], ENDS[2]):
                    cbs = dict(allret)
                    cbs[cb] = mode
                    yield {"callbacks": cbs, "attempts": [{"evs": tr + end}]}
                    if mode == "kbd" and tr is TRAFFIC[2] and cb != "on_error":     # (the simulated on_error never raises)
                        # the same with a reconnect interval set: an interrupt still ends the run (it is not a lost connection)
                        yield {"callbacks": cbs, "attempts": [{"evs": tr + end}, {"evs": [FR["text"], FR["close0"]]}], "reconnect": 2}
                    if tr is TRAFFIC[3]:
                        # the same with callbacks given as partial objects, callable instances, bound methods
                        form = ("partial", "object", "method")[(CBS.index(cb) + len(mode) + ENDS.index(end)) % 3]
                        yield {"callbacks": cbs, "attempts": [{"evs": tr + end}], "callback_form": form}
                    if mode in ("raise", "raise-closed") and cb != "on_error":
                        # a raising callback with NO on_error handler: the exception is logged and delivery continues
                        cbs2 = dict(cbs)
                        del cbs2["on_error"]
                        yield {"callbacks": cbs2, "attempts": [{"evs": tr + end}]}
    # 3b. close frames with every kind of body, validation on and off (off: an ill-formed reason is still a close frame)
    for body in (b"\x03\xe8", b"\x03\xe9" + "é€".encode(), b"\x0b\xb8ok", b"\x03\xe8\xff\xfe", b"\x03\xe8ab\xc3", b"\x03\xe8\xed\xa0\x80", b"\x03"):
        for skip in (False, True):
            for tr in (TRAFFIC[0], TRAFFIC[2]):
                yield {"callbacks": dict(allret), "attempts": [{"evs": tr + [("F", 8, 1, body.hex())]}], "skip": skip}
                yield {"callbacks": {"on_close": "ret"}, "attempts": [{"evs": tr + [("F", 8, 1, body.hex())]}], "skip": skip}
    # 4. refused / rejected, no reconnect
    for a in ({"refuse": True}, {"status": 404}, {"status": 500}, {"status": 403, "short_body": True}, {"unreachable": 113}, {"unreachable": 101}):
        yield {"callbacks": dict(allret), "attempts": [a]}
        yield {"callbacks": {"on_close": "ret"}, "attempts": [a]}


def gen_reconnect(tier, rng):
    allret = {c: "ret" for c in CBS}
    outcomes = [{"refuse": True}, {"unreachable": 113}, {"status": 503}, {"evs": [("BC",)]}, {"evs": [FR["text"], ("BR",)]}, {"evs": [FR["bin"], ("T",)]},
                {"evs": [FR["text"], FR["close"]]}, {"evs": [("BP",)]},
                # losses in the middle of a message and in the middle of a frame: nothing of them may survive into the next connection
                {"evs": [FR["tfrag0"], ("BC",)]}, {"evs": [FR["text"], ("P", "827e"), ("BR",)]}, {"evs": [("P", "81"), ("BC",)]},
                # a server close frame ends the run whatever its status code says (1012 service restart, 1013 try again later)
                {"evs": [("F", 8, 1, b"\x03\xf4restart".hex())]}, {"evs": [FR["text"], ("F", 8, 1, b"\x03\xf5".hex())]}]
    L = 3 if tier == "quick" else 5
    for k in range(1, L + 1):
        for seq in itertools.product(range(len(outcomes)), repeat=k):
            if tier != "quick" and k >= 4 and (hash(seq) % 5 or max(seq) >= 11):
                continue        # (the two close-code outcomes only in histories of up to three outcomes: keeps the thorough tier near half an hour)
            atts = [dict(outcomes[i]) for i in seq]
            # the run must end: finish with a connection that the server closes
            atts.append({"evs": [FR["text"], FR["close0"]]})
            for R in ((1, 3) if tier != "quick" else (2,)):
                for with_rc in (True, False):
                    cbs = dict(allret)
                    if not with_rc:
                        del cbs["on_reconnect"]
                    # the interval given as run_forever(reconnect=R), or (every 7th history) through websocket.setReconnect(R)
                    yield {"callbacks": cbs, "attempts": atts, "reconnect": R, "reconnect_via_setter": (sum(seq) + k) % 7 == 0,
                           "header_callable": (sum(seq) + k) % 5 == 0}
    # long outages: hundreds of consecutive failures (no bound on their number), then the server is back
    for n, kind in ((400, "refuse"), (700, "mixed"), (1100 if tier == "quick" else 3000, "lost")):
        fails = {"refuse": [{"refuse": True}], "mixed": [{"refuse": True}, {"status": 503}, {"evs": [("BC",)]}],
                 "lost": [{"evs": [FR["text"], ("BR",)]}, {"evs": [("BC",)]}]}[kind]
        atts = [dict(fails[i % len(fails)]) for i in range(n)] + [{"evs": [FR["text"], FR["close0"]]}]
        yield {"callbacks": dict(allret), "attempts": atts, "reconnect": 1}
    # user close() from a callback on the k-th connection ends the run
    for cb in ("on_open", "on_reconnect", "on_message"):
        cbs = dict(allret)
        cbs[cb] = "close"
        yield {"callbacks": cbs, "attempts": [{"evs": [("BC",)]}, {"evs": [FR["text"], FR["text"], ("BC",)]}, {"evs": [FR["close"]]}],
               "reconnect": 2}


def run_one(sc):
    sim = sim_scenario(sc)
    sim["closer"] = [t for (_, idx, t) in sim.pop("closer_rel") if idx == 0]
    res = run_app(sim)
    return res, impl_line(res)


def compare(ctx, T, scs, bucket):
    outs = ctx.model.run_parallel([model_line(sc) for sc in scs]) if ctx.model else [None] * len(scs)
    results = []
    for sc, mo in zip(scs, outs):
        if T.saturated("spec"):
            break
        res, il = run_one(sc)
        results.append((sc, res, il, mo))
        if res.get("spun"):
            T.fail("spec", {"scenario": model_line(sc), "sc": sc}, "every read at end of stream ends the attempt", "the library kept reading a transport that is at end of stream",
                   {"site": "connect", "cls": "spins-at-eof"}, what="run_forever does not return: a connection attempt spins at end of stream")
            continue
        if res.get("runaway"):
            T.fail("spec", {"scenario": model_line(sc), "sc": sc}, "the run ends once the scripted server has closed the last connection",
                   f"still opening connections after {len(res['attempts'])} attempts: {il[:160]}", {"site": "reconnect", "cls": "runaway-reconnect"},
                   what="the application kept reconnecting although the last scripted connection should have ended the run")
            continue
        T.case(model_line(sc), nontrivial=True, bucket=bucket, sample={"scenario": model_line(sc)[:200], "impl": il[:200]})
        if res.get("stuck"):
            T.fail("spec", sc, "run_forever returns", "stuck: " + res["stuck"][:200], {"site": "run_forever", "cls": "does-not-return"},
                   what="run_forever did not return in the simulation")
            continue
        if mo is not None and model_callbacks(mo, sc) != il:
            T.fail("corr", {"scenario": sc, "line": model_line(sc)}, model_callbacks(mo, sc)[:500], il[:500], {"site": "apprun"})
    T.validated += len(scs)
    return results


# ------------------------------------------------------------------ spec judgements on implementation traces
def stream_of(evs):
    from sim.sock import server_frame
    out = b""
    for e in evs:
        if e[0] == "F":
            out += server_frame(e[1], bytes.fromhex(e[3]), fin=e[2])
        else:
            break
    return out


def expected_callbacks(sc, items):
    """C13_trace's `expected`: callbacks for the RFC-level items, given which callbacks are set / raise."""
    cbs = sc["callbacks"]
    skip = bool(sc.get("skip"))
    err = ["err:Callback"] if cbs.get("on_error") else []

    def cb(name, ev):
        m = cbs.get(name)
        if m is None:
            return []
        return [ev] + (err if m in ("raise", "raise-closed") else [])
    out = cb("on_open", "open")
    for it in items:
        if it.startswith("M"):
            op, dg = it[1:].split(":", 1)
            kind = "t" if op == "1" and not skip else "b"
            out += cb("on_data", f"data:{dg}:{op}:1:{kind}") + cb("on_message", f"msg:{dg}:{kind}")
        elif it.startswith("P:"):
            out += cb("on_ping", "ping:" + it[2:])
        elif it.startswith("O:"):
            out += cb("on_pong", "pong:" + it[2:])
        else:
            break
    return out


def judge_c13(T, ctx, sc, res, il):
    a = sc["attempts"][0]
    if len(sc["attempts"]) != 1 or "evs" not in a or any(m in ("close", "kbd") for m in sc["callbacks"].values()):
        return
    if any(e[0] == "O" for e in a["evs"]):
        return
    stream = stream_of(a["evs"])
    if not ctx.spec:
        return
    from corr.common import hx
    items = [x for x in ctx.spec.run(["specitems " + hx(stream)])[0].split(",") if x]
    # cut at the first ill-formed text message when validation is on (the connection then ends with a payload error)
    want = expected_callbacks(sc, items)
    got = il.split(";")[0].split(",") if il.split(";")[0] else []
    if got[:len(want)] != want:
        T.fail("spec", {"scenario": model_line(sc), "sc": sc}, str(want)[:400], str(got)[:400], {"site": "run_forever", "cls": "callback-sequence"},
               what="callbacks are not 'on_open, then every message/ping/pong exactly once in the order sent'")
        return
    # what the client wrote while delivering: one pong per ping with its payload, in order, at most one close frame, nothing else
    # (the application's callbacks of these scenarios send nothing themselves)
    if not any(x.startswith("err:") for x in got) and res["sockets"]:
        frames_written = res["sockets"][0]["frames"]
        pongs = [f[2] for f in frames_written if f[0] == 10]
        pings_in = [bytes.fromhex(e[3]).hex() for e in a["evs"] if e[0] == "F" and e[1] == 9]
        others = [f for f in frames_written if f[0] not in (8, 9, 10)]      # (9: the client's own keepalive pings in scenarios that end by a ping timeout)
        ncl = sum(1 for f in frames_written if f[0] == 8)
        if pongs != pings_in[:len(pongs)] or len(pongs) < len([it for it in items if it.startswith("P:")]) or others or ncl > 1:
            T.fail("spec", {"scenario": model_line(sc), "sc": sc}, f"pongs {pings_in}, at most one close frame, nothing else",
                   f"pongs {pongs}, other frames {others[:3]}, close frames {ncl}", {"site": "run_forever", "cls": "frames-written"},
                   what="while delivering events the client must write exactly one pong per ping (same payload, in order) and nothing else")
            return
    # promptness: every callback fires at the arrival time of the frame that completes its item
    t = 0.0
    arrivals = []
    for e in a["evs"]:
        t += 1.0
        if e[0] != "F":
            break
        if e[1] in (9, 10) or (e[1] in (0, 1, 2) and e[2] == 1):
            arrivals.append(t)
    times = [ev[0] for ev in res["trace"] if ev[1] in ("data", "message", "ping", "pong")]
    names = [ev[1] for ev in res["trace"] if ev[1] in ("data", "message", "ping", "pong")]
    per_item = []
    i = 0
    for it in items:
        if it.startswith("C"):
            break
        k = sum(1 for n in (["on_data", "on_message"] if it.startswith("M") else ["on_ping"] if it.startswith("P") else ["on_pong"])
                if sc["callbacks"].get(n))
        per_item.append(times[i:i + k])
        i += k
    for ts, arr in zip(per_item, arrivals):
        if any(abs(x - arr) > 1e-9 for x in ts):
            T.fail("spec", {"scenario": model_line(sc), "sc": sc}, f"callbacks at arrival time {arr}", str(ts), {"site": "dispatcher", "cls": "late-delivery"},
                   what="an event was not delivered as soon as its bytes had arrived")
            return


def judge_c14(T, sc, res, il):
    cbs = sc["callbacks"]
    tr = il.split(";")[0].split(",") if il.split(";")[0] else []
    pub = {"scenario": model_line(sc), "sc": sc}
    if res.get("stuck"):
        return
    closes = [i for i, x in enumerate(tr) if x.startswith("close:")]
    if cbs.get("on_close"):
        if len(closes) != 1:
            T.fail("spec", pub, "on_close exactly once", f"{len(closes)} times: {tr}"[:300], {"site": "teardown", "cls": "on-close-count"})
            return
        after = tr[closes[0] + 1:]
        allowed = ["err:Callback"] if (cbs.get("on_close") in ("raise", "raise-closed") and cbs.get("on_error")) else []
        if after != allowed:
            shape = "on_close-raises-kbd" if cbs.get("on_close") == "kbd" else "other"
            T.fail("spec", pub, "on_close is the last callback", str(tr[closes[0]:])[:200], {"site": "teardown", "cls": "callback-after-on-close", "shape": shape},
                   what="a callback was invoked after on_close")
            return
    # return value: True exactly when an error (other than a callback's own exception) was reported
    if cbs.get("on_error") == "ret":
        reported = any(x.startswith("err:") and x != "err:Callback" for x in tr)
        ret = il.split(";ret=")[1].split(";")[0]
        if ret not in ("0", "1") or (ret == "1") != reported:
            T.fail("spec", pub, f"return value {reported}", ret, {"site": "run_forever", "cls": "return-value", "reported": reported},
                   what="run_forever's return value must be True exactly when an error was reported")
            return
    # close arguments
    last = sc["attempts"][-1]
    if cbs.get("on_close") and closes and "evs" in last:
        consumed_close = None
        for e in last["evs"]:
            if e[0] == "F" and e[1] == 8:
                consumed_close = e
                break
            if e[0] != "F":
                break
        c = tr[closes[0]].split(":")
        if consumed_close is not None and not close_body_legal(bytes.fromhex(consumed_close[3]), bool(sc.get("skip"))):
            consumed_close = None          # an illegal close frame is a protocol error, not "the close frame by which the server ended the connection"
            if c != ["close", "None", "None"]:
                T.fail("spec", pub, "on_close(None, None) after an illegal close frame", str(c), {"site": "teardown", "cls": "close-args"})
                return
        elif consumed_close is not None and not any(m in ("close", "kbd", "raise", "raise-closed") for m in cbs.values()) and len(sc["attempts"]) == 1 \
                and not any(e[0] in ("O",) for e in last["evs"]):
            body = bytes.fromhex(consumed_close[3])
            from corr.appcommon import reason_digest
            want = ["close", str(int.from_bytes(body[:2], "big")), reason_digest(body[2:])] if len(body) >= 2 else ["close", "None", "None"]
            if c != want and not any(x.startswith("err:") for x in tr[:closes[0]]):
                T.fail("spec", pub, str(want), str(c), {"site": "teardown", "cls": "close-args"})
                return
        elif consumed_close is None and c != ["close", "None", "None"]:
            T.fail("spec", pub, "on_close(None, None) when the run did not end by a server close frame", str(c), {"site": "teardown", "cls": "close-args"})
            return
    # clean: transports closed, ping thread gone, app.sock None
    if not res["app_sock_none"] or res["threads_alive_at_end"] or any(s["closed"] < 1 for s in res["sockets"] if s["frames"] or True if False):
        T.fail("spec", pub, "no socket, no live thread after run_forever", f"sock_none={res['app_sock_none']} alive={res['threads_alive_at_end']}",
               {"site": "teardown", "cls": "not-clean"})
        return
    est = [s for s, a in zip(res["sockets"], sc["attempts"]) if "evs" in a]
    if any(s["closed"] < 1 for s in est):
        T.fail("spec", pub, "every established transport released", str([s["closed"] for s in res["sockets"]]), {"site": "teardown", "cls": "transport-left-open"})


def ends_run(a):
    """an established connection on which the server's close frame arrives before any loss"""
    if "evs" not in a:
        return False
    for e in a["evs"]:
        if e[0] == "F" and e[1] == 8:
            return True
        if e[0] != "F":
            return False
    return False


def effective(sc):
    out = []
    for a in sc["attempts"]:
        out.append(a)
        if ends_run(a):
            break
    return out


def judge_c15(T, sc, res, il):
    R = sc.get("reconnect")
    if not R or res.get("stuck"):
        return
    sc = dict(sc, attempts=effective(sc))
    pub = {"scenario": model_line(sc), "sc": sc}
    tr = il.split(";")[0].split(",") if il.split(";")[0] else []
    n = len(sc["attempts"])
    ends_by_close_cb = any(m == "close" for m in sc["callbacks"].values())
    if not ends_by_close_cb:
        if len(res["attempts"]) != n:
            T.fail("spec", pub, f"{n} connection attempts", str(res["attempts"]), {"site": "reconnect", "cls": "attempt-count"},
                   what="after an abnormal loss attempts must repeat until one succeeds, and stop after a server close frame")
            return
        closes = [i for i, x in enumerate(tr) if x.startswith("close:")]
        if closes and closes[0] != len(tr) - 1:
            T.fail("spec", pub, "no on_close between reconnections", str(tr)[:300], {"site": "reconnect", "cls": "close-in-between"})
            return
    # a new attempt starts exactly `reconnect` seconds after the loss; never two live transports
    for i in range(1, len(res["attempts"])):
        prev = res["sockets"][i - 1]
        if prev["closed"] < 1:
            T.fail("spec", pub, "previous transport released before the next attempt", str(prev["closed"]), {"site": "reconnect", "cls": "two-live-transports"})
            return
    if res["max_live_ping_threads"] > 1:
        T.fail("spec", pub, "at most one ping thread", str(res["max_live_ping_threads"]), {"site": "reconnect", "cls": "two-ping-threads"})
    # on_reconnect / on_open on re-established connections
    want_ev = "reconnect" if sc["callbacks"].get("on_reconnect") else "open"
    est_after_first = sum(1 for a in sc["attempts"][1:] if "evs" in a)
    if sc["callbacks"].get("on_open") and not ends_by_close_cb:
        cnt = sum(1 for x in tr if x == want_ev) - (1 if want_ev == "open" and "evs" in sc["attempts"][0] else 0)
        if cnt != est_after_first:
            T.fail("spec", pub, f"{est_after_first} x {want_ev} for re-established connections", str(tr)[:300], {"site": "reconnect", "cls": "reconnect-callback"})


def judge_header_callable(T, sc, res):
    """a callable header option is evaluated before EVERY connection attempt: attempt k's request carries what call k returned"""
    if not sc.get("header_callable"):
        return
    seen = []
    for i, r in enumerate(res.get("requests", [])):
        if r:
            vals = [l.split(":", 1)[1].strip() for l in r.split("\r\n") if l.lower().startswith("x-attempt:")]
            seen.append((i + 1, vals))
    if any(vals != [str(k)] for k, vals in seen):
        T.fail("spec", {"scenario": model_line(sc), "sc": sc}, "request of attempt k carries X-Attempt: k", str(seen)[:200], {"site": "setSock", "cls": "callable-header-stale"},
               what="the callable `header` option was not evaluated afresh for a connection attempt")


def reconnect_times_ok(sc, res):
    """attempt k+1 starts exactly R after the end of attempt k (loss time)"""
    R = sc["reconnect"]
    t = 0.0
    exp = [0.0]
    for a in effective(sc)[:-1]:
        if "evs" in a:
            dur = float(len([e for e in a["evs"]]))     # events one second apart; the last one is the loss
        else:
            dur = 0.0
        t = t + dur + R
        exp.append(t)
    return exp


def run(ctx, which="C13"):
    T = Tally()
    rng = random.Random(ctx.seed)
    scs = list(gen(ctx.tier, rng))
    if which == "C15":
        scs = list(gen_reconnect(ctx.tier, rng))
    results = compare(ctx, T, scs, which)
    for sc, res, il, mo in results:
        if which == "C13":
            judge_c13(T, ctx, sc, res, il)
        if which == "C14":
            judge_c14(T, sc, res, il)
        if which == "C15":
            judge_c14(T, sc, res, il)
            judge_c15(T, sc, res, il)
            judge_header_callable(T, sc, res)
            if not res.get("stuck") and not any(m == "close" for m in sc["callbacks"].values()) \
                    and not any(e[0] == "T" for a in sc["attempts"] if "evs" in a for e in a["evs"]):
                exp = reconnect_times_ok(sc, res)
                if [round(x, 6) for x in res["attempts"]] != [round(x, 6) for x in exp]:
                    T.fail("spec", {"scenario": model_line(sc), "sc": sc}, f"attempts at {exp}", str(res["attempts"]), {"site": "reconnect", "cls": "reconnect-delay"},
                           what="a new attempt must start exactly `reconnect` seconds after the loss")
    if which == "C13":
        bursts(ctx, T)
    if which == "C14":
        second_runs(ctx, T, rng)
        failing_later_runs(ctx, T)
        multi_runs(ctx, T, rng)
        later_run_keepalive(ctx, T)
        closer_threads(ctx, T, rng)
    if which == "C15":
        external_dispatcher(ctx, T, rng)
        close_during_wait(ctx, T)
    return T.result(RULES[which], what_is_proved=f"see Properties/{which}.v",
                    trusted_extra=["virtual-time simulation of time/threading/selectors (harness/sim/vtime.py); real select(), TLS records and "
                                   "arbitrary-line preemption are not exercised"])


RULES = {
    "C13": "7 traffic patterns (text, binary, fragmented with control frames inside, pings, pongs, empty and multi-byte text) x 9 endings "
           "(close frame with/without body, end of stream, reset, protocol error, ill-formed text, ping timeout, second-thread close) with all "
           "callbacks set; 150 (3000) random subsets of callbacks with ws and wss (TLS-pending transport), validation on/off; every callback x "
           "{raise, close(), KeyboardInterrupt}, also given as partial objects / callable instances / bound methods; refused/rejected; bursts of several frames in one segment followed by silence on plain and "
           "TLS transports. Real run_forever in virtual time; callback trace compared with the extracted model, with the expected callbacks "
           "computed from the extracted Spec.items, and callback times with arrival times",
    "C14": "the same scenario families judged for: on_close exactly once and last, close arguments, return value, released transports and "
           "threads; plus second runs on the same object and close() from a second thread at 40 (400) virtual instants",
    "C15": "all sequences of 1..3 (5) connection outcomes {refused, rejected, end of stream, reset after traffic, ping timeout, server close, "
           "protocol error} followed by a connection the server closes, reconnect interval 2 (1, 3), with and without on_reconnect; close() "
           "from callbacks, and from a second thread during a connection / at the loss / during the reconnect wait (no attempt afterwards); built-in and simulated external dispatcher. Judged: attempt count and times, no on_close in between, one live "
           "transport / ping thread, on_reconnect vs on_open; compared with the extracted model",
}


def bursts(ctx, T):
    """several frames in ONE segment followed by silence: all callbacks at the segment's arrival time (plain and TLS)"""
    from sim.sock import server_frame
    burst = server_frame(1, b"one") + server_frame(9, b"p") + server_frame(2, b"\x02", fin=0) + server_frame(0, b"\x03") + server_frame(10, b"o") + server_frame(1, b"last")
    for tls, scheme in ((False, "ws"), (False, "wss"), (True, "wss")):      # TLS-pending bytes only exist on wss
        for prepared in (False, True):       # the library's own connection, or a connected (TLS) socket handed over via socket=
            sim = {"scheme": scheme, "callbacks": {c: "ret" for c in CBS}, "attempts": [{"events": [[1.0, "D", burst.hex()], [60.0, "D", server_frame(8, b"").hex()]], "tls": tls}],
                   "args": {}, "closer": [], "runs": 1, "prepared": prepared}
            res = run_app(sim)
            times = [ev[0] for ev in res["trace"] if ev[1] in ("data", "message", "ping", "pong")]
            T.case(("burst", tls, scheme, prepared), bucket="burst", sample={"scheme": scheme, "tls_pending": tls, "prepared_socket": prepared, "times": times})
            if len(times) != 8 or any(abs(t - 1.0) > 1e-9 for t in times):
                T.fail("spec", {"kind": "burst", "scheme": scheme, "tls_pending": tls, "prepared_socket": prepared}, "8 callbacks, all at t=1.0", str(times),
                       {"site": "dispatcher", "cls": "late-delivery", "tls": tls},
                       what="frames that arrived in one segment were not all delivered at once")


    # frames that arrive in the same TLS record as the 101 response (a server that greets at once): already decrypted when the loop starts
    greet = server_frame(1, b"hello") + server_frame(9, b"g") + server_frame(1, b"world")
    sim = {"scheme": "wss", "callbacks": {c: "ret" for c in CBS}, "attempts": [{"events": [[60.0, "D", server_frame(8, b"").hex()]], "tls": True, "glue": greet.hex()}],
           "args": {}, "closer": [], "runs": 1}
    res = run_app(sim)
    times = [ev[0] for ev in res["trace"] if ev[1] in ("data", "message", "ping", "pong")]
    T.case(("burst", "with-handshake-record"), bucket="burst", sample={"variant": "greeting in the handshake's TLS record", "times": times})
    if len(times) != 5 or any(abs(t - 0.0) > 1e-9 for t in times):
        T.fail("spec", {"kind": "burst2", "sim": sim}, "5 callbacks at t=0", str(times), {"site": "dispatcher", "cls": "late-delivery", "variant": "handshake-record"},
               what="frames decrypted together with the handshake response were not delivered until further traffic came")
    # the same for a frame larger than one read followed by small ones, and for a frame cut across two segments whose
    # second segment also carries the next frames: nothing may be left waiting in a user-space buffer
    big = server_frame(2, bytes(range(256)) * 80) + server_frame(1, b"after") + server_frame(9, b"pp")
    long_ = server_frame(1, b"a-message-of-some-length")
    tail = server_frame(9, b"q") + server_frame(1, b"last")
    variants = [("big-then-small", [[1.0, "D", big.hex()]], [1.0] * 5)]
    for cut in (1, 2, 3, 5, len(long_) - 1):
        variants.append((f"split-at-{cut}", [[1.0, "D", long_[:cut].hex()], [1.5, "D", (long_[cut:] + tail).hex()]], [1.5] * 5))
    for name, evs, want in variants:
        for tls, scheme in ((False, "ws"), (True, "wss")):
            sim = {"scheme": scheme, "callbacks": {c: "ret" for c in CBS}, "attempts": [{"events": evs + [[60.0, "D", server_frame(8, b"").hex()]], "tls": tls}],
                   "args": {}, "closer": [], "runs": 1}
            res = run_app(sim)
            times = [ev[0] for ev in res["trace"] if ev[1] in ("data", "message", "ping", "pong")]
            T.case(("burst", name, tls), bucket="burst", sample={"variant": name, "tls_pending": tls, "times": times})
            if len(times) != len(want) or any(abs(t - w_) > 1e-9 for t, w_ in zip(times, want)):
                T.fail("spec", {"kind": "burst2", "sim": sim}, f"{len(want)} callbacks at {want[0]}", str(times),
                       {"site": "dispatcher", "cls": "late-delivery", "variant": name.split("-at-")[0]},
                       what="frames whose bytes had all arrived were not delivered until further traffic came")
                break


def second_runs(ctx, T, rng):
    allret = {c: "ret" for c in CBS}
    from sim.sock import server_frame
    firsts = [[[1, "EOF"]], [[1, "D", server_frame(3, b"x").hex()]], [[1, "D", server_frame(8, b"\x03\xe8").hex()]], [[1, "R"]]]
    for ev1 in firsts:
        sim = {"callbacks": dict(allret), "attempts": [{"events": ev1}, {"events": [[1, "D", server_frame(1, b"again").hex()], [2, "D", server_frame(8, b"\x03\xe9ok").hex()]]}],
               "args": {}, "runs": 2}
        res = run_app(sim)
        T.case(("second-run", str(ev1)), bucket="second-run", sample={"first": str(ev1)[:60], "returns": res["returns"]})
        tr2 = [e for e in res["trace"]]
        idx = [i for i, e in enumerate(tr2) if e[1] == "returned"]
        ok = len(idx) == 2 and len(res["returns"]) == 2 and res["returns"][1] is False
        second = tr2[idx[0] + 1:idx[1]] if len(idx) == 2 else []
        names = [e[1] for e in second]
        if not ok or names != ["open", "data", "message", "close"] or second[-1][2:] != ["1001", "s:6f6b"]:
            T.fail("spec", {"kind": "second-run", "first": ev1}, "a clean second run: open, data, message, close(1001,'ok'), returns False",
                   f"{res['returns']} {second}"[:300], {"site": "run_forever", "cls": "second-run"},
                   what="the same WebSocketApp object could not be run again cleanly")


def failing_later_runs(ctx, T):
    """a run that connected and ended, then a run whose connection is refused / rejected, then a good one:
    every run ends with exactly one on_close and leaves the object reusable"""
    from sim.sock import server_frame
    allret = {c: "ret" for c in CBS}
    good = {"events": [[1, "D", server_frame(8, b"\x03\xe8bye").hex()]]}
    for bad in ({"refuse": True}, {"status": 503}):
        sim = {"callbacks": dict(allret), "attempts": [good, bad, {"events": [[1, "D", server_frame(8, b"\x03\xe9again").hex()]]}],
               "args": {}, "runs": 3}
        res = run_app(sim)
        idx = [i for i, e in enumerate(res["trace"]) if e[1] == "returned"]
        runs, start = [], 0
        for i in idx:
            runs.append([e[1] for e in res["trace"][start:i]])
            start = i + 1
        T.case(("later-run-fails", str(bad)), bucket="second-run", sample={"second": str(bad), "runs": runs, "returns": res["returns"]})
        want = [["open", "close"], ["error", "close"], ["open", "close"]]
        if runs != want or res["returns"] != [False, True, False] or not res["app_sock_none"]:
            T.fail("spec", {"kind": "later-run-fails", "second": str(bad)}, f"{want} returns [False, True, False]", f"{runs} {res['returns']}"[:300],
                   {"site": "run_forever", "cls": "second-run", "second_fails": True},
                   what="a run whose connection fails, on an object that was run before, must still end with on_close and leave the object reusable")


def closer_bad(res):
    names = [e[1] for e in res["trace"] if e[1] not in ("returned", "closer-calls-close")]
    nclose = sum(1 for s_ in res["sockets"] for f in s_["frames"] if f[0] == 8)
    return bool(res.get("stuck") or res["returns"] != [False] or names.count("close") != 1 or names[-1] != "close" or "error" in names
                or res["threads_alive_at_end"] or not res["app_sock_none"] or any(s["closed"] < 1 for s in res["sockets"]) or nclose > 1)


def closer_threads(ctx, T, rng):
    """close() from a second thread at many instants (before, at and between frame arrivals), both tie orders"""
    from sim.sock import server_frame
    allret = {c: "ret" for c in CBS}
    evs = [[1.0, "D", server_frame(1, b"a").hex()], [2.0, "D", server_frame(9, b"p").hex()], [3.0, "D", server_frame(2, b"b", fin=0).hex()],
           [4.0, "D", server_frame(0, b"c").hex()], [5.0, "D", server_frame(1, b"late").hex()]]
    n = 40 if ctx.tier == "quick" else 400
    for k in range(n):
        t = round(0.05 + k * (6.0 / n), 4)        # after run_forever has started
        for tie in (["closer"], ["main"]):
            for reply in (True, False):
                # ws:// uses Dispatcher, wss:// SSLDispatcher (with and without bytes pending inside the TLS object)
                scheme, tls = [("ws", False), ("wss", False), ("wss", True)][(k + (1 if reply else 0) + (2 if tie[0] == "main" else 0)) % 3]
                # the server's close reply, or a late message followed by the reply (traffic that wakes the loop while close() is in progress)
                tail = [[t + 0.25, "D", server_frame(8, b"\x03\xe8").hex()]] if reply else []
                if reply and k % 2:
                    # (a control frame: legal at any point of the stream, also inside the fragmented message of `evs`)
                    tail = [[t + 0.1, "D", server_frame(10, b"late-pong").hex()], [t + 0.6, "D", server_frame(8, b"\x03\xe8").hex()]]
                ev = list(evs) + tail
                ev.sort(key=lambda e: e[0])
                sim = {"scheme": scheme, "callbacks": dict(allret), "attempts": [{"events": ev, "tls": tls}], "args": {}, "closer": [t], "tie": tie, "runs": 1}
                res = run_app(sim)
                T.case(("closer", t, tie[0], reply, scheme, tls), bucket="second-thread-close", sample={"t": t, "tie": tie[0], "server_replies": reply, "scheme": scheme, "returns": res["returns"]})
                names = [e[1] for e in res["trace"] if e[1] not in ("returned", "closer-calls-close")]
                pub = {"kind": "closer", "sim": sim}
                nclose = sum(1 for s_ in res["sockets"] for f in s_["frames"] if f[0] == 8)
                if closer_bad(res):
                    T.fail("spec", pub, "returns False, one on_close last, no on_error, everything released, at most one close frame written",
                           f"{res['returns']} {names} stuck={res.get('stuck')} alive={res['threads_alive_at_end']} close_frames={nclose}"[:300],
                           {"site": "close-from-thread", "cls": "second-thread-close"},
                           what="close() from a second thread did not end the run cleanly")
                    return


def close_during_wait(ctx, T):
    """The application's own close() from a second thread at any point of a run with reconnect set -- during a connection, at the
    instant of a loss, in the middle of the wait for the next attempt, just before it: no connection attempt starts after it, and
    (built-in loop) the run returns with exactly one on_close.  Judged directly (the model's close() comes from callbacks)."""
    from sim.sock import server_frame
    allret = {c: "ret" for c in CBS}
    text, close = server_frame(1, b"one").hex(), server_frame(8, b"\x03\xe8").hex()
    firsts = {"eof": {"events": [[0.5, "D", text], [1.0, "EOF"]]}, "reset": {"events": [[0.5, "D", text], [1.0, "R"]]}, "refused": {"refuse": True},
              "rejected": {"status": 503}}
    second = {"events": [[0.5, "D", server_frame(1, b"two").hex()], [5.0, "D", close]]}
    for kind, first in firsts.items():
        lost = 1.0 if "events" in first else 0.0
        for R in (2, 3):
            for ext in (False, True):
                for t in (0.25, lost, lost + 0.125, lost + R / 2, lost + R - 0.125):
                    if t == 0.25 and lost == 0.0 or t <= 0:
                        continue
                    for tie in (["closer"], ["main"]):
                        sim = {"scheme": "ws", "callbacks": dict(allret), "attempts": [dict(first), dict(second), dict(second)], "args": {"reconnect": R},
                               "closer": [t], "tie": tie, "runs": 1, "custom_dispatcher": ext}
                        res = run_app(sim)
                        names = [e[1] for e in res["trace"] if e[1] not in ("returned", "closer-calls-close")]
                        tc = next((e[0] for e in res["trace"] if e[1] == "closer-calls-close"), None)
                        late = [a for a in res["attempts"] if tc is not None and a > tc + 1e-9]
                        T.case(("close-during-wait", kind, R, ext, t, tie[0]), nontrivial=True, bucket="close-during-reconnect-wait",
                               sample={"first": kind, "reconnect": R, "external": ext, "close_at": t, "attempts": res["attempts"], "callbacks": names})
                        pub = {"kind": "close-during-wait", "sim": sim}
                        if late:
                            T.fail("spec", pub, f"no connection attempt after the application's close() at t={tc}", f"attempts at {res['attempts']}, callbacks {names}",
                                   {"site": "reconnect", "cls": "attempt-after-user-close"},
                                   what=f"the application called close() at t={tc} (first connection: {kind}, reconnect={R}); a further connection attempt started at t={late[0]}")
                            return
                        if not ext and (res.get("stuck") or names.count("close") != 1 or names[-1] != "close" or res["threads_alive_at_end"]):
                            T.fail("spec", pub, "the run returns, one on_close, last", f"{res['returns']} {names} stuck={res.get('stuck')} alive={res['threads_alive_at_end']}"[:300],
                                   {"site": "reconnect", "cls": "close-during-wait-not-clean"},
                                   what="close() during a run with reconnect set did not end the run cleanly")
                            return


def multi_runs(ctx, T, rng):
    """several runs of ONE WebSocketApp object, each ended in its own way: on_close of every run gets that run's own close code and
    reason (None, None when the run did not end by a server close frame), nothing carried over from an earlier run"""
    from sim.sock import server_frame
    cbs = {c: "ret" for c in CBS}
    cbs["on_message"] = "close"          # a text message makes the application close the connection itself
    def ending(kind, i):
        code = 3000 + i
        reason = f"bye-{i}".encode()
        if kind == "srv-close-body":
            return {"events": [[1, "D", server_frame(8, code.to_bytes(2, "big") + reason).hex()]]}, [str(code), "s:" + reason.hex()]
        if kind == "srv-close-empty":
            return {"events": [[1, "D", server_frame(8, b"").hex()]]}, ["None", "None"]
        if kind == "eof":
            return {"events": [[1, "EOF"]]}, ["None", "None"]
        if kind == "reset":
            return {"events": [[1, "D", server_frame(2, b"x").hex()], [2, "R"]]}, ["None", "None"]
        if kind == "own-close":
            return {"events": [[1, "D", server_frame(1, b"please close").hex()]]}, ["None", "None"]
        return {"refuse": True}, ["None", "None"]
    kinds = ["srv-close-body", "srv-close-empty", "eof", "reset", "own-close", "refused"]
    seqs = [(a, b) for a in kinds for b in kinds]
    for _ in range(30 if ctx.tier == "quick" else 600):
        seqs.append(tuple(rng.choice(kinds) for _ in range(rng.choice([3, 4]))))
    for seq in seqs:
        atts, wants = zip(*[ending(k_, i) for i, k_ in enumerate(seq)])
        sim = {"callbacks": dict(cbs), "attempts": list(atts), "args": {}, "runs": len(seq)}
        res = run_app(sim)
        idx = [i for i, e in enumerate(res["trace"]) if e[1] == "returned"]
        runs, start = [], 0
        for i in idx:
            runs.append(res["trace"][start:i])
            start = i + 1
        got = [[e[2:] for e in r if e[1] == "close"] for r in runs]
        T.case(("multi-run", seq), nontrivial=True, bucket="second-run", sample={"endings": list(seq), "on_close_args": got})
        if len(runs) != len(seq) or got != [[w] for w in wants]:
            T.fail("spec", {"kind": "multi-run", "endings": list(seq)}, str([[w] for w in wants]), str(got)[:300],
                   {"site": "teardown", "cls": "close-args", "across_runs": True},
                   what="each run's on_close must report that run's own ending (code and reason of its close frame, else None, None)")
            return


def later_run_keepalive(ctx, T):
    """keepalive must work on EVERY run of an object, not only the first: a later run against a server that goes silent after the
    handshake must still end with the ping/pong timeout, on_error and on_close"""
    from sim.sock import server_frame
    allret = {c: "ret" for c in CBS}
    for first in ([[1, "D", server_frame(8, b"\x03\xe8").hex()]], [[1, "EOF"]], [[1, "D", server_frame(1, b"x").hex()], [20, "D", server_frame(8, b"").hex()]]):
        sim = {"callbacks": dict(allret), "attempts": [{"events": first}, {"events": []}, {"events": []}], "args": {"ping_interval": 4, "ping_timeout": 2}, "runs": 3}
        res = run_app(sim)
        idx = [i for i, e in enumerate(res["trace"]) if e[1] == "returned"]
        runs, start = [], 0
        for i in idx:
            runs.append([e[1:3] for e in res["trace"][start:i]])
            start = i + 1
        T.case(("later-run-keepalive", str(first)[:40]), nontrivial=True, bucket="second-run", sample={"first": str(first)[:60], "runs": str(runs)[:200], "returns": res["returns"]})
        ok = len(runs) == 3 and not res.get("stuck") and all(any(e[0] == "error" and e[1] == "exc:TimedOut" for e in r) and r[-1][0] == "close" for r in runs[1:]) \
            and res["returns"][1:] == [True, True]
        if not ok:
            T.fail("spec", {"kind": "later-run-keepalive", "sim": sim}, "runs 2 and 3 (silent server) end with the ping/pong timeout reported and on_close, returning True",
                   f"{res['returns']} stuck={res.get('stuck')} {str(runs)[:240]}", {"site": "ping-thread", "cls": "keepalive-dead-on-later-run"},
                   what="on a later run of the same object the keepalive did not detect a silent server")
            return


def external_dispatcher(ctx, T, rng):
    allret = {c: "ret" for c in CBS}
    from sim.sock import server_frame
    cases = [
        ([{"events": [[1, "D", server_frame(1, b"x").hex()], [2, "D", server_frame(8, b"\x03\xe8").hex()]]}], 0),
        ([{"events": [[1, "EOF"]]}, {"events": [[1, "D", server_frame(1, b"y").hex()], [2, "D", server_frame(8, b"").hex()]]}], 2),
        ([{"refuse": True}, {"events": [[1, "EOF"]]}, {"events": [[1, "D", server_frame(8, b"").hex()]]}], 3),   # with an external loop only ConnectionClosed is routed to the library
        # a loss, then attempts that fail (rejected, refused, unreachable), then the server is back: every failed attempt schedules the next one
        ([{"events": [[1, "D", server_frame(1, b"c1").hex()], [2, "EOF"]]}, {"status": 503}, {"events": [[1, "D", server_frame(1, b"c2").hex()], [2, "D", server_frame(8, b"").hex()]]}], 2),
        ([{"events": [[1, "EOF"]]}, {"refuse": True}, {"status": 500}, {"unreachable": 113}, {"events": [[1, "D", server_frame(8, b"\x03\xe8").hex()]]}], 1),
    ]
    for atts, R in cases:
        sim = {"callbacks": dict(allret), "attempts": atts, "args": ({"reconnect": R} if R else {}), "custom_dispatcher": True, "runs": 1}
        res = run_app(sim)
        names = [e[1] for e in res["trace"] if e[1] != "returned"]
        T.case(("external", len(atts), R), bucket="external-dispatcher", sample={"attempts": len(atts), "reconnect": R, "trace": names})
        pub = {"kind": "external-dispatcher", "attempts": len(atts), "reconnect": R}
        if res.get("stuck") or names.count("close") != 1 or names[-1] != "close" or len(res["attempts"]) != len(atts) \
                or any(s["closed"] < 1 for s, a in zip(res["sockets"], atts) if "events" in a):
            T.fail("spec", pub, f"{len(atts)} attempts, one on_close at the end, transports released",
                   f"attempts={res['attempts']} {names} stuck={res.get('stuck')}"[:300], {"site": "external-dispatcher", "cls": "external-dispatcher"})
        if R and len(res["attempts"]) > 1:
            gaps = [round(b - a, 6) for a, b in zip(res["attempts"], res["attempts"][1:])]
            if any(g < R - 1e-9 for g in gaps):
                T.fail("spec", pub, f"attempts at least {R}s apart", str(gaps), {"site": "external-dispatcher", "cls": "reconnect-delay"})


def search(ctx, which="C13"):
    r = run(ctx, which)
    return [f for f in r["failures"] if f["kind"] == "spec"][:3]


def replay(ctx, sc):
    """re-run one recorded scenario on the implementation and judge it again"""
    if sc.get("kind") == "later-run-keepalive":
        T = Tally()
        later_run_keepalive(ctx, T)
        return T.failures[0] if T.failures else None
    if sc.get("kind") == "close-during-wait":
        T = Tally()
        close_during_wait(ctx, T)
        return T.failures[0] if T.failures else None
    if sc.get("kind") in ("closer", "burst2") and "sim" in sc:
        res = run_app(sc["sim"])
        summary = {"returns": res["returns"], "trace": [[e[0], e[1]] for e in res["trace"]][:40], "stuck": res.get("stuck")}
        if sc["kind"] == "closer":
            return summary if closer_bad(res) else None
        times = [e[0] for e in res["trace"] if e[1] in ("data", "message", "ping", "pong")]
        first = min(e[0] for e in sc["sim"]["attempts"][0]["events"][:-1] if True)
        last_data = max(e[0] for e in sc["sim"]["attempts"][0]["events"][:-1])
        return summary if any(t > last_data + 1e-9 for t in times) or len(times) != 5 else None
    if "sc" not in sc:
        return {"note": "rerun the check; scenario: " + str(sc)[:300]}
    s_ = sc["sc"]
    res, il = run_one(s_)
    T = Tally()
    judge_c13(T, ctx, s_, res, il)
    judge_c14(T, s_, res, il)
    judge_c15(T, s_, res, il)
    if ctx.model:
        mo = ctx.model.run([model_line(s_)])[0]
        if model_callbacks(mo, s_) != il:
            T.fail("corr", {"scenario": model_line(s_)}, model_callbacks(mo, s_)[:300], il[:300], {"site": "apprun"})
    return T.failures[0] if T.failures else None
