"""C10 — the opening handshake request is well-formed and reflects URL and options."""
import base64
import itertools
import random

from corr.common import Tally, hx
from corr import connrun
from sim.sock import accept_for

DRAW = bytes(range(7, 23)).hex()


def good_response(draw_hex):
    key = base64.b64encode(bytes.fromhex(draw_hex))
    return (b"HTTP/1.1 101 SP\r\nUpgrade: websocket\r\nConnection: Upgrade\r\nSec-WebSocket-Accept: " + accept_for(key) +
            b"\r\nSec-WebSocket-Protocol: chat\r\n\r\n")


HOSTS = [("example.com", "example.com"), ("EXAMPLE.com", "example.com"), ("10.1.2.3", "10.1.2.3"), ("[::1]", "::1"),
         ("[2001:db8::7]", "2001:db8::7"), ("a-b.c1.test", "a-b.c1.test"), ("[fe80::1%25eth0]", "fe80::1%25eth0"),
         ("[::ffff:192.0.2.1]", "::ffff:192.0.2.1")]
PORTS = [None, 80, 443, 8080, 1, 65535, 81, 444]
PATHS = ["", "/", "/chat", "/a/b.c", "/x;y", "/p%20q"]
QUERIES = [None, "a=1", "a=1&b=2", "q"]
OPTSETS = [
    {}, {"host": "override.test:99"}, {"origin": "https://o.test"}, {"origin": None}, {"suppress_origin": True},
    {"subprotocols": ["chat"]}, {"subprotocols": ["chat", "superchat"]}, {"cookie": "c=1; d=2"},
    {"header": ["X-A: 1", "X-B: two words"]}, {"header": {"X-A": "1", "X-None": None, "X-C": "3"}}, {"header": []}, {"header": {}},
    {"connection": "keep-alive, Upgrade"}, {"host": ""}, {"cookie": ""},
    {"origin": "http://o", "subprotocols": ["chat"], "cookie": "k=v", "header": {"Authorization": "Bearer t"}, "connection": "Upgrade"},
    # the caller supplies the key and/or the version in a header dict: still one of each in the request
    {"header": {"Sec-WebSocket-Key": "AQIDBAUGBwgJCgsMDQ4PEA==", "X-A": "1"}}, {"header": {"Sec-WebSocket-Version": "13"}},
    {"header": {"X-B": "2", "Sec-WebSocket-Version": "13", "Sec-WebSocket-Key": "EA8ODQwLCgkIBwYFBAMCAQ=="}},
    # an explicit origin together with suppress_origin: no Origin header
    {"origin": "https://app.test", "suppress_origin": True}, {"origin": "https://app.test", "suppress_origin": True, "host": "h.override:81"},
    # repeated field names and names differing only in case are the caller's lines all the same
    {"header": ["X-Forwarded-For: a", "Via: v", "X-Forwarded-For: b"]}, {"header": {"X-Tag": "one", "x-tag": "two"}},
    {"header": ["Sec-WebSocket-Extensions: permessage-deflate", "X-Z: 1", "Sec-WebSocket-Extensions: x-custom"], "subprotocols": ["chat"]},
]


def gen(tier, rng):
    combos = list(itertools.product(("ws", "wss"), HOSTS, PORTS, PATHS, QUERIES))
    rng.shuffle(combos)
    n = 1200 if tier == "quick" else 20000
    for i, (scheme, (hurl, hname), port, path, q) in enumerate(combos[:n]):
        url = f"{scheme}://{hurl}" + (f":{port}" if port else "") + path + (f"?{q}" if q else "")
        yield {"url": url, "scheme": scheme, "host": hname, "port": port or (80 if scheme == "ws" else 443),
               "resource": (path or "/") + (f"?{q}" if q else ""), "opts": OPTSETS[i % len(OPTSETS)]}
    for o in OPTSETS:
        for scheme in ("ws", "wss"):
            yield {"url": f"{scheme}://h.test:8080/r", "scheme": scheme, "host": "h.test", "port": 8080, "resource": "/r", "opts": o}


def parse_spec(line):
    if line == "invalid":
        return None
    target, _, hs = line.partition(";")
    headers = []
    if hs:
        for kv in hs.split("|"):
            k, v = kv.split("=")
            headers.append((bytes.fromhex(k.replace("-", "")).decode(), bytes.fromhex(v.replace("-", "")).decode()))
    return bytes.fromhex(target).decode(), headers


def vals(headers, name):
    return [v for k, v in headers if k.lower() == name.lower()]


def judge(T, c, info, parsed, hostspec, pub):
    s = info["socks"][0]
    log = s.log
    if not log or log[0][0] != "w" or any(e[0] == "w" for e in log[1:] if e[0] == "w" and e is not log[0] and log.index(e) < [x[0] for x in log].index("r") if "r" in [x[0] for x in log]):
        T.fail("spec", pub, "exactly one write before the first read", str([e[0] for e in log[:5]]), {"site": "handshake", "cls": "write-count"})
        return
    nw_before_read = 0
    for e in log:
        if e[0] == "r":
            break
        if e[0] == "w":
            nw_before_read += 1
    if nw_before_read != 1:
        T.fail("spec", pub, "exactly one write before the first read", str(nw_before_read), {"site": "handshake", "cls": "write-count"})
        return
    if parsed is None:
        T.fail("spec", pub, "a syntactically valid HTTP/1.1 GET request ended by an empty line", info["requests"][0][:120].hex(),
               {"site": "handshake", "cls": "malformed-request"})
        return
    target, hs = parsed
    o = c["opts"]

    def want(name, expected, cls):
        got = vals(hs, name)
        if got != expected:
            T.fail("spec", pub, f"{name}: {expected}", str(got), {"site": "handshake", "cls": cls},
                   what=f"request header {name} is {got}, the URL and options call for {expected}")
            return False
        return True
    if target != c["resource"]:
        T.fail("spec", pub, f"target {c['resource']}", target, {"site": "handshake", "cls": "request-target"})
        return
    host_expected = o["host"] if o.get("host") else hostspec
    hostport = hostspec
    ok = (want("Host", [host_expected], "host-header") and want("Upgrade", ["websocket"], "upgrade-header")
          and want("Sec-WebSocket-Version", ["13"], "version-header")
          and want("Connection", [o["connection"] if o.get("connection") else "Upgrade"], "connection-header"))
    if not ok:
        return
    keys = vals(hs, "Sec-WebSocket-Key")
    own = o["header"].get("Sec-WebSocket-Key") if isinstance(o.get("header"), dict) else None
    if own is not None:
        if keys != [own]:
            T.fail("spec", pub, f"one Sec-WebSocket-Key, the one the caller supplied ({own})", str(keys), {"site": "handshake", "cls": "key-header"},
                   what=f"the caller's header dict supplies Sec-WebSocket-Key and the request carries {keys}")
            return
    elif len(keys) != 1 or len(keys[0]) != 24 or base64.b64decode(keys[0]) != bytes.fromhex(DRAW):
        T.fail("spec", pub, "one Sec-WebSocket-Key = base64 of the 16 random bytes drawn", str(keys), {"site": "handshake", "cls": "key-header"})
        return
    if o.get("suppress_origin"):
        exp_origin = []
    elif "origin" in o and o["origin"] is not None:
        exp_origin = [o["origin"]]
    else:
        exp_origin = [("https://" if c["scheme"] == "wss" else "http://") + hostport]
    if not want("Origin", exp_origin, "origin-header"):
        return
    if not want("Sec-WebSocket-Protocol", [",".join(o["subprotocols"])] if o.get("subprotocols") else [], "protocol-header"):
        return
    if not want("Cookie", [o["cookie"]] if o.get("cookie") else [], "cookie-header"):
        return
    h = o.get("header")
    custom = []
    if isinstance(h, list):
        custom = [tuple(x.split(": ", 1)) for x in h]
    elif isinstance(h, dict):
        custom = [(k, v) for k, v in h.items() if v is not None]
    names = {k.lower() for k, _ in custom} - {"sec-websocket-key", "sec-websocket-version"}
    sent = [(k, v) for k, v in hs if k.lower() in names]
    mine = [(k, v) for k, v in custom if k.lower() in names]
    if sent != mine:
        # every line the caller supplied, once, in the caller's order (a repeated field name is the caller's business: e.g. two
        # X-Forwarded-For lines, two extension offers)
        T.fail("spec", pub, f"custom header lines {mine}", str(sent), {"site": "handshake", "cls": "custom-header"},
               what=f"the caller's header lines {mine} appear in the request as {sent}")
        return
    if isinstance(h, dict) and any(v is None and vals(hs, k) for k, v in h.items()):
        T.fail("spec", pub, "None-valued headers skipped", str(hs), {"site": "handshake", "cls": "custom-header"})


def third_opinion(req):
    """Supporting only: the `websockets` package's sans-I/O server must accept the request."""
    try:
        from websockets.server import ServerProtocol
        from websockets.http11 import Request
    except Exception:
        return None
    try:
        p = ServerProtocol()
        p.receive_data(req)
        evs = p.events_received()
        if not evs or not isinstance(evs[0], Request):
            return False
        resp = p.accept(evs[0])
        return resp.status_code == 101
    except Exception:
        return False


def run(ctx):
    T = Tally()
    rng = random.Random(ctx.seed)
    cases = list(gen(ctx.tier, rng))
    scs = [{"url": c["url"], "rand": [DRAW], "prepared": [["D", good_response(DRAW).hex()]], "opts": c["opts"]} for c in cases]
    model = ctx.model.run_parallel([connrun.scenario_line(s) for s in scs]) if ctx.model else [None] * len(scs)
    runs = [connrun.run_impl(s) for s in scs]
    spec_req = ctx.spec.run_parallel([f"specrequest {hx(info['requests'][0]) if info['requests'] else '-'}" for _, info in runs]) if ctx.spec else None
    spec_host = ctx.spec.run_parallel([f"spechost {hx(c['host'].encode())} {c['port']}" for c in cases]) if ctx.spec else None
    third = {"accepted": 0, "rejected": 0, "unavailable": 0}
    for i, c in enumerate(cases):
        line, info = runs[i]
        pub = {"url": c["url"], "opts": {k: v for k, v in c["opts"].items()}}
        T.case((c["url"], str(sorted(c["opts"].items(), key=str))), nontrivial=bool(c["opts"]), bucket=c["scheme"],
               sample={"url": c["url"], "opts": str(c["opts"])[:120], "request_prefix": info["requests"][0][:60].decode("latin-1") if info["requests"] else None})
        if not info["requests"]:
            T.fail("spec", pub, "a request", line[:200], {"site": "handshake", "cls": "no-request"})
            continue
        if spec_req is not None:
            judge(T, c, info, parse_spec(spec_req[i]), bytes.fromhex(spec_host[i].replace("-", "")).decode(), pub)
        if i % 5 == 0:
            t3 = third_opinion(info["requests"][0])
            third["unavailable" if t3 is None else "accepted" if t3 else "rejected"] += 1
            if t3 is False and not any(k in c["opts"] for k in ("connection", "host")):
                T.fail("spec", pub, "accepted by an independent server implementation (websockets)", "rejected",
                       {"site": "handshake", "cls": "third-party-server-rejects"})
        if model[i] is not None and model[i] != line:
            T.fail("corr", {"line": connrun.scenario_line(scs[i])[:700]}, model[i][:400], line[:400], {"site": "wsconnect"})
    # trace logging must not change a byte of the request (whatever it masks or reformats in the log)
    for c in cases[:: max(1, len(cases) // 60)] + [{"url": "ws://h.test/", "opts": o} for o in OPTSETS]:
        sc0 = {"url": c["url"], "rand": [DRAW], "prepared": [["D", good_response(DRAW).hex()]], "opts": c["opts"]}
        r0 = connrun.run_impl(sc0)[1]["requests"]
        r1 = connrun.run_impl(dict(sc0, trace=1))[1]["requests"]
        T.case(("trace-invariance", c["url"], str(c["opts"])), nontrivial=True, bucket="trace-invariance")
        if r0 != r1:
            T.fail("spec", {"kind": "trace", "url": c["url"], "opts": {k: v for k, v in c["opts"].items()}}, (r0[0] if r0 else b"")[:300].decode("latin-1"),
                   (r1[0] if r1 else b"")[:300].decode("latin-1"), {"site": "handshake", "cls": "trace-changes-request"},
                   what="with trace logging enabled the request written differs from the one written without it")
            break
    # a redirect hop is an ordinary opening handshake to the new target: same request as a direct connection to it (apart from the key)
    def nokey(r):
        return b"\r\n".join(l for l in r.split(b"\r\n") if not l.lower().startswith(b"sec-websocket-key"))
    for first, target in (("ws://a.test/start", "wss://b.test/next?x=1"), ("wss://a.test/", "ws://b.test:8081/p"), ("ws://a.test/", "ws://a.test/other"),
                          ("ws://a.test/", "wss://[2001:db8::7]:8443/q")):
        for o in ({}, {"cookie": "c=1"}, {"origin": "https://o.test"}, {"header": ["X-A: 1"]}, {"subprotocols": ["chat"]}):
            redir = (b"HTTP/1.1 302 Found\r\nLocation: " + target.encode() + b"\r\n\r\n").hex()
            sc2 = {"url": first, "rand": [DRAW, DRAW], "opts": o, "fake_tls": True,
                   "net": [{"addrs": ["A"], "script": [["D", redir]]}, {"addrs": ["A"], "script": [["D", good_response(DRAW).hex()]]}]}
            sc1 = {"url": target, "rand": [DRAW], "opts": o, "fake_tls": True, "net": [{"addrs": ["A"], "script": [["D", good_response(DRAW).hex()]]}]}
            hop = connrun.run_impl(sc2)[1]["requests"]
            direct = connrun.run_impl(sc1)[1]["requests"]
            T.case(("redirect-hop", first, target, str(o)), nontrivial=True, bucket="redirect-hop")
            if len(hop) != 2 or len(direct) != 1 or nokey(hop[1]) != nokey(direct[0]):
                T.fail("spec", {"kind": "redirect-hop", "first": first, "target": target, "opts": o}, nokey(direct[0]).decode("latin-1")[:300] if direct else "a request",
                       (nokey(hop[1]).decode("latin-1")[:300] if len(hop) > 1 else str(len(hop)) + " requests"), {"site": "connect", "cls": "redirect-hop-request"},
                       what="the request sent to a redirect target differs from the request of a direct connection to that target")
                break
    # key freshness over successive connections (real os.urandom)
    import websocket
    from sim.sock import HandshakeSock
    seen = set()
    for _ in range(50):
        s = HandshakeSock([])
        ws = websocket.WebSocket()
        ws.connect("ws://sim.test/", socket=s)
        k = [l.split(b":", 1)[1].strip() for l in bytes(s.request).split(b"\r\n") if l.lower().startswith(b"sec-websocket-key")][0]
        T.case(("fresh", k), bucket="key-freshness")
        if k in seen or len(base64.b64decode(k)) != 16:
            T.fail("spec", {"key": k.decode()}, "a fresh 16-byte key per connection", "repeated or malformed",
                   {"site": "handshake", "cls": "key-not-fresh"})
        seen.add(k)
    # the same option objects reused for successive connections (reconnect loops do this): still a fresh key each time
    import copy
    combos = [(h, c, sp) for h in ({"X-App": "1"}, ["X-App: 1"], None) for c in (None, "sid=42") for sp in (None,)]
    for hdr0, cookie, subs in combos:
        hdr = copy.deepcopy(hdr0)
        seen2 = set()
        reqs = []
        for _ in range(3):
            s = HandshakeSock([])
            ws = websocket.WebSocket()
            kw = {"header": hdr} if hdr is not None else {}
            if cookie:
                kw["cookie"] = cookie
            if subs:
                kw["subprotocols"] = subs
            ws.connect("ws://sim.test/", socket=s, **kw)
            reqs.append(b"\r\n".join(l for l in bytes(s.request).split(b"\r\n") if not l.lower().startswith(b"sec-websocket-key")))
            if len(reqs) > 1 and reqs[-1] != reqs[0]:
                T.fail("spec", {"header_option": str(hdr0), "cookie": cookie, "subprotocols": subs, "connection": len(reqs)},
                       reqs[0].decode("latin-1")[:400], reqs[-1].decode("latin-1")[:400], {"site": "handshake", "cls": "request-drifts-on-reuse"},
                       what="a later connection made with the same option objects sends a different request (apart from the key)")
                break
            k = [l.split(b":", 1)[1].strip() for l in bytes(s.request).split(b"\r\n") if l.lower().startswith(b"sec-websocket-key")]
            T.case(("fresh-reuse", str(type(hdr)), len(seen2)), bucket="key-freshness")
            if len(k) != 1 or k[0] in seen2:
                T.fail("spec", {"header_option": str(hdr), "keys": [x.decode() for x in k]}, "a fresh key for every connection made with the same option objects",
                       "repeated", {"site": "handshake", "cls": "key-not-fresh", "reuse": True},
                       what="reusing the same header option object for several connections repeats the Sec-WebSocket-Key")
                break
            seen2.add(k[0])
        if hdr != hdr0 or (subs is not None and subs != ["chat", "v2"]):
            T.fail("spec", {"header_option": str(hdr0), "cookie": cookie}, "caller's option objects left unmodified", str(hdr) + " " + str(subs), {"site": "handshake", "cls": "options-mutated"},
                   what="the library modified an option object that belongs to the caller")
    T.validated = len(cases)
    T.dist["third_opinion"] = third
    return T.result(
        "scheme x host form (name, upper-case name, IPv4, two IPv6 literals) x port {default, 80, 443, 8080, 1, 65535, 81, 444} x "
        "path x query, sampled to 400 (20000) URLs, each with one of 16 option sets (host, origin incl. None, suppress_origin, "
        "subprotocols, cookie, header list/dict with None values and empty, header dicts that supply Sec-WebSocket-Key / -Version themselves, connection, combinations); request parsed by the "
        "extracted Spec.parse_request and every header compared with what URL and options call for; Host per Spec.host_header; "
        "the websockets package's server as a third opinion on a fifth of the cases; 50 successive connections for key "
        "freshness; observation line compared with the extracted model",
        what_is_proved="see Properties/C10.v")


def search(ctx):
    r = run(ctx)
    return [f for f in r["failures"] if f["kind"] == "spec"][:1]


def replay(ctx, sc):
    return {"note": "rerun ./check C10 quick; case " + str(sc)[:300]}
