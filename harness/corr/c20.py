"""C20 — cookies are replayed only to hosts inside the domain that set them."""
from corr.common import Tally
from corr.validate_wrap import tally_from


def direct(T):
    from websocket._cookiejar import SimpleCookieJar
    cases = [
        (["a=1; Domain=example.com"], "example.com", "a=1"), (["a=1; Domain=example.com"], "sub.example.com", "a=1"),
        (["a=1; Domain=example.com"], "badexample.com", ""), (["a=1; Domain=example.com"], "example.com.evil", ""),
        (["a=1; Domain=.example.com"], "EXAMPLE.com", "a=1"), (["a=1; Domain=Example.COM"], "example.com", "a=1"),
        (["a=1"], "example.com", ""), (["a=1; Domain=example.com", "a=2; Domain=example.com"], "example.com", "a=2"),
        (["b=2; Domain=example.com", "a=1; Domain=EXAMPLE.com"], "x.example.com", "a=1; b=2"),
        (["a=1; Domain=other.org"], "example.com", ""), (["a=1; Domain=sub.example.com"], "example.com", ""),
    ]
    for history, host, want in cases:
        j = SimpleCookieJar()
        for h in history:
            j.add(h)
        got = j.get(host)
        T.case(("direct", tuple(history), host), nontrivial=True, bucket="direct", sample={"history": history, "host": host, "cookie": got})
        if got != want:
            T.fail("spec", {"history": history, "host": host}, want, got, {"site": "SimpleCookieJar", "cls": "scoping", "outside": want == ""},
                   what=f"after {history} the Cookie sent to {host} is {got!r}, the property says {want!r}")


def host_override(T):
    """cookies are selected by the host actually connected to, not by the Host header override"""
    import websocket
    from websocket import _handshake
    from sim.sock import HandshakeSock
    saved = _handshake.CookieJar
    try:
        for url_host, override, want in (("10.0.0.7", "api.shop.test", False), ("shop.test.evil.example", "shop.test", False),
                                         ("api.shop.test", "backend-7", True), ("api.shop.test", "api.shop.test:80", True),
                                         ("shop.test", None, True)):
            _handshake.CookieJar = type(saved)()
            _handshake.CookieJar.add("sid=S3; Domain=shop.test")
            s = HandshakeSock([])
            ws = websocket.WebSocket()
            kw = {"host": override} if override else {}
            ws.connect(f"ws://{url_host}/feed", socket=s, **kw)
            sent = [l for l in bytes(s.request).split(b"\r\n") if l.lower().startswith(b"cookie:")]
            T.case(("host-override", url_host, override), nontrivial=True, bucket="host-override",
                   sample={"url_host": url_host, "host_option": override, "cookie_sent": bool(sent)})
            if bool(sent) != want:
                T.fail("spec", {"url_host": url_host, "host_option": override, "stored": "sid=S3; Domain=shop.test"},
                       "cookie sent" if want else "no cookie", str(sent), {"site": "_get_handshake_headers", "cls": "cookie-host-selection", "leak": not want},
                       what=f"connecting to {url_host} with host={override!r}: cookies must follow the host connected to")
    finally:
        _handshake.CookieJar = saved


def redirect_cookies(T):
    """a cookie set on a redirect response is a cookie received in a handshake response: it is sent to the redirect target when that lies in
    its domain (and only then)"""
    import base64
    from corr import connrun
    from sim.sock import accept_for
    draw = bytes(range(16)).hex()
    ok = (b"HTTP/1.1 101 SP\r\nUpgrade: websocket\r\nConnection: Upgrade\r\nSec-WebSocket-Accept: " + accept_for(base64.b64encode(bytes.fromhex(draw))) + b"\r\n\r\n").hex()
    for status in (301, 302, 307):
        for target, want in (("ws://app.shop.test/next", True), ("ws://shop.test/", True), ("ws://shop.test.evil.example/", False), ("ws://other.test/", False)):
            redir = (b"HTTP/1.1 %d Moved\r\nSet-Cookie: sid=R7; Domain=shop.test\r\nLocation: " % status + target.encode() + b"\r\n\r\n").hex()
            sc = {"url": "ws://login.shop.test/start", "rand": [draw, draw], "opts": {},
                  "net": [{"addrs": ["A"], "script": [["D", redir]]}, {"addrs": ["A"], "script": [["D", ok]]}]}
            reqs = connrun.run_impl(sc)[1]["requests"]
            sent = len(reqs) == 2 and b"\r\nCookie: sid=R7\r\n" in reqs[1]
            T.case(("redirect-cookie", status, target), nontrivial=True, bucket="redirect", sample={"status": status, "target": target, "cookie_sent": sent})
            if len(reqs) != 2 or sent != want:
                T.fail("spec", {"kind": "redirect-cookie", "status": status, "target": target}, "Cookie: sid=R7 sent" if want else "no cookie",
                       f"{len(reqs)} requests, cookie sent: {sent}", {"site": "handshake", "cls": "redirect-cookie", "leak": not want},
                       what="a cookie set by a redirect response must follow the same domain rule as any other")
                return


def run(ctx):
    T = Tally()
    direct(T)
    host_override(T)
    redirect_cookies(T)
    n = "300" if ctx.tier == "quick" else "6000"
    tally_from(T, "cookie_validate.py", ["--seed", str(20 + ctx.seed), "--random", n], "model-vs-impl-vs-spec(cookies)",
               "SimpleCookieJar/_get_handshake_headers", "C20_exact, C20_scope")
    return T.result(
        "fixed look-alike / case / latest-wins cases against the property text; exhaustive one-response and two-response histories "
        "plus 300 (6000) random histories of 2-4 responses over names {a,b,ab} x values x domains {ex.com,.ex.com,EX.com,sub.ex.com,"
        "other.org,none}, each against 13 targets (inside, outside, look-alike by suffix, by prefix and by a replaced dot) x 4 caller cookies (two of them occurring inside typical jar contents): real SimpleCookieJar and _get_handshake_headers vs the verified "
        "model and vs Spec.spec_header (evaluated by coqc vm_compute)",
        what_is_proved="see Properties/C20.v")


def search(ctx):
    r = run(ctx)
    return [f for f in r["failures"] if f["kind"] == "spec"][:3]


def replay(ctx, sc):
    if "history" in sc:
        from websocket._cookiejar import SimpleCookieJar
        j = SimpleCookieJar()
        for h in sc["history"]:
            j.add(h)
        return {"cookie": j.get(sc["host"])}
    return {"note": "rerun ./check C20 quick"}
