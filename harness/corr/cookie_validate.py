#!/venv/bin/python
"""C20 -- stand-alone validation of coq/Model/Cookie.v (and coq/Spec/Cookie.v) against the real code.

Run:  PYTHONPATH=/repo PYTHONHASHSEED=0 /venv/bin/python /verif/harness/corr/cookie_validate.py [--seed N] [--random N]

For every generated history of handshake responses (<= 4 responses) and every target host:
  real  : websocket._cookiejar.SimpleCookieJar: add(set_cookie_string) per response, get(host);
          websocket._handshake._get_handshake_headers with a fresh jar patched into
          websocket._handshake.CookieJar -> the "Cookie: ..." line actually produced (or none);
          websocket._http.read_headers over a scripted socket for responses that carry several
          Set-Cookie lines (the merged header value is compared with the model's merge_set_cookie
          and is what the jar receives).
  model : jar_get / cookie_header of Model/Cookie.v and spec_header of Spec/Cookie.v, evaluated by
          coqc (Eval vm_compute) on the morsel triples (name, value, Domain or None) that the REAL
          http.cookies.SimpleCookie(set_cookie_string) yields -- the parser is outside the comparison.
Writes /verif/build/cookiecases/cases_*.v (<= 500 histories each).  Prints disagreements and exits 1,
or "OK n cases".  Nothing under /repo or /tmp is touched.
"""
import http.cookies
import itertools
import os
import random
import re
import subprocess
import sys

import websocket._cookiejar as CJ
import websocket._handshake as HS
import websocket._http as HT

OUT = os.path.join(os.path.dirname(os.path.dirname(os.path.dirname(os.path.abspath(__file__)))), "build", "cookiecases")
COQ = os.path.join(os.path.dirname(os.path.dirname(os.path.dirname(os.path.abspath(__file__)))), "coq")
PER_FILE = 500

NAMES = ["a", "b", "ab"]
VALUES = ["1", "2"]
DOMAINS = ["ex.com", ".ex.com", "EX.com", "sub.ex.com", "other.org", None]
TARGETS = ["ex.com", "sub.ex.com", "www.ex.com", "x.sub.ex.com", "other.org", "badex.com",
           "ex.com.evil", "EX.COM", "Sub.Ex.Com", "com", "",
           "exxcom", "subxex.com"]        # a dot of the cookie domain replaced by another character
CLIENT = [None, "a=1", "1", ""]      # caller cookies that also occur inside typical jar contents: nothing may be "de-duplicated"


def cookie_str(n, v, d):
    return f"{n}={v}" + (f"; Domain={d}" if d is not None else "")


SINGLE = [("1", [cookie_str(n, v, d)]) for n in NAMES for v in VALUES for d in DOMAINS]


def multi_responses():
    """Responses with two cookies in one line, and responses with two Set-Cookie lines."""
    out = []
    for (n1, n2) in [("a", "b"), ("ab", "a"), ("a", "a")]:
        for d in ["ex.com", "EX.com", "sub.ex.com", None]:
            # one Domain for the response, named after the first / after the last cookie
            out.append(("1", [f"{n1}=1; {n2}=2" + (f"; Domain={d}" if d else "")]))
            out.append(("1", [cookie_str(n1, "1", d) + f"; {n2}=2"]))
            for d2 in ["other.org", ".ex.com", None]:
                out.append(("2", [cookie_str(n1, "2", d), cookie_str(n2, "1", d2)]))
    return out


MULTI = multi_responses()


class ScriptSock:
    """Just enough of a socket for websocket._socket.recv / recv_line."""

    def __init__(self, data):
        self.data = data

    def recv(self, n):
        r, self.data = self.data[:n], self.data[n:]
        return r

    def gettimeout(self):
        return None


def merged_header(lines):
    """The headers['set-cookie'] value the real read_headers builds from the Set-Cookie lines."""
    raw = "HTTP/1.1 101 Switching Protocols\r\n" + "".join(f"Set-Cookie: {l}\r\n" for l in lines) + "\r\n"
    _status, headers, _msg = HT.read_headers(ScriptSock(raw.encode()))
    return headers.get("set-cookie")


def morsels(set_cookie):
    sc = http.cookies.SimpleCookie(set_cookie)
    return [(k, m.value, (m["domain"] or None)) for k, m in sc.items()]


def real_outcomes(header_values):
    jar = CJ.SimpleCookieJar()
    for h in header_values:
        jar.add(h)
    saved = HS.CookieJar
    HS.CookieJar = jar
    out = []
    try:
        for host in TARGETS:
            got = jar.get(host)
            for cc in CLIENT:
                opts = {} if cc is None else {"cookie": cc}
                headers, _key = HS._get_handshake_headers("/", f"ws://{host}/", host, 80, opts)
                lines = [h for h in headers if h.startswith("Cookie: ")]
                assert len(lines) <= 1
                out.append((host, cc, got, lines[0][len("Cookie: "):] if lines else None))
    finally:
        HS.CookieJar = saved
    return out


# ---------------------------------------------------------------- Coq side
def zs(s):
    return "[" + "; ".join(str(ord(c)) for c in s) + "]"


def zopt(s):
    return "None" if s is None else f"(Some {zs(s)})"


def coq_history(hist_morsels):
    return "[" + "; ".join(
        "[" + "; ".join(f"({zs(n)}, {zs(v)}, {zopt(d)})" for (n, v, d) in ms) + "]" for ms in hist_morsels) + "]"


PRELUDE = """From Coq Require Import ZArith List.
From WS Require Import Base.Str Model.Cookie Spec.Cookie.
Import ListNotations.
Open Scope Z_scope.
Definition enc_o (o : option str) : list Z := match o with None => [-1] | Some s => -2 :: s end.
Definition targets : list (str * option str) := %s.
Definition run (h : list (list morsel)) : list Z :=
  let j := jar_of_history h in
  flat_map (fun t : str * option str =>
    (-3 :: jar_get j (fst t))
    ++ enc_o (cookie_header j (fst t) (snd t))
    ++ enc_o (spec_header h (fst t) (snd t))) targets.
Definition merge_all (ls : list str) : list Z :=
  match fold_left (fun acc l => Some (merge_set_cookie acc l)) ls None with
  | Some s => -2 :: s | None => [-1] end.
"""


def parse_run(nums):
    """-> list of (jar_get, cookie_header, spec_header) per target."""
    res, i = [], 0

    def take():
        nonlocal i
        j = i
        while j < len(nums) and nums[j] >= 0:
            j += 1
        s = "".join(map(chr, nums[i:j]))
        i = j
        return s

    def opt():
        nonlocal i
        tag = nums[i]
        i += 1
        if tag == -1:
            return None
        assert tag == -2, tag
        return take()

    while i < len(nums):
        assert nums[i] == -3
        i += 1
        g = take()
        res.append((g, opt(), opt()))
    return res


def run_coq(idx, chunk):
    """chunk: list of (hist_morsels, line_lists); returns per history (run output, merge outputs)."""
    tg = "[" + "; ".join(f"({zs(h)}, {zopt(c)})" for h in TARGETS for c in CLIENT) + "]"
    path = os.path.join(OUT, f"cases_{idx}.v")
    with open(path, "w") as f:
        f.write(PRELUDE % tg)
        for hm, lls in chunk:
            f.write(f"Eval vm_compute in (run {coq_history(hm)}).\n")
            for ls in lls:
                f.write("Eval vm_compute in (merge_all [" + "; ".join(zs(l) for l in ls) + "]).\n")
    p = subprocess.run(["timeout", "900", "coqc", "-Q", COQ, "WS", path], cwd=OUT,
                       capture_output=True, text=True)
    if p.returncode != 0:
        print(p.stdout[-2000:], p.stderr[-4000:])
        sys.exit(f"coqc failed on {path} (exit {p.returncode})")
    outs = [[int(x) for x in m.replace("\n", " ").split(";") if x.strip()]
            for m in re.findall(r"=\s*\[(.*?)\]\s*:\s*list Z", p.stdout, re.S)]
    k, res = 0, []
    for hm, lls in chunk:
        r = parse_run(outs[k])
        k += 1
        ms = []
        for _ in lls:
            o = outs[k]
            k += 1
            ms.append(None if o == [-1] else "".join(map(chr, o[1:])))
        res.append((r, ms))
    assert k == len(outs), (k, len(outs))
    return res


def histories(rng, nrandom):
    seen = set()

    def emit(h):
        key = tuple((k, tuple(ls)) for k, ls in h)
        if key not in seen:
            seen.add(key)
            return True
        return False

    # exhaustive: one and two single-cookie responses
    for r in SINGLE + MULTI:
        if emit([r]):
            yield [r]
    for h in itertools.product(SINGLE, repeat=2):
        if emit(list(h)):
            yield list(h)
    # random: 2..4 responses, mixing in multi-cookie / multi-line ones
    pool = SINGLE + MULTI
    n = 0
    while n < nrandom:
        h = [rng.choice(pool) for _ in range(rng.randrange(2, 5))]
        if emit(h):
            n += 1
            yield h


def main():
    seed, nrandom = 20, 2500
    a = sys.argv[1:]
    if "--seed" in a:
        seed = int(a[a.index("--seed") + 1])
    if "--random" in a:
        nrandom = int(a[a.index("--random") + 1])
    rng = random.Random(seed)
    os.makedirs(OUT, exist_ok=True)
    for fn in os.listdir(OUT):
        os.remove(os.path.join(OUT, fn))

    cases = []
    for h in histories(rng, nrandom):
        header_values, line_lists = [], []
        for _kind, lines in h:
            hv = merged_header(lines)
            header_values.append(hv)
            line_lists.append(lines)
        hm = [morsels(hv) for hv in header_values]
        cases.append((h, header_values, line_lists, hm, real_outcomes(header_values)))

    bad, n, nsets, spec_skipped = [], 0, 0, 0
    for ci in range(0, len(cases), PER_FILE):
        chunk = cases[ci:ci + PER_FILE]
        res = run_coq(ci // PER_FILE, [(c[3], c[2]) for c in chunk])
        for (h, hvs, lls, hm, real), (mrun, mmerge) in zip(chunk, res):
            for hv, mm, ls in zip(hvs, mmerge, lls):
                n += 1
                if hv != mm:
                    bad.append(("merge_set_cookie", ls, hv, mm))
            assert len(real) == len(mrun)
            for (host, cc, got, line), (mget, mhdr, mspec) in zip(real, mrun):
                n += 1
                if got != mget or line != mhdr:
                    bad.append(("model", [l for _, l in h], host, cc, ("real", got, line), ("model", mget, mhdr)))
                if host == "":
                    spec_skipped += 1   # C20_exact is stated for non-empty hosts
                elif line != mspec:
                    bad.append(("spec", [l for _, l in h], host, cc, ("real", line), ("spec", mspec)))
                if line is not None and line != cc:
                    nsets += 1
    if bad:
        for b in bad[:40]:
            print("DISAGREE", b)
        print(f"{len(bad)} disagreements in {n} cases")
        sys.exit(1)
    print(f"OK {n} cases ({len(cases)} histories x {len(TARGETS)} targets x {len(CLIENT)} caller cookies, "
          f"{nsets} with a server cookie sent; spec compared on all but {spec_skipped} empty-host cases)")


if __name__ == "__main__":
    main()
