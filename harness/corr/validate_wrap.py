"""Runs one of the stand-alone model-vs-implementation validation scripts (generated cases.v + coqc vm_compute)
and turns its outcome into the Tally used by ./check."""
import os
import re
import subprocess
import sys

from corr.common import Tally

HERE = os.path.dirname(os.path.abspath(__file__))


def run_script(name, args=(), timeout=2400):
    env = dict(os.environ, PYTHONPATH="/repo" + os.pathsep + os.path.dirname(HERE), PYTHONHASHSEED="0",
               PYTHONDONTWRITEBYTECODE="1")
    env["PYTHONPATH"] = os.environ.get("VERIF_REPO", "/repo") + os.pathsep + os.path.dirname(HERE)
    p = subprocess.run([sys.executable, os.path.join(HERE, name)] + list(args), capture_output=True, text=True,
                       timeout=timeout, env=env)
    out = p.stdout + p.stderr
    m = re.search(r"OK (\d+) cases", out)
    n = int(m.group(1)) if m else 0
    if not m:
        m2 = re.search(r"in (\d+) cases", out)
        n = int(m2.group(1)) if m2 else 0
    dis = [l.strip() for l in out.split("\n") if "DISAGREE" in l]
    # keep the two lines following a DISAGREE header (python / model values)
    blocks = []
    lines = out.split("\n")
    for i, l in enumerate(lines):
        if "DISAGREE" in l:
            blocks.append(" | ".join(x.strip() for x in lines[i:i + 3])[:900])
    return p.returncode, n, blocks, out[-1500:]


def tally_from(T, name, args, bucket, site, theorem_note):
    rc, n, blocks, tail = run_script(name, args)
    T.evaluations += n
    T.validated += n
    T.dist[bucket] = n
    for k in range(min(n, 2000)):
        T.distinct.add((bucket, k))
    if n > 2000:
        # the scripts de-duplicate their own cases; count them all as distinct
        T.distinct.update((bucket, k) for k in range(2000, n))
    T.samples.append({"script": name, "args": list(args), "cases": n, "last_output": tail.strip().split("\n")[-1][:300]})
    if rc != 0:
        if blocks:
            for b in blocks[:5]:
                # the hand-written model is proved equal to the spec on its whole domain, so an input on which the
                # implementation differs from the model is an input on which it differs from the spec
                T.fail("spec", {"script": name, "disagreement": b}, "implementation = model (= spec, " + theorem_note + ")", b[:400],
                       {"site": site, "cls": "model-implementation-disagreement", "head": b[:60]},
                       what=f"{site}: the implementation differs from the verified model on a generated input: {b[:300]}")
        else:
            T.fail("harness", {"script": name}, "exit 0", tail[-600:], {"site": site, "cls": "validation-script-failed"})
    return rc, n
