"""C04 — fragmented messages are reassembled in order, undisturbed by control frames."""
import itertools
import random

from corr.common import Tally, hx, digest
from corr import wsrun
from corr.recvprops import (parse_specseq, observe, results_of, legal_stream, encode_frames)
from sim.sock import server_frame


def cuttings(msg, maxfrag):
    n = len(msg)
    for k in range(1, maxfrag + 1):
        for cuts in itertools.combinations_with_replacement(range(n + 1), k - 1):
            pts = [0] + list(cuts) + [n]
            yield [msg[pts[i]:pts[i + 1]] for i in range(k)]


def gen(tier, rng):
    """(frames, note) — frames as (op, fin, payload)"""
    maxfrag = 4 if tier == "quick" else 6
    ctl_sets = [[], [(9, 1, b"p")], [(10, 1, b"")], [(9, 1, b""), (10, 1, b"q")]]
    if tier != "quick":
        ctl_sets += [[(9, 1, b"a"), (9, 1, b"b"), (10, 1, b"c")]]
    msgs = [(2, b""), (2, b"\x00\x01\x02\x03\x04\x05"), (1, "aé€".encode()), (1, b"hello!")]
    for op, m in msgs:
        for parts in cuttings(m, maxfrag if len(m) <= 6 else 3):
            for ci, ctl in enumerate(ctl_sets):
                frames = []
                for i, p in enumerate(parts):
                    frames.append((op if i == 0 else 0, 1 if i == len(parts) - 1 else 0, p))
                    if i < len(parts) - 1:
                        frames.extend(ctl)
                yield frames
    # no bound on the number of fragments of one message, nor on the control frames swallowed inside one receive call
    yield [(2, 0, b"a")] + [(0, 0, bytes([i % 251])) for i in range(1500)] + [(0, 1, b"z")]
    yield [(1, 0, b"t")] + [(10, 1, b"o%d" % (i % 7)) for i in range(1300)] + [(0, 1, b"!")]
    # sequences of several messages
    for _ in range(300 if tier == "quick" else 20000):
        yield legal_stream(rng, max_msgs=4 if tier != "quick" else 3, max_frags=maxfrag, max_ctl=2 if tier == "quick" else 3,
                           text_ok=rng.random() < 0.8, lens=(0, 1, 2, 5, 125, 126, 300))


def judge(T, frames, sp, res, fire, skip, sc):
    """Data deliveries of rd0 calls against the spec's reassembly / per-fragment list."""
    if sp["legal"] != "1":
        return
    unexpected = [r for r in res if r.startswith("raise:") and r not in ("raise:Payload", "raise:ConnClosed")]
    if unexpected:
        T.fail("spec", sc, "a legal stream is delivered without any other exception", str(unexpected[:2]),
               {"site": "recv_data_frame", "cls": "unexpected-exception", "exn": unexpected[0][6:]},
               what="a receive call on a legal frame stream failed with an exception that is neither a payload error nor the end of the stream")
        return
    got = [r for r in res if r.startswith("ok:") and r.split(":")[1] in ("0", "1", "2")]
    got = [(r.split(":")[1], r.split(":")[2], ":".join(r.split(":")[3:])) for r in got]    # (op, f<fin><opc>, digest)
    payload_fail = [r for r in res if r == "raise:Payload"]
    if fire:
        want = [(m.split(":")[0][:-1], "f" + m.split(":")[0][-1] + m.split(":")[0][:-1], ":".join(m.split(":")[1:])) for m in sp["frags"]]
        gotc = [(g[0], g[1], g[2]) for g in got]
        if gotc != want:
            T.fail("spec", sc, str(want)[:400], str(gotc)[:400], {"site": "recv_data_frame", "cls": "per-fragment"},
                   what="per-fragment delivery differs from the frames sent")
        return
    # non-fire: one delivery per message unless its text is ill-formed (then a payload exception)
    want = []
    npay = 0
    for m in sp["msgs"]:
        op, dg = m.split(":", 1)
        want.append((op, dg))
    gotm = [(g[0], g[2]) for g in got]
    # messages that failed UTF-8 are reported as raise:Payload instead of a delivery: align by order
    seq = [r for r in res if (r.startswith("ok:") and r.split(":")[1] in ("0", "1", "2")) or r == "raise:Payload"]
    if len(seq) != len(want):
        T.fail("spec", sc, f"{len(want)} messages", f"{len(seq)} results: {seq[:6]}",
               {"site": "recv_data_frame", "cls": "message-count"})
        return
    # which text messages are ill-formed (CPython's strict decoder = Unicode Table 3-7; ./check C06 ties both to the spec)
    wellformed, cur = [], None
    for f in (frames or []):
        if f[0] in (1, 2):
            cur = [f[0], b""]
        if f[0] in (0, 1, 2) and cur is not None:
            cur[1] += f[2]
            if f[1]:
                ok = True
                if cur[0] == 1:
                    try:
                        cur[1].decode("utf-8")
                    except UnicodeDecodeError:
                        ok = False
                wellformed.append(ok)
                cur = None
    for i_, (w, r) in enumerate(zip(want, seq)):
        if r == "raise:Payload":
            if skip or w[0] != "1" or (i_ < len(wellformed) and wellformed[i_]):
                T.fail("spec", sc, str(w), r, {"site": "recv_data_frame", "cls": "payload-error-unexpected"},
                       what="a message whose reassembled payload is well-formed (or that is binary / validation is off) was refused instead of delivered")
                return
            continue
        parts = r.split(":")
        if (parts[1], ":".join(parts[3:])) != w or parts[2] != "f1" + ("1" if w[0] == "1" else w[0] if False else parts[2][2:]):
            if (parts[1], ":".join(parts[3:])) != w:
                T.fail("spec", sc, str(w), r, {"site": "recv_data_frame", "cls": "reassembly"},
                       what="delivered message differs from the in-order concatenation with the first fragment's opcode")
                return


def parse_frames(stream):
    """(op, fin, payload) of the unmasked server frames of a stream produced by encode_frames"""
    out, i = [], 0
    while i + 2 <= len(stream):
        b0, n = stream[i], stream[i + 1] & 0x7F
        i += 2
        if n == 126:
            n = int.from_bytes(stream[i:i + 2], "big"); i += 2
        elif n == 127:
            n = int.from_bytes(stream[i:i + 8], "big"); i += 8
        out.append((b0 & 0x0F, b0 >> 7, stream[i:i + n]))
        i += n
    return out


def upto_raise(line):
    """results up to and including the first exception (an exception ends a generator: what next() does afterwards is Python's business)"""
    out = []
    for o in line.split(";")[0].split("|"):
        out.append(o)
        if o.startswith("raise:") and o != "raise:TimedOut":
            break
    return out


def run(ctx):
    T = Tally()
    rng = random.Random(ctx.seed)
    cases = list(gen(ctx.tier, rng))
    runs = []
    for i, frames in enumerate(cases):
        stream = encode_frames(frames)
        for fire in (0, 1):
            skip = 1 if i % 4 == 3 else 0
            sc, line, s = observe(stream, [], "rd0", len(frames) + 2, fire, skip)
            runs.append((frames, stream, fire, skip, sc, line))
    spec = {}
    if ctx.spec:
        keys = list(dict.fromkeys((r[1], r[3]) for r in runs))
        outs = ctx.spec.run_parallel([f"specseq {0 if k[1] else 1} {hx(k[0])}" for k in keys])
        spec = dict(zip(keys, outs))
    model = ctx.model.run_parallel([wsrun.scenario_line(r[4]) for r in runs]) if ctx.model else None
    for j, (frames, stream, fire, skip, sc, line) in enumerate(runs):
        res = results_of(line)
        nd = sum(1 for f in frames if f[0] in (0, 1, 2))
        T.case((stream[:48], fire, skip), nontrivial=nd > 1, bucket=f"fire{fire}/frags{min(nd, 5)}",
               sample={"frames": [(f[0], f[1], f[2].hex()[:12]) for f in frames][:6], "fire": fire, "results": res[:4]})
        if spec:
            sp = parse_specseq(spec[(stream, skip)])
            pub = {"stream": stream.hex() if len(stream) < 3000 else None, "fire": fire, "skip": skip}
            judge(T, frames, sp, res, fire, skip, pub)
        if model is not None and wsrun.canon_model(model[j]) != line:
            T.fail("corr", {"line": wsrun.scenario_line(sc)[:500]}, model[j][:300], line[:300], {"site": "wsrun"})
    # the iterator interface (`for message in ws`, next()) is a sequence of recv() calls: same results, same transport operations
    for i, frames in enumerate(cases):
        if i % 3 and not any(f[0] in (1, 2) and f[2] == b"" for f in frames):
            continue
        stream = encode_frames(frames)
        skip = 1 if i % 4 == 3 else 0
        _, line_rv, _ = observe(stream, [], "rv", len(frames) + 2, 0, skip)
        _, line_it, _ = observe(stream, [], "it", len(frames) + 2, 0, skip)
        T.case(("iter", stream[:48], skip), nontrivial=True, bucket="iterator", sample={"frames": [(f[0], f[1], f[2].hex()[:12]) for f in frames][:6], "line": line_it[:100]})
        if upto_raise(line_it) != upto_raise(line_rv):
            T.fail("spec", {"kind": "iterator", "stream": stream.hex() if len(stream) < 3000 else None, "skip": skip}, "iteration delivers what successive recv() calls deliver: " + line_rv[:200], line_it[:200],
                   {"site": "__iter__", "cls": "iterator-differs-from-recv"},
                   what="iterating over the connection did not deliver the messages that successive recv() calls deliver")
            break
    T.validated = len(runs)
    return T.result(
        "every cutting of 4 messages (binary empty / 6 bytes, text with multi-byte characters) into 1..4 (6) fragments "
        "incl. empty ones x control-frame sets {none, ping, pong, ping+pong, ...} in every gap, plus random sequences of "
        "1-3 (4) messages with up to 2 (3) control frames per gap and ill-formed text; each with per-fragment delivery off "
        "and on and with validation on and off; deliveries compared with the extracted Spec.reassemble / per_fragment; "
        "whole line compared with the extracted model; the iterator interface against successive recv() calls. non-trivial = more than one data frame",
        what_is_proved="C04_reassembly, C04_fire over all legal frame sequences")


def search(ctx):
    r = run(ctx)
    return [f for f in r["failures"] if f["kind"] == "spec"][:1]


def replay(ctx, sc):
    stream = bytes.fromhex(sc["stream"])
    if sc.get("kind") == "iterator":
        n = len(parse_frames(stream)) + 2
        _, line_rv, _ = observe(stream, [], "rv", n, 0, sc["skip"])
        _, line_it, _ = observe(stream, [], "it", n, 0, sc["skip"])
        return None if upto_raise(line_rv) == upto_raise(line_it) else {"recv": line_rv[:300], "iteration": line_it[:300]}
    sp = parse_specseq(ctx.spec.run([f"specseq {0 if sc['skip'] else 1} {hx(stream)}"])[0])
    _, line, _ = observe(stream, [], "rd0", sp["n"] + 2, sc["fire"], sc["skip"])
    T = Tally()
    judge(T, parse_frames(stream), sp, results_of(line), sc["fire"], sc["skip"], sc)
    return T.failures[0] if T.failures else None
