"""C02 — received frames decode exactly as RFC 6455 prescribes; exactly each frame's bytes are consumed."""
import random

from corr.common import Tally, hx
from corr import wsrun
from corr.recvprops import (KEYS, parse_specseq, observe, results_of, judge_frames, rand_payload,
                            encode_frames, script_of)
from sim.sock import server_frame, lcg_bytes


def header_sweep(tier, rng):
    """Every first byte x length class x mask bit, with the extension bytes and payload they call for."""
    lens = [0, 1, 2, 125, 126, 127, 65535, 65536] if tier == "quick" else [0, 1, 2, 3, 124, 125, 126, 127, 128, 65534, 65535, 65536, 65537]
    for b0 in range(256):
        for j, n in enumerate(lens):
            if tier == "quick" and n > 200 and b0 % 16 not in (0, 1, 2, 9) and b0 != 0x88:
                continue
            for masked in (0, 1):
                if tier == "quick" and masked and n > 200 and b0 % 7:
                    continue
                p = rand_payload(rng, n)
                if (b0 & 0x0F) == 8 and n >= 2:
                    p = (1000).to_bytes(2, "big") + b"a" * (n - 2)
                if (b0 & 0x0F) == 1:
                    p = b"t" * n
                mask = bytes(rng.randrange(256) for _ in range(4)) if masked else None
                fr = server_frame(b0 & 0x0F, p, fin=b0 >> 7, rsv=(b0 >> 4) & 7, mask=mask)
                yield [fr]
    # non-minimal length encodings (the decoder must still take exactly the frame's bytes)
    for n, form in ((0, 16), (5, 16), (125, 64), (300, 64), (0, 64)):
        yield [server_frame(2, rand_payload(rng, n), length_form=form), server_frame(1, b"next")]


def streams(tier, rng):
    n = 1200 if tier == "quick" else 20000
    for _ in range(n):
        k = rng.randrange(2, 7)
        frs = []
        for _ in range(k):
            op = rng.choice([1, 2, 2, 9, 10, 0, 2])
            ln = rng.choice([0, 1, 2, 10, 125, 126, 127, 200, 65535, 65536, 65537] if rng.random() < 0.3 else [0, 1, 3, 20, 125])
            if op in (9, 10):
                ln = min(ln, 125)
            p = b"x" * ln if op == 1 else rand_payload(rng, ln)
            mask = bytes(rng.randrange(256) for _ in range(4)) if rng.random() < 0.3 else None
            form = 64 if (ln > 65535 or rng.random() < 0.05) else None
            frs.append(server_frame(op, p, fin=1 if op != 0 else rng.randrange(2), mask=mask,
                                    length_form=form if form and ln > 125 else None))
        yield frs
    # first frame with 64-bit length followed by others
    yield [server_frame(2, lcg_bytes(70000, 5)), server_frame(1, b"after"), server_frame(9, b"p")]


def run(ctx, only=None):
    T = Tally()
    rng = random.Random(ctx.seed)
    cases = list(only) if only is not None else list(header_sweep(ctx.tier, rng)) + list(streams(ctx.tier, rng))
    scs, lines, socks, offsets = [], [], [], []
    for frs in cases:
        stream = b"".join(frs)
        sc, line, s = observe(stream, [], "rf", len(frs) + 1)
        # the faithful model unmasks with the big-integer routine (quadratic when extracted): run it only
        # when every masked payload is small
        sc["_small"] = all(not (f[1] & 0x80) or len(f) < 400 for f in frs)
        scs.append(sc); lines.append(line); socks.append(s)
        off, acc = [], 0
        for f in frs:
            acc += len(f)
            off.append(acc)
        offsets.append(off)
    spec = ctx.spec.run_parallel(["specseq 1 " + hx(b"".join(f)) for f in cases]) if ctx.spec else None
    midx = [i for i, sc in enumerate(scs) if sc["_small"]]
    model = None
    if ctx.model:
        outs = ctx.model.run_parallel([wsrun.scenario_line(scs[i]) for i in midx])
        model = {i: o for i, o in zip(midx, outs)}
    for i, frs in enumerate(cases):
        stream = b"".join(frs)
        res = results_of(lines[i])
        T.case(stream[:40], nontrivial=True, bucket=f"frames{min(len(frs), 4)}",
               sample={"stream_prefix": stream[:24].hex(), "frames": len(frs), "results": res[:3]})
        if spec is not None:
            sp = parse_specseq(spec[i])
            if sp["n"] != len(frs) or sp["rest"] != 0:
                T.fail("harness", scs[i], f"{len(frs)} frames", f"spec decoder found {sp['n']} rest {sp['rest']}",
                       {"site": "generator"})
                continue
            if judge_frames(T, "C02", {"frames": [f.hex() for f in frs] if len(stream) < 400 else f"#{len(stream)}", "stream": stream.hex() if len(stream) < 2000 else None}, res, sp):
                # exactly the bytes of each frame are consumed: after op k the transport has given
                # out exactly the first k frames (delivered or rejected)
                s = socks[i]
                total = len(stream)
                for k in range(len(frs)):
                    consumed = total - s.rems[k]
                    if consumed != offsets[i][k]:
                        T.fail("spec", {"stream": stream.hex() if total < 2000 else None, "op_index": k},
                               f"{offsets[i][k]} bytes consumed after frame {k}", f"{consumed}",
                               {"site": "recv_frame", "cls": "bytes-consumed"})
                        break
        if model is not None and i in model and wsrun.canon_model(model[i]) != lines[i]:
            T.fail("corr", {"line": wsrun.scenario_line(scs[i])[:600]}, model[i][:300], lines[i][:300], {"site": "wsrun"})
    T.validated = len(cases)
    return T.result(
        "single frames for all 256 first header bytes x payload-length classes (0,1,2,125,126,127,65535,65536 ...) x "
        "masked/unmasked, non-minimal length encodings, random streams of 2-6 back-to-back frames (thorough: 20000), a "
        "70000-byte frame followed by others; each read with recv_frame until end of stream. Judged by the extracted RFC "
        "decoder + legality spec; per-call consumption compared with true frame boundaries; whole observation line "
        "compared with the extracted model. distinct = distinct stream prefixes",
        what_is_proved="see Properties/C02.v")


def search(ctx):
    T = Tally()
    rng = random.Random(1)
    cases = list(header_sweep("thorough", rng))[:6000]
    r = run_cases(ctx, cases)
    return r


def run_cases(ctx, cases):
    class C:
        pass
    res = run(ctx, only=cases)
    return [f for f in res["failures"] if f["kind"] == "spec"][:1]


def replay(ctx, sc):
    if sc.get("stream"):
        stream = bytes.fromhex(sc["stream"])
        sp = parse_specseq(ctx.spec.run(["specseq 1 " + hx(stream)])[0])
        _, line, s = observe(stream, [], "rf", sp["n"] + 1)
        T = Tally()
        judge_frames(T, "C02", sc, results_of(line), sp)
        return T.failures[0] if T.failures else None
    return {"error": "scenario too large to replay from the file; rerun the check"}
