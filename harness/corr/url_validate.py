#!/venv/bin/python
"""Validation of the hand-written Coq models Model/Url.v and Model/Proxy.v (properties C18, C19)
against the real code of websocket/_url.py.

Run:  PYTHONPATH=/repo PYTHONHASHSEED=0 /venv/bin/python /verif/harness/corr/url_validate.py

The script generates inputs inside the stated domain of the models (printable ASCII URLs,
canonical dotted quads or strings socket.inet_aton refuses, ...), runs the REAL functions
parse_url, _is_ip_address, _is_subnet_address, _is_no_proxy_host, get_proxy_info (os.environ is
patched per case), writes the same inputs as `Eval vm_compute in ...` commands to
/verif/build/urlcases/cases_NN.v (at most 500 per file), compiles them with coqc, parses the
printed values and compares.  Exit 0 and `OK n cases` when everything agrees, exit 1 and one
line per disagreement otherwise.  Nothing is written under /repo or /tmp."""
import itertools
import os
import random
import re
import shutil
import subprocess
import sys
from concurrent.futures import ThreadPoolExecutor

os.environ.setdefault("PYTHONHASHSEED", "0")
sys.dont_write_bytecode = True  # nothing is written next to the sources in /repo
VERIF = os.path.dirname(os.path.dirname(os.path.dirname(os.path.abspath(__file__))))
COQ = os.path.join(VERIF, "coq")
OUT = os.path.join(VERIF, "build", "urlcases")
PER_FILE = 500
COQC_TIMEOUT = 600

from websocket import _url as U  # noqa: E402
from websocket._exceptions import WebSocketProxyException  # noqa: E402

ENV_KEYS = ["no_proxy", "NO_PROXY", "http_proxy", "HTTP_PROXY", "https_proxy", "HTTPS_PROXY"]


# ---------------------------------------------------------------- canonical values
def exn_name(e):
    if isinstance(e, WebSocketProxyException):
        return "ProxyErr"
    if isinstance(e, ValueError):
        return "ValueErr"
    if isinstance(e, TypeError):
        return "Internal TypeErr"
    if isinstance(e, IndexError):
        return "Internal IndexErr"
    if isinstance(e, KeyError):
        return "Internal KeyErr"
    if isinstance(e, AttributeError):
        return "Internal AttrErr"
    return "Other " + type(e).__name__


def call(f, *a):
    try:
        return ("Ok", f(*a))
    except Exception as e:  # noqa: BLE001
        return ("Raise", exn_name(e))


class EnvPatch:
    def __init__(self, env):
        self.env = env

    def __enter__(self):
        self.saved = {k: os.environ.get(k) for k in ENV_KEYS}
        for k in ENV_KEYS:
            os.environ.pop(k, None)
        for k, v in self.env.items():
            os.environ[k] = v

    def __exit__(self, *a):
        for k in ENV_KEYS:
            os.environ.pop(k, None)
        for k, v in self.saved.items():
            if v is not None:
                os.environ[k] = v


# ---------------------------------------------------------------- Coq literals
def zs(s):
    assert all(ord(c) < 128 for c in s)
    return "([" + "; ".join(str(ord(c)) for c in s) + "]%Z)"


def zopt(s):
    return "None" if s is None else "(Some " + zs(s) + ")"


def zlist(l):
    return "[" + "; ".join(zs(x) for x in l) + "]"


def zlistopt(l):
    return "None" if l is None else "(Some " + zlist(l) + ")"


def zenv(env):
    return "[" + "; ".join("(" + zs(k) + ", " + zs(v) + ")" for k, v in env.items()) + "]"


def zauth(a):
    return "None" if a is None else "(Some (" + zs(a[0]) + ", " + zs(a[1]) + "))"


def zbool(b):
    return "true" if b else "false"


# ---------------------------------------------------------------- parser of printed Coq values
TOK = re.compile(r"\s*(\(|\)|\[|\]|;|,|-?\d+|[A-Za-z_][A-Za-z0-9_']*)")


def tokens(s):
    pos, out = 0, []
    s = s.strip()
    while pos < len(s):
        m = TOK.match(s, pos)
        if not m:
            raise ValueError("cannot tokenise %r at %d" % (s, pos))
        out.append(m.group(1))
        pos = m.end()
    return out


def parse_term(toks):
    """term := atom+ (application);  returns nested python values:
       numbers -> int, [..] -> list, (a, b) -> tuple, constructor applications -> (name, args...)"""
    def atom(i):
        t = toks[i]
        if t == "(":
            items = []
            v, i = app(i + 1)
            items.append(v)
            while toks[i] == ",":
                v, i = app(i + 1)
                items.append(v)
            assert toks[i] == ")", toks[i:]
            return (items[0] if len(items) == 1 else ("tuple", items)), i + 1
        if t == "[":
            items = []
            i += 1
            if toks[i] == "]":
                return ("list", []), i + 1
            while True:
                v, i = app(i)
                items.append(v)
                if toks[i] == ";":
                    i += 1
                    continue
                assert toks[i] == "]", toks[i:]
                return ("list", items), i + 1
        if re.fullmatch(r"-?\d+", t):
            return int(t), i + 1
        return ("id", t), i + 1

    def app(i):
        parts = []
        while i < len(toks) and toks[i] not in (")", "]", ",", ";"):
            v, i = atom(i)
            parts.append(v)
        if len(parts) == 1:
            return parts[0], i
        return ("app", parts), i

    v, i = app(0)
    assert i == len(toks), toks[i:]
    return v


def conv(v):
    """Coq value -> the python value the real function returns (strings from code point lists)."""
    if isinstance(v, int):
        return v
    tag = v[0]
    if tag == "id":
        return {"true": True, "false": False, "None": None}.get(v[1], v[1])
    if tag == "list":
        items = [conv(x) for x in v[1]]
        if all(isinstance(x, int) for x in items):
            return "".join(map(chr, items))
        return items
    if tag == "tuple":
        return tuple(conv(x) for x in v[1])
    if tag == "app":
        head = v[1][0]
        args = v[1][1:]
        assert head[0] == "id"
        if head[1] == "Some":
            return conv(args[0])
        if head[1] == "Ok":
            return ("Ok", conv(args[0]))
        if head[1] == "Raise":
            return ("Raise", " ".join(flat_ids(a) for a in args))
        return (head[1],) + tuple(conv(a) for a in args)
    raise ValueError(v)


def flat_ids(v):
    """'Internal TypeErr' for the parsed form of (Internal TypeErr)."""
    if isinstance(v, int):
        return str(v)
    if v[0] == "id":
        return v[1]
    if v[0] == "app":
        return " ".join(flat_ids(x) for x in v[1])
    raise ValueError(v)


# ---------------------------------------------------------------- case generation
class Cases:
    def __init__(self):
        self.items = []  # (label, coq_term, python_value, kind)
        self.seen = set()

    def add(self, label, term, pyval, kind):
        if term in self.seen:
            return
        self.seen.add(term)
        self.items.append((label, term, pyval, kind))


def in_domain_url(u):
    return all(0x21 <= ord(c) <= 0x7E for c in u)


def add_parse_url(cs, url):
    assert in_domain_url(url), url
    r = call(U.parse_url, url)
    cs.add("parse_url(%r)" % url, "parse_url " + zs(url), r, "parse_url")


SCHEMES = ["ws", "wss"]
NAMES = ["h", "example.com", "EXAMPLE.Com", "a-b.c", "xn--p1ai.example", "localhost.", "1.2.3.4",
         "255.255.255.255", "0.0.0.0", "10.1", "A1.b2"]
V6 = ["[::1]", "[2001:db8::1]", "[FE80::A]", "[::ffff:1.2.3.4]", "[fe80::1%eth0]", "[FE80::1%25Eth0]",
      "[1:2:3:4:5:6:7:8]", "[::]", "[v1.Fe]", "[vF.a:B]"]
PORTS = [None, "1", "79", "80", "81", "442", "443", "444", "8080", "65535", "65536", "0", "", "00080", "99999",
         "065535", "7x", "+1", "-1"]
USERINFO = [None, "user", "user:pw", "u:p:q", "U%41", "a@b", ":", ""]
PATHS = ["", "/", "/p", "/a/b/c", "/a;x", "/a;x/b", "/a/b;x;y", "/a;", "/;", "/a/b;", "/%7E", "/a//b", "//a",
         "/a:b", "/a@b", "/a[b]", "/A.b-c_d~e", "/a;x=1;y=2", "/a;/b", "/;;", "/a;b;"]
QUERIES = [None, "q", "a=1&b=2", "", "q?r", "q;z", "q/r", "a=[1]", "x@y:z"]
FRAGS = [None, "f", "", "f?x", "f#g"]


def build_url(sch, ui, host, port, path, query, frag):
    u = sch + "://"
    if ui is not None:
        u += ui + "@"
    u += host
    if port is not None:
        u += ":" + port
    u += path
    if query is not None:
        u += "?" + query
    if frag is not None:
        u += "#" + frag
    return u


MALFORMED = [
    "", "ws", "wss", "h", "example.com", "//h/p", "/p", "ws//h", "ws/h/p",
    "ws:", "wss:", "ws:/", "ws://", "wss://", "ws:///", "ws:///p", "wss:///p?q", "ws:/p", "ws:p", "ws:h:80", "ws:h/p",
    "ws:/h/p", "ws:\\\\h", "ws://:80/", "ws://:80", "wss://:443/p", "ws://@/", "ws://@", "ws://u@/p", "ws://u:p@:80/",
    "ws://?q", "ws://#f", "ws:///?q", "ws://[]/", "ws://[]:80/",
    "http://h/", "https://h/p", "ftp://h/", "WS://h/", "WSS://h/", "Ws://h/", "wS://h", "wsss://h/", "w://h/", "s://h/",
    "ws+x://h/", "ws.://h", "://h/", ":ws://h/", ":", "::", ":/", "://", ":h", "file:///p", "mailto:u@h", "ws2://h/",
    "ws://h:65536/", "ws://h:99999", "ws://h:-1/", "ws://h:+1/", "ws://h:8o/", "ws://h:1:2/", "ws://h::1/",
    "ws://[::1", "ws://::1]/", "ws://[::1]]/", "ws://[[::1]/", "ws://u[@h/", "ws://u]@h/", "ws://u[x]@h/", "ws://[::1]@h/",
    "ws://[1.2.3.4]/", "ws://[g::1]/", "ws://[::1%]/", "ws://[::1%a%b]/", "ws://[v1]/", "ws://[v.x]/", "ws://[vg.x]/",
    "ws://[v1.]/", "ws://[abc]/", "ws://[1:2]/",
    "ws:foo:bar", "ws:foo://h/p", "ws:foo://h/p;x", "ws:foo://h/p;", "ws:http://h/p;", "ws:ws://h", "ws:wss://h:9/x?y",
    "ws:1a://h/", "ws:a1://h/", "ws:a_://h/", "ws:a+-.://h/", "ws:A://H/", "ws:tel://h/a;b", "ws:sip://h/a;",
    "ws://h;x", "ws://h;x/y", "ws://h?q", "ws://h?q;z", "ws://h#f", "ws://h/p#f?q", "ws://h/p?", "ws://h/p?#", "ws://h/p#",
    "ws://abc[::1]:80/", "ws://[::1]junk:81/", "ws://[::1]:", "ws://[::1]:/x", "ws://a@b@C:1", "ws://Ex%41mple.COM/",
    "ws://h:/x", "ws://h:0/", "ws://h:00000/", "ws://H:0000000000080/", "ws://h:65535", "ws://h:065536",
    "ws://%/", "ws://%41/", "ws://a%B/", "ws://A%/", "ws://-/", "ws://./", "ws://h./", "ws://_/", "ws://~/", "ws://h,i/",
    "ws://h!$&'()*+,;=/", "ws://u!$&'()*+,;=@h/",
]


def gen_parse_url(cs, rng):
    for u in MALFORMED:
        add_parse_url(cs, u)
    hosts = NAMES + V6
    dims = [SCHEMES, USERINFO, hosts, PORTS, PATHS, QUERIES, FRAGS]
    base = ["ws", None, "example.com", None, "/p", None, None]
    # every value of every dimension, against the base and against two random contexts
    for d, vals in enumerate(dims):
        for v in vals:
            t = list(base)
            t[d] = v
            add_parse_url(cs, build_url(*t))
            for _ in range(2):
                t = [rng.choice(x) for x in dims]
                t[d] = v
                add_parse_url(cs, build_url(*t))
    # host x port, scheme x port, path x query x fragment exhaustively
    for sch in SCHEMES:
        for h in hosts:
            for p in PORTS:
                add_parse_url(cs, build_url(sch, None, h, p, rng.choice(PATHS), rng.choice(QUERIES), None))
    for pth in PATHS:
        for q in QUERIES:
            for f in FRAGS:
                add_parse_url(cs, build_url(rng.choice(SCHEMES), None, rng.choice(hosts), None, pth, q, f))
    for ui in USERINFO:
        for h in hosts:
            add_parse_url(cs, build_url("wss", ui, h, rng.choice(PORTS), "/", None, None))
    # random rest
    for _ in range(1200):
        add_parse_url(cs, build_url(*[rng.choice(x) for x in dims]))
    # random printable noise after the scheme
    alphabet = "ab1:/?#;@[]%.-A"
    for _ in range(300):
        s = "".join(rng.choice(alphabet) for _ in range(rng.randrange(0, 9)))
        u = rng.choice(["ws:", "ws://", "wss://h", "ws://[::1]", "", "x"]) + s
        # bracketed contents must stay inside the modelled judgement of _check_bracketed_host
        if not bracket_in_domain(u):
            continue
        add_parse_url(cs, u)


def bracket_in_domain(u):
    """False when the url has a bracketed host which the model accepts on its alphabet test
    while ipaddress refuses it (or the reverse): such inputs are outside the stated domain."""
    if ":" not in u:
        return True
    rest = u.split(":", 1)[1]
    # reproduce only the netloc extraction (no judgement) to find the bracket contents
    import urllib.parse as P
    try:
        P.urlsplit(rest, "http")
        real_ok = True
    except ValueError:
        real_ok = False
    m = re.search(r"//([^/?#]*)", rest)
    if not m:
        return True
    netloc = m.group(1)
    if "[" not in netloc or "]" not in netloc:
        return True
    content = netloc.partition("[")[2].partition("]")[0]
    if content.startswith("v"):
        return True
    addr, pct, zone = content.partition("%")
    looks = (addr != "" and all(c in "0123456789abcdefABCDEF:." for c in addr) and addr.count(":") >= 2
             and (not pct or (zone != "" and "%" not in zone)))
    if looks:
        import ipaddress
        try:
            ipaddress.ip_address(content)
            return True
        except ValueError:
            return False
    return True


LABELS = ["a", "b", "ab", "ba", "example", "badexample"]


def ip_int(s):
    a, b, c, d = map(int, s.split("."))
    return (a << 24) | (b << 16) | (c << 8) | d


def ip_str(n):
    return ".".join(str((n >> s) & 255) for s in (24, 16, 8, 0))


def add_noproxy(cs, host, lst, env):
    with EnvPatch(env):
        r = call(U._is_no_proxy_host, host, lst)
    cs.add("_is_no_proxy_host(%r, %r) env=%r" % (host, lst, env),
           "is_no_proxy_host %s %s %s" % (zs(host), zlistopt(lst), zenv(env)), r[1] if r[0] == "Ok" else r, "bool")


def gen_noproxy(cs, rng):
    names1 = list(LABELS)
    names2 = [x + "." + y for x in LABELS for y in LABELS]
    names3 = [rng.choice(LABELS) + "." + rng.choice(names2) for _ in range(30)]
    hosts = names1 + names2 + names3 + ["a.", "example.", "", ".a", "a..b"]
    entries = (["*", "", ".", "..a", "..example", "a", "example", "b.example", "*.example", "example.*", " a"]
               + ["." + x for x in names1] + ["." + x for x in names2[:18]] + names2[:6])
    for h in hosts:
        for e in entries:
            add_noproxy(cs, h, [e], {})
    for _ in range(400):
        h = rng.choice(hosts)
        l = [rng.choice(entries) for _ in range(rng.randrange(2, 5))]
        add_noproxy(cs, h, l, {})
    # IPv4 hosts and CIDR blocks for every prefix
    ips = ["192.168.1.77", "10.2.3.4", "10.0.0.0", "255.255.255.255", "0.0.0.0", "127.0.0.1", "128.0.0.1"]
    for ip in ips:
        n = ip_int(ip)
        for p in range(0, 33):
            mask = (0xFFFFFFFF << (32 - p)) & 0xFFFFFFFF
            net = n & mask
            add_noproxy(cs, ip, ["%s/%d" % (ip_str(net), p)], {})          # canonical block holding ip
            add_noproxy(cs, ip, ["%s/%d" % (ip, p)], {})                   # host bits left set
            if p >= 1:
                other = net ^ (1 << (32 - p))                              # the sibling block
                add_noproxy(cs, ip, ["%s/%d" % (ip_str(other), p)], {})
            if p < 32:
                add_noproxy(cs, ip, ["%s/%d" % (ip_str(net | 1), p)], {})
        for e in ["10.0.0.0/33", "10.0.0.0/-1", "10.0.0.0/+8", "10.0.0.0/08", "10.0.0.0/", "10.0.0.0/x", "10.0.0.0/8/9",
                  "a/8", "10.0.0.0", "0.0.0.0/-0", "0.0.0.0/0", "0.0.0.0/00", ".0.0", ".0.0.0", ".1.77", ".3.4", "*", ip,
                  "10.0.0.0.0/8", "256.0.0.0/8", "10.0.0.0/ 8", "/8", "0.0.0.0/032", "0.0.0.0/0032x"]:
            add_noproxy(cs, ip, [e], {})
        add_noproxy(cs, ip, ["a", "10.0.0.0/8", ".example", "192.168.0.0/16"], {})
        add_noproxy(cs, ip, ["127.0.0.0/8", "bad/8", "255.255.255.255/32"], {})
    # name hosts never match CIDR blocks; names that look like addresses but are not canonical quads
    for h in ["a", "example", "1.2.3.4.5", "256.1.1.1", "1.2.3.256", "1.2.3.", ".1.2.3", "1..2.3", "a.b.c.d",
              "1.2.3.4a", "999.1.1.1", "1.2.3.1000"]:
        for e in ["0.0.0.0/0", "1.2.3.0/24", ".3", ".2.3", h, "." + h]:
            add_noproxy(cs, h, [e], {})
    # the environment as the source of the list
    sample_lists = [["*"], ["a", ".example"], [".badexample"], ["example", "b"], ["10.0.0.0/8"], [".a.b", "ab"], [""]]
    sample_hosts = ["a", "x.example".replace("x", "a"), "badexample", "ab.badexample", "10.2.3.4", "b", "a.b", "ab"]
    for l in sample_lists:
        for sep in [",", " , ", ", "]:
            v = sep.join(l)
            for h in sample_hosts:
                for opt in [None, []]:
                    add_noproxy(cs, h, opt, {"no_proxy": v})
                    add_noproxy(cs, h, opt, {"NO_PROXY": v})
                    add_noproxy(cs, h, opt, {"no_proxy": v, "NO_PROXY": "*"})
                    add_noproxy(cs, h, opt, {"no_proxy": "", "NO_PROXY": v})
                    add_noproxy(cs, h, opt, {"no_proxy": " ", "NO_PROXY": v})
                add_noproxy(cs, h, ["zzz"], {"no_proxy": v})
                add_noproxy(cs, h, ["zzz"], {"NO_PROXY": v})
    for h in sample_hosts:
        add_noproxy(cs, h, None, {})
        add_noproxy(cs, h, [], {})
        add_noproxy(cs, h, None, {"no_proxy": ",,"})
        add_noproxy(cs, h, None, {"no_proxy": "a,,b ,"})
        add_noproxy(cs, h, None, {"http_proxy": "*", "https_proxy": h})


def add_bool(cs, pyf, coqname, s):
    r = call(pyf, s)
    cs.add("%s(%r)" % (pyf.__name__, s), "%s %s" % (coqname, zs(s)), r[1] if r[0] == "Ok" else r, "bool")


def gen_ip_subnet(cs, rng):
    # strings inet_aton refuses, and canonical quads; short / octal / hex forms are outside the domain
    ips = ["1.2.3.4", "0.0.0.0", "255.255.255.255", "256.1.1.1", "1.256.1.1", "1.1.1.256", "1.2.3.4.5", "1.2.3.",
           ".1.2.3", "1..2.3", "", "a", "a.b.c.d", "1.2.3.4a", "1.2.3.x", "300.1.1.1", "1.2.3.1000", "9.99.199.249",
           "10.100.250.255", "1.2.3.-4", "1.2.3.+4", "1,2,3,4", "1.2.3.4/8", "::1"]
    for s in ips:
        add_bool(cs, U._is_ip_address, "is_ip_address", s)
    for a in [0, 1, 9, 10, 99, 100, 199, 200, 249, 250, 255, 256, 260, 299, 300, 999]:
        add_bool(cs, U._is_ip_address, "is_ip_address", "1.%d.3.4" % a)
        add_bool(cs, U._is_ip_address, "is_ip_address", "%d.2.3.4" % a)
        add_bool(cs, U._is_ip_address, "is_ip_address", "1.2.3.%d" % a)
    for p in list(range(-2, 36)) + [99, 100, 320, 1000]:
        add_bool(cs, U._is_subnet_address, "is_subnet_address", "10.0.0.0/%d" % p)
    for s in ["10.0.0.0/+8", "10.0.0.0/08", "10.0.0.0/-0", "10.0.0.0/", "10.0.0.0/x", "10.0.0.0/8/9", "a/8", "10.0.0.0",
              "/8", "10.0.0.0/ 8", "10.0.0.0/8 ", "10.0.0.0/3 2", "256.0.0.0/8", "10.0.0.0.0/8", "10.0.0.0/8x", "10.0.0.0/0x8",
              "10.0.0.0/--8", "10.0.0.0/+-8", "10.0.0.0/+", "10.0.0.0/-", "10.0.0.0/00000000000000000000032"]:
        add_bool(cs, U._is_subnet_address, "is_subnet_address", s)


def add_proxy(cs, host, secure, ph, pp, auth, npx, env):
    with EnvPatch(env):
        r = call(U.get_proxy_info, host, secure, ph, pp, auth, npx)
    cs.add("get_proxy_info(%r, %r, %r, %r, %r, %r) env=%r" % (host, secure, ph, pp, auth, npx, env),
           "get_proxy_info %s %s %s %d %s %s %s" % (zs(host), zbool(secure), zopt(ph), pp, zauth(auth), zlistopt(npx),
                                                  zenv(env)), r, "proxy")


def gen_proxy(cs, rng):
    marks = {"http_proxy": "http://lower-http.example:1", "HTTP_PROXY": "http://UPPER-HTTP.example:2/",
             "https_proxy": "http://u:p@lower-https.example:3", "HTTPS_PROXY": "http://upper-https.example:4"}
    keys = list(marks)
    host = "target.example"
    for combo in itertools.product([None, "", "set"], repeat=4):
        env = {}
        for k, c in zip(keys, combo):
            if c == "":
                env[k] = ""
            elif c == "set":
                env[k] = marks[k]
        for secure in (False, True):
            for ph in (None, "", "opt-proxy"):
                for pp in (0, 3128):
                    for npx in (None, [host], ["other", ".zzz"]):
                        auth = ("ou", "op") if (pp and ph) else None
                        add_proxy(cs, host, secure, ph, pp, auth, npx, env)
    # forms of the environment value
    values = ["http://ph", "http://ph/", "http://ph:8080", "http://ph:8080/", "http://PH.Example:3128/",
              "http://user:pw@ph:3128", "http://user:pw@ph:3128/", "http://user:@ph:3128", "http://user@ph:3128",
              "http://:pw@ph:1", "http://user:p:w@ph", "http://ph:0", "http://ph:65535", "http://ph:65536", "http://ph:99999",
              "http://ph:x", "http://ph:", "http://1.2.3.4:8", "http://[::1]:8", "http://[FE80::1%Eth0]:8/", "ph:8080", "ph",
              "//ph:3", "http:// ph : 80 ", " ", "http://", "http:///", "http://@", "http://@ph", "https://ph:443",
              "socks5://u:p@ph:1080", "http://a@b@ph:1", "http://ph:8080/path;x?q#f", "HTTP://PH:1"]
    for v in values:
        for secure in (False, True):
            k = "https_proxy" if secure else "http_proxy"
            add_proxy(cs, host, secure, None, 0, None, None, {k: v})
            add_proxy(cs, host, secure, None, 0, None, None, {k.upper(): v})
            add_proxy(cs, host, secure, None, 0, None, None, {k: "", k.upper(): v})
    # exemption from the environment wins over everything
    for npenv in [{"no_proxy": "*"}, {"NO_PROXY": "target.example"}, {"no_proxy": ".example"}, {"no_proxy": ".ample"},
                  {"no_proxy": "example"}, {"no_proxy": "", "NO_PROXY": "*"}]:
        for secure in (False, True):
            for ph, pp in ((None, 0), ("opt-proxy", 0), ("opt-proxy", 8)):
                env = dict(npenv)
                env["http_proxy"] = "http://e:1"
                env["https_proxy"] = "http://es:2"
                add_proxy(cs, host, secure, ph, pp, None, None, env)
                add_proxy(cs, host, secure, ph, pp, None, ["zzz"], env)


# ---------------------------------------------------------------- evaluation in Coq
HEADER = """From Coq Require Import ZArith List Bool.
From WS Require Import Base.Res Base.Str Base.StrMore Model.Url Model.Proxy.
Import ListNotations.
Open Scope Z_scope.
Set Printing Width 1000000.
"""


def write_files(items):
    if os.path.isdir(OUT):
        shutil.rmtree(OUT)
    os.makedirs(OUT)
    files = []
    for n, start in enumerate(range(0, len(items), PER_FILE)):
        chunk = items[start:start + PER_FILE]
        name = "cases_%02d.v" % n
        with open(os.path.join(OUT, name), "w") as f:
            f.write(HEADER)
            for _, term, _, _ in chunk:
                f.write("Eval vm_compute in (%s).\n" % term)
        files.append((name, chunk))
    return files


def run_coq(name):
    env = dict(os.environ)
    env["TMPDIR"] = OUT
    try:
        p = subprocess.run(["coqc", "-Q", COQ, "WS", "-w", "-all", name], cwd=OUT, timeout=COQC_TIMEOUT, env=env,
                           stdout=subprocess.PIPE, stderr=subprocess.STDOUT, text=True)
        return p.returncode, p.stdout
    except subprocess.TimeoutExpired:
        return 124, "[timeout]"


def split_answers(out):
    """coqc prints, for each Eval,  '     = value\\n     : type'  (value possibly on several lines)."""
    answers = []
    cur = None
    for line in out.splitlines():
        if line.startswith("     = "):
            if cur is not None:
                answers.append(cur)
            cur = line[7:]
        elif line.startswith("     : "):
            if cur is not None:
                answers.append(cur)
                cur = None
        elif cur is not None:
            cur += " " + line.strip()
    if cur is not None:
        answers.append(cur)
    return answers


def normalise(pyval, kind):
    """The python value in the shape conv() produces."""
    if kind == "parse_url":
        return pyval
    if kind == "bool":
        return pyval
    if kind == "proxy":
        return pyval
    return pyval


def same(coqv, pyv):
    """Structural equality where an empty Coq list stands for "" as well as for []."""
    if isinstance(pyv, (tuple, list)) and isinstance(coqv, (tuple, list)):
        return len(pyv) == len(coqv) and all(same(c, p) for c, p in zip(coqv, pyv))
    if coqv == [] and pyv == "":
        return True
    if coqv == "" and pyv == []:
        return True
    if isinstance(pyv, bool) or isinstance(coqv, bool):
        return pyv is coqv
    return coqv == pyv


def main():
    rng = random.Random(20260930)
    cs = Cases()
    gen_parse_url(cs, rng)
    gen_ip_subnet(cs, rng)
    gen_noproxy(cs, rng)
    gen_proxy(cs, rng)
    files = write_files(cs.items)
    bad = []
    total = 0
    with ThreadPoolExecutor(max_workers=min(8, os.cpu_count() or 2)) as ex:
        results = list(ex.map(lambda fc: run_coq(fc[0]), files))
    for (name, chunk), (rc, out) in zip(files, results):
        if rc != 0:
            bad.append("%s: coqc failed (exit %d): %s" % (name, rc, out[-2000:]))
            continue
        answers = split_answers(out)
        if len(answers) != len(chunk):
            bad.append("%s: %d answers for %d cases" % (name, len(answers), len(chunk)))
            continue
        for (label, term, pyval, kind), ans in zip(chunk, answers):
            total += 1
            try:
                coqv = conv(parse_term(tokens(ans)))
            except Exception as e:  # noqa: BLE001
                bad.append("%s: cannot parse coq answer %r (%s)" % (label, ans, e))
                continue
            if not same(coqv, normalise(pyval, kind)):
                bad.append("DISAGREE %s\n    python: %r\n    model : %r" % (label, pyval, coqv))
    # leave only the .v files behind
    for fn in os.listdir(OUT):
        if not fn.endswith(".v"):
            os.remove(os.path.join(OUT, fn))
    kinds = {}
    for _, _, _, k in cs.items:
        kinds[k] = kinds.get(k, 0) + 1
    if bad:
        for b in bad:
            print(b)
        print("FAIL %d disagreement(s) in %d cases" % (len(bad), total))
        return 1
    print("OK %d cases (%s)" % (total, ", ".join("%s=%d" % kv for kv in sorted(kinds.items()))))
    return 0


if __name__ == "__main__":
    sys.exit(main())
