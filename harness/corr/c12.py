"""C12 — each send puts one intact frame on the wire under partial writes and threads."""
import itertools
import random

from corr.common import Tally, hx, digest, exn_class
from corr.recvprops import all_partitions, parse_specseq
from sim.sock import HandshakeSock, server_frame
from sim.sched import Scheduler, SchedLock, explore, preemptions


class SchedSock(HandshakeSock):
    def __init__(self, sched, after=(), accept_cycle=(1,), **kw):
        super().__init__(after, **kw)
        self.sched = sched
        self.accept_cycle = list(accept_cycle)
        self.nsend = 0

    def send(self, data):
        if self.sched.me() is not None:
            self.sched.yield_point("send")
            k = self.accept_cycle[self.nsend % len(self.accept_cycle)]
            self.nsend += 1
            data = bytes(data)[:max(1, k)]
        return super().send(data)

    def recv(self, n):
        if self.sched.me() is not None:
            self.sched.yield_point("recv")
        return super().recv(n)


def make_ws(sched, after, accept_cycle, disp=False):
    """A connected WebSocket whose locks and transport are scheduling points."""
    import websocket
    from websocket import _core, _abnf

    class ThreadingShim:
        def __getattr__(self, name):
            import threading
            return getattr(threading, name)

        def Lock(self_):
            return SchedLock(sched)
    real_threading, real_lock = _core.threading, _abnf.Lock
    _core.threading = ThreadingShim()
    _abnf.Lock = lambda: SchedLock(sched)

    def restore():
        _core.threading, _abnf.Lock = real_threading, real_lock
    try:
        s = SchedSock(sched, after, accept_cycle=accept_cycle)
        if disp:
            # the way WebSocketApp builds every one of its connections: enable_multithread=True and its dispatcher object (writes go
            # through dispatcher.send)
            from websocket import _dispatcher
            ws = websocket.WebSocket(enable_multithread=True, dispatcher=_dispatcher.Dispatcher(None, 10))
        else:
            ws = websocket.WebSocket()          # default configuration: enable_multithread=True
        ws.connect("ws://sim.test/", socket=s, suppress_origin=True)
        s.hs_mark = len(s.log)
        s.mark = len(s.written)
    except BaseException:
        restore()
        raise
    # the shim stays installed while the threads run: a lock the library creates late (on first use) is a scheduled lock too
    ws._verif_restore = restore
    return ws, s


def run_senders(prefix, payloads, accept_cycle, line_rng=None, disp=False):
    sched = Scheduler(prefix, trace_lines=line_rng is not None, rng=line_rng)
    ws, s = make_ws(sched, [], accept_cycle, disp=disp)
    rets = {}
    for i, p in enumerate(payloads):
        def body(i=i, p=p):
            rets[i] = ws.send(p, 2)
        sched.spawn(i, body)
    try:
        sched.run()
    finally:
        ws._verif_restore()
    return sched.trace, {"wire": bytes(s.written[s.mark:]), "rets": rets, "errors": [(t, repr(e)) for t, e in sched.errors]}


def run_receivers(prefix, messages, nthreads, chunks, with_sender=False, line_rng=None, via="recv"):
    """messages: list of lists of (op, fin, payload) frames (one message each); delivered in `chunks`-byte reads."""
    sched = Scheduler(prefix, trace_lines=line_rng is not None, rng=line_rng)
    stream = b"".join(server_frame(op, p, fin=fin) for m in messages for (op, fin, p) in m)
    evs = [("D", stream[i:i + chunks]) for i in range(0, len(stream), chunks)]
    ws, s = make_ws(sched, evs, (3,))
    got = {}
    for i in range(nthreads):
        def body(i=i):
            try:
                got[i] = ws.recv() if via == "recv" else next(ws)       # the iterator protocol (for msg in ws) is a receive call too
            except Exception as e:
                got[i] = "raise:" + exn_class(e)
        sched.spawn(i, body)
    if with_sender:
        def sbody():
            ws.send(b"from-sender", 2)
        sched.spawn(nthreads, sbody)
    try:
        sched.run()
    finally:
        ws._verif_restore()
    return sched.trace, {"got": got, "wire": bytes(s.written[s.mark:]), "errors": [(t, repr(e)) for t, e in sched.errors]}


def judge_wire(T, ctx, pub, wire, payloads, rets, extra_ok=()):
    sp = parse_specseq(ctx.spec.run(["specseq 1 " + hx(wire)])[0]) if ctx.spec else None
    if sp is None:
        return
    want = sorted(f"f12:{digest(p)}" for p in payloads) + sorted(extra_ok)
    if sp["rest"] != 0 or sorted(sp["frames"]) != sorted(want):
        T.fail("spec", pub, f"whole frames {sorted(want)} in some serial order", f"decoded {sp['frames']} rest {sp['rest']}",
               {"site": "send_frame", "cls": "torn-or-missing-frame", "threads": len(payloads)},
               what="the wire does not carry exactly one intact frame per send call")
        return False
    for i, p in enumerate(payloads):
        exp = 2 + (0 if len(p) < 126 else 2 if len(p) < 65536 else 8) + 4 + len(p)
        if rets is not None and rets.get(i) != exp:
            T.fail("spec", pub, f"send() returns {exp}", str(rets.get(i)), {"site": "send_frame", "cls": "return-value"})
            return False
    return True


def run(ctx):
    T = Tally()
    rng = random.Random(ctx.seed)
    # 1. single thread: every short-write pattern for frames of <= 8 bytes, sampled patterns for larger ones
    import websocket
    from corr import c01
    for n in (0, 1, 2):
        total = 6 + n
        for pi_, part in enumerate(all_partitions(total)):
            sc = c01.materialise({"api": "send", "op": 2, "lcg": [n, n + 7], "key": "bytes", "accept": list(part), "dispatcher": bool(pi_ % 2)})
            got = c01.do_send(sc, random.Random(n))
            T.case(("sw", n, tuple(part)), nontrivial=len(part) > 1, bucket="short-writes-exhaustive",
                   sample={"payload_len": n, "accept": list(part)})
            if got["ret"] != total or len(got["wire"]) != total or got["nwrites"] != len(part):
                T.fail("spec", {k: v for k, v in sc.items() if not k.startswith("_")}, f"{total} bytes in {len(part)} writes",
                       f"ret={got['ret']} wire={len(got['wire'])} writes={got['nwrites']}",
                       {"site": "send_frame", "cls": "short-write-loop"})
            elif ctx.spec:
                c01.judge(sc, got, ctx.spec.run(["decode " + hx(got["wire"])])[0], T)
    for j_ in range(60 if ctx.tier == "quick" else 1500):
        n = rng.choice([126, 300, 5000, 70000])
        pat = [rng.choice([1, 2, 7, 100, 4096, 100000]) for _ in range(400)]
        # every other case through the dispatcher's send(), the path of all WebSocketApp connections
        sc = c01.materialise({"api": "send", "op": 2, "lcg": [n, rng.randrange(999)], "key": "bytes", "accept": pat, "dispatcher": bool(j_ % 2)})
        got = c01.do_send(sc, random.Random(n))
        T.case(("swl", n, tuple(pat[:20])), bucket="short-writes-sampled")
        if ctx.spec and n <= 5000:
            c01.judge(sc, got, ctx.spec.run(["decode " + hx(got["wire"])])[0], T)
        elif got["ret"] != len(got["wire"]):
            T.fail("spec", {"n": n}, "ret == bytes written", f"{got['ret']} vs {len(got['wire'])}", {"site": "send_frame", "cls": "short-write-loop"})
    # 2. concurrent senders: systematic interleavings up to a preemption bound
    bound = 2 if ctx.tier == "quick" else 3
    for nthreads, cycle, max_runs in ((2, (1,), 400), (2, (3, 1), 300), (3, (2,), 500), (4, (4, 1), 300)):
        if ctx.tier != "quick":
            max_runs *= 6
        payloads = [bytes([65 + i]) * (1 + i) for i in range(nthreads)]
        for prefix, trace, res in explore(lambda p: run_senders(p, payloads, cycle), bound, max_runs):
            pub = {"kind": "senders", "threads": nthreads, "accept_cycle": list(cycle), "schedule": list(prefix)}
            T.case(("send", nthreads, cycle, tuple(pk for _, pk, _ in trace)), nontrivial=preemptions(trace) > 0,
                   bucket=f"senders{nthreads}", sample={"threads": nthreads, "picks": [pk for _, pk, _ in trace][:30]})
            if res["errors"]:
                T.fail("spec", pub, "no exception", str(res["errors"])[:300], {"site": "send", "cls": "exception-in-thread"})
                break
            if judge_wire(T, ctx, pub, res["wire"], payloads, res["rets"]) is False:
                break
    # the same on a connection built the way WebSocketApp builds its connections (a dispatcher object given)
    for nthreads, cycle, max_runs in ((2, (1,), 200), (3, (2,), 200)):
        if ctx.tier != "quick":
            max_runs *= 6
        payloads = [bytes([65 + i]) * (1 + i) for i in range(nthreads)]
        for prefix, trace, res in explore(lambda p: run_senders(p, payloads, cycle, disp=True), bound, max_runs):
            pub = {"kind": "senders", "threads": nthreads, "accept_cycle": list(cycle), "schedule": list(prefix), "dispatcher": True}
            T.case(("send-disp", nthreads, cycle, tuple(pk for _, pk, _ in trace)), nontrivial=preemptions(trace) > 0,
                   bucket=f"senders{nthreads}-app-connection", sample={"threads": nthreads, "picks": [pk for _, pk, _ in trace][:30]})
            if res["errors"]:
                T.fail("spec", pub, "no exception", str(res["errors"])[:300], {"site": "send", "cls": "exception-in-thread"})
                break
            if judge_wire(T, ctx, pub, res["wire"], payloads, res["rets"]) is False:
                break
    # a frame larger than any internal piece size (64 KiB) racing with a small one, under short writes
    from sim.sock import lcg_bytes
    big = [lcg_bytes(70000, 3), b"BB", b"C"]
    for cycle in ((40000,), (65536, 1), (1000000,)):
        for prefix, trace, res in explore(lambda p: run_senders(p, big, cycle), 2, 40 if ctx.tier == "quick" else 400):
            pub = {"kind": "senders", "payloads": ["lcg:70000,3", "4242", "43"], "accept_cycle": list(cycle), "schedule": list(prefix)}
            T.case(("sendbig", cycle, tuple(pk for _, pk, _ in trace)), nontrivial=preemptions(trace) > 0, bucket="senders-big-frame")
            if res["errors"]:
                T.fail("spec", pub, "no exception", str(res["errors"])[:300], {"site": "send", "cls": "exception-in-thread"})
                break
            if judge_wire(T, ctx, pub, res["wire"], big, res["rets"]) is False:
                break
    # random schedules beyond the bound
    for _ in range(100 if ctx.tier == "quick" else 3000):
        nthreads = rng.randrange(2, 5)
        payloads = [bytes([65 + i]) * rng.randrange(0, 6) for i in range(nthreads)]
        prefix = tuple(rng.randrange(nthreads) for _ in range(80))
        trace, res = run_senders(prefix, payloads, (rng.randrange(1, 4),))
        T.case(("sendr", prefix[:40], tuple(payloads)), nontrivial=preemptions(trace) > 0, bucket="senders-random")
        pub = {"kind": "senders", "threads": nthreads, "payloads": [p.hex() for p in payloads], "schedule": list(prefix)}
        if judge_wire(T, ctx, pub, res["wire"], payloads, res["rets"]) is False:
            break
    # 3. concurrent receivers: every message intact to exactly one of them
    msgsets = [
        [[(1, 1, b"alpha")], [(2, 1, b"\x00\x01\x02")]],
        [[(1, 0, b"frag"), (0, 1, b"mented")], [(1, 1, b"second")]],
        [[(2, 0, b"a"), (9, 1, b"ping"), (0, 1, b"b")], [(2, 1, b"c")], [(1, 1, b"d")]],
    ]
    for messages in msgsets:
        nthreads = len(messages)
        for chunks in (1, 4, 1000):
            mr = 250 if ctx.tier == "quick" else 2500
            via = "next" if chunks == 4 else "recv"
            for prefix, trace, res in explore(lambda p: run_receivers(p, messages, nthreads, chunks, via=via), bound, mr):
                want = []
                for m in messages:
                    data = b"".join(p for (op, fin, p) in m if op in (0, 1, 2))
                    want.append(data.decode() if m[0][0] == 1 else data)
                pub = {"kind": "receivers", "messages": [[(op, fin, p.hex()) for op, fin, p in m] for m in messages],
                       "chunks": chunks, "schedule": list(prefix), "via": via}
                T.case(("recv", len(messages), chunks, tuple(pk for _, pk, _ in trace)), nontrivial=preemptions(trace) > 0,
                       bucket=f"receivers{nthreads}", sample={"chunks": chunks, "picks": [pk for _, pk, _ in trace][:30]})
                got = sorted(map(repr, res["got"].values()))
                if got != sorted(map(repr, want)) or res["errors"]:
                    T.fail("spec", pub, str(sorted(map(repr, want))), str(got) + str(res["errors"])[:200],
                           {"site": "recv", "cls": "message-not-intact-to-one-receiver", "threads": nthreads},
                           what="concurrent receivers did not each get one whole message")
                    break
    # 4. line-level preemption (every line of _core.py/_abnf.py is a scheduling point), random schedules
    nline = 40 if ctx.tier == "quick" else 1500
    if getattr(ctx, "deep_search", False):
        nline = 600
    for j in range(nline):
        lr = random.Random(ctx.seed * 100003 + j)
        messages = msgsets[j % len(msgsets)]
        via = "next" if j % 2 else "recv"
        trace, res = run_receivers((), messages, len(messages), 1000, line_rng=lr, via=via)
        want = []
        for m in messages:
            data = b"".join(p for (op, fin, p) in m if op in (0, 1, 2))
            want.append(data.decode() if m[0][0] == 1 else data)
        T.case(("recv-lines", j), bucket="receivers-line-level")
        got = sorted(map(repr, res["got"].values()))
        if got != sorted(map(repr, want)) or res["errors"]:
            T.fail("spec", {"kind": "receivers-line-level", "messages": [[(op, fin, p.hex()) for op, fin, p in m] for m in messages],
                            "rng_seed": ctx.seed * 100003 + j, "via": via}, str(sorted(map(repr, want))), str(got) + str(res["errors"])[:200],
                   {"site": "recv", "cls": "message-not-intact-to-one-receiver", "threads": len(messages)},
                   what="concurrent receivers (line-level preemption) did not each get one whole message")
            break
        payloads = [bytes([65 + i]) * (1 + i) for i in range(2 + j % 2)]
        trace, res = run_senders((), payloads, (1 + j % 3,), line_rng=lr)
        T.case(("send-lines", j), bucket="senders-line-level")
        if judge_wire(T, ctx, {"kind": "senders-line-level", "rng_seed": ctx.seed * 100003 + j}, res["wire"], payloads, res["rets"]) is False:
            break
    T.validated = T.evaluations
    return T.result(
        "single sender: every short-write pattern (all compositions) for frames of 6-8 bytes, sampled patterns for 126..70000-byte "
        "payloads; 2-4 real sender threads in the default thread-safe configuration with every lock acquisition and every "
        "transport send as a scheduling point, all interleavings up to preemption bound 2 (3) and random schedules beyond, also on a connection built with a dispatcher object as WebSocketApp builds them; "
        "2-3 real receiver threads on streams with fragmented messages and an interleaved ping, chunked 1/4/1000 bytes. Judged by "
        "the extracted RFC decoder: the wire must be whole frames, one per send, in some serial order; every message delivered "
        "intact to exactly one receiver. non-trivial = at least one preemption / more than one write",
        what_is_proved="see Properties/C12.v", trusted_extra=["CPython threading.Lock semantics and the GIL; preemption inside C calls"])


def search(ctx):
    ctx.deep_search = True
    r = run(ctx)
    return [f for f in r["failures"] if f["kind"] == "spec"][:1]


def replay(ctx, sc):
    T = Tally()
    if sc.get("kind") == "senders":
        from sim.sock import lcg_bytes
        payloads = [lcg_bytes(*map(int, p[4:].split(","))) if p.startswith("lcg:") else bytes.fromhex(p) for p in sc["payloads"]] if "payloads" in sc else [bytes([65 + i]) * (1 + i) for i in range(sc["threads"])]
        trace, res = run_senders(tuple(sc["schedule"]), payloads, tuple(sc.get("accept_cycle", (1,))), disp=bool(sc.get("dispatcher")))
        judge_wire(T, ctx, sc, res["wire"], payloads, res["rets"])
        return T.failures[0] if T.failures else None
    return {"note": "rerun ./check C12 quick"}
