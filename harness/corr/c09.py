"""C09 — a connection is reported established only after a valid upgrade response."""
import base64
import itertools
import random
import re

from corr.common import Tally, hx
from corr import connrun
from sim.sock import accept_for

DRAWS = [bytes([i] * 16).hex() for i in range(1, 12)]


def key_of(draw_hex):
    return base64.b64encode(bytes.fromhex(draw_hex))


def head(status, headers, reason=b"X"):
    out = b"HTTP/1.1 %d %s\r\n" % (status, reason)
    for k, v in headers:
        out += k + b": " + v + b"\r\n"
    return out + b"\r\n"


def variants(key):
    """(headers list, note) — response header sets around the valid one."""
    good = accept_for(key)
    other = accept_for(b"AAAAAAAAAAAAAAAAAAAAAA==")
    upg = [b"websocket", b"WebSocket", b" websocket ", b"h2c, websocket", b"websocket2", b"", None]
    con = [b"Upgrade", b"upgrade", b"keep-alive, Upgrade", b"keep-alive", b"Upgrade2", None]
    acc = [good, other, good[:-2], good.swapcase(), good + b"x", b"", None, b" " + good + b" "]
    # each header must carry its own token: the token of one header inside the other one proves nothing
    cross = [(None, b"Upgrade, websocket"), (b"websocket, Upgrade", None), (b"websocket, Upgrade", b"keep-alive"), (b"h2c", b"Upgrade, websocket"),
             (b"upgrade", b"websocket"), (b"Upgrade", b"Upgrade"), (b"websocket", b"websocket")]
    for u, c in cross:
        hs = ([(b"Upgrade", u)] if u is not None else []) + ([(b"Connection", c)] if c is not None else []) + [(b"Sec-WebSocket-Accept", good)]
        yield hs
    for u, c, a in itertools.product(upg, con, acc):
        hs = []
        if u is not None:
            hs.append((b"Upgrade", u))
        if c is not None:
            hs.append((b"Connection", c))
        if a is not None:
            hs.append((b"Sec-WebSocket-Accept", a))
        yield hs


def hdict(headers):
    d = {}
    for k, v in headers:
        d[k.decode().lower()] = v.decode().strip()
    return d


def spec_args(status, headers, key, subs):
    d = hdict(headers)
    hs = "|".join(hx(k.encode()) + "=" + hx(v.encode()) for k, v in d.items()) or "."
    return f"specaccept {status} {hs} {hx(key)} " + ("|".join(hx(s.encode()) for s in subs) or ".")


def gen(tier, rng):
    key = key_of(DRAWS[0])
    good = [(b"Upgrade", b"websocket"), (b"Connection", b"Upgrade"), (b"Sec-WebSocket-Accept", accept_for(key))]
    # 1. header variants with status 101
    for hs in variants(key):
        yield {"kind": "head", "status": 101, "headers": hs, "subs": []}
    # 2. status codes with otherwise perfect headers
    for st in (100, 101, 102, 200, 204, 301, 302, 303, 307, 308, 400, 404, 500, 0, 999):
        yield {"kind": "head", "status": st, "headers": good + ([(b"Location", b"ws://h2.test/")] if 300 <= st < 400 else []),
               "subs": [], "limit": 0}
    # 3. subprotocols
    for offered in ([], ["chat"], ["chat", "Super"], ["a", "b"], ["mqttv3.1", "v12.stomp"]):
        # near misses: prefixes, suffixes, infixes of an offered name, the offer echoed back as a list, a piece across the comma
        near = (b"cha", b"hat", b"ha", b"chat,super", b"t,s", b"uper", b"chat,", b",", b"mqtt", b"stomp", b"v3.1", b"1,v12", b"mqttv3.1,v12.stomp",
                b"mqttv3.1", b"V12.STOMP", b"chatx", b"xchat")
        for sel in (None, b"chat", b"CHAT", b"super", b"nope", b"", b"chat, super") + near:
            hs = list(good) + ([(b"Sec-WebSocket-Protocol", sel)] if sel is not None else [])
            yield {"kind": "head", "status": 101, "headers": hs, "subs": offered}
    # 4. redirect chains of every length against every limit
    L = 5 if tier == "quick" else 8
    for n in range(0, L + 1):
        for limit in range(0, 5 if tier == "quick" else 7):
            yield {"kind": "chain", "n": n, "limit": limit, "final": "ok"}
            if n % 2 == 0:
                yield {"kind": "chain", "n": n, "limit": limit, "final": "bad"}
            if n in (1, 2) and limit >= n:
                # subprotocols offered: the final response of a redirect chain must select one of them, exactly as a direct one must
                yield {"kind": "chain", "n": n, "limit": limit, "final": "ok", "subs": ["chat", "v2"], "selected": None}
                yield {"kind": "chain", "n": n, "limit": limit, "final": "ok", "subs": ["chat", "v2"], "selected": b"other"}
                yield {"kind": "chain", "n": n, "limit": limit, "final": "ok", "subs": ["chat", "v2"], "selected": b"v2"}
    # 5. end of stream / timeout at every byte of a good response and of a redirect
    resp = head(101, good)
    for i in range(len(resp)):
        yield {"kind": "cut", "at": i, "how": "eof"}
        if tier != "quick" or i % 3 == 0:
            yield {"kind": "cut", "at": i, "how": "timeout"}
    # 7. several response heads in one stream: the response is the FIRST head; headers of one head never count for another
    good_hdrs = b"Upgrade: websocket\r\nConnection: Upgrade\r\nSec-WebSocket-Accept: " + accept_for(key) + b"\r\n"
    for interim in (b"100 Continue", b"102 Processing", b"103 Early Hints", b"199 X"):
        yield {"kind": "raw", "bytes": b"HTTP/1.1 " + interim + b"\r\n" + good_hdrs + b"\r\nHTTP/1.1 101 Switching Protocols\r\n\r\n", "expect_connected": False}
        yield {"kind": "raw", "bytes": b"HTTP/1.1 " + interim + b"\r\n" + good_hdrs + b"Sec-WebSocket-Protocol: chat\r\n\r\nHTTP/1.1 101 SP\r\nUpgrade: websocket\r\nConnection: Upgrade\r\n\r\n", "expect_connected": False}
        yield {"kind": "raw", "bytes": b"HTTP/1.1 " + interim + b"\r\n\r\nHTTP/1.1 101 SP\r\n" + good_hdrs + b"\r\n", "expect_connected": False}
    yield {"kind": "raw", "bytes": b"HTTP/1.1 101 SP\r\n" + good_hdrs + b"\r\nHTTP/1.1 500 Late\r\n\r\n", "expect_connected": True}
    # 8. very long header lines: a line is one header however long it is, so the tail of a long line never counts as a header of
    #    its own (here the response lacks Upgrade, or carries no accept value, except inside the padding line's tail)
    acc_line = b"Sec-WebSocket-Accept: " + accept_for(key) + b"\r\n"
    for e in range(6, 17):
        for d in ((-2, -1, 0, 1, 2) if tier != "quick" or e >= 9 else (0,)):
            k = max(1, (1 << e) - len(b"X-Padding: ") + d)
            yield {"kind": "raw", "bytes": b"HTTP/1.1 101 SP\r\nConnection: Upgrade\r\n" + acc_line + b"X-Padding: " + b"a" * k + b"Upgrade: websocket\r\n\r\n",
                   "expect_connected": False, "long_line": k}
            if d == 0:
                yield {"kind": "raw", "bytes": b"HTTP/1.1 101 SP\r\nConnection: Upgrade\r\nUpgrade: websocket\r\nX-Padding: " + b"a" * k + acc_line + b"\r\n",
                       "expect_connected": False, "long_line": k}
    yield {"kind": "raw", "bytes": b"HTTP/1.1 101 SP\r\nX-Padding: " + b"a" * 20000 + b"\r\n" + good_hdrs + b"\r\n", "expect_connected": True, "long_line": 20000}
    # 9. checked header values garbled by bytes that are not valid UTF-8 (nothing may "repair" them before they are compared)
    def hd(u=b"websocket", c=b"Upgrade", a=None, extra=b""):
        return b"HTTP/1.1 101 SP\r\nUpgrade: " + u + b"\r\nConnection: " + c + b"\r\nSec-WebSocket-Accept: " + (a or accept_for(key)) + b"\r\n" + extra + b"\r\n"
    acc_ = accept_for(key)
    for junk in (b"\xff", b"\xfe", b"\xc3", b"\xe2\x82", b"\x80", b"\xed\xa0\x80"):
        for raw in (hd(u=b"web" + junk + b"socket"), hd(u=junk + b"websocket"), hd(c=b"Up" + junk + b"grade"), hd(a=acc_[:5] + junk + acc_[5:]),
                    hd(a=acc_ + junk)):
            yield {"kind": "raw", "bytes": raw, "expect_connected": False, "garbled": True}
        yield {"kind": "raw", "bytes": hd(extra=b"Sec-WebSocket-Protocol: cha" + junk + b"t\r\n"), "expect_connected": False, "garbled": True, "subs": ["chat"]}
    # 6. random mixtures
    for _ in range(600 if tier == "quick" else 5000):
        hs = rng.choice(list(variants(key)))
        hs = list(hs)
        rng.shuffle(hs)
        if rng.random() < 0.3:
            hs.append((b"Set-Cookie", b"a=1"))
        if rng.random() < 0.2:
            hs.insert(0, (b"upgrade", b"nope"))        # a duplicate header: the later one wins in the dict
        yield {"kind": "head", "status": rng.choice([101, 101, 101, 200, 302]), "headers": hs, "subs": rng.choice([[], ["chat"]]),
               "limit": rng.choice([0, 1, 3])}


def build(sc):
    """scenario for connrun + what the judge needs"""
    key = key_of(DRAWS[0])
    good = [(b"Upgrade", b"websocket"), (b"Connection", b"Upgrade")]
    if sc["kind"] == "head":
        st, hs = sc["status"], sc["headers"]
        net = [{"addrs": ["A"], "script": [["D", head(st, hs).hex()]]}]
        # a redirect leads to a second connection answering correctly with the second key
        key2 = key_of(DRAWS[1])
        net.append({"addrs": ["A"], "script": [["D", head(101, good + [(b"Sec-WebSocket-Accept", accept_for(key2))]).hex()]]})
        return {"url": "ws://sim.test/a", "rand": DRAWS[:3], "net": net, "limit": sc.get("limit", 3),
                "opts": ({"subprotocols": sc["subs"]} if sc["subs"] else {})}
    if sc["kind"] == "chain":
        net = []
        for i in range(sc["n"]):
            net.append({"addrs": ["A"], "script": [["D", head(302 if i % 2 else 301, [(b"Location", b"ws://h%d.test/p" % i)]).hex()]]})
        k = key_of(DRAWS[sc["n"]])
        acc = accept_for(k) if sc["final"] == "ok" else accept_for(b"wrong")
        final_hs = good + [(b"Sec-WebSocket-Accept", acc)] + ([(b"Sec-WebSocket-Protocol", sc["selected"])] if sc.get("selected") else [])
        net.append({"addrs": ["A"], "script": [["D", head(101, final_hs).hex()]]})
        return {"url": "ws://sim.test/start", "rand": DRAWS, "net": net, "limit": sc["limit"],
                "opts": ({"subprotocols": sc["subs"]} if sc.get("subs") else {})}
    if sc["kind"] == "raw":
        return {"url": "ws://sim.test/", "rand": DRAWS[:1], "net": [{"addrs": ["A"], "script": [["D", sc["bytes"].hex()]]}],
                "opts": ({"subprotocols": sc["subs"]} if sc.get("subs") else {})}
    if sc["kind"] == "cut":
        resp = head(101, good + [(b"Sec-WebSocket-Accept", accept_for(key))])
        part = resp[:sc["at"]]
        script = ([["D", part.hex()]] if part else []) + ([["T"]] if sc["how"] == "timeout" else [])
        return {"url": "ws://sim.test/", "rand": DRAWS[:1], "net": [{"addrs": ["A"], "script": script}]}


def run(ctx):
    T = Tally()
    rng = random.Random(ctx.seed)
    cases = list(gen(ctx.tier, rng))
    scs = [build(c) for c in cases]
    # the extracted model reads a line in time quadratic in its length: the longest lines are judged by their expectation alone
    with_model = [i for i, c in enumerate(cases) if c.get("long_line", 0) <= 1100]
    model = [None] * len(scs)
    if ctx.model:
        for i, m in zip(with_model, ctx.model.run_parallel([connrun.scenario_line(scs[i]) for i in with_model])):
            model[i] = m
    spec_reqs, spec_idx = [], []
    runs = []
    for i, (c, sc) in enumerate(zip(cases, scs)):
        line, info = connrun.run_impl(sc)
        runs.append((line, info))
        if c["kind"] == "head":
            spec_reqs.append(spec_args(c["status"], c["headers"], key_of(DRAWS[0]), c["subs"]))
            spec_idx.append(i)
    spec = dict(zip(spec_idx, ctx.spec.run_parallel(spec_reqs))) if ctx.spec else {}
    for i, (c, sc) in enumerate(zip(cases, scs)):
        line, info = runs[i]
        pub = {"case": {k: (v if not isinstance(v, list) else [tuple(x.decode("latin-1") if isinstance(x, bytes) else x for x in h) if isinstance(h, tuple) else h for h in v]) for k, v in c.items()}}
        T.case(connrun.scenario_line(sc)[:300], nontrivial=True, bucket=c["kind"] + ("-long-line" if "long_line" in c else ""),
               sample={"case": str(pub["case"])[:200], "line": line[:160]})
        ok = line.startswith("ok;")
        fields = dict(f.split("=", 1) for f in line.split(";")[1:])
        # (a) established only if the FINAL response is a valid upgrade for the key of that very request
        if c["kind"] == "head" and i in spec:
            nreq = len(info["requests"])
            accepts = spec[i] == "1"
            redirected = c["status"] in (301, 302, 303, 307, 308) and c.get("limit", 3) > 0 and any(k.lower() == b"location" for k, _ in c["headers"])
            if not redirected:
                corner = bool(c["subs"]) and hdict(c["headers"]).get("sec-websocket-protocol") == ""
                if ok and not accepts:
                    T.fail("spec", pub, "connect() raises (response is not a valid upgrade)", line[:200],
                           {"site": "connect", "cls": "accepted-invalid-response", "status": c["status"]},
                           what="connect() reported an established connection after an invalid upgrade response")
                elif not ok and accepts and not corner:
                    T.fail("spec", pub, "connected", line[:200], {"site": "connect", "cls": "rejected-valid-response"})
        if c["kind"] == "chain":
            nreq = len(info["requests"])
            should = c["n"] <= c["limit"] and c["final"] == "ok" and (not c.get("subs") or (c.get("selected") or b"").decode().lower() in [x.lower() for x in c["subs"]])
            if ok != should or nreq > c["limit"] + 1:
                T.fail("spec", pub, f"connected={should}, at most {c['limit'] + 1} requests", f"{line[:120]} requests={nreq}",
                       {"site": "connect", "cls": "redirect-handling", "over": c["n"] > c["limit"]},
                       what="redirects are followed at most redirect_limit times and are never success")
        if c["kind"] == "raw" and ok != c["expect_connected"]:
            shown = re.sub(r"a{40,}", lambda m: "a*%d" % len(m.group(0)), c["bytes"].decode("latin-1"))
            T.fail("spec", {"case": {"kind": "raw", "bytes": shown}}, f"connected={c['expect_connected']}", line[:200],
                   {"site": "connect", "cls": "accepted-invalid-response" if ok else "rejected-valid-response", "multi_head": "long_line" not in c and not c.get("garbled"), "garbled": bool(c.get("garbled")),
                    "long_line": "long_line" in c},
                   what=("a header line of %d padding bytes: its tail is not a header of its own" % c["long_line"]) if "long_line" in c else
                   "a checked header value with bytes that are not valid UTF-8 inside it is not the expected value" if c.get("garbled") else
                   "with several response heads in the stream, the answer to the handshake is the first head alone")
        if c["kind"] == "cut" and ok:
            T.fail("spec", pub, "connect() raises on a truncated response", line[:200], {"site": "connect", "cls": "truncated-accepted"})
        # (b) failure is clean
        if not ok:
            ws = info["ws"]
            if ws.connected or ws.sock is not None or any(s.closed < 1 for s in info["socks"]):
                T.fail("spec", pub, "unconnected object, every transport closed", line[:200],
                       {"site": "connect", "cls": "failure-not-clean"})
            if not (fields_ok_exception(line)):
                T.fail("spec", pub, "a documented exception", line[:80], {"site": "connect", "cls": "internal-exception"})
        if model[i] is not None and model[i] != line:
            T.fail("corr", {"line": connrun.scenario_line(sc)[:700]}, model[i][:400], line[:400], {"site": "wsconnect"})
    T.validated = len(cases)
    return T.result(
        "header lines of 2^6..2^16 bytes whose tail reads like a missing header; response heads: 7 Upgrade x 6 Connection x 8 Sec-WebSocket-Accept variants (right, for another key, truncated, "
        "case-swapped, garbled, empty, missing, padded), 15 status codes, offered/selected subprotocol combinations, redirect "
        "chains of length 0..5 (8) against limits 0..4 (6) ending in a valid or invalid response, end of stream and timeout at "
        "every byte of a valid response, random mixtures with duplicate headers; through the real connect() over a simulated "
        "network; judged by the extracted Spec.response_accepts on the key actually sent, and compared with the extracted model",
        what_is_proved="see Properties/C09.v")


def fields_ok_exception(line):
    cls = line.split(";")[0].split(":", 1)[1] if line.startswith("raise:") else ""
    return not cls.startswith("Internal") and not cls.startswith("Other")


def search(ctx):
    r = run(ctx)
    return [f for f in r["failures"] if f["kind"] == "spec"][:1]


def replay(ctx, sc):
    return {"note": "rerun ./check C09 quick; case: " + str(sc)[:300]}
