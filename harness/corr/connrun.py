"""Runs WebSocket.connect / create_connection on the real implementation against a scripted network and
prints the same observation line as the OCaml driver's `wsconnect` command."""
import os

from corr.common import hx, digest, exn_class
from sim.sock import Sock
from sim.fakenet import FakeNet, socklog_str


def script_str(script):
    return ",".join(("D" + (e[1] or "-")) if e[0] == "D" else e[0] for e in script) or "."


def opts_str(o):
    parts = []
    if o.get("subprotocols"):
        parts.append("sub=" + "|".join(hx(s.encode()) for s in o["subprotocols"]))
    for k, n in (("host", "host"), ("cookie", "cookie"), ("connection", "conn")):
        if o.get(k) is not None:
            parts.append(f"{n}={hx(o[k].encode())}")
    if "origin" in o:
        parts.append("origin=" + ("None" if o["origin"] is None else hx(o["origin"].encode())))
    if o.get("suppress_origin"):
        parts.append("suppress=1")
    h = o.get("header")
    if isinstance(h, list):
        parts.append("hlist=" + ("|".join(hx(l.encode()) for l in h) or "."))
    elif isinstance(h, dict):
        parts.append("hdict=" + ("|".join(hx(k.encode()) + ":" + ("None" if v is None else hx(v.encode())) for k, v in h.items()) or "."))
    return ";".join(parts) or "."


def scenario_line(sc):
    net = "|".join("".join(c["addrs"]) + "/" + script_str(c.get("script", [])) for c in sc.get("net", [])) or "."
    prep = "none" if sc.get("prepared") is None else script_str(sc["prepared"])
    rand = ",".join(sc["rand"]) or "."
    return (f"wsconnect {hx(sc['url'].encode())} {sc.get('limit', 3)} {opts_str(sc.get('opts', {}))} {rand} {prep} {net}")


def run_impl(sc):
    import websocket
    from websocket import _http, _handshake, _socket
    draws = [bytes.fromhex(r) for r in sc["rand"]]
    real_urandom = os.urandom

    def fake_urandom(n):
        if n == 16 and draws:
            return draws.pop(0)
        return real_urandom(n)
    net = FakeNet([dict({"addrs": c["addrs"], "script": [("D", bytes.fromhex(e[1])) if e[0] == "D" else (e[0],) for e in c.get("script", [])]},
                        **({"fams": c["fams"]} if c.get("fams") else {}))
                   for c in sc.get("net", [])])
    prepared = None
    if sc.get("prepared") is not None:
        prepared = Sock([("D", bytes.fromhex(e[1])) if e[0] == "D" else (e[0],) for e in sc["prepared"]])
    import logging
    websocket.enableTrace(bool(sc.get("trace")), handler=logging.NullHandler())
    saved_tls = _http._ssl_socket
    if sc.get("fake_tls"):
        _http._ssl_socket = lambda sock, sslopt, hostname: sock          # TLS itself is C11's subject
    saved = (_http.socket, os.urandom, _handshake.CookieJar)
    _http.socket = net
    os.urandom = fake_urandom
    _handshake.CookieJar = type(saved[2])()          # a fresh process-wide jar per scenario
    user_sockopt = sc.get("sockopt", [])
    ws = websocket.WebSocket(sockopt=user_sockopt)
    if "timeout" in sc:
        ws.settimeout(sc["timeout"])
    try:
        try:
            opts = dict(sc.get("opts", {}))
            kw = dict(opts)
            if "limit" in sc:
                kw["redirect_limit"] = sc["limit"]
            if prepared is not None:
                kw["socket"] = prepared
            ws.connect(sc["url"], **kw)
            res = "ok"
        except BaseException as e:
            c = exn_class(e)
            res = "raise:" + c.replace("BadStatus:None", "BadStatus:-1")
    finally:
        _http.socket, os.urandom, _handshake.CookieJar = saved
        _http._ssl_socket = saved_tls
        websocket.enableTrace(False)
    socks = ([prepared] if prepared is not None else []) + [s for conn in net.opened for s in conn if s.outcome == "A"]
    reqs = []
    for s in socks:
        if s.written:
            reqs.append(bytes(s.written))
    line = (res + f";connected={int(bool(ws.connected))};status={ws.status if ws.connected else None}"
            f";sub={'None' if not (ws.connected and ws.subprotocol) else hx(ws.subprotocol.encode())}"
            f";requests={','.join(digest(r) for r in reqs)}"
            f";closes={','.join(str(s.closed) for s in socks)}"
            f";maxread={','.join(str(max(s.reads() or [0])) for s in socks)}"
            f";socklog={'/'.join(socklog_str(conn, _socket.DEFAULT_SOCKET_OPTION, user_sockopt) for conn in net.opened)}")
    return line, {"ws": ws, "socks": socks, "net": net, "requests": reqs}
