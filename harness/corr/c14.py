"""C14 — run_forever always terminates; on_close fires once, last, with the close reason."""
from corr import c13


def run(ctx):
    return c13.run(ctx, "C14")


def search(ctx):
    return c13.search(ctx, "C14")


replay = c13.replay
