"""C08 — closing handshake and connection state follow one consistent state machine."""
import itertools
import random

from corr.common import Tally, hx, exn_class
from corr import wsrun
from corr.recvprops import KEYS
from sim.sock import server_frame, Sock, HandshakeSock, BlocksForever, connected_ws

OPS = ["s1:6869", "rd1", "rv", "pi:70", "cl:1000:-", "cl:3001:627965", "cl:70000:-", "cl:-1:-", "sc:1001:-", "sh", "rf"]
SCRIPTS = {
    "eof": [],
    "silence": [["T"], ["T"], ["T"], ["T"]],
    "data-eof": [["D", server_frame(1, b"hi").hex()]],
    "data-silence": [["D", server_frame(2, b"\x01").hex()], ["T"], ["T"], ["T"]],
    "ping-data": [["D", server_frame(9, b"p").hex()], ["D", server_frame(1, b"x").hex()], ["T"], ["T"]],
    "close": [["D", server_frame(8, b"\x03\xe8").hex()]],
    "close-silence": [["D", server_frame(8, b"\x03\xe9bye").hex()], ["T"], ["T"]],
    "close-close": [["D", server_frame(8, b"\x03\xe8").hex()], ["D", server_frame(8, b"\x03\xe8").hex()], ["T"]],
    "data-close": [["D", server_frame(1, b"a").hex()], ["D", server_frame(8, b"").hex()]],
    "chatter-close": [["D", server_frame(1, b"a").hex()], ["D", server_frame(9, b"").hex()],
                      ["D", server_frame(2, b"b").hex()], ["D", server_frame(8, b"\x03\xe8").hex()], ["T"]],
    "frag-close": [["D", server_frame(1, b"a", fin=0).hex()], ["D", server_frame(8, b"\x03\xe8").hex()],
                   ["D", server_frame(0, b"b").hex()]],
    "bad-then-close": [["D", server_frame(3, b"?").hex()], ["D", server_frame(8, b"\x03\xe8").hex()]],
    "half-frame": [["D", server_frame(2, b"12345").hex()[:8]], ["T"], ["T"]],
}
NEEDS_TRANSPORT = ("s1", "rd1", "rv", "pi", "rf")


def histories(tier, rng):
    L = 3 if tier == "quick" else 4
    for name in SCRIPTS:
        for k in range(1, L + 1):
            for ops in itertools.product(OPS, repeat=k):
                if tier != "quick" and k == 4 and hash((name, ops)) % 3:
                    continue
                yield name, list(ops)
    extra = 3000 if tier == "quick" else 100000
    for _ in range(extra):
        name = rng.choice(list(SCRIPTS))
        yield name, [rng.choice(OPS) for _ in range(rng.randrange(4, 12))]


def judge(T, name, ops, line, s, decoded):
    """Spec judgement of one history run on the implementation (decoded: write bytes -> spec decode line)."""
    pub = {"script": name, "ops": ops, "nolock": bool(getattr(s, "nolock", False))}
    res = line.split(";")[0].split("|")
    writes = [e[1] for e in s.log[s.hs_mark:] if e[0] == "w"]
    closes = [w for w in writes if decoded[w].split(":")[3] == "8" and decoded[w][0] == "F"]
    explicit = sum(1 for o in ops if o.startswith("sc:") or o.startswith("s8:"))
    if explicit == 0 and len(closes) > 1:
        T.fail("spec", pub, "<= 1 close frame", f"{len(closes)} close frames", {"site": "close-frames", "cls": "more-than-one-close"},
               what="more than one close frame written on the client's own initiative on one connection")
        return
    # every close frame is FIN, masked, and carries be16(status) ++ reason of a close()/send_close() call or 1000
    allowed = {"03e8"}
    for o in ops:
        if o.startswith(("cl:", "sc:")):
            _, st, r = o.split(":")
            if 0 <= int(st) < 65536:
                allowed.add(int(st).to_bytes(2, "big").hex() + r.replace("-", ""))
    for w in closes:
        f = decoded[w].split(":")
        if f[1] != "1" or f[2] != "000" or f[4] == "none" or f[5] not in allowed:
            T.fail("spec", pub, f"masked FIN close with body in {sorted(allowed)}", decoded[w],
                   {"site": "close-frames", "cls": "close-encoding"})
            return
    # per-op rules
    closed_at = None
    for i, (o, r) in enumerate(zip(ops, res)):
        before, after = s.marks[i], s.marks[i + 1]
        new = s.log[before:after]
        if o.startswith(("cl:", "sc:")):
            st = int(o.split(":")[1])
            if not (0 <= st < 65536) and (o.startswith("sc:") or connected_before[i] if False else False):
                pass
        if closed_at is not None:
            if new:
                T.fail("spec", pub, f"no transport call after the connection was closed (op {i} {o})", str(new[:3]),
                       {"site": o.split(":")[0], "cls": "transport-touched-after-close"},
                       what="a call touched a transport after the connection had been closed by close() or lost")
                return
            if o.split(":")[0] in NEEDS_TRANSPORT and r != "raise:ConnClosed":
                T.fail("spec", pub, "raise:ConnClosed", r, {"site": o.split(":")[0], "cls": "not-connclosed-after-close"})
                return
        if (o.startswith("cl:") and r == "ok:none") or r == "raise:ConnClosed" or o == "sh":
            if closed_at is None:
                closed_at = i
    # out-of-range status: ValueError before anything is written (send_close always; close when still connected)
    for i, (o, r) in enumerate(zip(ops, res)):
        if o.startswith(("cl:", "sc:")):
            st = int(o.split(":")[1])
            if not (0 <= st < 65536):
                new = [e for e in s.log[s.marks[i]:s.marks[i + 1]] if e[0] == "w"]
                if new:
                    T.fail("spec", pub, "nothing written for an out-of-range status", str(new[:1]),
                           {"site": o[:2], "cls": "bad-status-written"})
                    return
                if o.startswith("sc:") and r != "raise:ValueErr":
                    T.fail("spec", pub, "raise:ValueErr", r, {"site": "send_close", "cls": "bad-status-accepted"})
                    return
                if o.startswith("cl:") and s.conn_before[i] and r != "raise:ValueErr":
                    T.fail("spec", pub, "raise:ValueErr", r, {"site": "close", "cls": "bad-status-accepted"},
                           what="close() with an out-of-range status on a connected object must refuse (ValueError), not close silently")
                    return
    if closed_at is not None:
        if s.ws.sock is not None or s.ws.connected:
            T.fail("spec", pub, "sock released and connected False at the end", f"sock={s.ws.sock} connected={s.ws.connected}",
                   {"site": "state", "cls": "not-released"})
            return
        if s.closed != 1:
            T.fail("spec", pub, "transport closed exactly once", f"{s.closed} times", {"site": "state", "cls": "close-count"})


def bounded_close(T, rng, n, only=None):
    """close() against a peer that keeps talking / stays silent: returns within timeout + one receive timeout
    of virtual time."""
    import websocket
    from websocket import _core

    class Clock:
        now = 1000.0

        @staticmethod
        def time():
            return Clock.now

    class TimedSock(HandshakeSock):
        def recv(self, n_):
            if self.chatter and self.answered and self.hs_done:
                Clock.now += self.dt
                if Clock.now - self.t_start > 500:
                    # close() is not coming back: end the stream so that the check itself terminates
                    self.runaway = True
                    return b""
                if self.timeout is not None and self.dt > self.timeout:
                    import socket as _s
                    raise _s.timeout("timed out")
                # whole messages, or the never-ending fragments of one streamed message
                self.nchat = getattr(self, "nchat", 0) + 1
                fr = server_frame(2, b"noise") if not getattr(self, "frag", False) else server_frame(2 if self.nchat == 1 else 0, b"part", fin=0)
                self.log.append(("r", n_))
                self.pend = getattr(self, "pend", b"") or fr
                out, self.pend = self.pend[:n_], self.pend[n_:]
                return out
            try:
                return super().recv(n_)
            except Exception:
                Clock.now += (self.timeout or 0)
                raise
    real = _core.time
    _core.time = Clock
    try:
        for i in range(n):
            if only is not None:
                timeout, dt, chatter, sock_timeout = only["timeout"], only["dt"], only["chatter"], only.get("sock_timeout", 1)
            else:
                timeout = rng.choice([1, 3, 0.5])
                dt = rng.choice([0.1, 0.4, 1.0, 5.0])
                chatter = (i % 3 != 0)
                sock_timeout = rng.choice([None, None, 1, 10, 0.2])
            s = TimedSock([])
            s.chatter, s.dt, s.hs_done = chatter, dt, False
            s.frag = (only or {}).get("frag", bool(chatter and i % 2))
            s.timeout = sock_timeout
            s.t_start, s.runaway = Clock.now, False
            s.silence_after = True
            ws = websocket.WebSocket()
            ws.connect("ws://sim.test/", socket=s, suppress_origin=True)
            s.hs_done = True
            s.hs_mark = len(s.log)
            t0 = Clock.now
            s.strict_blocking = True
            try:
                ws.close(timeout=timeout)
                if getattr(s, "blocked_forever", False):
                    raise BlocksForever("swallowed inside close()")
            except BlocksForever:
                T.fail("spec", {"kind": "bounded", "timeout": timeout, "dt": dt, "chatter": s.chatter, "sock_timeout": sock_timeout, "frag": s.frag},
                       f"close(timeout={timeout}) returns", "it reads from the transport with no timeout set while the server is silent: it never returns",
                       {"site": "close", "cls": "close-blocks-forever"})
                return
            el = Clock.now - t0
            T.case(("bounded", timeout, dt, s.chatter), bucket="close-bounded",
                   sample={"timeout": timeout, "frame_interval": dt, "chatter": s.chatter, "virtual_elapsed": round(el, 2)})
            bound = timeout + max(timeout, dt) + 1e-9
            if el > bound or ws.sock is not None:
                T.fail("spec", {"kind": "bounded", "timeout": timeout, "dt": dt, "chatter": s.chatter, "sock_timeout": sock_timeout, "frag": s.frag},
                       f"returns within {bound}s of virtual time with the transport released", f"{el}s sock={ws.sock}",
                       {"site": "close", "cls": "close-not-bounded"})
                return
    finally:
        _core.time = real


def write_faults(T):
    """A close frame whose write fails part-way (timeout / broken pipe), followed by the application's clean-up close(): still at most
    one close frame is started on the wire, and the transport is released.  (Judged directly; the model has no write faults.)"""
    import websocket
    for how in ("timeout", "pipe"):
        for part in (0, 3, 5):
            for first in ("send_close", "auto-reply"):
                evs = [("D", server_frame(8, b"\x03\xe8"))] if first == "auto-reply" else []
                ws, s = connected_ws(evs)
                s.silence_after = False
                base = getattr(s, "send_calls", 0)
                s.send_faults = {base + 1: (part, how)}
                res = []
                for call in ((lambda: ws.send_close()) if first == "send_close" else (lambda: ws.recv()), lambda: ws.close(), lambda: ws.close()):
                    try:
                        call()
                        res.append("ok")
                    except Exception as e:
                        res.append("raise:" + exn_class(e))
                starts = [e[1] for e in s.log[s.hs_mark:] if e[0] == "w" and e[1][:1] == b"\x88"]
                T.case(("write-fault", how, part, first), nontrivial=True, bucket="write-fault", sample={"fault": how, "bytes_before_fault": part, "first": first, "results": res})
                if len(starts) > 1 or ws.sock is not None or s.closed < 1:
                    T.fail("spec", {"kind": "write-fault", "fault": how, "part": part, "first": first}, "at most one close frame started, transport released",
                           f"{len(starts)} close frames started, sock={ws.sock}, closed={s.closed}, results={res}", {"site": "close", "cls": "close-count", "write_fault": True},
                           what="after a close frame whose write failed part-way, close() started a second close frame or left the transport open")
                    return


def run(ctx):
    T = Tally()
    write_faults(T)
    rng = random.Random(ctx.seed)
    runs = []
    for name, ops in histories(ctx.tier, rng):
        sc = {"fire": 0, "skip": 0, "script": SCRIPTS[name], "keys": KEYS, "ops": ops, "nolock": len(runs) % 3 == 1}
        line, s = wsrun.run_impl(sc)
        s.nolock = sc["nolock"]
        runs.append((name, ops, sc, line, s))
    allw = list(dict.fromkeys(e[1] for r in runs for e in r[4].log[r[4].hs_mark:] if e[0] == "w"))
    decoded = {}
    if ctx.spec:
        outs = ctx.spec.run_parallel(["decode " + hx(w) for w in allw])
        decoded = dict(zip(allw, outs))
    for name, ops, sc, line, s in runs:
        T.case((name, tuple(ops)), nontrivial=len(ops) > 1, bucket=f"len{min(len(ops), 5)}",
               sample={"script": name, "ops": ops, "line": line[:160]})
        if ctx.spec:
            judge(T, name, ops, line, s, decoded)
    bounded_close(T, rng, 60 if ctx.tier == "quick" else 600)
    if ctx.model:
        outs = ctx.model.run_parallel([wsrun.scenario_line(r[2]) for r in runs])
        for r, o in zip(runs, outs):
            if wsrun.canon_model(o) != r[3]:
                T.fail("corr", {"line": wsrun.scenario_line(r[2])[:600]}, o[:400], r[3][:400], {"site": "wsrun"})
                break
        T.validated = len(outs)
    return T.result(
        "(a third of the histories with enable_multithread=False) every history of 1..3 (4) calls over {send, recv_data_frame, recv, ping, close(1000), close(3001,'bye'), "
        "close(70000), close(-1), send_close(1001), shutdown, recv_frame} against 13 server scripts (end of stream, silence, "
        "data, ping, close frame with/without body, two close frames, chatter then close, close inside a fragmented message, "
        "protocol error, half a frame), plus random histories of 4-11 calls; close() against a silent or chattering peer under "
        "a virtual clock. Judged directly (close frames counted and decoded by the extracted RFC decoder, release of the "
        "transport, ConnClosed without transport calls afterwards, ValueError before any write) and compared line by line with "
        "the extracted model",
        what_is_proved="see Properties/C08.v")


def search(ctx):
    r = run(ctx)
    return [f for f in r["failures"] if f["kind"] == "spec"][:1]


def replay(ctx, sc):
    if sc.get("kind") == "write-fault":
        T = Tally()
        write_faults(T)
        return T.failures[0] if T.failures else None
    if sc.get("kind") == "bounded":
        T = Tally()
        bounded_close(T, random.Random(0), 1, only=sc)
        return T.failures[0] if T.failures else None
    s_ = {"fire": 0, "skip": 0, "script": SCRIPTS[sc["script"]], "keys": KEYS, "ops": sc["ops"], "nolock": sc.get("nolock", False)}
    line, s = wsrun.run_impl(s_)
    s.nolock = s_["nolock"]
    allw = list(dict.fromkeys(e[1] for e in s.log[s.hs_mark:] if e[0] == "w"))
    decoded = dict(zip(allw, ctx.spec.run(["decode " + hx(w) for w in allw])))
    T = Tally()
    judge(T, sc["script"], sc["ops"], line, s, decoded)
    return T.failures[0] if T.failures else None
