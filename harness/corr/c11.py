"""C11 — TLS peers are authenticated by default; only explicit options relax it."""
import os
import ssl
import types

from corr.common import Tally
from corr.validate_wrap import tally_from


class Rec:
    """records what _ssl_socket does to a real-ish context (attribute assignments go to a real SSLContext)"""


def plan_of(sslopt, env=None, hostname="url-host.test"):
    """Run the real _ssl_socket with a wrap_socket-less real SSLContext subclass: returns the attributes of the context
    that actually wrapped the socket."""
    from websocket import _http
    made = []
    wrapped = []

    class Ctx(ssl.SSLContext):
        def __new__(cls, proto=ssl.PROTOCOL_TLS_CLIENT):
            o = super().__new__(cls, proto)
            made.append(o)
            o.loaded_default = False
            o.loaded_locations = None
            return o

        def load_default_certs(self, purpose=ssl.Purpose.SERVER_AUTH):
            self.loaded_default = True

        def load_verify_locations(self, cafile=None, capath=None, cadata=None):
            self.loaded_locations = (cafile, capath)

        def wrap_socket(self, sock, **kw):
            self.wrap_kw = kw
            wrapped.append(self)
            return ("wrapped", sock)
    fake = types.SimpleNamespace(**{k: getattr(ssl, k) for k in dir(ssl) if not k.startswith("__")})
    fake.SSLContext = Ctx
    saved, saved_env = _http.ssl, os.environ.pop("WEBSOCKET_CLIENT_CA_BUNDLE", None)
    _http.ssl = fake
    if env:
        os.environ["WEBSOCKET_CLIENT_CA_BUNDLE"] = env
    try:
        try:
            _http._ssl_socket("rawsock", sslopt if _PASS_SAME else dict(sslopt), hostname)
        except Exception as e:
            return {"error": type(e).__name__}
    finally:
        _http.ssl = saved
        os.environ.pop("WEBSOCKET_CLIENT_CA_BUNDLE", None)
        if saved_env is not None:
            os.environ["WEBSOCKET_CLIENT_CA_BUNDLE"] = saved_env
    if not wrapped:
        return {"error": "socket not wrapped"}
    c = wrapped[-1]
    return {"verify_mode": int(c.verify_mode), "check_hostname": bool(c.check_hostname), "server_hostname": c.wrap_kw.get("server_hostname"),
            "default_certs": c.loaded_default, "locations": c.loaded_locations}


def plan_of_shared(sslopt, hostname):
    """like plan_of, but hands the caller's dict itself to the library (plan_of passes a copy)"""
    global _PASS_SAME
    _PASS_SAME = True
    try:
        return plan_of(sslopt, hostname=hostname)
    finally:
        _PASS_SAME = False


_PASS_SAME = False


def run(ctx):
    T = Tally()
    # 1. directly against the property text, with REAL ssl.SSLContext attribute semantics
    d = plan_of({})
    T.case(("default",), bucket="direct", sample={"sslopt": {}, "plan": d})
    want = {"verify_mode": int(ssl.CERT_REQUIRED), "check_hostname": True, "server_hostname": "url-host.test", "default_certs": True, "locations": None}
    if d != want:
        T.fail("spec", {"sslopt": {}}, str(want), str(d), {"site": "_ssl_socket", "cls": "default-not-authenticated"},
               what="wss with no options must verify the chain and the host name against the default CAs")
    singles = [({"check_hostname": False}, dict(want, check_hostname=False), "check_hostname"),
               ({"ca_certs": "/x/ca.pem"}, dict(want, default_certs=False, locations=("/x/ca.pem", None)), "ca_certs"),
               ({"ca_cert_path": "/x/cas"}, dict(want, default_certs=False, locations=(None, "/x/cas")), "ca_cert_path"),
               ({"server_hostname": "other.test"}, dict(want, server_hostname="other.test"), "server_hostname"),
               ({"ciphers": "HIGH"}, want, "ciphers"), ({"ecdh_curve": "prime256v1"}, want, "ecdh_curve"),
               ({"cert_reqs": ssl.CERT_REQUIRED}, want, "cert_reqs=REQUIRED"),
               # a protocol constant whose fresh context does NOT verify by default: the library must still switch both checks on
               ({"ssl_version": ssl.PROTOCOL_TLSv1_2}, want, "ssl_version=TLSv1_2"), ({"ssl_version": ssl.PROTOCOL_TLS}, want, "ssl_version=TLS"),
               ({"ssl_version": ssl.PROTOCOL_TLSv1_2, "ciphers": "HIGH"}, want, "ssl_version+ciphers")]
    for opt, w, name in singles:
        got = plan_of(opt)
        T.case(("single", name), bucket="direct", sample={"sslopt": str(opt), "plan": got})
        if got != w:
            T.fail("spec", {"sslopt": str(opt)}, str(w), str(got), {"site": "_ssl_socket", "cls": "option-affects-other-check", "option": name},
                   what=f"sslopt {opt} must affect only its own check")
    # every host form is authenticated the same way (names, IPv4 and IPv6 literals)
    for hostname in ("192.0.2.10", "2001:db8::7", "xn--bcher-kva.example", "UPPER.example"):
        for opt in ({}, {"check_hostname": True}, {"ca_certs": "/x/ca.pem"}):
            got = plan_of(opt, hostname=hostname)
            T.case(("hostform", hostname, str(opt)), bucket="direct", sample={"host": hostname, "sslopt": str(opt), "plan": got})
            if got.get("check_hostname") is not True or got.get("verify_mode") != int(ssl.CERT_REQUIRED) or got.get("server_hostname") != hostname:
                T.fail("spec", {"host": hostname, "sslopt": str(opt)}, f"CERT_REQUIRED, check_hostname, server_hostname={hostname}", str(got),
                       {"site": "_ssl_socket", "cls": "host-form-not-authenticated", "literal": hostname[0].isdigit()},
                       what=f"wss host {hostname!r}: the peer's name must be verified by default whatever the host form")
    # one connection's relaxed options must not leak into the next connection of the same process
    for first in ({"ca_certs": "/x/ca.pem", "check_hostname": False}, {"cert_reqs": ssl.CERT_NONE}, {"check_hostname": False}):
        plan_of(first)
        second = {k: v for k, v in first.items() if k == "ca_certs"}
        got = plan_of(second)
        T.case(("sequence", str(first)), bucket="direct", sample={"first": str(first), "then": str(second), "plan": got})
        if got.get("check_hostname") is not True or got.get("verify_mode") != int(ssl.CERT_REQUIRED):
            T.fail("spec", {"first": str(first), "then": str(second)}, "the second connection is fully verified", str(got),
                   {"site": "_ssl_socket", "cls": "relaxation-leaks-across-connections"},
                   what="a relaxed option of an earlier connection weakened a later connection that did not ask for it")
    # an option that is present but None (a wrapper forwarding cfg.get(...)): refused, or treated as not given -- never a reason to stop verifying
    # (check_hostname=None is an explicit falsy value of a boolean option and counts as False; not judged here)
    for opt in ({"cert_reqs": None}, {"ca_certs": None}, {"ca_cert_path": None}, {"cert_reqs": None, "ca_certs": "/x/ca.pem"}):
        got = plan_of(opt)
        T.case(("none-valued", str(opt)), bucket="direct", sample={"sslopt": str(opt), "plan": got})
        if "error" not in got and (got.get("verify_mode") != int(ssl.CERT_REQUIRED) or got.get("check_hostname") is not True):
            T.fail("spec", {"sslopt": str(opt)}, "an error, or a fully verified connection", str(got), {"site": "_ssl_socket", "cls": "none-valued-option-relaxes"},
                   what="an sslopt entry whose value is None switched verification off")
    # one sslopt dict shared by connections to DIFFERENT hosts (a redirect, a reused WebSocket, an application-wide dict): each peer is
    # checked against its own name, and the caller's dict is left as it was
    for shared0 in ({}, {"ca_certs": "/x/ca.pem"}, {"check_hostname": True}):
        shared = dict(shared0)
        plans = []
        for hostname in ("a.test", "b.test", "10.2.3.4", "a.test"):
            plans.append((hostname, plan_of_shared(shared, hostname)))
        T.case(("shared-dict", str(shared0)), bucket="direct", sample={"sslopt": str(shared0), "plans": str(plans)[:200]})
        bad = [(h, p_) for h, p_ in plans if p_.get("server_hostname") != h or p_.get("check_hostname") is not True]
        if bad or shared != shared0:
            T.fail("spec", {"kind": "shared-dict", "sslopt": str(shared0)}, "every connection verified against its own host name; the caller's dict unchanged",
                   f"{bad[:2]} dict afterwards: {shared}", {"site": "_ssl_socket", "cls": "host-name-sticks-to-shared-options"},
                   what="with one sslopt dict used for several hosts a later peer was checked against an earlier host's name (or the dict was modified)")
    got = plan_of({"cert_reqs": ssl.CERT_NONE})
    T.case(("single", "CERT_NONE"), bucket="direct", sample={"sslopt": "CERT_NONE", "plan": got})
    if got.get("verify_mode") != int(ssl.CERT_NONE):
        T.fail("spec", {"sslopt": "cert_reqs=CERT_NONE"}, "verify_mode CERT_NONE", str(got), {"site": "_ssl_socket", "cls": "cert-none-ignored"})
    elif got.get("check_hostname") is not True:
        # CERT_NONE also switches the host-name check off: each option should affect only its own check
        T.fail("spec", {"sslopt": "cert_reqs=CERT_NONE"}, "check_hostname stays True (only the chain check is relaxed)", str(got),
               {"site": "_ssl_socket", "cls": "option-affects-other-check", "option": "cert_reqs=CERT_NONE"},
               what="cert_reqs=CERT_NONE also disables the host-name check")
    # 2. ws:// never wrapped, wss:// wrapped before the first handshake byte (through connect with a fake network)
    import base64
    from websocket import _http
    from sim.fakenet import FakeNet
    from sim.sock import accept_for
    for scheme in ("ws", "wss"):
        draw = bytes(range(16))
        okr = b"HTTP/1.1 101 SP\r\nUpgrade: websocket\r\nConnection: Upgrade\r\nSec-WebSocket-Accept: " + accept_for(base64.b64encode(draw)) + b"\r\n\r\n"
        net = FakeNet([{"addrs": ["A"], "script": [("D", okr)]}])
        wrapped = []
        saved = (_http.socket, os.urandom, _http._ssl_socket)
        _http.socket, os.urandom = net, (lambda n: draw if n == 16 else saved[1](n))
        _http._ssl_socket = lambda sock, sslopt, hostname: (wrapped.append((len(sock.written), hostname)), sock)[1]
        import websocket
        try:
            ws = websocket.WebSocket()
            ws.connect(f"{scheme}://tls.test/")
        finally:
            _http.socket, os.urandom, _http._ssl_socket = saved
        T.case(("wrap", scheme), bucket="direct", sample={"scheme": scheme, "wrapped": wrapped})
        if (scheme == "ws" and wrapped) or (scheme == "wss" and wrapped != [(0, "tls.test")]):
            T.fail("spec", {"scheme": scheme}, "wss wrapped before any byte is written, ws never", str(wrapped), {"site": "connect", "cls": "wrap-order"})
    # 2b. redirects: every connection of a chain is wrapped (before its first byte, for its own host) exactly when the URL that led to it is
    #     wss:// -- the Location's own scheme when it is an absolute URL, the scheme of the redirected request when it is a relative reference
    #     (such a Location may as well be refused).  The client never decides by itself to continue a wss:// exchange in clear text.
    def head(i):
        d_ = bytes([i + 1] * 16)
        return d_, b"HTTP/1.1 101 SP\r\nUpgrade: websocket\r\nConnection: Upgrade\r\nSec-WebSocket-Accept: " + accept_for(base64.b64encode(d_)) + b"\r\n\r\n"
    for start, loc, schemes, hosts in (("wss://tls.test:8443/a", b"/moved", ["wss", "wss"], ["tls.test", "tls.test"]),
                                      ("wss://tls.test/a", b"/moved", ["wss", "wss"], ["tls.test", "tls.test"]),
                                      ("wss://tls.test:8443/a", b"wss://other.test:9443/x", ["wss", "wss"], ["tls.test", "other.test"]),
                                      ("wss://tls.test:8443/a", b"ws://plain.test:8080/x", ["wss", "ws"], ["tls.test", "plain.test"]),
                                      ("ws://plain.test:443/a", b"/moved", ["ws", "ws"], ["plain.test", "plain.test"]),
                                      ("ws://plain.test/a", b"wss://tls.test:8443/x", ["ws", "wss"], ["plain.test", "tls.test"])):
        draws = [head(0)[0], head(1)[0]]
        net = FakeNet([{"addrs": ["A"], "script": [("D", b"HTTP/1.1 302 Found\r\nLocation: " + loc + b"\r\n\r\n")]}, {"addrs": ["A"], "script": [("D", head(1)[1])]}])
        wrapped = []
        saved = (_http.socket, os.urandom, _http._ssl_socket)
        seq = list(draws)
        _http.socket, os.urandom = net, (lambda n: seq.pop(0) if n == 16 and seq else saved[1](n))
        _http._ssl_socket = lambda sock, sslopt, hostname: (wrapped.append((id(sock), len(sock.written), hostname)), sock)[1]
        import websocket
        outcome = "connected"
        try:
            ws = websocket.WebSocket()
            ws.connect(start)
        except Exception as e:
            outcome = "raise:" + type(e).__name__
        finally:
            _http.socket, os.urandom, _http._ssl_socket = saved
        socks = [s_ for s_ in net.all_socks() if getattr(s_, "address", None) is not None]
        obs = [[(w[1], w[2]) for w in wrapped if w[0] == id(s_)] for s_ in socks]
        want_ = [[(0, h)] if sch == "wss" else [] for sch, h in zip(schemes, hosts)][:len(socks)]
        T.case(("redirect-wrap", start, loc), bucket="direct", sample={"start": start, "location": loc.decode(), "outcome": outcome, "wrapped": str(obs)})
        if obs != want_ or (outcome == "connected" and len(socks) != 2):
            T.fail("spec", {"kind": "redirect-wrap", "start": start, "location": loc.decode()}, f"connections wrapped as {want_} (or the redirect refused)", f"{outcome}, {obs}",
                   {"site": "connect", "cls": "redirect-changes-transport-security"},
                   what=f"{start} redirected with Location {loc.decode()}: the connections of the chain were wrapped as {obs}, the URLs call for {want_}")
    # 3. the verified decision model against the real _ssl_socket over the whole option space (coqc)
    tally_from(T, "tls_validate.py", [], "model-vs-impl(tls option space)", "_ssl_socket/_wrap_sni_socket", "C11_only_documented, C11_sweep")
    return T.result(
        "default plan and each documented option alone against the property text with real ssl.SSLContext attribute semantics; "
        "ws/wss wrap ordering through connect(), also along redirect chains (absolute and relative Location); the verified decision model against the real _ssl_socket on the whole option space "
        "(8700 option sets x environment bundle states, self-tested fake SSLContext, 6 connect orders; coqc vm_compute)",
        exhaustive=True, what_is_proved="see Properties/C11.v",
        trusted_extra=["that an ssl.SSLContext with verify_mode=CERT_REQUIRED and check_hostname=True authenticates the peer is OpenSSL/CPython behaviour (not proved)"])


def search(ctx):
    r = run(ctx)
    return [f for f in r["failures"] if f["kind"] == "spec"][:3]


def replay(ctx, sc):
    return {"note": "rerun ./check C11 quick"}
