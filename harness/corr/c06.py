"""C06 — correspondence, translator validation and failing-input search for UTF-8 validation."""
import itertools
import random

from corr.common import Tally, hx, exn_class
from sim.sock import connected_ws, server_frame

# first / last byte of every range of Unicode Table 3-7 and their neighbours
BOUNDARY = [0x00, 0x41, 0x7F, 0x80, 0x8F, 0x90, 0x9F, 0xA0, 0xBF, 0xC0, 0xC1, 0xC2, 0xDF, 0xE0, 0xE1,
            0xEC, 0xED, 0xEE, 0xEF, 0xF0, 0xF1, 0xF3, 0xF4, 0xF5, 0xFF]
SCALARS = [0, 0x41, 0x7F, 0x80, 0x7FF, 0x800, 0xFFF, 0x1000, 0xCFFF, 0xD000, 0xD7FF, 0xE000, 0xFFFD, 0xFFFF,
           0x10000, 0x3FFFF, 0x40000, 0xFFFFF, 0x100000, 0x10FFFF]


def py_spec(b):
    """Reference of last resort (used only to label samples): CPython's strict decoder."""
    try:
        bytes(b).decode("utf-8")
        return True
    except UnicodeDecodeError:
        return False


def gen_strings(tier, rng):
    # exhaustive short strings
    yield b""
    for a in range(256):
        yield bytes([a])
    for a in range(256):
        for b in range(256):
            yield bytes([a, b])
    # boundary alphabet, length 3 (and 4 in thorough)
    for t in itertools.product(BOUNDARY, repeat=3):
        yield bytes(t)
    if tier == "thorough":
        for t in itertools.product(BOUNDARY, repeat=4):
            yield bytes(t)
        # every 3-byte string with a lead byte >= 0xE0 (the 3/4-byte forms)
        for a in range(0xE0, 0x100):
            for b in range(0x80, 0xC0):
                for c in range(0x7F, 0xC1):
                    yield bytes([a, b, c])
    # scalar values: whole, truncated at every length, with a trailing/leading ASCII byte
    for c in SCALARS:
        e = chr(c).encode("utf-8", "surrogatepass")
        for k in range(1, len(e) + 1):
            yield e[:k]
            yield b"a" + e[:k]
            yield e[:k] + b"a"
            yield e + e[:k]
    # long payloads (the verdict never depends on the length): whole, cut inside the last character, one bad byte at either end / in the middle
    for L in (4096, 16384, 65535, 65536, 65537, 70001) + ((131072, 200003) if tier != "quick" else ()):
        unit = "aé€\U0001F600z".encode("utf-8")
        body = (unit * (L // len(unit) + 1))[:L]
        while body and (body[-1] & 0xC0) == 0x80 or body and body[-1] >= 0xC0:
            body = body[:-1]                      # back to a character boundary
        body = body + b"a" * (L - len(body))
        for tail in (b"", b"\xe2\x82", b"\xf0\x9f\x98", b"\xc3", b"\xe2\x82\xac", b"\xff"):
            yield body[:L - len(tail)] + tail
        yield b"\x80" + body[1:]
        yield body[:L // 2] + b"\xed\xa0\x80" + body[L // 2 + 3:L - 1] + b"a"
    # structured random: valid text with one mutation
    n = 3000 if tier == "quick" else 60000
    for _ in range(n):
        cps = [rng.choice(SCALARS + [rng.randrange(0x110000)]) for _ in range(rng.randrange(1, 8))]
        cps = [c for c in cps if not (0xD800 <= c <= 0xDFFF)]
        s = bytearray("".join(map(chr, cps)).encode("utf-8"))
        m = rng.randrange(5)
        if m == 1 and s:
            s[rng.randrange(len(s))] = rng.choice(BOUNDARY)
        elif m == 2 and s:
            del s[rng.randrange(len(s))]
        elif m == 3 and s:
            s = s[:rng.randrange(len(s))]
        elif m == 4:
            s.insert(rng.randrange(len(s) + 1), rng.choice(BOUNDARY))
        yield bytes(s)


def fragmentations(payload, maxfrag):
    """All cuttings of payload into 1..maxfrag fragments (empty fragments included at the ends)."""
    n = len(payload)
    for k in range(1, maxfrag + 1):
        for cuts in itertools.combinations_with_replacement(range(n + 1), k - 1):
            pts = [0] + list(cuts) + [n]
            yield [payload[pts[i]:pts[i + 1]] for i in range(k)]


def recv_text(frags, skip=False, use_recv_data=False):
    """Send a text message as the given fragments; return ('ok', value) | ('raise', class)."""
    evs = []
    for i, f in enumerate(frags):
        evs.append(("D", server_frame(0x1 if i == 0 else 0x0, f, fin=1 if i == len(frags) - 1 else 0)))
    ws, s = connected_ws(evs, skip_utf8_validation=skip)
    try:
        if use_recv_data:
            op, data = ws.recv_data()
            return ("ok", (op, bytes(data)))
        return ("ok", ws.recv())
    except Exception as e:
        return ("raise", exn_class(e))


def run(ctx):
    from websocket import _utils
    T = Tally()
    rng = random.Random(ctx.seed)
    notes = []
    if "wsaccel" in repr(getattr(_utils, "Utf8Validator", "")):
        notes.append("wsaccel is importable: the modelled pure-Python validator is not the active path")

    # 1. translator validation: _decode on every (state, byte) — exhaustive
    if ctx.model and hasattr(_utils, "_decode"):
        states = [0, 12, 24, 36, 48, 60, 72, 84, 96]
        reqs, impl = [], []
        for st in states:
            for b in range(256):
                for cp in (0, 0x3F):
                    reqs.append(f"utf8step {st} {cp} {b}")
                    s2, c2 = _utils._decode(st, cp, b)
                    impl.append(f"{s2},{c2}")
        outs = ctx.model.run(reqs)
        for r, a, b in zip(reqs, outs, impl):
            T.case(("step", r), sample=None, bucket="decode_step")
            if a != b:
                T.fail("translator", {"fn": "_decode", "req": r}, a, b, {"site": "_utils._decode"})
        T.validated += len(reqs)

    # 2. validate_utf8: implementation vs spec oracle (decides the property on the real code)
    #    and vs the regenerated model (validates the translator / tie)
    strings = list(dict.fromkeys(gen_strings(ctx.tier, rng)))
    impl = [bool(_utils.validate_utf8(s)) for s in strings]
    spec = ctx.spec.run_parallel([f"utf8spec {hx(s)}" for s in strings]) if ctx.spec else None
    model = ctx.model.run_parallel([f"utf8 {hx(s)}" for s in strings]) if ctx.model else None
    n_valid = 0
    for i, s in enumerate(strings):
        nontriv = len(s) > 0 and any(b >= 0x80 for b in s)
        T.case(("v", s), nontrivial=nontriv, bucket=f"len{min(len(s), 5)}",
               sample={"bytes": s.hex(), "impl": impl[i], "spec": spec[i] if spec else None})
        if spec is not None:
            want = spec[i] == "1"
            n_valid += want
            if impl[i] != want:
                T.fail("spec", {"fn": "validate_utf8", "bytes": s.hex()}, want, impl[i],
                       {"site": "_utils.validate_utf8", "class": "accepts-ill-formed" if impl[i] else "rejects-well-formed",
                        "shape": shape(s)},
                       what=f"validate_utf8({s!r}) = {impl[i]}, Unicode Table 3-7 says {want}")
        if model is not None and (model[i] == "1") != impl[i]:
            T.fail("corr", {"fn": "validate_utf8", "bytes": s.hex()}, model[i], impl[i], {"site": "validate_utf8"})
    T.validated += len(strings)
    T.dist["spec_wellformed"] = n_valid
    T.dist["spec_illformed"] = len(strings) - n_valid

    # 3. API level: text messages through recv() under every fragmentation; validation on and off;
    #    close reasons
    msgs = [b"", b"a", "€".encode(), "a€b".encode(), "\U00010000".encode(), b"\xc3", b"\xe2\x82",
            b"\xf0\x90\x80", b"\xed\xa0\x80", b"\xc0\x80", b"a\xffb", "éé".encode(), b"\xf4\x90\x80\x80",
            b"\xef\xbf\xbd", b"\xe2\x82\xac\xe2\x82"]
    maxfrag = 3 if ctx.tier == "quick" else 4
    if ctx.spec:
        verdict = dict(zip(msgs, ctx.spec.run([f"utf8spec {hx(m)}" for m in msgs])))
        for m in msgs:
            ok = verdict[m] == "1"
            for frags in fragmentations(m, maxfrag):
                got = recv_text(frags)
                T.case(("api", m, tuple(frags)), nontrivial=len(frags) > 1, bucket="api_recv",
                       sample={"fragments": [f.hex() for f in frags], "result": str(got)[:60]})
                want = ("ok", m.decode("utf-8")) if ok else ("raise", "Payload")
                if got != want:
                    T.fail("spec", {"fn": "recv", "fragments": [f.hex() for f in frags]}, str(want), str(got),
                           {"site": "WebSocket.recv", "class": "text-delivery", "shape": shape(m),
                            "nfrag": min(len(frags), 2)},
                           what=f"text message {m!r} in fragments {frags}: expected {want}, got {got}")
                # validation off: bytes pass through unchanged
                got2 = recv_text(frags, skip=True, use_recv_data=True)
                T.case(("api-skip", m, tuple(frags)), nontrivial=len(frags) > 1, bucket="api_skip")
                if got2 != ("ok", (1, m)):
                    T.fail("spec", {"fn": "recv_data(skip)", "fragments": [f.hex() for f in frags]},
                           str(("ok", (1, m))), str(got2),
                           {"site": "WebSocket.recv_data", "class": "skip-passthrough", "shape": shape(m)})
                # ... also through recv(): the text as str when it can be decoded, else the bytes as they are; never an exception
                got3 = recv_text(frags, skip=True)
                T.case(("api-skip-recv", m, tuple(frags)), nontrivial=len(frags) > 1, bucket="api_skip")
                want3 = ("ok", m.decode("utf-8")) if ok else ("ok", m)
                if got3 != want3:
                    T.fail("spec", {"fn": "recv(skip)", "fragments": [f.hex() for f in frags]}, str(want3), str(got3),
                           {"site": "WebSocket.recv", "class": "skip-passthrough", "shape": shape(m)},
                           what="with validation off the payload must pass through recv() unchanged (no UnicodeDecodeError)")
            # close reason
            body = (1000).to_bytes(2, "big") + m
            ws, s = connected_ws([("D", server_frame(0x8, body))])
            try:
                op, fr = ws.recv_data_frame(True)
                got = ("ok", op)
            except Exception as e:
                got = ("raise", exn_class(e))
            want = ("ok", 8) if ok else ("raise", "Protocol")
            T.case(("close", m), bucket="close_reason")
            if got != want:
                T.fail("spec", {"fn": "close-reason", "reason": m.hex()}, str(want), str(got),
                       {"site": "ABNF.validate", "class": "close-reason", "shape": shape(m)})
        # close reasons of the maximal length (123 bytes) ending in every kind of tail
        for tail in (b"", b"a", "é".encode(), "€".encode(), "😀".encode(), b"\xc3", b"\xe2\x82", b"\xf0\x9f\x98", b"\xed\xa0\x80", b"\xff"):
            for n in (123, 122, 60):
                m = b"r" * (n - len(tail)) + tail
                ok = ctx.spec.run([f"utf8spec {hx(m)}"])[0] == "1"
                ws, s = connected_ws([("D", server_frame(0x8, (1000).to_bytes(2, "big") + m))])
                try:
                    op, fr = ws.recv_data_frame(True)
                    got = ("ok", op)
                except Exception as e:
                    got = ("raise", exn_class(e))
                want = ("ok", 8) if ok else ("raise", "Protocol")
                T.case(("close-long", n, tail), bucket="close_reason")
                if got != want:
                    T.fail("spec", {"fn": "close-reason", "reason": m.hex()}, str(want), str(got),
                           {"site": "ABNF.validate", "class": "close-reason", "shape": shape(m), "len": n})
        # a refused text message ends that message only: what follows on the same connection is judged on its own
        for bad in (b"\xff", b"ab\xc3", b"price: \xe2\x82"):
            for frag in (False, True):
                first = [("D", server_frame(1, bad[:1], fin=0)), ("D", server_frame(0, bad[1:], fin=1))] if frag else [("D", server_frame(1, bad))]
                after = [("D", server_frame(1, b"\xac 5")), ("D", server_frame(1, "fine €".encode())), ("D", server_frame(2, b"\x00\x01")),
                         ("D", server_frame(1, b"t", fin=0)), ("D", server_frame(0, b"ail", fin=1))]
                ws, s = connected_ws(first + after)
                seen = []
                for _ in range(5):
                    try:
                        v = ws.recv()
                        seen.append(("ok", v))
                    except Exception as e:
                        seen.append(("raise", exn_class(e)))
                want = [("raise", "Payload"), ("raise", "Payload"), ("ok", "fine €"), ("ok", b"\x00\x01"), ("ok", "tail")]
                T.case(("after-refusal", bad, frag), nontrivial=True, bucket="after_refusal")
                if seen != want:
                    T.fail("spec", {"fn": "after-refusal", "bad": bad.hex(), "fragmented": frag}, str(want), str(seen),
                           {"site": "WebSocket.recv", "class": "state-after-refused-message"},
                           what="after a text message was refused, the following messages were not judged and delivered on their own")
        T.validated += T.dist.get("api_recv", 0) + T.dist.get("api_skip", 0) + T.dist.get("close_reason", 0)

    return T.result(
        "every byte string of length <= 2, boundary-byte strings of length 3 (4 in thorough), every boundary scalar "
        "value whole and truncated at every length, mutated random valid text, payloads of 4096..70001 (200003) bytes whole / cut inside the last character / with one bad byte; all (state, byte) pairs of _decode; "
        "text messages under every cutting into <= 3 (4) fragments with validation on/off and as close reasons. "
        "non-trivial = contains a byte >= 0x80 (strings) or more than one fragment (API); distinct = distinct byte "
        "strings / fragment tuples",
        exhaustive=False, notes=notes,
        what_is_proved="C06_validator: forall l, bytes_ok l -> validate_utf8 l = wf_utf8 l (regenerated validator = "
                       "Unicode Table 3-7, all byte strings, by a sweep over the regenerated table's 8x256 transitions "
                       "lifted by induction)")


def shape(s):
    """Shape of a byte string for finding signatures: classes of its bytes."""
    def cls(b):
        return "A" if b < 0x80 else "C" if b < 0xC0 else "2" if b < 0xE0 else "3" if b < 0xF0 else "4"
    return "".join(cls(b) for b in bytes(s)[:8])


def search(ctx):
    """Proof/tie broke: look for a byte string on which the implementation disagrees with the spec."""
    from websocket import _utils
    if not ctx.spec:
        return []
    out = []
    strings = []
    for n in range(0, 5):
        for t in itertools.product(BOUNDARY, repeat=n):
            strings.append(bytes(t))
    spec = ctx.spec.run_parallel([f"utf8spec {hx(s)}" for s in strings])
    for s, v in zip(strings, spec):
        got = bool(_utils.validate_utf8(s))
        if got != (v == "1"):
            out.append({"kind": "spec", "scenario": {"fn": "validate_utf8", "bytes": s.hex()}, "expected": v == "1",
                        "got": got, "signature": {"site": "_utils.validate_utf8", "class": "search", "shape": shape(s)},
                        "what": f"validate_utf8({s!r}) = {got}"})
            break
    return out


def replay(ctx, sc):
    from websocket import _utils
    if sc["fn"] == "validate_utf8":
        s = bytes.fromhex(sc["bytes"])
        want = ctx.spec.run([f"utf8spec {hx(s)}"])[0] == "1"
        got = bool(_utils.validate_utf8(s))
        return None if got == want else {"bytes": sc["bytes"], "impl": got, "spec": want}
    if sc["fn"] == "recv(skip)":
        frags = [bytes.fromhex(f) for f in sc["fragments"]]
        m = b"".join(frags)
        ok = ctx.spec.run([f"utf8spec {hx(m)}"])[0] == "1"
        got = recv_text(frags, skip=True)
        want = ("ok", m.decode("utf-8")) if ok else ("ok", m)
        return None if got == want else {"want": str(want), "got": str(got)}
    if sc["fn"] in ("recv", "recv_data(skip)"):
        frags = [bytes.fromhex(f) for f in sc["fragments"]]
        m = b"".join(frags)
        ok = ctx.spec.run([f"utf8spec {hx(m)}"])[0] == "1"
        if sc["fn"] == "recv":
            got = recv_text(frags)
            want = ("ok", m.decode("utf-8")) if ok else ("raise", "Payload")
        else:
            got = recv_text(frags, skip=True, use_recv_data=True)
            want = ("ok", (1, m))
        return None if got == want else {"want": str(want), "got": str(got)}
    if sc["fn"] == "after-refusal":
        return {"note": "rerun ./check C06 quick (fixed scenarios)"}
    if sc["fn"] == "close-reason":
        m = bytes.fromhex(sc["reason"])
        ok = ctx.spec.run([f"utf8spec {hx(m)}"])[0] == "1"
        ws, s = connected_ws([("D", server_frame(0x8, (1000).to_bytes(2, "big") + m))])
        try:
            op, fr = ws.recv_data_frame(True)
            got = ("ok", op)
        except Exception as e:
            got = ("raise", exn_class(e))
        want = ("ok", 8) if ok else ("raise", "Protocol")
        return None if got == want else {"want": str(want), "got": str(got)}
    return {"error": "unknown scenario"}
