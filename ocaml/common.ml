(* Trusted glue shared by the spec-only and the full driver: conversions, registry, main loop. *)
open Core

let rec pos_of_int n = if n = 1 then XH else if n land 1 = 1 then XI (pos_of_int (n lsr 1)) else XO (pos_of_int (n lsr 1))
let z_of_int n = if n = 0 then Z0 else if n > 0 then Zpos (pos_of_int n) else Zneg (pos_of_int (-n))
let rec int_of_pos = function XH -> 1 | XO p -> 2 * int_of_pos p | XI p -> 2 * int_of_pos p + 1
let int_of_z = function Z0 -> 0 | Zpos p -> int_of_pos p | Zneg p -> - (int_of_pos p)
let rec nat_of_int n = if n <= 0 then O else S (nat_of_int (n - 1))
let rec int_of_nat = function O -> 0 | S n -> 1 + int_of_nat n
let z_of_string s =
  let neg = String.length s > 0 && s.[0] = '-' in
  let ds = if neg then String.sub s 1 (String.length s - 1) else s in
  let ten = z_of_int 10 in
  let acc = ref Z0 in
  String.iter (fun c -> acc := Z.add (Z.mul !acc ten) (z_of_int (Char.code c - 48))) ds;
  if neg then Z.opp !acc else !acc
let string_of_z z =
  match z with
  | Z0 -> "0"
  | _ ->
    let neg = (match z with Zneg _ -> true | _ -> false) in
    let ten = z_of_int 10 in
    let buf = Buffer.create 20 in
    let rec go z acc = if z = Z0 then acc else go (Z.div z ten) (string_of_int (int_of_z (Z.modulo z ten)) :: acc) in
    List.iter (Buffer.add_string buf) (go (Z.abs z) []);
    (if neg then "-" else "") ^ Buffer.contents buf

let bytes_of_hex s =
  if s = "-" then [] else begin
    let n = String.length s / 2 in
    let rec go i acc = if i < 0 then acc else go (i - 1) (z_of_int (int_of_string ("0x" ^ String.sub s (2 * i) 2)) :: acc) in
    go (n - 1) []
  end
let hex_of_bytes l =
  if l = [] then "-" else begin
    let b = Buffer.create 64 in
    List.iter (fun z -> Buffer.add_string b (Printf.sprintf "%02x" ((int_of_z z) land 0xff))) l;
    Buffer.contents b
  end
(* long byte strings are compared as #len:md5 *)
let digest_of_bytes l =
  let n = List.length l in
  if n <= 64 then hex_of_bytes l
  else begin
    let b = Bytes.create n in
    List.iteri (fun i z -> Bytes.set b i (Char.chr ((int_of_z z) land 0xff))) l;
    Printf.sprintf "#%d:%s" n (Digest.to_hex (Digest.bytes b))
  end
(* pseudo-random payloads shared with the Python side *)
let lcg_bytes n seed =
  let x = ref seed in
  let rec go i acc = if i = 0 then List.rev acc else begin
    x := (!x * 1103515245 + 12345) land 0x7fffffff;
    go (i - 1) (z_of_int ((!x lsr 16) land 255) :: acc) end in
  go n []
(* a bytes argument: hex, "-" (empty) or "L<len>,<seed>" *)
let bytes_arg s =
  if String.length s > 0 && s.[0] = 'L' then
    Scanf.sscanf s "L%d,%d" (fun n seed -> lcg_bytes n seed)
  else bytes_of_hex s
(* comma separated list of byte strings; "." = empty list *)
let bytes_list_arg s = if s = "." then [] else List.map bytes_arg (String.split_on_char ',' s)
let zlist_arg s = if s = "." then [] else List.map z_of_string (String.split_on_char ',' s)

let b2s b = if b then "1" else "0"
let s2b s = (s = "1")

let handlers : (string, string list -> string) Hashtbl.t = Hashtbl.create 64
let reg name f = Hashtbl.replace handlers name f

let main () =
  try
    while true do
      let line = input_line stdin in
      let parts = List.filter (fun s -> s <> "") (String.split_on_char ' ' line) in
      (match parts with
       | [] -> print_endline ""
       | cmd :: args ->
         (match Hashtbl.find_opt handlers cmd with
          | Some f -> (try print_endline (f args) with
              | Stack_overflow -> print_endline "driver-error:stack"
              | e -> print_endline ("driver-error:" ^ Printexc.to_string e))
          | None -> print_endline ("unknown-command:" ^ cmd)))
    done
  with End_of_file -> ()
