(* Handlers for the regenerated definitions and the hand-written model. *)
open Core
open Common

let exn_name = function
  | Protocol -> "Protocol" | Payload -> "Payload" | ConnClosed -> "ConnClosed" | TimedOut -> "TimedOut"
  | BadStatus c -> "BadStatus:" ^ string_of_z c
  | WsGeneric -> "WsGeneric" | ProxyErr -> "ProxyErr" | AddressErr -> "AddressErr" | ValueErr -> "ValueErr"
  | Internal k -> "Internal:" ^ (match k with IndexErr -> "IndexError" | KeyErr -> "KeyError" | IntParse -> "ValueError"
                                | StructErr -> "struct.error" | AttrErr -> "AttributeError" | UnicodeDec -> "UnicodeDecodeError"
                                | TypeErr -> "TypeError")
  | Transport k -> "Transport:" ^ string_of_z k
  | OutOfFuel -> "OutOfFuel"

let () =
  reg "utf8" (function [h] -> b2s (validate_utf8 (bytes_arg h)) | _ -> "badargs");
  reg "utf8step" (function [s; c; b] ->
      let (s', c') = decode_step (z_of_string s) (z_of_string c) (z_of_string b) in
      string_of_z s' ^ "," ^ string_of_z c' | _ -> "badargs")

let res_str f = function Ok a -> "ok:" ^ f a | Raise e -> "raise:" ^ exn_name e

let () =
  (* format <fin> <op> <payload> <key> -> ok:<digest> *)
  reg "format" (function [fin; op; p; k] ->
      res_str digest_of_bytes (format_frame (z_of_string fin) (z_of_string op) (bytes_arg p) (bytes_arg k)) | _ -> "badargs");
  (* formatraw <fin> <r1> <r2> <r3> <op> <mask> <payload> <key> *)
  reg "formatraw" (function [fin; r1; r2; r3; op; m; p; k] ->
      res_str digest_of_bytes (abnf_format (z_of_string fin) (z_of_string r1) (z_of_string r2) (z_of_string r3)
                                 (z_of_string op) (z_of_string m) (bytes_arg p) (bytes_arg k)) | _ -> "badargs");
  (* sendframe <fin> <op> <payload> <key> <accept list> -> ok:<ret>:<digest of concat>:<nwrites>:<keysleft> *)
  reg "sendframe" (function [fin; op; p; k; acc] ->
      res_str (fun (((ret, wire), ks), _) ->
          string_of_z ret ^ ":" ^ digest_of_bytes (List.concat wire) ^ ":" ^ string_of_int (List.length wire)
          ^ ":" ^ String.concat "," (List.map (fun w -> string_of_int (List.length w)) wire)
          ^ ":" ^ string_of_int (List.length ks))
        (ws_send_frame (z_of_string fin) (z_of_string op) (bytes_arg p) [bytes_arg k] (zlist_arg acc)) | _ -> "badargs");
  reg "closebody" (function [st; r] -> hex_of_bytes (close_body (z_of_string st) (bytes_arg r)) | _ -> "badargs");
  reg "maskbig" (function [k; d] -> digest_of_bytes (mask_bigint (bytes_arg k) (bytes_arg d)) | _ -> "badargs");
  reg "validclose" (function [c] -> b2s (is_valid_close_status (z_of_string c)) | _ -> "badargs");
  (* validate <fin> <r1> <r2> <r3> <op> <payload> <skip> *)
  reg "validate" (function [fin; r1; r2; r3; op; p; skip] ->
      res_str (fun () -> "unit") (abnf_validate (z_of_string fin) (z_of_string r1) (z_of_string r2) (z_of_string r3)
                                    (z_of_string op) (bytes_arg p) (s2b skip)) | _ -> "badargs");
  reg "parsehdr" (function [h] ->
      let ((((((a, b), c), d), e), f), g) = parse_header (bytes_arg h) in
      String.concat "," (List.map string_of_z [a; b; c; d; e; f; g]) | _ -> "badargs")

(* ---- whole API scripts on the connection model ----
   wsrun <fire><skip> <script> <keys> <ops>
   script: D<hex>,T,R  ("." empty)   keys: hex,hex ("." none)
   ops: rf | rd0 | rd1 | rv | s<op>:<hex> | pi:<hex> | po:<hex> | sc:<status>:<hex> | cl:<status>:<hex> | sh *)
let ev_arg s =
  if s = "T" then Timeout else if s = "R" then Reset
  else Data (bytes_arg (String.sub s 1 (String.length s - 1)))
let list_arg f s = if s = "." then [] else List.map f (String.split_on_char ',' s)
let op_arg s =
  match String.split_on_char ':' s with
  | ["rf"] -> OpRecvFrame | ["rd0"] -> OpRecvDataFrame false | ["rd1"] -> OpRecvDataFrame true
  | ["rv"] -> OpRecv | ["sh"] -> OpShutdown
  | ["pi"; h] -> OpPing (bytes_arg h) | ["po"; h] -> OpPong (bytes_arg h)
  | ["sc"; st; h] -> OpSendClose (z_of_string st, bytes_arg h)
  | ["cl"; st; h] -> OpClose (z_of_string st, bytes_arg h)
  | [sop; h] when String.length sop > 1 && sop.[0] = 's' ->
      OpSend (z_of_string (String.sub sop 1 (String.length sop - 1)), bytes_arg h)
  | _ -> failwith ("bad op " ^ s)
let frame_obs (a : abnf) = Printf.sprintf "f%s%s:%s" (string_of_z a.a_fin) (string_of_z a.a_opcode) (digest_of_bytes a.a_data)
let res_obs = function
  | RFrame a -> "ok:" ^ frame_obs a
  | RData (op, a) -> "ok:" ^ string_of_z op ^ ":" ^ frame_obs a
  | RRecv (k, d) -> "ok:" ^ (match int_of_z k with 1 -> "t:" | 2 -> "b:" | _ -> "e:") ^ digest_of_bytes d
  | RInt n -> "ok:" ^ string_of_z n
  | RUnit -> "ok:none"
  | RExn e -> "raise:" ^ exn_name e
let io_obs = function
  | IRead n -> "r" ^ string_of_z n | IWrite b -> "w" ^ digest_of_bytes b
  | IClose -> "c" | IShutdown -> "h" | ISetTimeout -> "t"

let () =
  reg "wsrun" (function [flags; script; keys; ops] ->
      let fire = flags.[0] = '1' and skip = flags.[1] = '1' in
      let x = { inbox = list_arg ev_arg script; iolog = [] } in
      let w = ws_init x (list_arg bytes_arg keys) fire skip in
      let (rs, w') = run_ops w (list_arg op_arg ops) in
      String.concat "|" (List.map res_obs rs)
      ^ ";conn=" ^ b2s w'.connected ^ ";sock=" ^ (match w'.sock with Some _ -> "1" | None -> "0")
      ^ ";io=" ^ String.concat "," (List.map io_obs (all_io w'))
    | _ -> "badargs")
