(* Handlers for the regenerated definitions and the hand-written model. *)
open Core
open Common

let exn_name = function
  | Protocol -> "Protocol" | Payload -> "Payload" | ConnClosed -> "ConnClosed" | TimedOut -> "TimedOut"
  | BadStatus c -> "BadStatus:" ^ string_of_z c
  | WsGeneric -> "WsGeneric" | ProxyErr -> "ProxyErr" | AddressErr -> "AddressErr" | ValueErr -> "ValueErr"
  | Internal k -> "Internal:" ^ (match k with IndexErr -> "IndexError" | KeyErr -> "KeyError" | IntParse -> "ValueError"
                                | StructErr -> "struct.error" | AttrErr -> "AttributeError" | UnicodeDec -> "UnicodeDecodeError"
                                | TypeErr -> "TypeError")
  | Transport k -> "Transport:" ^ string_of_z k
  | OutOfFuel -> "OutOfFuel"

let () =
  reg "utf8" (function [h] -> b2s (validate_utf8 (bytes_arg h)) | _ -> "badargs");
  reg "utf8step" (function [s; c; b] ->
      let (s', c') = decode_step (z_of_string s) (z_of_string c) (z_of_string b) in
      string_of_z s' ^ "," ^ string_of_z c' | _ -> "badargs")

let res_str f = function Ok a -> "ok:" ^ f a | Raise e -> "raise:" ^ exn_name e

let () =
  (* format <fin> <op> <payload> <key> -> ok:<digest> *)
  reg "format" (function [fin; op; p; k] ->
      res_str digest_of_bytes (format_frame (z_of_string fin) (z_of_string op) (bytes_arg p) (bytes_arg k)) | _ -> "badargs");
  (* formatraw <fin> <r1> <r2> <r3> <op> <mask> <payload> <key> *)
  reg "formatraw" (function [fin; r1; r2; r3; op; m; p; k] ->
      res_str digest_of_bytes (abnf_format (z_of_string fin) (z_of_string r1) (z_of_string r2) (z_of_string r3)
                                 (z_of_string op) (z_of_string m) (bytes_arg p) (bytes_arg k)) | _ -> "badargs");
  (* sendframe <fin> <op> <payload> <key> <accept list> -> ok:<ret>:<digest of concat>:<nwrites>:<keysleft> *)
  reg "sendframe" (function [fin; op; p; k; acc] ->
      res_str (fun (((ret, wire), ks), _) ->
          string_of_z ret ^ ":" ^ digest_of_bytes (List.concat wire) ^ ":" ^ string_of_int (List.length wire)
          ^ ":" ^ String.concat "," (List.map (fun w -> string_of_int (List.length w)) wire)
          ^ ":" ^ string_of_int (List.length ks))
        (ws_send_frame (z_of_string fin) (z_of_string op) (bytes_arg p) [bytes_arg k] (zlist_arg acc)) | _ -> "badargs");
  reg "closebody" (function [st; r] -> hex_of_bytes (close_body (z_of_string st) (bytes_arg r)) | _ -> "badargs");
  reg "maskbig" (function [k; d] -> digest_of_bytes (mask_bigint (bytes_arg k) (bytes_arg d)) | _ -> "badargs");
  reg "validclose" (function [c] -> b2s (is_valid_close_status (z_of_string c)) | _ -> "badargs");
  (* validate <fin> <r1> <r2> <r3> <op> <payload> <skip> *)
  reg "validate" (function [fin; r1; r2; r3; op; p; skip] ->
      res_str (fun () -> "unit") (abnf_validate (z_of_string fin) (z_of_string r1) (z_of_string r2) (z_of_string r3)
                                    (z_of_string op) (bytes_arg p) (s2b skip)) | _ -> "badargs");
  reg "parsehdr" (function [h] ->
      let ((((((a, b), c), d), e), f), g) = parse_header (bytes_arg h) in
      String.concat "," (List.map string_of_z [a; b; c; d; e; f; g]) | _ -> "badargs")
