(* Handlers for the regenerated definitions and the hand-written model. *)
open Core
open Common

let exn_name = function
  | Protocol -> "Protocol" | Payload -> "Payload" | ConnClosed -> "ConnClosed" | TimedOut -> "TimedOut"
  | BadStatus c -> "BadStatus:" ^ string_of_z c
  | WsGeneric -> "WsGeneric" | ProxyErr -> "ProxyErr" | AddressErr -> "AddressErr" | ValueErr -> "ValueErr"
  | Internal k -> "Internal:" ^ (match k with IndexErr -> "IndexError" | KeyErr -> "KeyError" | IntParse -> "ValueError"
                                | StructErr -> "struct.error" | AttrErr -> "AttributeError" | UnicodeDec -> "UnicodeDecodeError"
                                | TypeErr -> "TypeError")
  | Transport k -> "Transport:" ^ string_of_z k
  | OutOfFuel -> "OutOfFuel"

let () =
  reg "utf8" (function [h] -> b2s (validate_utf8 (bytes_arg h)) | _ -> "badargs");
  reg "utf8step" (function [s; c; b] ->
      let (s', c') = decode_step (z_of_string s) (z_of_string c) (z_of_string b) in
      string_of_z s' ^ "," ^ string_of_z c' | _ -> "badargs")

let res_str f = function Ok a -> "ok:" ^ f a | Raise e -> "raise:" ^ exn_name e

let () =
  (* format <fin> <op> <payload> <key> -> ok:<digest> *)
  reg "format" (function [fin; op; p; k] ->
      res_str digest_of_bytes (format_frame (z_of_string fin) (z_of_string op) (bytes_arg p) (bytes_arg k)) | _ -> "badargs");
  (* formatraw <fin> <r1> <r2> <r3> <op> <mask> <payload> <key> *)
  reg "formatraw" (function [fin; r1; r2; r3; op; m; p; k] ->
      res_str digest_of_bytes (abnf_format (z_of_string fin) (z_of_string r1) (z_of_string r2) (z_of_string r3)
                                 (z_of_string op) (z_of_string m) (bytes_arg p) (bytes_arg k)) | _ -> "badargs");
  (* sendframe <fin> <op> <payload> <key> <accept list> -> ok:<ret>:<digest of concat>:<nwrites>:<keysleft> *)
  reg "sendframe" (function [fin; op; p; k; acc] ->
      res_str (fun (((ret, wire), ks), _) ->
          string_of_z ret ^ ":" ^ digest_of_bytes (List.concat wire) ^ ":" ^ string_of_int (List.length wire)
          ^ ":" ^ String.concat "," (List.map (fun w -> string_of_int (List.length w)) wire)
          ^ ":" ^ string_of_int (List.length ks))
        (ws_send_frame (z_of_string fin) (z_of_string op) (bytes_arg p) [bytes_arg k] (zlist_arg acc)) | _ -> "badargs");
  reg "closebody" (function [st; r] -> hex_of_bytes (close_body (z_of_string st) (bytes_arg r)) | _ -> "badargs");
  reg "maskbig" (function [k; d] -> digest_of_bytes (mask_bigint (bytes_arg k) (bytes_arg d)) | _ -> "badargs");
  reg "validclose" (function [c] -> b2s (is_valid_close_status (z_of_string c)) | _ -> "badargs");
  (* validate <fin> <r1> <r2> <r3> <op> <payload> <skip> *)
  reg "validate" (function [fin; r1; r2; r3; op; p; skip] ->
      res_str (fun () -> "unit") (abnf_validate (z_of_string fin) (z_of_string r1) (z_of_string r2) (z_of_string r3)
                                    (z_of_string op) (bytes_arg p) (s2b skip)) | _ -> "badargs");
  reg "parsehdr" (function [h] ->
      let ((((((a, b), c), d), e), f), g) = parse_header (bytes_arg h) in
      String.concat "," (List.map string_of_z [a; b; c; d; e; f; g]) | _ -> "badargs")

(* ---- whole API scripts on the connection model ----
   wsrun <fire><skip> <script> <keys> <ops>
   script: D<hex>,T,R  ("." empty)   keys: hex,hex ("." none)
   ops: rf | rd0 | rd1 | rv | s<op>:<hex> | pi:<hex> | po:<hex> | sc:<status>:<hex> | cl:<status>:<hex> | sh *)
let ev_arg s =
  if s = "T" then Timeout else if s = "R" then Reset
  else Data (bytes_arg (String.sub s 1 (String.length s - 1)))
let list_arg f s = if s = "." then [] else List.map f (String.split_on_char ',' s)
let op_arg s =
  match String.split_on_char ':' s with
  | ["rf"] -> OpRecvFrame | ["rd0"] -> OpRecvDataFrame false | ["rd1"] -> OpRecvDataFrame true
  | ["rv"] -> OpRecv | ["sh"] -> OpShutdown
  | ["pi"; h] -> OpPing (bytes_arg h) | ["po"; h] -> OpPong (bytes_arg h)
  | ["sc"; st; h] -> OpSendClose (z_of_string st, bytes_arg h)
  | ["cl"; st; h] -> OpClose (z_of_string st, bytes_arg h)
  | [sop; h] when String.length sop > 1 && sop.[0] = 's' ->
      OpSend (z_of_string (String.sub sop 1 (String.length sop - 1)), bytes_arg h)
  | _ -> failwith ("bad op " ^ s)
let frame_obs (a : abnf) = Printf.sprintf "f%s%s:%s" (string_of_z a.a_fin) (string_of_z a.a_opcode) (digest_of_bytes a.a_data)
let res_obs = function
  | RFrame a -> "ok:" ^ frame_obs a
  | RData (op, a) -> "ok:" ^ string_of_z op ^ ":" ^ frame_obs a
  | RRecv (k, d) -> "ok:" ^ (match int_of_z k with 1 -> "t:" | 2 -> "b:" | _ -> "e:") ^ digest_of_bytes d
  | RInt n -> "ok:" ^ string_of_z n
  | RUnit -> "ok:none"
  | RExn e -> "raise:" ^ exn_name e
let io_obs = function
  | IRead n -> "r" ^ string_of_z n | IWrite b -> "w" ^ digest_of_bytes b
  | IClose -> "c" | IShutdown -> "h" | ISetTimeout -> "t"

let () =
  reg "wsrun" (function [flags; script; keys; ops] ->
      let fire = flags.[0] = '1' and skip = flags.[1] = '1' in
      let x = { inbox = list_arg ev_arg script; iolog = [] } in
      let w = ws_init x (list_arg bytes_arg keys) fire skip in
      let (rs, w') = run_ops w (list_arg op_arg ops) in
      String.concat "|" (List.map res_obs rs)
      ^ ";conn=" ^ b2s w'.connected ^ ";sock=" ^ (match w'.sock with Some _ -> "1" | None -> "0")
      ^ ";io=" ^ String.concat "," (List.map io_obs (all_io w'))
    | _ -> "badargs")

(* ---- WebSocketApp.run_forever (untimed model) ----
   apprun <8 callback modes><:reconnect><:skip> <attempts>
   modes: A absent R return X raise C close K keyboard-interrupt ; order open,reconnect,message,data,error,close,ping,pong
   attempts separated by "|": R | J<status> | E<ev,ev,...> ; ev: F<fin>.<op>:<hex> | BP | BC | BR | T | O *)
let mode_of = function 'A' -> Absent | 'R' -> Ret | 'X' -> RaiseExc | 'C' -> CallClose | 'K' -> RaiseKbd | _ -> failwith "mode"
let aev_of s =
  if s = "T" then APingTimeout else if s = "O" then AOtherClose
  else if s = "BP" then ABad Protocol else if s = "BC" then ABad ConnClosed else if s = "BR" then ABad (Transport (z_of_int 104))
  else if s = "BY" then ABad Payload
  else Scanf.sscanf s "F%d.%d:%s" (fun fin op h ->
      AFrame { a_fin = z_of_int fin; a_rsv1 = Z0; a_rsv2 = Z0; a_rsv3 = Z0; a_opcode = z_of_int op; a_mask = Z0; a_data = bytes_arg h })
let attempt_of s =
  if s = "R" then Refused
  else if s.[0] = 'J' then Rejected (z_of_string (String.sub s 1 (String.length s - 1)))
  else if s = "E" then Established []
  else Established (List.map aev_of (String.split_on_char ',' (String.sub s 1 (String.length s - 1))))
let err_str = function
  | EExn e -> exn_name e | ERefused -> "Refused" | ECallback -> "Callback" | EKbd -> "Kbd"
let tev_str = function
  | TOpen -> "open" | TReconnect -> "reconnect"
  | TData (d, op, fin, txt) -> Printf.sprintf "data:%s:%s:%s:%s" (digest_of_bytes d) (string_of_z op) (b2s fin) (if txt then "t" else "b")
  | TMessage (d, txt) -> Printf.sprintf "msg:%s:%s" (digest_of_bytes d) (if txt then "t" else "b")
  | TPing d -> "ping:" ^ digest_of_bytes d | TPong d -> "pong:" ^ digest_of_bytes d
  | TError e -> "err:" ^ err_str e
  | TClose (c, r) -> Printf.sprintf "close:%s:%s" (match c with Some z -> string_of_z z | None -> "None")
                       (match r with Some b -> digest_of_bytes b | None -> "None")
  | TConnect -> "#connect" | TSockClosed -> "#sockclosed" | TCloseFrameSent -> "#closesent"

let () =
  reg "apprun" (function [cfg; atts] ->
      (match String.split_on_char ':' cfg with
       | [modes; rc; skip] ->
         let m i = mode_of modes.[i] in
         let c = { on_open = m 0; on_reconnect = m 1; on_message = m 2; on_data = m 3; on_error = m 4; on_close = m 5;
                   on_ping = m 6; on_pong = m 7; reconnect = z_of_string rc; app_skip_utf8 = s2b skip } in
         let env = List.map attempt_of (String.split_on_char '|' atts) in
         let (ret, st) = run_forever c env in
         String.concat "," (List.map tev_str st.trace) ^ ";ret=" ^ b2s ret ^ ";sock=" ^ b2s st.has_sock
       | _ -> "badcfg")
    | _ -> "badargs")

(* ---- keepalive timing (C16): keepalive <t0> <I> <T> <ping_first> <arrivals t:P|t:D,...> <horizon> *)
let () =
  reg "keepalive" (function [t0; i; t; pf; arr; hz] ->
      let arrs = list_arg (fun s -> match String.split_on_char ':' s with
          | [tm; "P"] -> (z_of_string tm, APong) | [tm; _] -> (z_of_string tm, AData) | _ -> failwith "arr") arr in
      let (o, st) = keepalive (z_of_string t0) (z_of_string i) (z_of_string t) (s2b pf) arrs (z_of_string hz) in
      (match o with Detected d -> "detected:" ^ string_of_z d | Quiet -> "quiet")
      ^ ";pings=" ^ String.concat "," (List.map string_of_z st.pings)
    | _ -> "badargs");
  reg "pingargs" (function [i; t] ->
      b2s (ping_args_rejected (z_of_string i) (if t = "None" then None else Some (z_of_string t))) | _ -> "badargs")

(* ---- connect(): wsconnect <url> <limit> <opts> <rand draws> <prepared script | none> <net>
   opts: ";"-separated key=value (values hex): sub=a|b host= origin= (origin=None for an explicit None) suppress=1 cookie= conn=
         hlist=l1|l2  hdict=k:v|k:None
   net: "|"-separated connections, each <addr letters>/<script>;  letters: A accept, R refused, U unreachable, O<errno>. *)
let parse_opts s =
  let tbl = Hashtbl.create 8 in
  if s <> "." then List.iter (fun kv ->
      match String.index_opt kv '=' with
      | Some i -> Hashtbl.replace tbl (String.sub kv 0 i) (String.sub kv (i + 1) (String.length kv - i - 1))
      | None -> ()) (String.split_on_char ';' s);
  let get k = Hashtbl.find_opt tbl k in
  let strs v = if v = "" || v = "." then [] else List.map bytes_arg (String.split_on_char '|' v) in
  { o_host = (match get "host" with Some v -> Some (bytes_arg v) | None -> None);
    o_origin = (match get "origin" with Some "None" -> Some None | Some v -> Some (Some (bytes_arg v)) | None -> None);
    o_suppress_origin = (get "suppress" = Some "1");
    o_subprotocols = (match get "sub" with Some v -> strs v | None -> []);
    o_cookie = (match get "cookie" with Some v -> Some (bytes_arg v) | None -> None);
    o_header = (match get "hlist", get "hdict" with
        | Some v, _ -> HList (strs v)
        | None, Some v -> HDict (if v = "" || v = "." then [] else List.map (fun kv ->
            match String.split_on_char ':' kv with
            | [k; "None"] -> (bytes_arg k, None) | [k; v] -> (bytes_arg k, Some (bytes_arg v)) | _ -> failwith "hdict")
            (String.split_on_char '|' v))
        | None, None -> HNone);
    o_connection = (match get "conn" with Some v -> Some (bytes_arg v) | None -> None) }
let addr_of s =
  let rec go i acc = if i >= String.length s then List.rev acc else
      match s.[i] with
      | 'A' -> go (i + 1) (AAccept :: acc) | 'R' -> go (i + 1) (ARefused :: acc) | 'U' -> go (i + 1) (AUnreach :: acc)
      | 'O' -> let j = ref (i + 1) in
        while !j < String.length s && s.[!j] >= '0' && s.[!j] <= '9' do incr j done;
        go !j (AOther (z_of_string (String.sub s (i + 1) (!j - i - 1))) :: acc)
      | _ -> failwith "addr" in
  go 0 []
let netconn_of s = match String.index_opt s '/' with
  | Some i -> { n_addrs = addr_of (String.sub s 0 i);
                n_script = list_arg ev_arg (String.sub s (i + 1) (String.length s - i - 1)) }
  | None -> failwith "netconn"
let sockev_str = function
  | SCreate i -> "c" ^ string_of_int (int_of_nat i) | SSetTimeout i -> "t" ^ string_of_int (int_of_nat i)
  | SSetOptsDefault i -> "d" ^ string_of_int (int_of_nat i) | SSetOptsUser i -> "u" ^ string_of_int (int_of_nat i)
  | SConnect i -> "n" ^ string_of_int (int_of_nat i) | SCloseSock i -> "x" ^ string_of_int (int_of_nat i)
let count_close (x : xport) = List.length (List.filter (function IClose -> true | _ -> false) x.iolog)
let max_read (x : xport) = List.fold_left (fun m e -> match e with IRead n -> max m (int_of_z n) | _ -> m) 0 x.iolog

let () =
  reg "wsconnect" (function [url; limit; opts; rand; prepared; net] ->
      let st0 = cs_init (list_arg bytes_arg rand) (if net = "." then [] else List.map netconn_of (String.split_on_char '|' net)) in
      let prep = if prepared = "none" then None else Some { inbox = list_arg ev_arg prepared; iolog = [] } in
      let (r, st) = ws_connect (bytes_arg url) (parse_opts opts) (z_of_string limit) prep st0 in
      let xs = st.cs_released @ (match st.cs_sock with Some x -> [x] | None -> []) in
      (match r with Ok () -> "ok" | Raise e -> "raise:" ^ exn_name e)
      ^ ";connected=" ^ b2s st.cs_connected
      ^ ";status=" ^ (match st.cs_status with Some z -> string_of_z z | None -> "None")
      ^ ";sub=" ^ (match st.cs_subproto with Some s -> hex_of_bytes s | None -> "None")
      ^ ";requests=" ^ String.concat "," (List.map (fun (r, _) -> digest_of_bytes r) st.cs_requests)
      ^ ";closes=" ^ String.concat "," (List.map (fun x -> string_of_int (count_close x)) xs)
      ^ ";maxread=" ^ String.concat "," (List.map (fun x -> string_of_int (max_read x)) xs)
      ^ ";socklog=" ^ String.concat "/" (List.map (fun l -> String.concat "" (List.map sockev_str l)) st.cs_socklog)
    | _ -> "badargs");
  reg "parseurl" (function [u] ->
      (match parse_url (bytes_arg u) with
       | Ok (((h, p), r), sec) -> "ok:" ^ hex_of_bytes h ^ ":" ^ string_of_z p ^ ":" ^ hex_of_bytes r ^ ":" ^ b2s sec
       | Raise e -> "raise:" ^ exn_name e) | _ -> "badargs")

(* tunnelreq <host> <port> <user|none> <password|none> -> the CONNECT request bytes of the model *)
let () =
  reg "tunnelreq" (function [h; p; u; pw] ->
      let auth = if u = "none" then None else Some (bytes_arg u, (if pw = "none" then None else Some (bytes_arg pw))) in
      hex_of_bytes (connect_request (bytes_arg h) (z_of_string p) auth) | _ -> "badargs")
