(* Handlers for the regenerated definitions and the hand-written model. *)
open Core
open Common

let exn_name = function
  | Protocol -> "Protocol" | Payload -> "Payload" | ConnClosed -> "ConnClosed" | TimedOut -> "TimedOut"
  | BadStatus c -> "BadStatus:" ^ string_of_z c
  | WsGeneric -> "WsGeneric" | ProxyErr -> "ProxyErr" | AddressErr -> "AddressErr" | ValueErr -> "ValueErr"
  | Internal k -> "Internal:" ^ (match k with IndexErr -> "IndexError" | KeyErr -> "KeyError" | IntParse -> "ValueError"
                                | StructErr -> "struct.error" | AttrErr -> "AttributeError" | UnicodeDec -> "UnicodeDecodeError"
                                | TypeErr -> "TypeError")
  | Transport k -> "Transport:" ^ string_of_z k
  | OutOfFuel -> "OutOfFuel"

let () =
  reg "utf8" (function [h] -> b2s (validate_utf8 (bytes_arg h)) | _ -> "badargs");
  reg "utf8step" (function [s; c; b] ->
      let (s', c') = decode_step (z_of_string s) (z_of_string c) (z_of_string b) in
      string_of_z s' ^ "," ^ string_of_z c' | _ -> "badargs")
