(* Handlers that need only coq/Spec (available even when Gen/ or the model no longer builds). *)
open Core
open Common

let () =
  reg "utf8spec" (function [h] -> b2s (wf_utf8 (bytes_arg h)) | _ -> "badargs");
  reg "utf8enc" (function l -> hex_of_bytes (utf8_encode (List.map z_of_string l)))

let frame_str (f : wframe) =
  let h = f.wh in
  Printf.sprintf "%s:%s%s%s:%s:%s:%s" (string_of_z h.h_fin) (string_of_z h.h_rsv1) (string_of_z h.h_rsv2)
    (string_of_z h.h_rsv3) (string_of_z h.h_opcode)
    (match f.wkey with Some k -> hex_of_bytes k | None -> "none") (digest_of_bytes f.wpayload)

let () =
  (* decode <hex>  ->  F:<fin>:<rsv>:<op>:<key>:<payload>:<restlen> | N:... | I *)
  reg "decode" (function [h] ->
      (match decode_fast (bytes_arg h) with
       | Frame (f, rest) -> "F:" ^ frame_str f ^ ":" ^ string_of_int (List.length rest)
       | NotShortest (f, rest) -> "N:" ^ frame_str f ^ ":" ^ string_of_int (List.length rest)
       | Incomplete -> "I") | _ -> "badargs");
  (* specencode <fin> <rsv1> <rsv2> <rsv3> <op> <key|none> <payload> -> digest of the canonical encoding *)
  reg "specencode" (function [fin; r1; r2; r3; op; key; p] ->
      let f = { wh = { h_fin = z_of_string fin; h_rsv1 = z_of_string r1; h_rsv2 = z_of_string r2;
                       h_rsv3 = z_of_string r3; h_opcode = z_of_string op };
                wkey = (if key = "none" then None else Some (bytes_arg key)); wpayload = bytes_arg p } in
      digest_of_bytes (encode_fast f) | _ -> "badargs");
  reg "decodeall" (function [h] ->
      let s = bytes_arg h in
      let (fs, tl) = decode_all_fast (nat_of_int (List.length s + 1)) s in
      String.concat "|" (List.map frame_str fs) ^ "|rest=" ^ string_of_int (List.length tl) | _ -> "badargs")

(* specseq <check_utf8> <hex stream>: everything the RFC-level spec says about a server byte stream *)
let () =
  reg "specseq" (function [chk; h] ->
      let chk = s2b chk in
      let s = bytes_arg h in
      let (fs, tl) = decode_all_fast (nat_of_int (List.length s + 1)) s in
      let verdicts = List.map (fun f -> match frame_verdict chk f with Legal -> "L" | Illegal -> "I" | Unconstrained -> "U") fs in
      let rec seqs inprog = function
        | [] -> []
        | f :: r -> (b2s (seq_ok inprog f)) :: seqs (seq_next inprog f) r in
      let fr f = Printf.sprintf "f%s%s:%s" (string_of_z f.wh.h_fin) (string_of_z f.wh.h_opcode) (digest_of_bytes f.wpayload) in
      Printf.sprintf "n=%d;rest=%d;frames=%s;verdicts=%s;seq=%s;legal=%s;msgs=%s;frags=%s;pongs=%s"
        (List.length fs) (List.length tl)
        (String.concat "," (List.map fr fs))
        (String.concat "," verdicts) (String.concat "," (seqs false fs))
        (b2s (legal_seq chk false fs))
        (String.concat "," (List.map (fun (op, d) -> string_of_z op ^ ":" ^ digest_of_bytes d) (reassemble None fs)))
        (String.concat "," (List.map (fun ((op, fin), d) -> string_of_z op ^ string_of_z fin ^ ":" ^ digest_of_bytes d) (per_fragment fs)))
        (String.concat "," (List.map digest_of_bytes (pongs_owed fs)))
    | _ -> "badargs");
  reg "closecode" (function [c] -> (match close_code (z_of_string c) with Legal -> "L" | Illegal -> "I" | Unconstrained -> "U") | _ -> "badargs")

(* ---- handshake specs ----
   headers argument: name=value pairs, hex-encoded, "|"-separated ("." = none) *)
let str_arg s = bytes_arg s
let pairs_arg s = if s = "." then [] else
    List.map (fun kv -> match String.split_on_char '=' kv with [k; v] -> (str_arg k, str_arg v) | _ -> failwith "pair")
      (String.split_on_char '|' s)
let strs_arg s = if s = "." then [] else List.map str_arg (String.split_on_char '|' s)
let () =
  (* specaccept <status> <headers> <key> <offered subprotocols> *)
  reg "specaccept" (function [st; hs; key; subs] ->
      b2s (response_accepts (z_of_string st) (pairs_arg hs) (str_arg key) (strs_arg subs)) | _ -> "badargs");
  (* specrequest <request bytes> -> target + header list, or "invalid" *)
  reg "specrequest" (function [h] ->
      (match parse_request (bytes_arg h) with
       | None -> "invalid"
       | Some (target, hs) -> hex_of_bytes target ^ ";" ^
                              String.concat "|" (List.map (fun (k, v) -> hex_of_bytes k ^ "=" ^ hex_of_bytes v) hs))
    | _ -> "badargs");
  reg "spechost" (function [h; p] -> hex_of_bytes (host_header (str_arg h) (z_of_string p)) | _ -> "badargs")

(* specitems <hex stream>: the RFC-level reading of a frame stream: whole messages and control frames in arrival order *)
let () =
  reg "specitems" (function [h] ->
      let s = bytes_arg h in
      let (fs, _) = decode_all_fast (nat_of_int (List.length s + 1)) s in
      String.concat "," (List.map (function
          | ItMsg (op, d) -> "M" ^ string_of_z op ^ ":" ^ digest_of_bytes d
          | ItPing d -> "P:" ^ digest_of_bytes d | ItPong d -> "O:" ^ digest_of_bytes d
          | ItClose d -> "C:" ^ (match close_info d with
              | (Some c, Some r) -> string_of_z c ^ ":" ^ digest_of_bytes r | _ -> "None:None")) (items None fs))
    | _ -> "badargs")
