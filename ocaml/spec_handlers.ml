(* Handlers that need only coq/Spec (available even when Gen/ or the model no longer builds). *)
open Core
open Common

let () =
  reg "utf8spec" (function [h] -> b2s (wf_utf8 (bytes_arg h)) | _ -> "badargs");
  reg "utf8enc" (function l -> hex_of_bytes (utf8_encode (List.map z_of_string l)))
