let () = Common.main ()
