.PHONY: setup
setup:
	./check setup
