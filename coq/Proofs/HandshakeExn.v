(* Property C17: whatever bytes a server sends during the opening handshake, connect() either
   succeeds or raises an exception of the documented hierarchy (or the transport's own error),
   never an internal error, and the readers never exhaust the model's fuel (no spin). *)
From Coq Require Import ZArith List Bool Lia.
From WS Require Import Base.Res Base.Bytes Base.Str Base.StrMore Base.StrInt Base.B64 Gen.GenUtils Gen.GenHandshake
  Model.Xport Model.Http Model.Handshake Model.Url Model.Open Model.Connect
  Proofs.BytesLemmas.
Import ListNotations.
Open Scope Z_scope.

(* ================================================================================== *)
(* (f) the documented exceptions; ASCII streams                                        *)
(* ================================================================================== *)

Definition documented (e : exn) : Prop :=
  match e with
  | Protocol | Payload | ConnClosed | TimedOut | BadStatus _ | WsGeneric | ProxyErr
  | AddressErr | ValueErr | Transport _ => True
  | Internal _ | OutOfFuel => False
  end.

Definition ascii_stream (l : list ev) : Prop :=
  forallb (fun b => b <? 128) (flatten l) = true.

(* what the scripted transport itself can raise *)
Definition net_exn (e : exn) : Prop := e = ConnClosed \/ e = TimedOut \/ e = Transport 104.

Lemma net_exn_documented e : net_exn e -> documented e.
Proof. intros [->|[->| ->]]; exact I. Qed.

(* the measure that every successful read decreases *)
Definition msr (x : xport) : nat := (length (flatten (inbox x)) + length (inbox x))%nat.

(* ================================================================================== *)
(* sock_recv                                                                           *)
(* ================================================================================== *)

Lemma sock_recv_cases n x r x' : 0 < n -> sock_recv n x = (r, x') ->
  match r with
  | Ok c => c <> [] /\ flatten (inbox x) = c ++ flatten (inbox x') /\ (msr x' < msr x)%nat
  | Raise e => net_exn e
  end.
Proof.
  unfold sock_recv, msr, net_exn. intros Hn H.
  destruct (inbox x) as [|[bs| |] l] eqn:Ex.
  - inversion H; subst. auto.
  - destruct (zlen bs =? 0) eqn:E0.
    { inversion H; subst. auto. }
    apply Z.eqb_neq in E0.
    assert (Hne : bs <> []) by (intros ->; apply E0; reflexivity).
    destruct (zlen bs <=? n) eqn:E1; inversion H; subst; cbn [inbox flatten length].
    + split; [assumption|]. split; [reflexivity|]. rewrite app_length. lia.
    + apply Z.leb_gt in E1.
      assert (Hk : 0 <= n <= zlen bs) by lia.
      pose proof (ztake_zlen n bs Hk) as Ht. pose proof (zdrop_zlen n bs Hk) as Hd.
      split; [intro E; rewrite E in Ht; cbn in Ht; lia|].
      split; [rewrite app_assoc, ztake_zdrop; reflexivity|].
      rewrite !app_length. unfold zlen in *. lia.
  - inversion H; subst. auto.
  - inversion H; subst. auto.
Qed.

(* ================================================================================== *)
(* recv_line                                                                           *)
(* ================================================================================== *)

Lemma recv_line_spec : forall fuel acc x r x',
  (msr x < fuel)%nat -> recv_line fuel acc x = (r, x') ->
  match r with
  | Ok raw => exists c, raw = acc ++ c /\ flatten (inbox x) = c ++ flatten (inbox x') /\
                        (msr x' < msr x)%nat
  | Raise e => net_exn e
  end.
Proof.
  induction fuel as [|k IH]; intros acc x r x' Hm H; [lia|].
  cbn [recv_line] in H.
  destruct (sock_recv 1 x) as [[c|e] x1] eqn:E; apply sock_recv_cases in E; try lia.
  2:{ inversion H; subst. exact E. }
  destruct E as (Hc & Hfl & Hlt).
  destruct (match c with [10] => true | _ => false end) eqn:Enl.
  - inversion H; subst. exists c. auto.
  - apply IH in H; [|lia]. destruct r as [raw|e]; [|exact H].
    destruct H as (c' & Hraw & Hfl' & Hlt').
    exists (c ++ c'). rewrite Hraw, Hfl, Hfl', !app_assoc. repeat split; try reflexivity. lia.
Qed.

(* fuel sufficiency: with more fuel than the measure, recv_line never runs out *)
Lemma recv_line_fuel : forall fuel acc x r x',
  (msr x < fuel)%nat -> recv_line fuel acc x = (r, x') -> r <> Raise OutOfFuel.
Proof.
  intros fuel acc x r x' Hm H. apply recv_line_spec in H; [|assumption].
  intros ->. destruct H as [H|[H|H]]; discriminate H.
Qed.

(* ================================================================================== *)
(* read_headers                                                                        *)
(* ================================================================================== *)

Definition asciib (x : xport) : bool := forallb (fun b => b <? 128) (flatten (inbox x)).

(* what the header reader can raise; the model's "outside the ASCII domain" answer only when
   the stream holds a byte >= 128 *)
Definition rh_exn (x : xport) (e : exn) : Prop :=
  net_exn e \/ e = WsGeneric \/ (e = Internal TypeErr /\ asciib x = false).

Lemma asciib_prefix x x1 c :
  flatten (inbox x) = c ++ flatten (inbox x1) -> asciib x1 = false -> asciib x = false.
Proof. unfold asciib. intros -> H. rewrite forallb_app, H. apply andb_false_r. Qed.

Lemma asciib_suffix x x1 c :
  flatten (inbox x) = c ++ flatten (inbox x1) -> asciib x = true ->
  all_ascii c = true /\ asciib x1 = true.
Proof. unfold asciib, all_ascii. intros -> H. rewrite forallb_app in H. now apply andb_prop in H. Qed.

Lemma rh_exn_step x x1 c e :
  flatten (inbox x) = c ++ flatten (inbox x1) -> rh_exn x1 e -> rh_exn x e.
Proof.
  intros Hfl [H|[H|[H1 H2]]]; [left; assumption|right; left; assumption|].
  right; right. split; [assumption|]. eapply asciib_prefix; eassumption.
Qed.

Lemma read_headers_loop_spec : forall fuel h x r x',
  (msr x < fuel)%nat -> read_headers_loop fuel h x = (r, x') ->
  match r with Ok _ => True | Raise e => rh_exn x e end.
Proof.
  induction fuel as [|k IH]; intros h x r x' Hm H; [lia|].
  cbn [read_headers_loop] in H.
  destruct (recv_line _ [] x) as [[raw|e] x1] eqn:Erl;
    (apply recv_line_spec in Erl; [|unfold msr; lia]).
  2:{ inversion H; subst. left. exact Erl. }
  destruct Erl as (c & Hraw & Hfl & Hlt). cbn [app] in Hraw. subst c.
  destruct (negb (all_ascii raw)) eqn:Ea.
  { assert (Hna : asciib x = false).
    { unfold asciib. rewrite Hfl, forallb_app.
      apply negb_true_iff in Ea. unfold all_ascii in Ea. rewrite Ea. reflexivity. }
    destruct (validate_utf8 raw); inversion H; subst.
    - right; right. auto.
    - right; left. reflexivity. }
  destruct (strip raw) as [|c0 line] eqn:Es.
  { inversion H; subst. exact I. }
  destruct (status_unset (h_status h)).
  - destruct (split_sp2 (c0 :: line)) as [|a [|code rest]];
      try (inversion H; subst; right; left; reflexivity).
    destruct (py_int code) as [stv|];
      [|inversion H; subst; right; left; reflexivity].
    apply IH in H; [|lia]. destruct r as [hd|e]; [exact I|].
    eapply rh_exn_step; eassumption.
  - destruct (split_once 58 (c0 :: line)) as [[key value]|];
      [|inversion H; subst; right; left; reflexivity].
    apply IH in H; [|lia]. destruct r as [hd|e]; [exact I|].
    eapply rh_exn_step; eassumption.
Qed.

Lemma read_headers_spec x r x' : read_headers x = (r, x') ->
  match r with Ok _ => True | Raise e => rh_exn x e end.
Proof.
  unfold read_headers. intro H. eapply read_headers_loop_spec; [|exact H]. unfold msr. lia.
Qed.

Lemma rh_exn_not_fuel x : ~ rh_exn x OutOfFuel.
Proof. intros [[H|[H|H]]|[H|[H _]]]; discriminate H. Qed.

Lemma rh_exn_documented x e : asciib x = true -> rh_exn x e -> documented e.
Proof.
  intros Ha [H|[->|[_ H]]]; [now apply net_exn_documented|exact I|].
  rewrite Ha in H. discriminate H.
Qed.

(* fuel sufficiency for the header loop *)
Lemma read_headers_loop_fuel : forall fuel h x r x',
  (msr x < fuel)%nat -> read_headers_loop fuel h x = (r, x') -> r <> Raise OutOfFuel.
Proof.
  intros fuel h x r x' Hm H. apply read_headers_loop_spec in H; [|assumption].
  intros ->. exact (rh_exn_not_fuel x H).
Qed.

Lemma read_headers_fuel : forall x r x', read_headers x = (r, x') -> r <> Raise OutOfFuel.
Proof.
  unfold read_headers. intros x r x' H. eapply read_headers_loop_fuel; [|exact H]. unfold msr. lia.
Qed.

(* (g), stronger form: script_ok is not needed *)
Lemma read_headers_documented_strong : forall x e x',
  ascii_stream (inbox x) -> read_headers x = (Raise e, x') -> documented e.
Proof.
  intros x e x' Ha H. apply read_headers_spec in H. eapply rh_exn_documented; [|exact H]. exact Ha.
Qed.

(* (g) *)
Theorem read_headers_documented : forall x e x',
  script_ok (inbox x) = true -> ascii_stream (inbox x) ->
  read_headers x = (Raise e, x') -> documented e.
Proof. intros x e x' _. apply read_headers_documented_strong. Qed.

(* ================================================================================== *)
(* handshake                                                                           *)
(* ================================================================================== *)

Lemma body_read_raises hs x e x' : body_read hs x = (Raise e, x') ->
  e = Transport 0 \/ e = Transport 104.
Proof.
  unfold body_read. intro H.
  destruct (alist_get S_CONTENT_LENGTH hs) as [[|c l]|]; try discriminate H.
  destruct (py_int (c :: l)) as [n|]; try discriminate H.
  destruct (0 <? n) eqn:En; try discriminate H.
  destruct (sock_recv (Z.min n 16384) x) as [[b|e0] x1] eqn:E; try discriminate H.
  apply sock_recv_cases in E; [|apply Z.ltb_lt in En; lia].
  destruct E as [->|[->| ->]]; inversion H; subst; auto.
Qed.

Definition hs_exn (x : xport) (e : exn) : Prop :=
  rh_exn x e \/ e = Transport 0 \/ (exists st, e = BadStatus st).

Lemma handshake_spec x req key subs r x' : handshake x req key subs = (r, x') ->
  match r with Ok _ => True | Raise e => hs_exn x e end.
Proof.
  unfold handshake. intro H.
  destruct (read_headers (xlog x (IWrite req))) as [[h|e] x2] eqn:E;
    apply read_headers_spec in E.
  2:{ inversion H; subst. left. exact E. }
  match type of H with context [if ?b then _ else _] => destruct b end.
  - destruct (body_read (h_headers h) x2) as [[u|e] x3] eqn:B.
    + inversion H; subst. right; right. eexists; reflexivity.
    + inversion H; subst. apply body_read_raises in B. destruct B as [->| ->].
      * right; left; reflexivity.
      * left; left. right; right; reflexivity.
  - match type of H with context [if ?b then _ else _] => destruct b end.
    + inversion H; subst. exact I.
    + destruct (hs_validate (h_headers h) key subs) as [[|] sub0]; inversion H; subst; [exact I|].
      left; right; left; reflexivity.
Qed.

Lemma hs_exn_not_fuel x : ~ hs_exn x OutOfFuel.
Proof.
  intros [H|[H|[st H]]]; [exact (rh_exn_not_fuel x H)|discriminate H|discriminate H].
Qed.

Lemma hs_exn_documented x e : asciib x = true -> hs_exn x e -> documented e.
Proof.
  intros Ha [H|[->|[st ->]]]; [eapply rh_exn_documented; eassumption|exact I|exact I].
Qed.

(* (h), stronger form *)
Lemma handshake_documented_strong : forall x req key subs e x',
  ascii_stream (inbox x) -> handshake x req key subs = (Raise e, x') -> documented e.
Proof.
  intros x req key subs e x' Ha H. apply handshake_spec in H.
  eapply hs_exn_documented; [|exact H]. exact Ha.
Qed.

(* (h) *)
Theorem handshake_documented : forall x req key subs e x',
  script_ok (inbox x) = true -> ascii_stream (inbox x) ->
  handshake x req key subs = (Raise e, x') -> documented e.
Proof. intros x req key subs e x' _. apply handshake_documented_strong. Qed.

(* (j), stronger form: for every script *)
Lemma handshake_no_spin_strong : forall x req key subs r x',
  handshake x req key subs = (r, x') -> r <> Raise OutOfFuel.
Proof.
  intros x req key subs r x' H. apply handshake_spec in H. intros ->.
  exact (hs_exn_not_fuel x H).
Qed.

(* (j) *)
Theorem handshake_no_spin : forall x req key subs r x',
  script_ok (inbox x) = true -> handshake x req key subs = (r, x') -> r <> Raise OutOfFuel.
Proof. intros x req key subs r x' _. apply handshake_no_spin_strong. Qed.

(* ================================================================================== *)
(* parse_url, open_socket, open_conn                                                   *)
(* ================================================================================== *)

Lemma urlsplit_raises url dflt e : urlsplit url dflt = Raise e -> e = ValueErr.
Proof.
  unfold urlsplit. intro H.
  destruct (detect_scheme url dflt) as [scheme url1].
  destruct (after_slashes url1) as [r|].
  - destruct (split_netloc r) as [netloc rest].
    destruct (netloc_brackets_ok netloc); cbn [bind] in H.
    + destruct (split_first 35 rest) as [url3 fragment].
      destruct (split_first 63 url3) as [path query]. discriminate H.
    + inversion H; reflexivity.
  - cbn [bind] in H.
    destruct (split_first 35 url1) as [url3 fragment].
    destruct (split_first 63 url3) as [path query]. discriminate H.
Qed.

Lemma urlparse_raises url dflt e : urlparse url dflt = Raise e -> e = ValueErr.
Proof.
  unfold urlparse. intro H.
  destruct (urlsplit url dflt) as [[[[[scheme netloc] path] query] fragment]|e0] eqn:E; cbn [bind] in H.
  - match type of H with context [if ?b then _ else _] => destruct b end;
      [destruct (splitparams path)|]; discriminate H.
  - inversion H; subst. eapply urlsplit_raises; exact E.
Qed.

Lemma port_of_raises netloc e : port_of netloc = Raise e -> e = ValueErr.
Proof.
  unfold port_of. intro H.
  destruct (snd (hostinfo_of netloc)) as [p|]; [|discriminate H].
  destruct (all_digits p); [|inversion H; reflexivity].
  destruct (parse_nat p) as [n|]; [|inversion H; reflexivity].
  destruct ((0 <=? n) && (n <=? 65535)); [discriminate H|inversion H; reflexivity].
Qed.

Theorem parse_url_raises_only_ValueErr : forall u e, parse_url u = Raise e -> e = ValueErr.
Proof.
  intros u e H. unfold parse_url in H.
  destruct (negb (contains_char 58 u)); [inversion H; reflexivity|].
  destruct (split_once 58 u) as [[scheme rest]|]; [|inversion H; reflexivity].
  destruct (urlparse rest s_http) as [p|e0] eqn:Ep; cbn [bind] in H.
  2:{ inversion H; subst. eapply urlparse_raises; exact Ep. }
  destruct (hostname_of (u_netloc p)) as [hostname|]; [|inversion H; reflexivity].
  destruct (port_of (u_netloc p)) as [popt|e0] eqn:Epo; cbn [bind] in H.
  2:{ inversion H; subst. eapply port_of_raises; exact Epo. }
  destruct (str_eqb scheme s_ws); cbn [bind] in H; [discriminate H|].
  destruct (str_eqb scheme s_wss); cbn [bind] in H; [discriminate H|].
  inversion H; reflexivity.
Qed.

Lemma open_socket_from_raises : forall addrs i le log e lg,
  (le = None -> addrs <> []) ->
  open_socket_from i addrs le log = (Raise e, lg) -> exists k, e = Transport k.
Proof.
  induction addrs as [|a r IH]; intros i le log e lg Hne H; cbn [open_socket_from] in H.
  - destruct le as [k|]; [inversion H; eauto|]. exfalso. now apply Hne.
  - destruct a as [| | |k].
    + discriminate H.
    + eapply IH; [|exact H]. discriminate.
    + eapply IH; [|exact H]. discriminate.
    + inversion H; eauto.
Qed.

Theorem open_socket_raises_only_Transport : forall addrs e lg,
  addrs <> [] -> open_socket addrs = (Raise e, lg) -> exists k, e = Transport k.
Proof.
  intros addrs e lg Hne H. unfold open_socket in H.
  eapply open_socket_from_raises; [|exact H]. intros _. exact Hne.
Qed.

Definition conn_exn (e : exn) : Prop :=
  e = ValueErr \/ e = AddressErr \/ e = WsGeneric \/ exists k, e = Transport k.

Lemma conn_exn_documented e : conn_exn e -> documented e.
Proof. intros [->|[->|[->|[k ->]]]]; exact I. Qed.

Theorem open_conn_raises : forall url prepared st e st',
  open_conn url prepared st = (Raise e, st') -> conn_exn e.
Proof.
  unfold open_conn, conn_exn. intros url prepared st e st' H.
  destruct (parse_url url) as [tg|e0] eqn:Ep.
  2:{ inversion H; subst. left. eapply parse_url_raises_only_ValueErr; exact Ep. }
  destruct prepared as [x|]; [discriminate H|].
  destruct (cs_net st) as [|c rest]; [inversion H; auto|].
  destruct (n_addrs c) as [|a l] eqn:Ea; [inversion H; auto|].
  destruct (open_socket (a :: l)) as [[i|e0] lg] eqn:Eo; [discriminate H|].
  inversion H; subst. right; right; right.
  eapply open_socket_raises_only_Transport; [|exact Eo]. discriminate.
Qed.

(* a successful _http.connect: the prepared transport, or the next connection of the network *)
Lemma open_conn_ok url prepared st x tg st' :
  open_conn url prepared st = (Ok (x, tg), st') ->
  cs_rand st' = cs_rand st /\
  ((prepared = Some x /\ cs_net st' = cs_net st) \/
   (prepared = None /\ exists c, cs_net st = c :: cs_net st' /\ inbox x = n_script c)).
Proof.
  unfold open_conn. intro H.
  destruct (parse_url url) as [tg0|e0]; [|discriminate H].
  destruct prepared as [x0|].
  { inversion H; subst. auto. }
  destruct (cs_net st) as [|c rest] eqn:En; [discriminate H|].
  destruct (n_addrs c) as [|a l]; [discriminate H|].
  destruct (open_socket (a :: l)) as [[i|e0] lg]; [|discriminate H].
  inversion H; subst. cbn [cs_rand cs_net inbox]. split; [reflexivity|].
  right. split; [reflexivity|]. exists c. auto.
Qed.

(* ================================================================================== *)
(* the request: when _get_handshake_headers cannot fail                                *)
(* ================================================================================== *)

(* The library's own key is used (no header option, or one that does not mention
   Sec-WebSocket-Key), or the header option is a dict that maps the key name to a string.
   Excluded: a header LIST containing the exact line "Sec-WebSocket-Key" (the code then indexes
   the list with a string: TypeError) and a dict mapping it to None. *)
Definition key_header_ok (o : hsopts) : Prop :=
  negb (hdr_truthy (o_header o)) || negb (hdr_has S_KEY (o_header o)) = true \/
  exists d k, o_header o = HDict d /\ alist_get S_KEY d = Some (Some k).

Lemma HNone_key_header_ok o : o_header o = HNone -> key_header_ok o.
Proof. intro H. left. rewrite H. reflexivity. Qed.

Lemma ghh_never_raises resource scheme host port o fk sc e :
  key_header_ok o -> get_handshake_headers resource scheme host port o fk sc <> Raise e.
Proof.
  intros Hk E. unfold get_handshake_headers in E. cbv zeta in E.
  destruct Hk as [Hk|(d & k & Hd & Hg)].
  - rewrite Hk in E. discriminate E.
  - rewrite Hd in E.
    destruct (negb (hdr_truthy (HDict d)) || negb (hdr_has S_KEY (HDict d))); [discriminate E|].
    rewrite Hg in E. discriminate E.
Qed.

(* ================================================================================== *)
(* connect(): generic in what is assumed of a script and concluded of the exception    *)
(* ================================================================================== *)

Section Connect.
  Variable o : hsopts.
  Variable P : list ev -> Prop.
  Variable Q : exn -> Prop.
  Hypothesis Hkey : key_header_ok o.
  Hypothesis Q_conn : forall e, conn_exn e -> Q e.
  Hypothesis Q_hs : forall x req key subs e x',
    P (inbox x) -> handshake x req key subs = (Raise e, x') -> Q e.

  Definition net_P (net : list netconn) : Prop := Forall (fun c => P (n_script c)) net.

  Lemma do_handshake_Q url tg x st r x' st' :
    P (inbox x) -> cs_rand st <> [] ->
    do_handshake url tg o x st = (r, x', st') ->
    cs_net st' = cs_net st /\ (S (length (cs_rand st')) = length (cs_rand st))%nat /\
    match r with Ok _ => True | Raise e => Q e end.
  Proof.
    destruct tg as [[[host port] resource] sec]. unfold do_handshake. cbv beta iota zeta.
    intros HP Hr H.
    destruct (cs_rand st) as [|draw rand'] eqn:Er; [contradiction|].
    destruct (get_handshake_headers resource (url_scheme url) host port o (b64_encode draw) [])
      as [[lines key]|e] eqn:Eg.
    2:{ exfalso. exact (ghh_never_raises _ _ _ _ _ _ _ _ Hkey Eg). }
    destruct (handshake x (request_bytes lines) key (o_subprotocols o)) as [r0 x0] eqn:Eh.
    inversion H; subst. cbn [cs_net cs_rand length].
    split; [reflexivity|]. split; [reflexivity|].
    destruct r as [resp|e]; [exact I|]. eapply Q_hs; eassumption.
  Qed.

  Lemma redirect_loop_Q : forall n resp x st e cur st',
    net_P (cs_net st) -> (n <= length (cs_rand st))%nat ->
    redirect_loop n o resp x st = (Raise e, cur, st') -> Q e.
  Proof.
    induction n as [|k IH]; intros resp x st e cur st' Hnet Hlen H; cbn [redirect_loop] in H.
    { discriminate H. }
    destruct resp as [status hs|status hs sub].
    2:{ eapply IH; [exact Hnet| |exact H]. lia. }
    destruct (alist_get S_LOCATION hs) as [[|c r]|].
    1,3: inversion H; subst; apply Q_conn; right; right; left; reflexivity.
    destruct (parse_url (c :: r)) as [tg0|e1];
      [|inversion H; subst; apply Q_conn; right; right; left; reflexivity].
    destruct (open_conn (c :: r) None st) as [[[x2 tg]|e0] st1] eqn:Eo.
    2:{ inversion H; subst. apply Q_conn. eapply open_conn_raises; exact Eo. }
    apply open_conn_ok in Eo. destruct Eo as [Hrand [[Hp _]|[_ (cn & Hn & Hx2)]]]; [discriminate Hp|].
    unfold net_P in Hnet. rewrite Hn in Hnet. inversion Hnet as [|? ? HPc Hnet']; subst.
    match type of H with context [do_handshake ?u ?t o ?xx ?s2] =>
      destruct (do_handshake u t o xx s2) as [[[resp'|e0] x3] st3] eqn:Ed;
      apply do_handshake_Q in Ed
    end; cbn [cs_rand cs_net] in *;
    try (rewrite Hx2; exact HPc);
    try (rewrite Hrand; intro E0; rewrite E0 in Hlen; cbn in Hlen; lia).
    - destruct Ed as (Hn3 & Hl3 & _).
      eapply IH; [| |exact H].
      + unfold net_P. rewrite Hn3. exact Hnet'.
      + rewrite Hrand in Hl3. lia.
    - destruct Ed as (_ & _ & HQ). inversion H; subst. exact HQ.
  Qed.

  Lemma ws_connect_Q url limit prepared st e st' :
    (forall x, prepared = Some x -> P (inbox x)) -> net_P (cs_net st) ->
    (Z.to_nat limit + 1 <= length (cs_rand st))%nat ->
    ws_connect url o limit prepared st = (Raise e, st') -> Q e.
  Proof.
    intros Hprep Hnet Hlen H. unfold ws_connect in H.
    destruct (open_conn url prepared st) as [[[x tg]|e0] st1] eqn:Eo.
    2:{ inversion H; subst. apply Q_conn. eapply open_conn_raises; exact Eo. }
    apply open_conn_ok in Eo. destruct Eo as [Hrand Hsrc].
    assert (HPx : P (inbox x) /\ net_P (cs_net st1)).
    { destruct Hsrc as [[Hp Hn]|[_ (cn & Hn & Hx)]].
      - split; [now apply Hprep|]. rewrite Hn. exact Hnet.
      - unfold net_P in *. rewrite Hn in Hnet. inversion Hnet; subst. rewrite Hx. auto. }
    destruct HPx as [HPx Hnet1].
    destruct (do_handshake url tg o x st1) as [[[resp|e0] x1] st2] eqn:Ed;
      (apply do_handshake_Q in Ed;
       [|exact HPx|rewrite Hrand; intro E0; rewrite E0 in Hlen; cbn in Hlen; lia]).
    2:{ destruct Ed as (_ & _ & HQ). unfold fail_with in H. inversion H; subst. exact HQ. }
    destruct Ed as (Hn2 & Hl2 & _).
    destruct (redirect_loop (Z.to_nat limit) o resp x1 st2) as [[[[resp' x2]|e0] cur] st3] eqn:Er.
    2:{ unfold fail_with in H. inversion H; subst.
        eapply redirect_loop_Q; [| |exact Er].
        - unfold net_P. rewrite Hn2. exact Hnet1.
        - rewrite Hrand in Hl2. lia. }
    destruct resp' as [status hs|status hs sub]; [|discriminate H].
    unfold fail_with in H. inversion H; subst. apply Q_conn. right; right; left; reflexivity.
  Qed.
End Connect.

(* (i), stronger form: only the ASCII hypothesis on the scripts *)
Theorem ws_connect_documented_strong : forall url o limit prepared st e st',
  (forall x, prepared = Some x -> ascii_stream (inbox x)) ->
  Forall (fun c => ascii_stream (n_script c)) (cs_net st) ->
  (Z.to_nat limit + 1 <= length (cs_rand st))%nat ->
  key_header_ok o ->
  ws_connect url o limit prepared st = (Raise e, st') -> documented e.
Proof.
  intros url o limit prepared st e st' Hprep Hnet Hlen Hkey H.
  eapply (ws_connect_Q o ascii_stream documented Hkey); try eassumption.
  - exact conn_exn_documented.
  - intros x req key subs e0 x' Ha Hh. eapply handshake_documented_strong; eassumption.
Qed.

(* (i) *)
Definition script_good (l : list ev) : Prop := script_ok l = true /\ ascii_stream l.

Theorem ws_connect_documented : forall url o limit prepared st e st',
  (forall x, prepared = Some x -> script_good (inbox x)) ->
  Forall (fun c => script_good (n_script c)) (cs_net st) ->
  (Z.to_nat limit + 1 <= length (cs_rand st))%nat ->
  key_header_ok o ->
  ws_connect url o limit prepared st = (Raise e, st') -> documented e.
Proof.
  intros url o limit prepared st e st' Hprep Hnet Hlen Hkey H.
  eapply ws_connect_documented_strong; try eassumption.
  - intros x Hx. exact (proj2 (Hprep x Hx)).
  - eapply Forall_impl; [|exact Hnet]. intros c Hc. exact (proj2 Hc).
Qed.

Corollary ws_connect_documented_HNone : forall url o limit prepared st e st',
  (forall x, prepared = Some x -> script_good (inbox x)) ->
  Forall (fun c => script_good (n_script c)) (cs_net st) ->
  (Z.to_nat limit + 1 <= length (cs_rand st))%nat ->
  o_header o = HNone ->
  ws_connect url o limit prepared st = (Raise e, st') -> documented e.
Proof.
  intros url o limit prepared st e st' Hprep Hnet Hlen Hh.
  apply ws_connect_documented; try assumption. now apply HNone_key_header_ok.
Qed.

(* connect() never exhausts the model's fuel, whatever the scripts hold *)
Theorem ws_connect_no_spin : forall url o limit prepared st r st',
  (Z.to_nat limit + 1 <= length (cs_rand st))%nat ->
  key_header_ok o ->
  ws_connect url o limit prepared st = (r, st') -> r <> Raise OutOfFuel.
Proof.
  intros url o limit prepared st r st' Hlen Hkey H ->.
  refine (ws_connect_Q o (fun _ => True) (fun e => e <> OutOfFuel) Hkey _ _
            url limit prepared st OutOfFuel st' _ _ Hlen H eq_refl).
  - intros e [->|[->|[->|[k ->]]]]; discriminate.
  - intros x req key subs e x' _ Hh ->. eapply handshake_no_spin_strong; [exact Hh|reflexivity].
  - intros; exact I.
  - apply Forall_forall. intros; exact I.
Qed.

(* The Internal TypeErr of the model is reachable exactly as described: a well-formed non-ASCII
   header line (so the ASCII hypothesis cannot be dropped). *)
Example non_ascii_line_is_internal :
  fst (read_headers {| inbox := [Data [195; 169; 10]]; iolog := [] |}) = Raise (Internal TypeErr).
Proof. vm_compute. reflexivity. Qed.

(* ================================================================================== *)
(* ValueError cannot be caused by a server                                             *)
(* ================================================================================== *)

(* In the model ValueErr has a single source: parse_url (open_socket raises only Transport,
   open_conn itself only AddressErr / WsGeneric, get_handshake_headers only Internal TypeErr,
   the handshake readers only what hs_exn lists).  connect() calls parse_url on a string that is
   not the caller's only for a redirect Location, and there the failure is turned into WsGeneric
   before _http.connect is entered.  Hence no hypothesis on the scripts, the options or the
   random draws is needed below. *)

Definition documented_srv (e : exn) : Prop := documented e /\ e <> ValueErr.

Lemma open_conn_ValueErr url prepared st st' :
  open_conn url prepared st = (Raise ValueErr, st') -> parse_url url = Raise ValueErr.
Proof.
  unfold open_conn. intro H.
  destruct (parse_url url) as [tg|e0] eqn:Ep.
  2:{ rewrite (parse_url_raises_only_ValueErr _ _ Ep). reflexivity. }
  destruct prepared as [x|]; [discriminate H|].
  destruct (cs_net st) as [|c rest]; [discriminate H|].
  destruct (n_addrs c) as [|a l] eqn:Ea; [discriminate H|].
  destruct (open_socket (a :: l)) as [[i|e0] lg] eqn:Eo; [discriminate H|].
  apply open_socket_raises_only_Transport in Eo; [|discriminate].
  destruct Eo as [k ->]. discriminate H.
Qed.

Lemma ghh_raises_only_TypeErr resource scheme host port o fk sc e :
  get_handshake_headers resource scheme host port o fk sc = Raise e -> e = Internal TypeErr.
Proof.
  unfold get_handshake_headers. cbv zeta. intro E.
  destruct (negb (hdr_truthy (o_header o)) || negb (hdr_has S_KEY (o_header o))); [discriminate E|].
  destruct (o_header o) as [|l|d]; [inversion E; reflexivity|inversion E; reflexivity|].
  destruct (alist_get S_KEY d) as [[k|]|]; try discriminate E; inversion E; reflexivity.
Qed.

Lemma hs_exn_not_ValueErr x : ~ hs_exn x ValueErr.
Proof.
  intros [[[H|[H|H]]|[H|[H _]]]|[H|[st H]]]; discriminate H.
Qed.

(* handshake() never raises ValueError, whatever the server sends and whatever the options *)
Theorem handshake_never_ValueErr : forall x req key subs x',
  handshake x req key subs <> (Raise ValueErr, x').
Proof.
  intros x req key subs x' H. apply handshake_spec in H. exact (hs_exn_not_ValueErr x H).
Qed.
Print Assumptions handshake_never_ValueErr.

Lemma do_handshake_never_ValueErr url tg o x st x' st' :
  do_handshake url tg o x st <> (Raise ValueErr, x', st').
Proof.
  destruct tg as [[[host port] resource] sec]. unfold do_handshake. cbv beta iota zeta. intro H.
  destruct (cs_rand st) as [|draw rand']; [discriminate H|].
  destruct (get_handshake_headers resource (url_scheme url) host port o (b64_encode draw) [])
    as [[lines key]|e] eqn:Eg.
  2:{ apply ghh_raises_only_TypeErr in Eg. subst e. discriminate H. }
  destruct (handshake x (request_bytes lines) key (o_subprotocols o)) as [r0 x0] eqn:Eh.
  inversion H; subst. exact (handshake_never_ValueErr _ _ _ _ _ Eh).
Qed.

(* the redirect loop: the Location value is parsed first and a failure reported as WsGeneric, so
   the parse_url inside open_conn succeeds and open_conn cannot raise ValueErr either *)
Lemma redirect_loop_never_ValueErr : forall n o resp x st cur st',
  redirect_loop n o resp x st <> (Raise ValueErr, cur, st').
Proof.
  induction n as [|k IH]; intros o resp x st cur st' H; cbn [redirect_loop] in H.
  { discriminate H. }
  destruct resp as [status hs|status hs sub]; [|exact (IH _ _ _ _ _ _ H)].
  destruct (alist_get S_LOCATION hs) as [[|c r]|]; try discriminate H.
  destruct (parse_url (c :: r)) as [tg0|e1] eqn:Ep; [|discriminate H].
  destruct (open_conn (c :: r) None st) as [[[x2 tg]|e0] st1] eqn:Eo.
  2:{ inversion H; subst. apply open_conn_ValueErr in Eo. rewrite Ep in Eo. discriminate Eo. }
  match type of H with context [do_handshake ?u ?t o ?xx ?s2] =>
    destruct (do_handshake u t o xx s2) as [[[resp'|e0] x3] st3] eqn:Ed
  end.
  - exact (IH _ _ _ _ _ _ H).
  - inversion H; subst. exact (do_handshake_never_ValueErr _ _ _ _ _ _ _ Ed).
Qed.

(* sharper form: the ValueError is the one parse_url raised on the caller's url, and it was raised
   before the try block (nothing of the state other than what open_conn leaves has changed) *)
Lemma ws_connect_ValueErr_inv url o limit prepared st st' :
  ws_connect url o limit prepared st = (Raise ValueErr, st') ->
  parse_url url = Raise ValueErr /\ st' = st.
Proof.
  intro H. unfold ws_connect in H.
  destruct (open_conn url prepared st) as [[[x tg]|e0] st1] eqn:Eo.
  2:{ inversion H; subst. pose proof (open_conn_ValueErr _ _ _ _ Eo) as Ep.
      split; [exact Ep|]. unfold open_conn in Eo. rewrite Ep in Eo. inversion Eo; reflexivity. }
  exfalso.
  destruct (do_handshake url tg o x st1) as [[[resp|e0] x1] st2] eqn:Ed.
  2:{ unfold fail_with in H. inversion H; subst.
      exact (do_handshake_never_ValueErr _ _ _ _ _ _ _ Ed). }
  destruct (redirect_loop (Z.to_nat limit) o resp x1 st2) as [[[[resp' x2]|e0] cur] st3] eqn:Er.
  2:{ unfold fail_with in H. inversion H; subst.
      exact (redirect_loop_never_ValueErr _ _ _ _ _ _ _ Er). }
  destruct resp' as [status hs|status hs sub]; [|discriminate H].
  unfold fail_with in H. discriminate H.
Qed.

(* open_conn raises ValueErr for no other reason than [parse_url url] failing (see
   open_conn_ValueErr), so "the caller's URL is invalid" is exactly [parse_url url = Raise _].
   No hypothesis on scripts, options, redirect limit or random draws. *)
Theorem ws_connect_ValueErr_only_from_own_url : forall url o limit prepared st e st',
  ws_connect url o limit prepared st = (Raise e, st') -> e = ValueErr -> exists e0, parse_url url = Raise e0.
Proof.
  intros url o limit prepared st e st' H ->.
  exists ValueErr. exact (proj1 (ws_connect_ValueErr_inv _ _ _ _ _ _ H)).
Qed.
Print Assumptions ws_connect_ValueErr_only_from_own_url.

(* and conversely an invalid url always ends in ValueErr, before anything is touched *)
Theorem ws_connect_invalid_url : forall url o limit prepared st e0,
  parse_url url = Raise e0 -> ws_connect url o limit prepared st = (Raise ValueErr, st).
Proof.
  intros url o limit prepared st e0 Ep. unfold ws_connect, open_conn. rewrite Ep.
  rewrite (parse_url_raises_only_ValueErr _ _ Ep). reflexivity.
Qed.
Print Assumptions ws_connect_invalid_url.

Theorem ws_connect_documented_srv : forall url o limit prepared st e st',
  (forall x, prepared = Some x -> script_good (inbox x)) ->
  Forall (fun c => script_good (n_script c)) (cs_net st) ->
  (Z.to_nat limit + 1 <= length (cs_rand st))%nat ->
  key_header_ok o ->
  (exists t, parse_url url = Ok t) ->
  ws_connect url o limit prepared st = (Raise e, st') -> documented_srv e.
Proof.
  intros url o limit prepared st e st' Hprep Hnet Hlen Hkey [t Ht] H. split.
  - eapply ws_connect_documented; eassumption.
  - intros ->. apply ws_connect_ValueErr_inv in H. destruct H as [Ep _].
    rewrite Ht in Ep. discriminate Ep.
Qed.
Print Assumptions ws_connect_documented_srv.

(* the case the theorems above are about, computed: the server answers the first handshake with
   "HTTP/1.1 302 Found / Location: nocolon" (parse_url fails on "nocolon": no scheme).  connect()
   raises the library's WsGeneric, not ValueErr, and exactly one transport is released. *)
Definition ex_opts : hsopts :=
  {| o_host := None; o_origin := None; o_suppress_origin := false; o_subprotocols := [];
     o_cookie := None; o_header := HNone; o_connection := None |}.
Definition ex_bad_redirect : res unit * cstate :=
  ws_connect [119; 115; 58; 47; 47; 104; 47] ex_opts 3 None
    (cs_init [repeat 0 16; repeat 0 16]
       [{| n_addrs := [AAccept];
           n_script := [Data [72; 84; 84; 80; 47; 49; 46; 49; 32; 51; 48; 50; 32; 70; 111; 117; 110; 100; 13; 10; 76; 111; 99; 97; 116; 105; 111; 110; 58; 32; 110; 111; 99; 111; 108; 111; 110; 13; 10; 13; 10]] |}]).
Example invalid_redirect_location_is_WsGeneric :
  parse_url [110; 111; 99; 111; 108; 111; 110] = Raise ValueErr /\
  fst ex_bad_redirect = Raise WsGeneric /\
  length (cs_released (snd ex_bad_redirect)) = 1%nat /\
  length (cs_requests (snd ex_bad_redirect)) = 1%nat.
Proof. vm_compute. repeat split; reflexivity. Qed.
Print Assumptions invalid_redirect_location_is_WsGeneric.

Print Assumptions recv_line_fuel.
Print Assumptions read_headers_fuel.
Print Assumptions read_headers_documented.
Print Assumptions handshake_documented.
Print Assumptions handshake_no_spin.
Print Assumptions parse_url_raises_only_ValueErr.
Print Assumptions open_socket_raises_only_Transport.
Print Assumptions open_conn_raises.
Print Assumptions ws_connect_documented_strong.
Print Assumptions ws_connect_documented.
Print Assumptions ws_connect_documented_HNone.
Print Assumptions ws_connect_no_spin.
Print Assumptions non_ascii_line_is_internal.
