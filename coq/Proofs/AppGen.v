(* Tie A for WebSocketApp._get_close_args: what on_close is told is the regenerated decision/values
   of websocket/_app.py (Gen/GenApp.v), the reason being the raw bytes after the 2-byte code
   (CPython's bytes.decode("utf-8", errors="replace") of them is outside the model). *)
From Coq Require Import ZArith List Bool Lia ZifyBool.
From WS Require Import Base.Res Base.Bytes Base.GenPrelude Gen.GenAbnf Gen.GenApp Model.Recv Model.App.
Import ListNotations.
Open Scope Z_scope.

Definition cb_set (m : cbmode) : bool := match m with Absent => false | _ => true end.

Theorem close_args_gen : forall cfg frame,
  close_args cfg frame =
  if close_args_none (cb_set (on_close cfg)) (match frame with Some _ => true | None => false end)
  then (None, None)
  else match frame with
       | None => (None, None)
       | Some f => if close_args_has_code (a_data f)
                   then (Some (close_args_code (a_data f)), Some (close_args_reason (a_data f)))
                   else (None, None)
       end.
Proof.
  intros cfg frame. unfold close_args, close_args_none, close_args_has_code, close_args_code, close_args_reason, cb_set.
  destruct (on_close cfg); destruct frame as [f|]; cbn [negb orb]; try reflexivity.
  all: assert (H : 2 <=? zlen (a_data f) = negb (zlen (a_data f) =? 0) && (zlen (a_data f) >=? 2)) by lia;
       rewrite H; reflexivity.
Qed.
Print Assumptions close_args_gen.

(* read(): the routing of a received frame to the callbacks is the regenerated opcode chain (on_cont_message is not
   part of the app model: its branch is the one taken with the callback absent) *)
Theorem deliver_gen : forall cfg op f s,
  deliver cfg op f s =
  if app_is_close op then
    let '(fl, s1) := teardown cfg (Some f) s in (fl, s1, true)
  else if app_is_ping op then
    let '(fl, s1) := callback cfg (on_ping cfg) (TPing (a_data f)) s in (fl, s1, false)
  else if app_is_pong op then
    let '(fl, s1) := callback cfg (on_pong cfg) (TPong (a_data f)) s in (fl, s1, false)
  else if app_is_cont op false then (Normal, s, false)
  else
    let is_text := app_decodes_text op (app_skip_utf8 cfg) in
    match callback cfg (on_data cfg) (TData (a_data f) op true is_text) s with
    | (Kbd, s1) => (Kbd, s1, false)
    | (Normal, s1) =>
      let '(fl, s2) := callback cfg (on_message cfg) (TMessage (a_data f) is_text) s1 in (fl, s2, false)
    end.
Proof.
  intros cfg op f s. unfold deliver, app_is_close, app_is_ping, app_is_pong, app_is_cont, app_decodes_text.
  rewrite andb_false_r. reflexivity.
Qed.
Print Assumptions deliver_gen.

(* setSock(reconnecting): the regenerated first test of setSock (a reconnection is refused once close() has cleared keep_running)
   is the condition under which the model's outer loop stops asking for one.  In the sequential model the refusal is therefore never
   reached (close() from another thread during the wait is exercised in virtual time, harness close_during_wait). *)
Theorem reconnect_guard_gen : forall cfg a rest r s,
  attempts_loop cfg (a :: rest) r s =
  match set_sock cfg a r s with
  | (Kbd, s1) => (Kbd, s1)
  | (Normal, s1) =>
    if negb (reconnect cfg =? 0) && negb (app_reconnect_refused true (keep_running s1))
    then attempts_loop cfg rest true s1 else (Normal, s1)
  end.
Proof.
  intros cfg a rest r s. cbn [attempts_loop].
  destruct (set_sock cfg a r s) as [[|] s1]; [|reflexivity].
  unfold app_reconnect_refused. cbn [andb]. rewrite negb_involutive. reflexivity.
Qed.
Print Assumptions reconnect_guard_gen.
