(* Tie A for WebSocketApp._get_close_args: what on_close is told is the regenerated decision/values
   of websocket/_app.py (Gen/GenApp.v), the reason being the raw bytes after the 2-byte code
   (CPython's bytes.decode("utf-8", errors="replace") of them is outside the model). *)
From Coq Require Import ZArith List Bool Lia ZifyBool.
From WS Require Import Base.Res Base.Bytes Base.GenPrelude Gen.GenAbnf Gen.GenApp Model.Recv Model.App.
Import ListNotations.
Open Scope Z_scope.

Definition cb_set (m : cbmode) : bool := match m with Absent => false | _ => true end.

Theorem close_args_gen : forall cfg frame,
  close_args cfg frame =
  if close_args_none (cb_set (on_close cfg)) (match frame with Some _ => true | None => false end)
  then (None, None)
  else match frame with
       | None => (None, None)
       | Some f => if close_args_has_code (a_data f)
                   then (Some (close_args_code (a_data f)), Some (close_args_reason (a_data f)))
                   else (None, None)
       end.
Proof.
  intros cfg frame. unfold close_args, close_args_none, close_args_has_code, close_args_code, close_args_reason, cb_set.
  destruct (on_close cfg); destruct frame as [f|]; cbn [negb orb]; try reflexivity.
  all: assert (H : 2 <=? zlen (a_data f) = negb (zlen (a_data f) =? 0) && (zlen (a_data f) >=? 2)) by lia;
       rewrite H; reflexivity.
Qed.
Print Assumptions close_args_gen.
