(* End to end on the connection object: from the bytes a server sends (any chunking, any
   timeouts) to what a caller of recv_data_frame observes and what the client writes back.
   Composes the byte-level theorem (RecvProof: recv_frame_call) with the frame level
   (handle_frame, do_writes). *)
From Coq Require Import ZArith List Bool Lia ZifyBool.
From WS Require Import Base.Res Base.Bytes Base.GenPrelude Spec.Frame Spec.Stream
  Gen.GenUtils Gen.GenAbnf Gen.GenCore
  Model.Xport Model.Recv Model.Send Model.Conn
  Proofs.BytesLemmas Proofs.FrameCodec Proofs.SendProof Proofs.RecvSpec Proofs.RecvProof
  Proofs.ConnSpec Proofs.ConnProof Proofs.CloseProof Proofs.WsDrainSpec.
Import ListNotations.
Open Scope Z_scope.

(* ================================================================================== *)
(* 1. Byte level, one more fact: a timeout leaves the parser "hungry" (the stage in     *)
(*    progress still needs at least one byte), and a hungry parser that completes a     *)
(*    frame has taken something off the transport.  This is what makes rdf_fuel enough. *)
(* ================================================================================== *)

Definition need_of (fb : fbuf) : Z :=
  match f_hdr fb with
  | None => header_need
  | Some h =>
    match f_len fb with
    | None => length_need h
    | Some n => match f_mask fb with None => mask_need (tup7_5 h) | Some _ => n end
    end
  end.
Definition hungry (fb : fbuf) : Prop := zlen (f_buf fb) < need_of fb.

Lemma hungry_init : hungry fb_init.
Proof. unfold hungry, need_of. cbn [fb_init f_hdr f_buf]. rewrite g_header_need, zlen_nil. lia. Qed.

Lemma recv_strict_progress fuel n buf x b buf' x' :
  script_ok (inbox x) = true -> (msr (inbox x) < fuel)%nat -> zlen buf < n ->
  recv_strict fuel n buf x = (Ok b, buf', x') -> (msr (inbox x') < msr (inbox x))%nat.
Proof.
  unfold recv_strict. intros Hs Hf Hb H. rewrite g_shortage in H.
  destruct (strict_loop fuel (n - zlen buf) buf x) as [[[sh|e] b0] x0] eqn:E; [|discriminate].
  apply strict_loop_spec in E; try assumption. destruct E as (got & -> & Hx & -> & Hfl & Hp & _).
  destruct (strict_finish n (n - zlen buf - zlen got) (buf ++ got)). inversion H; subst.
  specialize (Hp ltac:(lia)).
  destruct Hx as (_ & _ & Hl & _). unfold msr. rewrite <- Hfl, app_length. unfold zlen in *. lia.
Qed.

Lemma recv_strict_timeout fuel n buf x buf' x' :
  script_ok (inbox x) = true -> (msr (inbox x) < fuel)%nat ->
  recv_strict fuel n buf x = (Raise TimedOut, buf', x') -> zlen buf' < n.
Proof.
  unfold recv_strict. intros Hs Hf H. rewrite g_shortage in H.
  destruct (strict_loop fuel (n - zlen buf) buf x) as [[[sh|e] b0] x0] eqn:E.
  - destruct (strict_finish n sh b0). discriminate.
  - inversion H; subst. apply strict_loop_spec in E; try assumption.
    destruct E as (got & -> & _ & _ & Hlt & _). rewrite zlen_app. lia.
Qed.

Definition Qp (fuel : nat) (fb : fbuf) (x : xport) (out : res abnf * fbuf * xport) : Prop :=
  script_ok (inbox x) = true -> (msr (inbox x) < fuel)%nat ->
  let '(r, fb', x') := out in
  (r = Raise TimedOut -> hungry fb') /\
  (forall a, r = Ok a -> xle x x' /\ (hungry fb -> (msr (inbox x') < msr (inbox x))%nat)).

Lemma Qp_adv fuel fb fb1 n buf x b buf' x' out :
  recv_strict fuel n buf x = (Ok b, buf', x') ->
  (hungry fb -> zlen buf < n) ->
  Qp fuel fb1 x' out -> Qp fuel fb x out.
Proof.
  unfold Qp. intros E Hh Q Hs Hf.
  destruct (recv_strict_fuel _ _ _ _ _ _ _ Hs Hf E) as [_ Hx]. specialize (Hx _ eq_refl).
  assert (Hs' : script_ok (inbox x') = true) by apply Hx.
  assert (Hf' : (msr (inbox x') < fuel)%nat) by (destruct Hx as (_ & Hm & _); lia).
  specialize (Q Hs' Hf'). destruct out as [[r fb'] x''].
  destruct Q as [A B]. split; [exact A|]. intros a Ha. destruct (B a Ha) as [Bx _].
  split; [eapply xle_trans; eassumption|]. intro H.
  pose proof (recv_strict_progress _ _ _ _ _ _ _ Hs Hf (Hh H) E).
  destruct Bx as (_ & Hm & _). lia.
Qed.

Lemma Qp_fail fuel fb n buf x e buf' x' fb' :
  recv_strict fuel n buf x = (Raise e, buf', x') ->
  (zlen buf' < n -> hungry fb') ->
  Qp fuel fb x (Raise e, fb', x').
Proof.
  unfold Qp. intros E Hh Hs Hf. split; [|discriminate].
  intro He. inversion He; subst. apply Hh. eapply recv_strict_timeout; eassumption.
Qed.

Lemma Qp_skip fuel fb fb1 x out : (hungry fb -> False) -> Qp fuel fb1 x out -> Qp fuel fb x out.
Proof.
  unfold Qp. intros Hn Q Hs Hf. specialize (Q Hs Hf). destruct out as [[r fb'] x'].
  destruct Q as [A B]. split; [exact A|]. intros a Ha. destruct (B a Ha) as [Bx _].
  split; [exact Bx|]. intro H. destruct (Hn H).
Qed.

Notation FB := Build_fbuf.

Lemma recv_frame_progress fuel skip : forall fb x, Qp fuel fb x (recv_frame fuel skip fb x).
Proof.
  unfold recv_frame.
  assert (S3 : forall h n k buf x,
    Qp fuel (FB (Some h) (Some n) (Some k) buf) x
       (recv_frame_with abnf_mask fuel skip (FB (Some h) (Some n) (Some k) buf) x)).
  { intros [[[[[[fin r1] r2] r3] op] m] lb] n k buf x.
    destruct (recv_strict fuel n buf x) as [[[p|e] b'] x'] eqn:E.
    - rewrite (st3_done _ _ _ _ _ _ _ _ _ _ _ _ _ _ _ _ _ E). cbv zeta.
      match goal with |- context [abnf_validate ?a ?b ?c ?d ?e ?f ?g] =>
        destruct (g_validate_res a b c d e f g) as [V|V]; rewrite V end.
      + unfold Qp. intros Hs Hf. split; [discriminate|]. intros a _.
        destruct (recv_strict_fuel _ _ _ _ _ _ _ Hs Hf E) as [_ Hx]. split; [eapply Hx; reflexivity|].
        unfold hungry, need_of. cbn [f_hdr f_len f_mask f_buf]. intro H.
        eapply recv_strict_progress; eassumption.
      + unfold Qp. intros Hs Hf. split; discriminate.
    - rewrite (st3_fail _ _ _ _ _ _ _ _ _ _ _ _ _ _ _ _ _ E). eapply Qp_fail; [exact E|].
      unfold hungry, need_of. cbn [f_hdr f_len f_mask f_buf]. auto. }
  assert (S2 : forall h n mk buf x,
    Qp fuel (FB (Some h) (Some n) mk buf) x
       (recv_frame_with abnf_mask fuel skip (FB (Some h) (Some n) mk buf) x)).
  { intros h n [k|] buf x; [apply S3|]. destruct h as [[[[[[fin r1] r2] r3] op] m] lb].
    destruct (mask_need m =? 0) eqn:E0.
    - rewrite st2_skip by exact E0. eapply Qp_skip; [|apply S3].
      unfold hungry, need_of, tup7_5. cbn [f_hdr f_len f_mask f_buf].
      pose proof (zlen_nonneg buf). apply Z.eqb_eq in E0. lia.
    - destruct (recv_strict fuel (mask_need m) buf x) as [[[k|e] b'] x'] eqn:E.
      + rewrite (st2_adv _ _ _ _ _ _ _ _ _ _ _ _ _ _ _ _ E0 E). eapply Qp_adv; [exact E| |apply S3].
        unfold hungry, need_of, tup7_5. cbn [f_hdr f_len f_mask f_buf]. auto.
      + rewrite (st2_fail _ _ _ _ _ _ _ _ _ _ _ _ _ _ _ _ E0 E). eapply Qp_fail; [exact E|].
        unfold hungry, need_of, tup7_5. cbn [f_hdr f_len f_mask f_buf]. auto. }
  assert (S1 : forall h ol mk buf x,
    Qp fuel (FB (Some h) ol mk buf) x
       (recv_frame_with abnf_mask fuel skip (FB (Some h) ol mk buf) x)).
  { intros h [n|] mk buf x; [apply S2|]. destruct h as [[[[[[fin r1] r2] r3] op] m] lb].
    destruct (length_need (fin, r1, r2, r3, op, m, lb) =? 0) eqn:E0.
    - rewrite st1_skip by exact E0. eapply Qp_skip; [|apply S2].
      unfold hungry, need_of. cbn [f_hdr f_len f_mask f_buf].
      pose proof (zlen_nonneg buf). apply Z.eqb_eq in E0. lia.
    - destruct (recv_strict fuel (length_need (fin, r1, r2, r3, op, m, lb)) buf x)
        as [[[v|e] b'] x'] eqn:E.
      + rewrite (st1_adv _ _ _ _ _ _ _ _ _ _ _ _ _ _ _ _ E0 E). eapply Qp_adv; [exact E| |apply S2].
        unfold hungry, need_of. cbn [f_hdr f_len f_mask f_buf]. auto.
      + rewrite (st1_fail _ _ _ _ _ _ _ _ _ _ _ _ _ _ _ _ E0 E). eapply Qp_fail; [exact E|].
        unfold hungry, need_of. cbn [f_hdr f_len f_mask f_buf]. auto. }
  intros [[h|] ol mk buf] x; [apply S1|].
  destruct (recv_strict fuel header_need buf x) as [[[b|e] b'] x'] eqn:E.
  - rewrite (st0_adv _ _ _ _ _ _ _ _ _ _ E). eapply Qp_adv; [exact E| |apply S1].
    unfold hungry, need_of. cbn [f_hdr f_len f_mask f_buf]. auto.
  - rewrite (st0_fail _ _ _ _ _ _ _ _ _ _ E). eapply Qp_fail; [exact E|].
    unfold hungry, need_of. cbn [f_hdr f_len f_mask f_buf]. auto.
Qed.

(* ================================================================================== *)
(* 2. Frame level: handle_frame does not look at has_mask / the key                     *)
(* ================================================================================== *)

Definition out_obs (o : outcome) : list fobs :=
  match o with
  | Return op f' => [ODeliver op (a_fin f') (a_data f')]
  | Fail e => [OFail e]
  | Again => []
  end.
Definition is_again (o : outcome) : bool := match o with Again => true | _ => false end.

Lemma wframe_of_abnf w : wframe_of (abnf_of_wframe w) = strip_key w.
Proof. destruct w as [[fin r1 r2 r3 op] k p]. reflexivity. Qed.

Lemma handle_frame_ext fire skip control conn cf a b :
  wframe_of a = wframe_of b ->
  s_cf (handle_frame fire skip control conn cf a) = s_cf (handle_frame fire skip control conn cf b) /\
  s_writes (handle_frame fire skip control conn cf a) = s_writes (handle_frame fire skip control conn cf b) /\
  out_obs (s_out (handle_frame fire skip control conn cf a)) =
    out_obs (s_out (handle_frame fire skip control conn cf b)) /\
  is_again (s_out (handle_frame fire skip control conn cf a)) =
    is_again (s_out (handle_frame fire skip control conn cf b)).
Proof.
  destruct a as [fa r1a r2a r3a opa ma da], b as [fb_ r1b r2b r3b opb mb db].
  unfold wframe_of. cbn [a_fin a_rsv1 a_rsv2 a_rsv3 a_opcode a_data]. intro H. inversion H; subst.
  unfold handle_frame, cf_validate, cf_add, cf_is_fire, cf_extract, with_data.
  cbn [a_fin a_rsv1 a_rsv2 a_rsv3 a_opcode a_data a_mask].
  repeat match goal with
         | |- context [if ?c then _ else _] => destruct c
         | |- context [match c_data ?c with _ => _ end] => destruct (c_data c) as [[? ?]|]
         end; cbn; auto.
Qed.

(* the only exceptions handle_frame itself raises *)
Lemma handle_frame_fail fire skip control conn cf f e :
  s_out (handle_frame fire skip control conn cf f) = Fail e ->
  e = Protocol \/ e = Payload \/ e = Internal TypeErr.
Proof.
  unfold handle_frame, cf_validate, cf_add, cf_is_fire, cf_extract.
  repeat match goal with
         | |- context [if ?c then _ else _] => destruct c
         | |- context [match c_data ?c with _ => _ end] => destruct (c_data c) as [[? ?]|]
         end; cbn; intro H; inversion H; auto.
Qed.

(* replies: nothing, one pong with a short payload, or one close when still connected *)
Definition reply_small (r : wreq) : Prop := match r with WPong p => zlen p < 126 | WClose => True end.

Lemma hf_writes_small fire skip control conn cf f :
  Forall reply_small (s_writes (handle_frame fire skip control conn cf f)) /\
  (length (s_writes (handle_frame fire skip control conn cf f)) <= 1)%nat.
Proof.
  unfold handle_frame.
  destruct (is_msg_opcode (a_opcode f) || (a_opcode f =? OPCODE_CONT)).
  - destruct (cf_validate cf f); [|cbn; auto].
    destruct (cf_is_fire fire f); [|cbn; auto].
    destruct (cf_extract fire skip (cf_add cf f) f) as [[[op0 f']|e] cf3]; cbn; auto.
  - destruct (a_opcode f =? OPCODE_CLOSE).
    + cbn [s_writes]. destruct conn; cbn; auto. split; [repeat constructor|lia].
    + destruct (a_opcode f =? OPCODE_PING).
      * destruct (ping_reply_ok (a_data f)) eqn:E; cbn; auto.
        rewrite ping_reply_ok_eq in E. split; [|lia]. constructor; [cbn; lia|constructor].
      * destruct (a_opcode f =? OPCODE_PONG); cbn; auto.
Qed.

(* ================================================================================== *)
(* 3. The automatic replies on the transport                                           *)
(* ================================================================================== *)

(* the i-th reply formatted with the i-th key; a reply the formatter refuses would be
   dropped (reply_ok below: this never happens for the replies handle_frame produces) *)
Fixpoint zip_replies (rs : list wreq) (ks : list bytes) : list bytes :=
  match rs, ks with
  | r :: rs', k :: ks' =>
      match reply_bytes r k with Ok b => [b] | Raise _ => [] end ++ zip_replies rs' ks'
  | _, _ => []
  end.

Lemma zip_replies_nil_r rs : zip_replies rs [] = [].
Proof. destruct rs; reflexivity. Qed.

Lemma zip_replies_app a b ks :
  zip_replies (a ++ b) ks = zip_replies a ks ++ zip_replies b (skipn (length a) ks).
Proof.
  revert ks. induction a as [|r a IH]; intro ks; [reflexivity|].
  destruct ks as [|k ks]; cbn [app zip_replies length skipn].
  - now rewrite zip_replies_nil_r.
  - rewrite IH, app_assoc. reflexivity.
Qed.

Lemma reply_ok r k : reply_small r -> exists d, reply_bytes r k = Ok d.
Proof.
  destruct r as [p|]; cbn [reply_small reply_bytes]; intro H.
  - apply format_frame_total; [apply g_pong_in|]. rewrite pow63. lia.
  - apply format_frame_total; [apply g_close_in|]. vm_compute. reflexivity.
Qed.

Lemma writes_of_app a b : writes_of (a ++ b) = writes_of a ++ writes_of b.
Proof. unfold writes_of. apply flat_map_app. Qed.
Lemma writes_of_reads l : forallb is_read l = true -> writes_of l = [].
Proof.
  induction l as [|e l IH]; [reflexivity|]. cbn [forallb]. intro H. apply andb_true_iff in H as [H1 H2].
  destruct e; try discriminate. cbn. now apply IH.
Qed.
Lemma writes_of_writes l : writes_of (map IWrite l) = l.
Proof. induction l as [|b l IH]; [reflexivity|]. cbn. now rewrite <- IH at 2. Qed.

Lemma wrote_close_cons_pong p r : wrote_close (WPong p :: r) = wrote_close r.
Proof. reflexivity. Qed.

Lemma do_writes_spec : forall rs w x,
  sock w = Some x -> (length rs <= length (keys w))%nat -> Forall reply_small rs ->
  do_writes w rs =
  (Ok tt, {| connected := connected w && negb (wrote_close rs);
             sock := Some {| inbox := inbox x; iolog := iolog x ++ map IWrite (zip_replies rs (keys w)) |};
             past := past w; fb := fb w; cf := cf w; keys := skipn (length rs) (keys w);
             fire_cont := fire_cont w; skip_utf8 := skip_utf8 w |}).
Proof.
  induction rs as [|r rs IH]; intros w x Hs Hk Hr.
  - cbn [do_writes wrote_close existsb negb length skipn zip_replies map]. rewrite andb_true_r, app_nil_r.
    destruct w as [c s p b cc kk fc sk]. cbn in *. subst s. destruct x; reflexivity.
  - inversion Hr as [|? ? Hr1 Hr2]; subst.
    destruct (keys w) as [|k ks] eqn:Ek; [cbn in Hk; lia|].
    destruct (reply_ok r k Hr1) as [d Hd].
    cbn [length] in Hk. apply le_S_n in Hk.
    destruct r as [p|]; cbn [do_writes].
    + unfold ws_send. rewrite Ek. cbn [reply_bytes] in Hd. rewrite Hd, Hs.
      set (w1 := upd w (connected w) (Some (xlog x (IWrite d))) (past w) (fb w) (cf w) ks).
      rewrite (IH w1 (xlog x (IWrite d))); [|reflexivity|exact Hk|exact Hr2].
      cbn [zip_replies reply_bytes]. rewrite Hd.
      unfold w1, upd, xlog. cbn [connected sock past fb cf keys fire_cont skip_utf8 inbox iolog].
      rewrite wrote_close_cons_pong. cbn [length skipn app map]. rewrite <- app_assoc. reflexivity.
    + unfold ws_send_close.
      assert (Eb : send_close_bad_status close_default_status = false) by reflexivity. rewrite Eb.
      unfold ws_send. cbn [upd keys sock]. rewrite Ek. cbn [reply_bytes] in Hd. rewrite Hd, Hs.
      cbn [connected sock past fb cf keys fire_cont skip_utf8].
      match goal with |- context [do_writes ?W rs] => set (w1 := W) end.
      rewrite (IH w1 (xlog x (IWrite d))); [|reflexivity|exact Hk|exact Hr2].
      cbn [zip_replies reply_bytes]. rewrite Hd.
      unfold w1, upd, xlog. cbn [connected sock past fb cf keys fire_cont skip_utf8 inbox iolog].
      cbn [wrote_close existsb orb negb andb length skipn app map]. rewrite andb_false_r, <- app_assoc.
      reflexivity.
Qed.

(* ================================================================================== *)
(* 4. The run of recv_data_frame calls                                                 *)
(* ================================================================================== *)

(* what ws_drain does with the outcome of one recv_data_frame call *)
Definition drain_step (k : nat) (control : bool) (o : res (Z * abnf) * ws) : list fobs * ws :=
  match o with
  | (Raise TimedOut, w') => ws_drain k control w'
  | (Raise ConnClosed, w') => ([OFail ConnClosed], w')
  | (Raise (Transport c), w') => ([OFail (Transport c)], w')
  | (Raise e, w') => let '(r, w'') := ws_drain k control w' in (OFail e :: r, w'')
  | (Ok (op, f), w') => let '(r, w'') := ws_drain k control w' in (ODeliver op (a_fin f) (a_data f) :: r, w'')
  end.

Lemma ws_drain_S k control w :
  ws_drain (S k) control w = drain_step k control (ws_recv_data_frame (rdf_fuel w) control w).
Proof. reflexivity. Qed.

Lemma drain_step_ok k c op f w' :
  drain_step k c (Ok (op, f), w') =
  (ODeliver op (a_fin f) (a_data f) :: fst (ws_drain k c w'), snd (ws_drain k c w')).
Proof. cbn [drain_step]. destruct (ws_drain k c w'); reflexivity. Qed.

Lemma drain_step_fail k c e w' : e = Protocol \/ e = Payload \/ e = Internal TypeErr ->
  drain_step k c (Raise e, w') = (OFail e :: fst (ws_drain k c w'), snd (ws_drain k c w')).
Proof. intros [->|[->| ->]]; cbn [drain_step]; destruct (ws_drain k c w'); reflexivity. Qed.

Lemma filter_none {A} (l : list A) : filter (fun _ => false) l = [].
Proof. induction l; [reflexivity|exact IHl]. Qed.

(* ---- replaying a transport log against the script: what each read took off the transport ---- *)
Definition read_step (n : Z) (inb : list ev) : list ev :=
  inbox (snd (sock_recv n {| inbox := inb; iolog := [] |})).

Fixpoint replay (inb : list ev) (log : list io) : list ev :=
  match log with
  | [] => inb
  | IRead n :: r => replay (read_step n inb) r
  | _ :: r => replay inb r
  end.

(* for every write in the log, in order: how many bytes of the stream the transport had not yet
   delivered at the moment of the write *)
Fixpoint write_marks (inb : list ev) (log : list io) : list nat :=
  match log with
  | [] => []
  | IRead n :: r => write_marks (read_step n inb) r
  | IWrite _ :: r => length (flatten inb) :: write_marks inb r
  | _ :: r => write_marks inb r
  end.

Lemma replay_app inb a b : replay inb (a ++ b) = replay (replay inb a) b.
Proof. revert inb. induction a as [|e a IH]; intro inb; [reflexivity|]. destruct e; cbn; apply IH. Qed.

Lemma write_marks_app inb a b :
  write_marks inb (a ++ b) = write_marks inb a ++ write_marks (replay inb a) b.
Proof.
  revert inb. induction a as [|e a IH]; intro inb; [reflexivity|].
  destruct e; cbn [app write_marks replay]; rewrite IH; reflexivity.
Qed.

Lemma write_marks_reads inb l : forallb is_read l = true -> write_marks inb l = [].
Proof.
  revert inb. induction l as [|e l IH]; intros inb H; [reflexivity|]. cbn [forallb] in H.
  apply andb_true_iff in H as [H1 H2]. destruct e; try discriminate. cbn. now apply IH.
Qed.

Lemma replay_writes inb zs : replay inb (map IWrite zs) = inb.
Proof. induction zs as [|z zs IH]; [reflexivity|exact IH]. Qed.

Lemma write_marks_writes inb zs :
  write_marks inb (map IWrite zs) = repeat (length (flatten inb)) (length zs).
Proof. induction zs as [|z zs IH]; [reflexivity|]. cbn. now rewrite <- IH. Qed.

Lemma sock_recv_replay n x r x' : sock_recv n x = (r, x') -> inbox x' = read_step n (inbox x).
Proof.
  unfold read_step, sock_recv. cbn [inbox iolog]. intro H.
  destruct (inbox x) as [|[bs| |] l];
    [|destruct (zlen bs =? 0); [|destruct (zlen bs <=? n)]| |]; inversion H; reflexivity.
Qed.

(* recv_frame only reads, and the reads it logs account for what left the transport *)
Definition grows2 (x x' : xport) : Prop :=
  exists l, iolog x' = iolog x ++ l /\ forallb is_read l = true /\ inbox x' = replay (inbox x) l.

Lemma grows2_refl x : grows2 x x.
Proof. exists []. rewrite app_nil_r. auto. Qed.
Lemma grows2_trans x y z : grows2 x y -> grows2 y z -> grows2 x z.
Proof.
  intros (l & H1 & H2 & H3) (l' & H4 & H5 & H6). exists (l ++ l'). split; [|split].
  - rewrite H4, H1, app_assoc. reflexivity.
  - rewrite forallb_app, H2, H5. reflexivity.
  - rewrite replay_app, <- H3. exact H6.
Qed.
Lemma sock_recv_grows2 k x r x' : sock_recv k x = (r, x') -> grows2 x x'.
Proof.
  intro H. exists [IRead k]. split; [eapply sock_recv_log; exact H|]. split; [reflexivity|].
  cbn [replay]. eapply sock_recv_replay; exact H.
Qed.
Lemma strict_loop_grows2 : forall fuel sh buf x r buf' x',
  strict_loop fuel sh buf x = (r, buf', x') -> grows2 x x'.
Proof.
  induction fuel as [|k IH]; intros sh buf x r buf' x' H; rewrite strict_loop_eq in H.
  - destruct (sh >? 0); inversion H; subst; apply grows2_refl.
  - destruct (sh >? 0); [|inversion H; subst; apply grows2_refl].
    destruct (sock_recv (Z.min 16384 sh) x) as [[bs|e] x0] eqn:E; apply sock_recv_grows2 in E.
    + apply IH in H. eapply grows2_trans; eassumption.
    + inversion H; subst. exact E.
Qed.
Lemma recv_strict_grows2 fuel n buf x r buf' x' :
  recv_strict fuel n buf x = (r, buf', x') -> grows2 x x'.
Proof.
  unfold recv_strict. intro H.
  destruct (strict_loop fuel (strict_shortage n buf) buf x) as [[[sh|e] b0] x0] eqn:E;
    apply strict_loop_grows2 in E.
  - destruct (strict_finish n sh b0). inversion H; subst. exact E.
  - inversion H; subst. exact E.
Qed.
Lemma recv_frame_grows2 fuel skip fb x r fb' x' :
  recv_frame fuel skip fb x = (r, fb', x') -> grows2 x x'.
Proof.
  intro H.
  pose proof (recv_frame_generic (fun x out => grows2 x (snd out)) fuel skip) as G.
  cbv beta in G. specialize (G
    ltac:(intros; cbn [snd]; eapply recv_strict_grows2; eauto)
    ltac:(intros ? ? ? ? ? ? ? E IH; eapply grows2_trans; [eapply recv_strict_grows2; exact E|exact IH])
    ltac:(intros; cbn [snd]; eapply recv_strict_grows2; eauto)
    fb x).
  rewrite H in G. exact G.
Qed.

Lemma zip_replies_length : forall rs ks, Forall reply_small rs -> (length rs <= length ks)%nat ->
  length (zip_replies rs ks) = length rs.
Proof.
  induction rs as [|r rs IH]; intros ks H Hl; [reflexivity|]. inversion H as [|? ? H1 H2]; subst.
  destruct ks as [|k ks]; [cbn in Hl; lia|]. cbn [zip_replies].
  destruct (reply_ok r k H1) as [d ->]. cbn [app length]. f_equal. apply IH; [exact H2|].
  cbn [length] in Hl. lia.
Qed.

(* spec side: for every automatic reply, in order, the number of bytes of the stream that follow
   the frame which triggered it *)
Fixpoint reply_marks (fire skip control conn : bool) (cf : cframe) (fuel : nat) (s : bytes) : list nat :=
  match fuel with
  | O => []
  | S k =>
    match next_frame (code_verdict skip) s with
    | Some (Ok f, rest) =>
        let st := handle_frame fire skip control conn cf (abnf_of_wframe f) in
        repeat (length rest) (length (s_writes st)) ++
        reply_marks fire skip control (conn && negb (wrote_close (s_writes st))) (s_cf st) k rest
    | Some (Raise _, rest) => reply_marks fire skip control conn cf k rest
    | None => []
    end
  end.

Lemma reply_marks_S fire skip control conn cf k s :
  reply_marks fire skip control conn cf (S k) s =
  match next_frame (code_verdict skip) s with
  | Some (Ok f, rest) =>
      repeat (length rest) (length (s_writes (handle_frame fire skip control conn cf (abnf_of_wframe f)))) ++
      reply_marks fire skip control
        (conn && negb (wrote_close (s_writes (handle_frame fire skip control conn cf (abnf_of_wframe f)))))
        (s_cf (handle_frame fire skip control conn cf (abnf_of_wframe f))) k rest
  | Some (Raise _, rest) => reply_marks fire skip control conn cf k rest
  | None => []
  end.
Proof. reflexivity. Qed.

Section Drain.
Variables (fire skip control : bool).
Variable l0 : list ev.        (* the script the transport started with *)

Lemma feed_results_ok conn cf f r :
  feed_results fire skip control conn cf (Ok f :: r) =
  out_obs (s_out (handle_frame fire skip control conn cf (abnf_of_wframe f))) ++
  feed_results fire skip control
    (conn && negb (wrote_close (s_writes (handle_frame fire skip control conn cf (abnf_of_wframe f)))))
    (s_cf (handle_frame fire skip control conn cf (abnf_of_wframe f))) r.
Proof. cbn [feed_results]. rewrite filter_none. reflexivity. Qed.

Lemma replies_of_ok conn cf f r :
  replies_of fire skip control conn cf (Ok f :: r) =
  s_writes (handle_frame fire skip control conn cf (abnf_of_wframe f)) ++
  replies_of fire skip control
    (conn && negb (wrote_close (s_writes (handle_frame fire skip control conn cf (abnf_of_wframe f)))))
    (s_cf (handle_frame fire skip control conn cf (abnf_of_wframe f))) r.
Proof. reflexivity. Qed.

(* the state between two transport reads *)
Definition Inv (w : ws) (x : xport) : Prop :=
  sock w = Some x /\ fire_cont w = fire /\ skip_utf8 w = skip /\
  fb_inv (fb w) /\ hungry (fb w) /\
  script_ok (inbox x) = true /\ no_reset (inbox x) = true /\ bytes_ok (flatten (inbox x)) /\
  (length (stream (fb w) x) <= length (keys w))%nat /\
  replay l0 (all_io w) = inbox x.

Definition Mz (w : ws) (x : xport) : nat := (length (stream (fb w) x) + length (inbox x))%nat.

Definition Post (w : ws) (x : xport) (fuel2 : nat) (out : list fobs * ws) : Prop :=
  fst out = feed_results fire skip control (connected w) (cf w)
              (stream_results (code_verdict skip) fuel2 (stream (fb w) x)) /\
  writes_of (all_io (snd out)) =
  writes_of (all_io w) ++
  zip_replies (replies_of fire skip control (connected w) (cf w)
                 (stream_results (code_verdict skip) fuel2 (stream (fb w) x))) (keys w) /\
  write_marks l0 (all_io (snd out)) =
  write_marks l0 (all_io w) ++
  reply_marks fire skip control (connected w) (cf w) fuel2 (stream (fb w) x).

Lemma stream_len fb x : length (stream fb x) = (length (reserialise fb) + length (flatten (inbox x)))%nat.
Proof. unfold stream. apply app_length. Qed.

Lemma drain_main : forall B k n fuel2 w x,
  Inv w x -> (Mz w x < B)%nat -> (Mz w x <= k)%nat -> (msr (inbox x) < n)%nat ->
  (length (stream (fb w) x) < fuel2)%nat ->
  Post w x fuel2 (drain_step k control (ws_recv_data_frame n control w)).
Proof.
  induction B as [|B IH]; intros k n fuel2 w x HI HB Hk Hn Hf2; [lia|].
  destruct HI as (Hsock & Hfire & Hskip & Hfb & Hh & Hs & Hnr & Hb & Hkeys & Hrp).
  destruct n as [|n']; [lia|]. destruct fuel2 as [|f2]; [lia|].
  cbn [ws_recv_data_frame]. unfold ws_recv_frame. rewrite Hsock, Hskip.
  pose proof (recv_frame_call (fuel_for (inbox x)) skip (fb w) x Hfb Hs Hb
                ltac:(rewrite fuel_for_msr; lia)) as P.
  pose proof (recv_frame_progress (fuel_for (inbox x)) skip (fb w) x) as Q. unfold Qp in Q.
  specialize (Q Hs ltac:(rewrite fuel_for_msr; lia)).
  pose proof (recv_frame_grows2 (fuel_for (inbox x)) skip (fb w) x) as G.
  destruct (recv_frame (fuel_for (inbox x)) skip (fb w) x) as [[r fb'] x'].
  specialize (G _ _ _ eq_refl). destruct G as (lg & Hlg & Hreads & Hrp').
  unfold call_post in P. pose proof (stream_len (fb w) x) as Hlen.
  assert (Hio : all_io w = past w ++ iolog x) by (unfold all_io; now rewrite Hsock).
  unfold Mz in *.
  destruct r as [a|e].
  - (* a frame is delivered by the byte level *)
    destruct P as (Hx & Hb' & -> & wf & HD & HV & HW).
    destruct Q as [_ Q]. destruct (Q a eq_refl) as [_ Qm]. specialize (Qm Hh).
    pose proof (decode_consumes _ _ _ HD) as Hc. destruct Hx as (Hs' & Hm' & Hl' & Hn').
    cbv beta iota zeta. unfold upd. cbn [connected sock past fb cf keys fire_cont skip_utf8].
    rewrite Hfire, Hskip.
    set (st := handle_frame fire skip control (connected w) (cf w) a).
    destruct (hf_writes_small fire skip control (connected w) (cf w) a) as [Hsm Hl1]. fold st in Hsm, Hl1.
    match goal with |- context [do_writes ?W _] => set (w2 := W) end.
    rewrite (do_writes_spec (s_writes st) w2 x'); [|reflexivity|cbn [w2 keys]; lia|exact Hsm].
    unfold w2. cbn [connected sock past fb cf keys fire_cont skip_utf8]. cbv beta iota.
    set (zs := zip_replies (s_writes st) (keys w)).
    set (x3 := {| inbox := inbox x'; iolog := iolog x' ++ map IWrite zs |}).
    set (w3 := {| connected := connected w && negb (wrote_close (s_writes st)); sock := Some x3;
                  past := past w; fb := fb_init; cf := s_cf st;
                  keys := skipn (length (s_writes st)) (keys w);
                  fire_cont := fire; skip_utf8 := skip |}).
    assert (Hnf : next_frame (code_verdict skip) (stream (fb w) x) = Some (Ok wf, flatten (inbox x'))).
    { unfold next_frame. destruct HD as [HD|HD]; rewrite HD, HV; reflexivity. }
    assert (E3s : stream (fb w3) x3 = flatten (inbox x')) by reflexivity.
    assert (Hall3 : all_io w3 = all_io w ++ lg ++ map IWrite zs).
    { rewrite Hio. unfold all_io. cbn [w3 x3 sock past iolog]. rewrite Hlg, <- !app_assoc. reflexivity. }
    assert (I3 : Inv w3 x3).
    { unfold Inv. rewrite E3s, Hall3. cbn [w3 x3 sock fire_cont skip_utf8 fb keys inbox].
      refine (conj eq_refl (conj eq_refl (conj eq_refl (conj fb_inv_init (conj hungry_init
               (conj Hs' (conj (Hn' Hnr) (conj Hb' (conj _ _))))))))).
      - rewrite skipn_length. lia.
      - rewrite !replay_app, Hrp, replay_writes. symmetry. exact Hrp'. }
    assert (A3 : writes_of (all_io w3) = writes_of (all_io w) ++ zs).
    { rewrite Hall3, !writes_of_app, writes_of_writes, (writes_of_reads lg Hreads). reflexivity. }
    assert (M3 : write_marks l0 (all_io w3) =
                 write_marks l0 (all_io w) ++ repeat (length (flatten (inbox x'))) (length (s_writes st))).
    { rewrite Hall3, !write_marks_app, Hrp, (write_marks_reads _ lg Hreads), <- Hrp', write_marks_writes.
      unfold zs. rewrite zip_replies_length; [reflexivity|exact Hsm|lia]. }
    assert (IH3 : forall k0 n0, (length (flatten (inbox x')) + length (inbox x') <= k0)%nat ->
                  (msr (inbox x') < n0)%nat ->
                  Post w3 x3 f2 (drain_step k0 control (ws_recv_data_frame n0 control w3))).
    { intros k0 n0 Hk0 Hn0. apply IH; auto; unfold Mz; rewrite ?E3s; cbn [x3 inbox]; lia. }
    unfold Post in IH3. rewrite E3s in IH3. cbn [w3 connected cf keys] in IH3. fold w3 in IH3.
    unfold Post. rewrite stream_results_S, reply_marks_S, Hnf, feed_results_ok, replies_of_ok.
    destruct (handle_frame_ext fire skip control (connected w) (cf w) a (abnf_of_wframe wf))
      as (E1 & E2 & E3 & _); [rewrite wframe_of_abnf; exact HW|]. fold st in E1, E2, E3.
    rewrite <- E1, <- E2, <- E3, zip_replies_app. fold zs. rewrite !app_assoc, <- A3, <- M3.
    destruct (s_out st) as [op f'| |e] eqn:Eo; cbn [out_obs app].
    + destruct k as [|k']; [lia|]. rewrite drain_step_ok, ws_drain_S. cbn [fst snd].
      destruct (IH3 k' (rdf_fuel w3)) as (F & W & K);
        [lia|unfold rdf_fuel, msr; cbn [w3 x3 sock inbox]; lia|].
      split; [f_equal; exact F|split; [exact W|exact K]].
    + apply IH3; lia.
    + pose proof (handle_frame_fail _ _ _ _ _ _ _ Eo) as He.
      destruct k as [|k']; [lia|]. rewrite (drain_step_fail _ _ _ _ He), ws_drain_S. cbn [fst snd].
      destruct (IH3 k' (rdf_fuel w3)) as (F & W & K);
        [lia|unfold rdf_fuel, msr; cbn [w3 x3 sock inbox]; lia|].
      split; [f_equal; exact F|split; [exact W|exact K]].
  - destruct e; try contradiction.
    + (* the validator rejects the frame *)
      destruct P as (Hx & Hb' & -> & wf & HD & HV).
      pose proof (decode_consumes _ _ _ HD) as Hc. destruct Hx as (Hs' & Hm' & Hl' & Hn').
      cbv beta iota. unfold upd.
      set (w1 := {| connected := connected w; sock := Some x'; past := past w; fb := fb_init; cf := cf w;
                    keys := keys w; fire_cont := fire_cont w; skip_utf8 := skip_utf8 w |}).
      assert (Hnf : next_frame (code_verdict skip) (stream (fb w) x) = Some (Raise Protocol, flatten (inbox x'))).
      { unfold next_frame. destruct HD as [HD|HD]; rewrite HD, HV; reflexivity. }
      assert (E1s : stream (fb w1) x' = flatten (inbox x')) by reflexivity.
      assert (Hall1 : all_io w1 = all_io w ++ lg).
      { rewrite Hio. unfold all_io. cbn [w1 sock past]. rewrite Hlg, app_assoc. reflexivity. }
      assert (I1 : Inv w1 x').
      { unfold Inv. rewrite E1s, Hall1. cbn [w1 sock fire_cont skip_utf8 fb keys].
        refine (conj eq_refl (conj Hfire (conj Hskip (conj fb_inv_init (conj hungry_init
                 (conj Hs' (conj (Hn' Hnr) (conj Hb' (conj _ _))))))))); [lia|].
        rewrite replay_app, Hrp. symmetry. exact Hrp'. }
      assert (A1 : writes_of (all_io w1) = writes_of (all_io w)).
      { rewrite Hall1, writes_of_app, (writes_of_reads lg Hreads), app_nil_r. reflexivity. }
      assert (M1 : write_marks l0 (all_io w1) = write_marks l0 (all_io w)).
      { rewrite Hall1, write_marks_app, (write_marks_reads _ lg Hreads), app_nil_r. reflexivity. }
      destruct k as [|k']; [lia|].
      rewrite (drain_step_fail _ _ Protocol _ ltac:(auto)), ws_drain_S.
      destruct (IH k' (rdf_fuel w1) f2 w1 x' I1) as (F & W & K);
        try (unfold Mz; rewrite E1s); try lia; [unfold rdf_fuel, msr; cbn [w1 sock]; lia|].
      rewrite E1s in F, W, K. cbn [w1 connected cf keys] in F, W, K. fold w1 in F, W, K.
      unfold Post. rewrite stream_results_S, reply_marks_S, Hnf. cbn [feed_results replies_of fst snd].
      rewrite <- A1, <- M1.
      split; [f_equal; exact F|split; [exact W|exact K]].
    + (* end of stream *)
      cbv beta iota. cbn [drain_step]. unfold Post. cbn [fst snd].
      rewrite stream_results_S, reply_marks_S. unfold next_frame. rewrite P.
      cbn [feed_results replies_of zip_replies].
      split; [reflexivity|]. rewrite !app_nil_r.
      assert (Hallc : all_io (upd w false None (past w ++ iolog x' ++ [IClose]) fb' (cf w) (keys w)) =
                      all_io w ++ lg ++ [IClose]).
      { rewrite Hio. unfold all_io, upd. cbn [sock past]. rewrite Hlg, app_nil_r, <- !app_assoc. reflexivity. }
      rewrite Hallc. split.
      * rewrite !writes_of_app, (writes_of_reads lg Hreads). cbn [writes_of flat_map app].
        rewrite !app_nil_r. reflexivity.
      * rewrite !write_marks_app, (write_marks_reads _ lg Hreads). cbn [write_marks app].
        rewrite !app_nil_r. reflexivity.
    + (* a timeout: the caller calls again *)
      destruct P as (Hx & Hi' & HS & Hl). destruct Q as [Qh _]. specialize (Qh eq_refl).
      destruct Hx as (Hs' & Hm' & Hl' & Hn').
      cbv beta iota. unfold upd.
      set (w1 := {| connected := connected w; sock := Some x'; past := past w; fb := fb'; cf := cf w;
                    keys := keys w; fire_cont := fire_cont w; skip_utf8 := skip_utf8 w |}).
      assert (Hb' : bytes_ok (flatten (inbox x'))).
      { assert (Hall : bytes_ok (stream fb' x')).
        { rewrite HS. unfold stream. apply bytes_ok_app. split; [|exact Hb]. now apply reserialise_ok. }
        unfold stream in Hall. apply bytes_ok_app in Hall. apply Hall. }
      assert (Hall1 : all_io w1 = all_io w ++ lg).
      { rewrite Hio. unfold all_io. cbn [w1 sock past]. rewrite Hlg, app_assoc. reflexivity. }
      assert (I1 : Inv w1 x').
      { unfold Inv. rewrite Hall1. cbn [w1 sock fire_cont skip_utf8 fb keys]. rewrite HS.
        refine (conj eq_refl (conj Hfire (conj Hskip (conj Hi' (conj Qh
                 (conj Hs' (conj (Hn' Hnr) (conj Hb' (conj Hkeys _))))))))).
        rewrite replay_app, Hrp. symmetry. exact Hrp'. }
      assert (A1 : writes_of (all_io w1) = writes_of (all_io w)).
      { rewrite Hall1, writes_of_app, (writes_of_reads lg Hreads), app_nil_r. reflexivity. }
      assert (M1 : write_marks l0 (all_io w1) = write_marks l0 (all_io w)).
      { rewrite Hall1, write_marks_app, (write_marks_reads _ lg Hreads), app_nil_r. reflexivity. }
      destruct k as [|k']; [lia|]. cbn [drain_step]. rewrite ws_drain_S.
      destruct (IH k' (rdf_fuel w1) (S f2) w1 x' I1) as (F & W & K);
        try (unfold Mz; cbn [w1 fb]; rewrite HS); try lia; [unfold rdf_fuel, msr; cbn [w1 sock]; lia|].
      cbn [w1 connected cf keys fb] in F, W, K. fold w1 in F, W, K. rewrite HS in F, W, K.
      unfold Post. rewrite <- A1, <- M1. split; [exact F|split; [exact W|exact K]].
    + rewrite Hnr in P. discriminate.
Qed.

(* one iteration of recv_data_frame's loop, in a state satisfying the invariant: the reply to a
   frame is on the transport log right after the reads that completed this frame, and at that
   moment nothing beyond the frame has been taken off the transport (fb is empty again and the
   unread bytes are exactly the rest of the stream after the frame) *)
Lemma reply_before_next_read_inv : forall w x a w1,
  Inv w x -> ws_recv_frame w = (Ok a, w1) ->
  let st := handle_frame (fire_cont w1) (skip_utf8 w1) control (connected w1) (cf w1) a in
  let w2 := upd w1 (connected w1) (sock w1) (past w1) (fb w1) (s_cf st) (keys w1) in
  exists x1 wf w3 x3,
    sock w1 = Some x1 /\ fb w1 = fb_init /\
    (decode (stream (fb w) x) = Frame wf (flatten (inbox x1)) \/
     decode (stream (fb w) x) = NotShortest wf (flatten (inbox x1))) /\
    wframe_of a = strip_key wf /\
    (exists reads, forallb is_read reads = true /\ all_io w1 = all_io w ++ reads) /\
    do_writes w2 (s_writes st) = (Ok tt, w3) /\
    all_io w3 = all_io w1 ++ map IWrite (zip_replies (s_writes st) (keys w)) /\
    sock w3 = Some x3 /\ inbox x3 = inbox x1 /\ fb w3 = fb_init /\ Inv w3 x3.
Proof.
  intros w x a w1 HI H.
  destruct HI as (Hsock & Hfire & Hskip & Hfb & Hh & Hs & Hnr & Hb & Hkeys & Hrp).
  unfold ws_recv_frame in H. rewrite Hsock, Hskip in H.
  pose proof (recv_frame_call (fuel_for (inbox x)) skip (fb w) x Hfb Hs Hb
                ltac:(rewrite fuel_for_msr; lia)) as P.
  pose proof (recv_frame_grows2 (fuel_for (inbox x)) skip (fb w) x) as G.
  destruct (recv_frame (fuel_for (inbox x)) skip (fb w) x) as [[r fb'] x'].
  specialize (G _ _ _ eq_refl). destruct G as (lg & Hlg & Hreads & Hrp').
  unfold call_post in P.
  destruct r as [a'|e]; [|destruct e; inversion H].
  inversion H; subst a' w1. clear H.
  destruct P as (Hx & Hb' & -> & wf & HD & HV & HW).
  pose proof (decode_consumes _ _ _ HD) as Hc. destruct Hx as (Hs' & Hm' & Hl' & Hn').
  unfold upd. cbn [connected sock past fb cf keys fire_cont skip_utf8]. cbv zeta.
  rewrite Hfire, Hskip.
  set (st := handle_frame fire skip control (connected w) (cf w) a).
  destruct (hf_writes_small fire skip control (connected w) (cf w) a) as [Hsm Hl1]. fold st in Hsm, Hl1.
  match goal with |- context [do_writes ?W _] => set (w2 := W) end.
  rewrite (do_writes_spec (s_writes st) w2 x'); [|reflexivity|cbn [w2 keys]; lia|exact Hsm].
  unfold w2. cbn [connected sock past fb cf keys fire_cont skip_utf8].
  assert (Hio : all_io w = past w ++ iolog x) by (unfold all_io; now rewrite Hsock).
  eexists x', wf, _, _.
  split; [reflexivity|]. split; [reflexivity|]. split; [exact HD|]. split; [exact HW|].
  split.
  { exists lg. split; [exact Hreads|]. rewrite Hio. unfold all_io. cbn [sock past]. rewrite Hlg, app_assoc.
    reflexivity. }
  split; [reflexivity|].
  split; [unfold all_io; cbn [sock past iolog]; rewrite app_assoc; reflexivity|].
  split; [reflexivity|]. split; [reflexivity|]. split; [reflexivity|].
  unfold Inv. cbn [sock fire_cont skip_utf8 fb keys inbox].
  refine (conj eq_refl (conj eq_refl (conj eq_refl (conj fb_inv_init (conj hungry_init
           (conj Hs' (conj (Hn' Hnr) (conj Hb' (conj _ _))))))))).
  - change (stream fb_init ?X) with (flatten (inbox X)). cbn [inbox].
    rewrite skipn_length. lia.
  - unfold all_io. cbn [sock past iolog]. rewrite Hlg, !app_assoc, <- Hio, <- app_assoc, !replay_app, Hrp,
      replay_writes. symmetry. exact Hrp'.
Qed.

End Drain.

(* ================================================================================== *)
(* 5. The end-to-end theorems                                                          *)
(* ================================================================================== *)

(* the key stream never runs dry: every automatic reply is triggered by a frame of at least two
   bytes and consumes one key.  (Nothing is asked of the keys themselves: the formatter's
   success does not depend on them.) *)
Definition keys_enough (ks : list bytes) (l : list ev) : Prop :=
  (length (flatten l) <= length ks)%nat.

Lemma ws_drain_post fire skip control l ks :
  script_ok l = true -> no_reset l = true -> bytes_ok (flatten l) -> keys_enough ks l ->
  Post fire skip control l (ws_init (mk_xport l) ks fire skip) (mk_xport l) (drain_fuel l)
       (ws_drain (drain_fuel l) control (ws_init (mk_xport l) ks fire skip)).
Proof.
  intros Hs Hn Hb Hk. unfold drain_fuel. rewrite ws_drain_S.
  assert (E : stream fb_init (mk_xport l) = flatten l) by reflexivity.
  apply (drain_main fire skip control l (S (length (flatten l) + length l))).
  - unfold Inv. cbn [ws_init sock fire_cont skip_utf8 fb keys]. rewrite E. cbn [mk_xport inbox].
    exact (conj eq_refl (conj eq_refl (conj eq_refl (conj fb_inv_init (conj hungry_init
             (conj Hs (conj Hn (conj Hb (conj Hk eq_refl))))))))).
  - unfold Mz. cbn [ws_init fb]. rewrite E. cbn [mk_xport inbox]. lia.
  - unfold Mz. cbn [ws_init fb]. rewrite E. cbn [mk_xport inbox]. lia.
  - unfold rdf_fuel, msr. cbn [ws_init sock mk_xport inbox]. lia.
  - cbn [ws_init fb]. rewrite E. lia.
Qed.

(* (1) what the caller observes *)
Theorem ws_drain_results : forall fire skip control l ks,
  script_ok l = true -> no_reset l = true -> bytes_ok (flatten l) -> keys_enough ks l ->
  fst (ws_drain (drain_fuel l) control (ws_init (mk_xport l) ks fire skip)) =
  feed_results fire skip control true cf_init
    (stream_results (code_verdict skip) (drain_fuel l) (flatten l)).
Proof.
  intros fire skip control l ks Hs Hn Hb Hk.
  exact (proj1 (ws_drain_post fire skip control l ks Hs Hn Hb Hk)).
Qed.

(* (2) what the client writes *)
Lemma replies_small fire skip control : forall rs conn cf,
  Forall reply_small (replies_of fire skip control conn cf rs).
Proof.
  induction rs as [|[f|e] r IH]; intros conn cf; cbn [replies_of]; [constructor| |apply IH].
  apply Forall_app. split; [apply hf_writes_small|apply IH].
Qed.

Lemma replies_count fire skip control v : forall fuel s conn cf,
  (length (replies_of fire skip control conn cf (stream_results v fuel s)) <= length s)%nat.
Proof.
  induction fuel as [|k IH]; intros s conn cf; [cbn; lia|].
  rewrite stream_results_S. unfold next_frame.
  destruct (decode s) as [f rest|f rest|] eqn:E; [| |cbn; lia].
  - assert (Hc : (length rest < length s)%nat) by (eapply decode_consumes; eauto).
    destruct (v f); cbn [replies_of].
    + rewrite app_length.
      pose proof (proj2 (hf_writes_small fire skip control conn cf (abnf_of_wframe f))).
      match goal with |- context [length (replies_of _ _ _ ?c ?d _)] => specialize (IH rest c d) end. lia.
    + specialize (IH rest conn cf). lia.
  - assert (Hc : (length rest < length s)%nat) by (eapply decode_consumes; eauto).
    destruct (v f); cbn [replies_of].
    + rewrite app_length.
      pose proof (proj2 (hf_writes_small fire skip control conn cf (abnf_of_wframe f))).
      match goal with |- context [length (replies_of _ _ _ ?c ?d _)] => specialize (IH rest c d) end. lia.
    + specialize (IH rest conn cf). lia.
Qed.

Lemma zip_all_ok : forall rs ks, Forall reply_small rs ->
  map Ok (zip_replies rs ks) = map (fun rk => reply_bytes (fst rk) (snd rk)) (combine rs ks).
Proof.
  induction rs as [|r rs IH]; intros ks H; [reflexivity|]. inversion H as [|? ? H1 H2]; subst.
  destruct ks as [|k ks]; [reflexivity|]. cbn [zip_replies combine map fst snd].
  destruct (reply_ok r k H1) as [d Hd]. rewrite Hd. cbn [app map]. f_equal. apply IH. exact H2.
Qed.

Theorem ws_drain_writes : forall fire skip control l ks,
  script_ok l = true -> no_reset l = true -> bytes_ok (flatten l) -> keys_enough ks l ->
  let rs := replies_of fire skip control true cf_init
              (stream_results (code_verdict skip) (drain_fuel l) (flatten l)) in
  writes_of (all_io (snd (ws_drain (drain_fuel l) control (ws_init (mk_xport l) ks fire skip)))) =
    zip_replies rs ks /\
  (length rs <= length ks)%nat /\
  map Ok (zip_replies rs ks) = map (fun rk => reply_bytes (fst rk) (snd rk)) (combine rs ks).
Proof.
  intros fire skip control l ks Hs Hn Hb Hk rs. split; [|split].
  - exact (proj1 (proj2 (ws_drain_post fire skip control l ks Hs Hn Hb Hk))).
  - pose proof (replies_count fire skip control (code_verdict skip) (drain_fuel l) (flatten l) true cf_init).
    unfold keys_enough in Hk. fold rs in H. lia.
  - apply zip_all_ok. apply replies_small.
Qed.

(* (3) a reply is written before anything beyond its frame is read.  Replaying the final log
   against the script: at the moment of the i-th write the transport still holds exactly the
   bytes that follow the frame which triggered the i-th reply (reply_marks). *)
Theorem pong_before_next_read : forall fire skip control l ks,
  script_ok l = true -> no_reset l = true -> bytes_ok (flatten l) -> keys_enough ks l ->
  write_marks l (all_io (snd (ws_drain (drain_fuel l) control (ws_init (mk_xport l) ks fire skip)))) =
  reply_marks fire skip control true cf_init (drain_fuel l) (flatten l).
Proof.
  intros fire skip control l ks Hs Hn Hb Hk.
  exact (proj2 (proj2 (ws_drain_post fire skip control l ks Hs Hn Hb Hk))).
Qed.

(* reply_marks lists one mark per reply of replies_of, in the same order *)
Lemma reply_marks_length fire skip control : forall fuel s conn cf,
  length (reply_marks fire skip control conn cf fuel s) =
  length (replies_of fire skip control conn cf (stream_results (code_verdict skip) fuel s)).
Proof.
  induction fuel as [|k IH]; intros s conn cf; [reflexivity|].
  rewrite reply_marks_S, stream_results_S.
  destruct (next_frame (code_verdict skip) s) as [[[f|e] rest]|]; [| |reflexivity].
  - rewrite replies_of_ok, !app_length, repeat_length, IH. reflexivity.
  - cbn [replies_of]. apply IH.
Qed.

Lemma write_marks_count inb log : length (write_marks inb log) = length (writes_of log).
Proof.
  revert inb. induction log as [|e log IH]; intro inb; [reflexivity|].
  destruct e; cbn [write_marks writes_of flat_map app length]; rewrite ?IH; reflexivity.
Qed.

(* the same, read off a decomposition of the log: pre ++ [IWrite b] ++ post *)
Corollary pong_before_next_read_split : forall fire skip control l ks pre b post,
  script_ok l = true -> no_reset l = true -> bytes_ok (flatten l) -> keys_enough ks l ->
  all_io (snd (ws_drain (drain_fuel l) control (ws_init (mk_xport l) ks fire skip))) =
    pre ++ IWrite b :: post ->
  nth_error (reply_marks fire skip control true cf_init (drain_fuel l) (flatten l))
            (length (writes_of pre)) = Some (length (flatten (replay l pre))) /\
  nth_error (zip_replies (replies_of fire skip control true cf_init
                            (stream_results (code_verdict skip) (drain_fuel l) (flatten l))) ks)
            (length (writes_of pre)) = Some b.
Proof.
  intros fire skip control l ks pre b post Hs Hn Hb Hk E.
  pose proof (pong_before_next_read fire skip control l ks Hs Hn Hb Hk) as M.
  destruct (ws_drain_writes fire skip control l ks Hs Hn Hb Hk) as [W _].
  rewrite E in M, W. split.
  - rewrite <- M, write_marks_app. cbn [write_marks].
    rewrite nth_error_app2; rewrite write_marks_count; [|lia].
    rewrite Nat.sub_diag. reflexivity.
  - rewrite <- W, writes_of_app. cbn [writes_of flat_map app].
    rewrite nth_error_app2; [|lia]. rewrite Nat.sub_diag. reflexivity.
Qed.

Print Assumptions ws_drain_results.
Print Assumptions ws_drain_writes.
Print Assumptions reply_before_next_read_inv.
Print Assumptions pong_before_next_read.
Print Assumptions pong_before_next_read_split.
Print Assumptions reply_marks_length.
