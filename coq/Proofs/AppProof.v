(* C13, C14, C15: WebSocketApp.run_forever (Model/App.v): order of callbacks, on_close exactly once
   and last, close arguments, return value, resources, reconnection. *)
From Coq Require Import ZArith List Bool Lia ZifyBool.
From WS Require Import Base.Res Base.Bytes Base.GenPrelude Spec.Frame Spec.Utf8 Spec.Legal Spec.AppTrace
  Gen.GenUtils Gen.GenAbnf Gen.GenCore
  Model.Recv Model.Conn Model.App
  Proofs.BytesLemmas Proofs.Utf8Proof Proofs.RecvSpec Proofs.ConnSpec Proofs.ConnProof.
Import ListNotations.
Open Scope Z_scope.

(* ================================================================================== *)
(* 0. Vocabulary of the statements                                                     *)
(* ================================================================================== *)

Definition is_cb (e : tev) : bool :=
  match e with TConnect | TSockClosed | TCloseFrameSent => false | _ => true end.
Definition cbs_of (tr : list tev) : list tev := filter is_cb tr.
Definition cbs (s : appst) : list tev := cbs_of (trace s).

Definition is_close_ev (e : tev) : bool := match e with TClose _ _ => true | _ => false end.
Definition count_close (tr : list tev) : nat := length (filter is_close_ev tr).
Definition no_close_ev (tr : list tev) : Prop := Forall (fun e => is_close_ev e = false) tr.

Definition is_connect_ev (e : tev) : bool := match e with TConnect => true | _ => false end.
Definition count_connect (tr : list tev) : nat := length (filter is_connect_ev tr).

Definition plain (m : cbmode) : Prop := m = Absent \/ m = Ret.
Definition nice (m : cbmode) : Prop := m = Absent \/ m = Ret \/ m = RaiseExc.
Definition all_cb (P : cbmode -> Prop) (cfg : appcfg) : Prop :=
  P (on_open cfg) /\ P (on_reconnect cfg) /\ P (on_message cfg) /\ P (on_data cfg) /\
  P (on_error cfg) /\ P (on_close cfg) /\ P (on_ping cfg) /\ P (on_pong cfg).
Definition cfg_plain (cfg : appcfg) : Prop := all_cb plain cfg.
(* no callback calls close() or raises KeyboardInterrupt *)
Definition cfg_nice (cfg : appcfg) : Prop := all_cb nice cfg.

Lemma plain_nice m : plain m -> nice m.
Proof. unfold plain, nice. tauto. Qed.
Lemma cfg_plain_nice cfg : cfg_plain cfg -> cfg_nice cfg.
Proof. unfold cfg_plain, cfg_nice, all_cb. intuition (auto using plain_nice). Qed.

Definition ev_if (m : cbmode) (e : tev) : list tev := match m with Absent => [] | _ => [e] end.

(* what one call of a user callback adds to the trace when no callback closes or interrupts *)
Definition cb_evs (cfg : appcfg) (m : cbmode) (e : tev) : list tev :=
  match m with
  | Absent => []
  | RaiseExc => e :: ev_if (on_error cfg) (TError ECallback)
  | _ => [e]
  end.

(* ================================================================================== *)
(* 1. State plumbing                                                                   *)
(* ================================================================================== *)

Definition emits (s : appst) (l : list tev) : appst :=
  {| keep_running := keep_running s; has_sock := has_sock s; sock_connected := sock_connected s;
     sock_open := sock_open s; has_errored := has_errored s; torn_down := torn_down s; a_cf := a_cf s;
     trace := trace s ++ l |}.

Lemma emit_emits s e : emit s e = emits s [e].
Proof. reflexivity. Qed.
Lemma emits_nil s : emits s [] = s.
Proof. destruct s. unfold emits. cbn. now rewrite app_nil_r. Qed.
Lemma emits_emits s a b : emits (emits s a) b = emits s (a ++ b).
Proof. unfold emits. cbn. now rewrite app_assoc. Qed.

Lemma count_close_app a b : count_close (a ++ b) = (count_close a + count_close b)%nat.
Proof. unfold count_close. now rewrite filter_app, app_length. Qed.
Lemma count_close_cons e l : count_close (e :: l) = ((if is_close_ev e then 1 else 0) + count_close l)%nat.
Proof. unfold count_close. cbn [filter]. destruct (is_close_ev e); reflexivity. Qed.
Lemma count_close_nil : count_close [] = 0%nat.
Proof. reflexivity. Qed.
Lemma count_connect_app a b : count_connect (a ++ b) = (count_connect a + count_connect b)%nat.
Proof. unfold count_connect. now rewrite filter_app, app_length. Qed.
Lemma count_connect_cons e l : count_connect (e :: l) = ((if is_connect_ev e then 1 else 0) + count_connect l)%nat.
Proof. unfold count_connect. cbn [filter]. destruct (is_connect_ev e); reflexivity. Qed.
Lemma count_connect_nil : count_connect [] = 0%nat.
Proof. reflexivity. Qed.
Lemma cbs_of_app a b : cbs_of (a ++ b) = cbs_of a ++ cbs_of b.
Proof. apply filter_app. Qed.
Lemma cbs_of_cons e l : cbs_of (e :: l) = (if is_cb e then [e] else []) ++ cbs_of l.
Proof. unfold cbs_of. cbn [filter]. destruct (is_cb e); reflexivity. Qed.
Lemma cbs_of_nil : cbs_of [] = [].
Proof. reflexivity. Qed.
#[local] Hint Rewrite count_close_app count_close_cons count_close_nil
  count_connect_app count_connect_cons count_connect_nil cbs_of_app cbs_of_cons cbs_of_nil : tr.

Lemma count_close_zero tr : count_close tr = 0%nat <-> no_close_ev tr.
Proof.
  unfold no_close_ev. induction tr as [|e r IH]; [split; [constructor|reflexivity]|].
  rewrite count_close_cons. split.
  - intro H. destruct (is_close_ev e) eqn:E; [lia|]. constructor; [assumption|]. apply IH. lia.
  - intro H. inversion H; subst. rewrite H2. apply IH in H3. lia.
Qed.

Ltac ds s := destruct s as [?kr ?hs ?sc ?so ?he ?td ?cf ?tr].
Ltac proj := cbn [keep_running has_sock sock_connected sock_open has_errored torn_down a_cf trace
                  emit emits set_flags set_cf fst snd] in *.

(* ================================================================================== *)
(* 2. C14 (a) (b) (e): on_close exactly once, last, and nothing left behind            *)
(* ================================================================================== *)

(* number of on_close calls a teardown makes *)
Definition cn (cfg : appcfg) : nat := match on_close cfg with Absent => 0 | _ => 1 end.

Definition LiveI (s : appst) : Prop := torn_down s = false /\ count_close (trace s) = 0%nat.
(* teardown's own callback completes normally *)
Definition td_normal (cfg : appcfg) : Prop :=
  on_close cfg <> RaiseKbd /\ (on_close cfg = RaiseExc -> on_error cfg <> RaiseKbd).
(* what follows on_close when on_close itself raises: its error report *)
Definition close_tail (cfg : appcfg) : list tev :=
  match on_close cfg with RaiseExc => ev_if (on_error cfg) (TError ECallback) | _ => [] end.
Definition is_error_ev (e : tev) : bool := match e with TError _ => true | _ => false end.
(* after on_close, nothing but error reports *)
Definition AC (cfg : appcfg) (s : appst) : Prop :=
  exists pre c r post, cbs s = pre ++ ev_if (on_close cfg) (TClose c r) ++ close_tail cfg ++ post /\
                       forallb is_error_ev post = true.
Definition DeadI (cfg : appcfg) (s : appst) : Prop :=
  torn_down s = true /\ keep_running s = false /\ has_sock s = false /\ sock_open s = false /\
  sock_connected s = false /\ count_close (trace s) = cn cfg /\ AC cfg s.
Definition LastClose (cfg : appcfg) (s : appst) : Prop :=
  exists pre c r, cbs s = pre ++ ev_if (on_close cfg) (TClose c r) ++ close_tail cfg.

Definition Post (cfg : appcfg) (s : appst) : Prop :=
  LiveI s \/ (DeadI cfg s /\ (td_normal cfg -> LastClose cfg s)).

Definition sc_evs (s : appst) : list tev :=
  (if sock_connected s && sock_open s then [TCloseFrameSent] else []) ++ (if sock_open s then [TSockClosed] else []).

Lemma sock_close_spec s :
  sock_close s = set_flags (emits s (sc_evs s)) (keep_running s) (has_sock s) false false (has_errored s) (torn_down s).
Proof.
  ds s. unfold sock_close, sc_evs. proj.
  destruct sc, so; unfold set_flags, emit, emits; cbn; rewrite <- ?app_assoc, ?app_nil_r; reflexivity.
Qed.

Ltac tr_simp := autorewrite with tr in *; cbn [is_close_ev is_cb is_connect_ev app length] in *.

Lemma LiveI_emits s l : count_close l = 0%nat -> LiveI s -> LiveI (emits s l).
Proof. intros Hl [Ht Hc]. split; proj; [assumption|]. tr_simp. lia. Qed.

Lemma app_close_live s : LiveI s -> LiveI (app_close s).
Proof.
  intros [Ht Hc]. unfold app_close. proj. destruct (has_sock s); [|split; proj; assumption].
  rewrite sock_close_spec. proj. split; proj; [assumption|].
  tr_simp. unfold sc_evs. proj. destruct (sock_connected s && sock_open s), (sock_open s); tr_simp; lia.
Qed.

Lemma callback_live cfg m ev s fl s' :
  is_close_ev ev = false -> callback cfg m ev s = (fl, s') -> LiveI s -> LiveI s'.
Proof.
  intros Hev H HL. unfold callback in H.
  assert (E1 : LiveI (emit s ev)).
  { rewrite emit_emits. apply LiveI_emits; [|assumption]. tr_simp. now rewrite Hev. }
  assert (E2 : LiveI (emit (emit s ev) (TError ECallback))).
  { rewrite (emit_emits (emit s ev)). apply LiveI_emits; [reflexivity|assumption]. }
  destruct m; [| | destruct (on_error cfg) | |]; inversion H; subst; auto using app_close_live.
Qed.

Lemma report_error_live cfg e s fl s' : report_error cfg e s = (fl, s') -> LiveI s -> LiveI s'.
Proof.
  intros H HL. unfold report_error in H.
  assert (E1 : LiveI (emit s (TError e))) by (rewrite emit_emits; apply LiveI_emits; [reflexivity|assumption]).
  destruct (on_error cfg); inversion H; subst; auto using app_close_live.
Qed.

Lemma close_tail_cbs cfg : cbs_of (close_tail cfg) = close_tail cfg /\ count_close (close_tail cfg) = 0%nat.
Proof. unfold close_tail. destruct (on_close cfg), (on_error cfg); split; reflexivity. Qed.

(* teardown from a live state: the one place where on_close is called *)
Lemma teardown_live cfg fr s fl s' : teardown cfg fr s = (fl, s') -> LiveI s ->
  DeadI cfg s' /\ (td_normal cfg -> fl = Normal /\
     exists c r, cbs s' = cbs s ++ ev_if (on_close cfg) (TClose c r) ++ close_tail cfg).
Proof.
  intros H [Ht Hc]. unfold teardown in H. rewrite Ht in H. proj.
  destruct (close_args cfg fr) as [c r].
  set (s3 := set_flags _ false false false false _ true) in H.
  assert (T3 : exists l, trace s3 = trace s ++ l /\ cbs_of l = [] /\ count_close l = 0%nat).
  { subst s3. destruct (has_sock s).
    - rewrite sock_close_spec. proj. eexists. split; [reflexivity|].
      unfold sc_evs. proj. destruct (sock_connected s && sock_open s), (sock_open s); split; reflexivity.
    - proj. exists []. now rewrite app_nil_r. }
  destruct T3 as (l & Tl & Cl & Nl).
  assert (F3 : torn_down s3 = true /\ keep_running s3 = false /\ has_sock s3 = false /\ sock_open s3 = false /\
               sock_connected s3 = false) by (subst s3; proj; repeat split).
  clearbody s3. ds s3. proj. destruct F3 as (-> & -> & -> & -> & ->). subst.
  unfold DeadI, AC, td_normal, close_tail, cbs, cn. unfold callback, app_close in H.
  destruct (on_close cfg) eqn:Eoc; [| | destruct (on_error cfg) eqn:Eoe | |]; inversion H; subst; proj;
    tr_simp; rewrite ?Cl, ?app_nil_r;
    (split; [repeat split; try lia;
             exists (cbs_of (trace s)), c, r, []; cbn [ev_if app forallb]; rewrite ?app_nil_r, <- ?app_assoc; split; reflexivity|]);
    intros [N1 N2]; try congruence; try (specialize (N2 eq_refl); congruence);
    (split; [reflexivity|]); exists c, r; cbn [ev_if app]; rewrite ?app_nil_r, <- ?app_assoc; reflexivity.
Qed.

Lemma teardown_dead cfg fr s : torn_down s = true -> teardown cfg fr s = (Normal, s).
Proof. intro H. unfold teardown. now rewrite H. Qed.

Lemma DeadI_emit_err cfg s e : DeadI cfg s -> DeadI cfg (emit s (TError e)).
Proof.
  intros (H1 & H2 & H3 & H4 & H5 & H6 & (pre & c & r & post & E & F)).
  repeat split; proj; try assumption; [tr_simp; lia|].
  exists pre, c, r, (post ++ [TError e]). unfold cbs in *. proj. tr_simp. rewrite E, <- !app_assoc.
  split; [reflexivity|]. rewrite forallb_app, F. reflexivity.
Qed.

Lemma app_close_dead cfg s : DeadI cfg s -> DeadI cfg (app_close s).
Proof.
  intros (H1 & H2 & H3 & H4 & H5 & H6 & H7). unfold app_close. proj. rewrite H3. repeat split; proj; assumption.
Qed.

Lemma report_error_dead cfg e s fl s' : report_error cfg e s = (fl, s') -> DeadI cfg s -> DeadI cfg s'.
Proof.
  intros H HD. unfold report_error in H.
  assert (E1 : DeadI cfg (emit s (TError e))) by (apply DeadI_emit_err; assumption).
  destruct (on_error cfg); inversion H; subst; auto using app_close_dead.
Qed.

Lemma DeadI_errored cfg s b : DeadI cfg s ->
  DeadI cfg (set_flags s (keep_running s) (has_sock s) (sock_connected s) (sock_open s) b (torn_down s)).
Proof. intros (H1 & H2 & H3 & H4 & H5 & H6 & H7). repeat split; proj; assumption. Qed.
Lemma LiveI_errored s b : LiveI s ->
  LiveI (set_flags s (keep_running s) (has_sock s) (sock_connected s) (sock_open s) b (torn_down s)).
Proof. intros [H1 H2]. split; proj; assumption. Qed.

Lemma handle_disconnect_dead cfg e rc s fl s' :
  handle_disconnect cfg e rc s = (fl, s') -> DeadI cfg s -> DeadI cfg s'.
Proof.
  intros H HD. unfold handle_disconnect in H.
  set (s1 := set_flags _ _ _ _ _ true _) in H.
  assert (D1 : DeadI cfg s1) by (apply DeadI_errored; assumption). clearbody s1.
  destruct (if rc then (Normal, s1) else report_error cfg e s1) as [fl2 s2] eqn:E2.
  assert (D2 : DeadI cfg s2).
  { destruct rc; [inversion E2; subst; assumption | eapply report_error_dead; eauto]. }
  rewrite (teardown_dead cfg None s2 (proj1 D2)) in H.
  destruct fl2; [destruct e; try destruct (negb (reconnect cfg =? 0))|]; inversion H; subst; assumption.
Qed.

Lemma handle_disconnect_live cfg e rc s fl s' :
  handle_disconnect cfg e rc s = (fl, s') -> LiveI s -> Post cfg s'.
Proof.
  intros H HL. unfold handle_disconnect in H.
  set (s1 := set_flags _ _ _ _ _ true _) in H.
  assert (D1 : LiveI s1) by (apply LiveI_errored; assumption). clearbody s1.
  destruct (if rc then (Normal, s1) else report_error cfg e s1) as [fl2 s2] eqn:E2.
  assert (D2 : LiveI s2).
  { destruct rc; [inversion E2; subst; assumption | eapply report_error_live; eauto]. }
  destruct (teardown cfg None s2) as [fl3 s3] eqn:E3.
  destruct (teardown_live _ _ _ _ _ E3 D2) as [HD HT].
  assert (P3 : Post cfg s3).
  { right. split; [assumption|]. intro N. destruct (HT N) as (_ & c & r & Hc). exists (cbs s2), c, r. exact Hc. }
  destruct fl2; [destruct e; try destruct (negb (reconnect cfg =? 0))|]; inversion H; subst; auto;
    left; assumption.
Qed.

Definition Post2 (cfg : appcfg) (s : appst) (extra : Prop) : Prop :=
  LiveI s \/ (DeadI cfg s /\ (td_normal cfg -> LastClose cfg s /\ extra)).

Lemma Post2_Post cfg s X : Post2 cfg s X -> Post cfg s.
Proof. intros [H | [H1 H2]]; [now left | right; split; [assumption | intro N; apply (H2 N)]]. Qed.

Lemma deliver_post cfg op f s fl s' b : deliver cfg op f s = (fl, s', b) -> LiveI s ->
  Post2 cfg s' (fl = Normal /\ b = true).
Proof.
  intros H HL. unfold deliver in H.
  destruct (op =? OPCODE_CLOSE).
  { destruct (teardown cfg (Some f) s) as [fl1 s1] eqn:E. inversion H; subst.
    destruct (teardown_live _ _ _ _ _ E HL) as [HD HT]. right. split; [assumption|].
    intro N. destruct (HT N) as (-> & c & r & Hc). split; [|split; reflexivity]. exists (cbs s), c, r. exact Hc. }
  left.
  destruct (op =? OPCODE_PING).
  { destruct (callback cfg (on_ping cfg) _ s) as [fl1 s1] eqn:E. inversion H; subst.
    (eapply callback_live; [|eassumption|assumption]; reflexivity). }
  destruct (op =? OPCODE_PONG).
  { destruct (callback cfg (on_pong cfg) _ s) as [fl1 s1] eqn:E. inversion H; subst.
    (eapply callback_live; [|eassumption|assumption]; reflexivity). }
  destruct (callback cfg (on_data cfg) _ s) as [fl1 s1] eqn:E1.
  assert (L1 : LiveI s1) by (eapply callback_live; [|eassumption|assumption]; reflexivity).
  destruct fl1; [|inversion H; subst; assumption].
  destruct (callback cfg (on_message cfg) _ s1) as [fl2 s2] eqn:E2. inversion H; subst.
  (eapply callback_live; [|eassumption|assumption]; reflexivity).
Qed.

Lemma LiveI_flags s k h c o e : LiveI s -> LiveI (set_flags s k h c o e (torn_down s)).
Proof. intros [H1 H2]. split; proj; assumption. Qed.
Lemma LiveI_set_cf s c : LiveI s -> LiveI (set_cf s c).
Proof. intros [H1 H2]. split; proj; assumption. Qed.

Lemma dispatch_post cfg fuel : forall evs s le s',
  dispatch_fuel fuel cfg evs s = (le, s') -> LiveI s -> Post2 cfg s' (le = LoopDone).
Proof.
  induction fuel as [|fuel IH]; intros evs s le s' H HL; cbn [dispatch_fuel] in H.
  { inversion H; subst. now left. }
  destruct (negb (keep_running s)); [inversion H; subst; now left|].
  destruct evs as [|[f|e| |] r]; [inversion H; subst; now left| | | |].
  - (* frame *)
    set (st := handle_frame _ _ _ _ _ f) in H.
    set (s2 := if existsb _ (s_writes st) then _ else _) in H.
    assert (L2 : LiveI s2).
    { subst s2. destruct (existsb _ (s_writes st)).
      - apply (LiveI_flags (emit (set_cf s (s_cf st)) TCloseFrameSent)). rewrite emit_emits.
        apply LiveI_emits; [reflexivity|]. now apply LiveI_set_cf.
      - now apply LiveI_set_cf. }
    clearbody s2. destruct (s_out st) as [op f'| |e].
    + destruct (deliver cfg op f' s2) as [[fl s3] b] eqn:E.
      pose proof (deliver_post _ _ _ _ _ _ _ E L2) as P.
      destruct fl.
      * destruct b.
        { inversion H; subst. destruct P as [P | [P1 P2]]; [now left | right; split; [assumption|]].
          intro N. destruct (P2 N) as [Q _]. split; [assumption|reflexivity]. }
        { destruct P as [P | [P1 P2]]; [eapply IH; eauto|].
          (* a dead state with b = false only arises when teardown's callback is not normal; the loop
             then stops at once *)
          destruct fuel; cbn [dispatch_fuel] in H.
          - inversion H; subst. right. split; [assumption|]. intro N. destruct (P2 N) as (_ & _ & ?). discriminate.
          - pose proof P1 as (_ & K & _). rewrite K in H. cbn [negb] in H. inversion H; subst.
            right. split; [assumption|]. intro N. destruct (P2 N) as (_ & _ & ?). discriminate. }
      * inversion H; subst. destruct P as [P | [P1 P2]]; [now left | right; split; [assumption|]].
        intro N. destruct (P2 N) as (_ & ? & _). discriminate.
    + eapply IH; eauto.
    + inversion H; subst. now left.
  - (* receive error *)
    inversion H; subst. left. destruct e; try assumption.
    apply (LiveI_flags (if sock_open s then emit s TSockClosed else s)).
    destruct (sock_open s); [rewrite emit_emits; apply LiveI_emits; [reflexivity|assumption] | assumption].
  - inversion H; subst. now left.
  - eapply IH; [eassumption|]. now apply app_close_live.
Qed.

Lemma hd_after_loop cfg e rc s4 fl s' le : le <> LoopDone ->
  handle_disconnect cfg e rc s4 = (fl, s') -> Post2 cfg s4 (le = LoopDone) -> Post cfg s'.
Proof.
  intros Hle H [P | [P1 P2]]; [eapply handle_disconnect_live; eauto|].
  right. split; [eapply handle_disconnect_dead; eauto|]. intro N. destruct (P2 N) as [_ ?]. contradiction.
Qed.

Lemma set_sock_post cfg a rc s fl s' : set_sock cfg a rc s = (fl, s') -> LiveI s -> Post cfg s'.
Proof.
  intros H HL. unfold set_sock in H.
  set (s0 := if rc && has_sock s && sock_open s then _ else s) in H.
  assert (L0 : LiveI s0).
  { subst s0. destruct (rc && has_sock s && sock_open s); [|assumption].
    apply (LiveI_flags (emit s TSockClosed)). rewrite emit_emits. now apply LiveI_emits. }
  clearbody s0.
  set (s1 := emit _ TConnect) in H.
  assert (L1 : LiveI s1).
  { subst s1. rewrite emit_emits. apply LiveI_emits; [reflexivity|]. now apply LiveI_flags. }
  clearbody s1.
  destruct a as [|st|evs]; [eapply handle_disconnect_live; eauto | eapply handle_disconnect_live; eauto|].
  set (s2 := set_cf _ cf_init) in H.
  assert (L2 : LiveI s2) by (subst s2; apply LiveI_set_cf; now apply LiveI_flags).
  clearbody s2.
  destruct (if rc && negb _ then _ else _) as [fl3 s3] eqn:E3.
  assert (L3 : LiveI s3).
  { destruct (rc && negb _); (eapply callback_live; [|eassumption|assumption]; reflexivity). }
  destruct fl3; [|eapply handle_disconnect_live; eauto].
  destruct (negb (has_sock s3)); [inversion H; subst; now left|].
  destruct (dispatch_loop cfg evs s3) as [le s4] eqn:E4.
  pose proof (dispatch_post _ _ _ _ _ _ E4 L3) as P4.
  destruct le.
  - inversion H; subst. eapply Post2_Post; eauto.
  - eapply hd_after_loop; [|eassumption|eassumption]. discriminate.
  - eapply hd_after_loop; [|eassumption|eassumption]. discriminate.
Qed.

Lemma attempts_post cfg env : forall rc s fl s',
  attempts_loop cfg env rc s = (fl, s') -> LiveI s -> Post cfg s'.
Proof.
  induction env as [|a rest IH]; intros rc s fl s' H HL; cbn [attempts_loop] in H.
  { inversion H; subst. now left. }
  destruct (set_sock cfg a rc s) as [fl1 s1] eqn:E1.
  pose proof (set_sock_post _ _ _ _ _ _ E1 HL) as P1.
  destruct fl1; [|inversion H; subst; assumption].
  destruct (negb (reconnect cfg =? 0) && keep_running s1) eqn:C; [|inversion H; subst; assumption].
  destruct P1 as [P1 | [(_ & K & _) _]]; [eapply IH; eauto|].
  rewrite K, andb_false_r in C. discriminate.
Qed.

Lemma LiveI_init : LiveI st_init.
Proof. split; reflexivity. Qed.

(* the final state of every run *)
Lemma run_final cfg env :
  let s := snd (run_forever cfg env) in DeadI cfg s /\ (td_normal cfg -> LastClose cfg s).
Proof.
  unfold run_forever.
  destruct (attempts_loop cfg env false st_init) as [fl1 s1] eqn:E1.
  pose proof (attempts_post _ _ _ _ _ _ E1 LiveI_init) as P1.
  destruct (teardown cfg None s1) as [fl2 s2] eqn:E2. cbn [snd].
  destruct P1 as [P1 | [P1 P2]].
  - destruct (teardown_live _ _ _ _ _ E2 P1) as [HD HT]. split; [assumption|].
    intro N. destruct (HT N) as (_ & c & r & Hc). exists (cbs s1), c, r. exact Hc.
  - rewrite (teardown_dead _ _ _ (proj1 P1)) in E2. inversion E2; subst. split; assumption.
Qed.

Theorem C14_close_once : forall cfg env, on_close cfg <> Absent ->
  count_close (trace (snd (run_forever cfg env))) = 1%nat.
Proof.
  intros cfg env H. destruct (run_final cfg env) as [(_ & _ & _ & _ & _ & C & _) _].
  rewrite C. unfold cn. destruct (on_close cfg); congruence.
Qed.

(* without an on_close callback there is no TClose event at all *)
Theorem C14_close_absent : forall cfg env, on_close cfg = Absent ->
  count_close (trace (snd (run_forever cfg env))) = 0%nat.
Proof.
  intros cfg env H. destruct (run_final cfg env) as [(_ & _ & _ & _ & _ & C & _) _].
  rewrite C. unfold cn. now rewrite H.
Qed.

Theorem C14_clean : forall cfg env, let s := snd (run_forever cfg env) in
  has_sock s = false /\ sock_open s = false /\ keep_running s = false /\ torn_down s = true.
Proof.
  intros cfg env. destruct (run_final cfg env) as [(H1 & H2 & H3 & H4 & H5 & _ & _) _]. cbv zeta. tauto.
Qed.

Lemma count_close_cbs tr : count_close (cbs_of tr) = count_close tr.
Proof.
  induction tr as [|e r IH]; [reflexivity|]. rewrite cbs_of_cons, count_close_app, count_close_cons, IH.
  destruct e; reflexivity.
Qed.

(* on_close is the last callback, except that when on_close itself raises, its error report follows *)
Theorem C14_close_last_gen : forall cfg env, on_close cfg <> Absent -> td_normal cfg ->
  exists pre c r, cbs (snd (run_forever cfg env)) = pre ++ [TClose c r] ++ close_tail cfg /\ no_close_ev pre.
Proof.
  intros cfg env H N. destruct (run_final cfg env) as [(_ & _ & _ & _ & _ & C & _) L].
  destruct (L N) as (pre & c & r & E). exists pre, c, r.
  assert (Ev : ev_if (on_close cfg) (TClose c r) = [TClose c r]) by (destruct (on_close cfg); [congruence|reflexivity..]).
  rewrite Ev in E. split; [exact E|].
  apply count_close_zero. rewrite <- count_close_cbs in C. fold (cbs (snd (run_forever cfg env))) in C.
  rewrite E in C. unfold cn in C. destruct (close_tail_cbs cfg) as [_ T].
  rewrite !count_close_app, T in C. cbn in C. destruct (on_close cfg); try congruence; lia.
Qed.

Theorem C14_close_last : forall cfg env, on_close cfg = Ret ->
  exists pre c r, cbs (snd (run_forever cfg env)) = pre ++ [TClose c r] /\ no_close_ev pre.
Proof.
  intros cfg env H.
  destruct (C14_close_last_gen cfg env) as (pre & c & r & E & P).
  - congruence.
  - split; congruence.
  - exists pre, c, r. unfold close_tail in E. rewrite H in E. now rewrite app_nil_r in E.
Qed.

Theorem C14_close_last_raising : forall cfg env, on_close cfg = RaiseExc -> on_error cfg <> RaiseKbd ->
  exists pre c r, cbs (snd (run_forever cfg env)) = pre ++ [TClose c r] ++ ev_if (on_error cfg) (TError ECallback)
                  /\ no_close_ev pre.
Proof.
  intros cfg env H He.
  destruct (C14_close_last_gen cfg env) as (pre & c & r & E & P).
  - congruence.
  - split; congruence.
  - exists pre, c, r. unfold close_tail in E. rewrite H in E. now split.
Qed.

Theorem C14_close_last_callclose : forall cfg env, on_close cfg = CallClose ->
  exists pre c r, cbs (snd (run_forever cfg env)) = pre ++ [TClose c r] /\ no_close_ev pre.
Proof.
  intros cfg env H.
  destruct (C14_close_last_gen cfg env) as (pre & c & r & E & P).
  - congruence.
  - split; congruence.
  - exists pre, c, r. unfold close_tail in E. rewrite H in E. now rewrite app_nil_r in E.
Qed.

(* a run in which on_close raises KeyboardInterrupt: the interrupt is then reported to on_error AFTER on_close *)
Definition close_frame (body : bytes) : abnf :=
  {| a_fin := 1; a_rsv1 := 0; a_rsv2 := 0; a_rsv3 := 0; a_opcode := 8; a_mask := 0; a_data := body |}.
Definition cfg_all (m : cbmode) (rc : Z) (skip : bool) : appcfg :=
  {| on_open := m; on_reconnect := m; on_message := m; on_data := m; on_error := m; on_close := m;
     on_ping := m; on_pong := m; reconnect := rc; app_skip_utf8 := skip |}.
Definition with_on_close (cfg : appcfg) (m : cbmode) : appcfg :=
  {| on_open := on_open cfg; on_reconnect := on_reconnect cfg; on_message := on_message cfg;
     on_data := on_data cfg; on_error := on_error cfg; on_close := m; on_ping := on_ping cfg;
     on_pong := on_pong cfg; reconnect := reconnect cfg; app_skip_utf8 := app_skip_utf8 cfg |}.

Lemma C14_close_last_interrupt_example :
  cbs (snd (run_forever (with_on_close (cfg_all Ret 0 false) RaiseKbd) [Established [AFrame (close_frame [])]]))
  = [TOpen; TClose None None; TError EKbd].
Proof. reflexivity. Qed.

(* ================================================================================== *)
(* 3. C14 (d): the return value and the error reports                                  *)
(* ================================================================================== *)

Definition quiet_err (e : tev) : Prop := match e with TError x => x = ECallback | _ => True end.
Definition noerr (l : list tev) : Prop := Forall quiet_err l.

(* s' comes from s by code that neither sets has_errored nor reports a connection-level error *)
Definition Q (s s' : appst) : Prop :=
  has_errored s' = has_errored s /\
  exists l, trace s' = trace s ++ l /\ (has_errored s = false -> noerr l).

Lemma Q_refl s : Q s s.
Proof. split; [reflexivity|]. exists []. split; [now rewrite app_nil_r | constructor]. Qed.
Lemma Q_trans a b c : Q a b -> Q b c -> Q a c.
Proof.
  intros [E1 (l1 & T1 & N1)] [E2 (l2 & T2 & N2)]. split; [congruence|].
  exists (l1 ++ l2). split; [rewrite T2, T1; now rewrite app_assoc|].
  intro H. apply Forall_app. split; [apply N1; assumption | apply N2; congruence].
Qed.
Lemma Q_emits s l : (has_errored s = false -> noerr l) -> Q s (emits s l).
Proof. intro H. split; [reflexivity|]. exists l. split; [reflexivity|assumption]. Qed.
Lemma Q_flags s k h c o t : Q s (set_flags s k h c o (has_errored s) t).
Proof. split; [reflexivity|]. exists []. split; [proj; now rewrite app_nil_r | constructor]. Qed.
Lemma Q_set_cf s c : Q s (set_cf s c).
Proof. split; [reflexivity|]. exists []. split; [proj; now rewrite app_nil_r | constructor]. Qed.

Lemma noerr_sc_evs s : noerr (sc_evs s).
Proof.
  unfold sc_evs, noerr. destruct (sock_connected s && sock_open s), (sock_open s); repeat constructor.
Qed.

Lemma Q_sock_close s : Q s (sock_close s).
Proof.
  rewrite sock_close_spec. eapply Q_trans; [apply (Q_emits s (sc_evs s)); intros _; apply noerr_sc_evs|].
  apply (Q_flags (emits s (sc_evs s))).
Qed.

Lemma Q_app_close s : Q s (app_close s).
Proof.
  unfold app_close. proj. destruct (has_sock s); [|apply Q_flags].
  eapply Q_trans; [apply Q_flags|]. eapply Q_trans; [apply Q_sock_close|]. apply Q_flags.
Qed.

Lemma Q_emit s e : quiet_err e -> Q s (emit s e).
Proof. intro H. rewrite emit_emits. apply Q_emits. intros _. repeat constructor. exact H. Qed.

Lemma Q_callback cfg m ev s fl s' : quiet_err ev -> callback cfg m ev s = (fl, s') -> Q s s'.
Proof.
  intros Hev H. unfold callback in H.
  assert (E1 : Q s (emit s ev)) by now apply Q_emit.
  assert (E2 : Q s (emit (emit s ev) (TError ECallback))) by (eapply Q_trans; [eassumption | now apply Q_emit]).
  destruct m; [| | destruct (on_error cfg) | |]; inversion H; subst; auto using Q_refl.
  eapply Q_trans; [exact E1|apply Q_app_close].
Qed.

Lemma Q_teardown cfg fr s fl s' : teardown cfg fr s = (fl, s') -> Q s s'.
Proof.
  intro H. unfold teardown in H. destruct (torn_down s); [inversion H; subst; apply Q_refl|].
  destruct (close_args cfg fr) as [c r].
  set (s1 := set_flags s false _ _ _ _ true) in H.
  assert (Q1 : Q s s1) by apply Q_flags.
  set (s2 := if has_sock s1 then sock_close s1 else s1) in H.
  assert (Q2 : Q s1 s2) by (subst s2; destruct (has_sock s1); [apply Q_sock_close | apply Q_refl]).
  set (s3 := set_flags s2 false false false false _ true) in H.
  assert (Q3 : Q s2 s3) by apply Q_flags.
  eapply Q_trans; [exact Q1|]. eapply Q_trans; [exact Q2|]. eapply Q_trans; [exact Q3|].
  eapply Q_callback; [|eassumption]. exact I.
Qed.

Lemma Q_deliver cfg op f s fl s' b : deliver cfg op f s = (fl, s', b) -> Q s s'.
Proof.
  intro H. unfold deliver in H.
  destruct (op =? OPCODE_CLOSE).
  { destruct (teardown cfg (Some f) s) as [fl1 s1] eqn:E. inversion H; subst. eapply Q_teardown; eauto. }
  destruct (op =? OPCODE_PING).
  { destruct (callback cfg (on_ping cfg) _ s) as [fl1 s1] eqn:E. inversion H; subst.
    eapply Q_callback; [|eassumption]. exact I. }
  destruct (op =? OPCODE_PONG).
  { destruct (callback cfg (on_pong cfg) _ s) as [fl1 s1] eqn:E. inversion H; subst.
    eapply Q_callback; [|eassumption]. exact I. }
  destruct (callback cfg (on_data cfg) _ s) as [fl1 s1] eqn:E1.
  assert (L1 : Q s s1) by (eapply Q_callback; [|eassumption]; exact I).
  destruct fl1; [|inversion H; subst; assumption].
  destruct (callback cfg (on_message cfg) _ s1) as [fl2 s2] eqn:E2. inversion H; subst.
  eapply Q_trans; [eassumption|]. eapply Q_callback; [|eassumption]. exact I.
Qed.

Lemma Q_dispatch cfg fuel : forall evs s le s', dispatch_fuel fuel cfg evs s = (le, s') -> Q s s'.
Proof.
  induction fuel as [|fuel IH]; intros evs s le s' H; cbn [dispatch_fuel] in H.
  { inversion H; subst. apply Q_refl. }
  destruct (negb (keep_running s)); [inversion H; subst; apply Q_refl|].
  destruct evs as [|[f|e| |] r]; [inversion H; subst; apply Q_refl| | | |].
  - set (st := handle_frame _ _ _ _ _ f) in H.
    set (s2 := if existsb _ (s_writes st) then _ else _) in H.
    assert (L2 : Q s s2).
    { subst s2. destruct (existsb _ (s_writes st)); [|apply Q_set_cf].
      eapply Q_trans; [apply (Q_set_cf s (s_cf st))|].
      eapply Q_trans; [apply (Q_emit (set_cf s (s_cf st)) TCloseFrameSent I)|].
      apply (Q_flags (emit (set_cf s (s_cf st)) TCloseFrameSent)). }
    clearbody s2. destruct (s_out st) as [op f'| |e].
    + destruct (deliver cfg op f' s2) as [[fl s3] b] eqn:E.
      pose proof (Q_deliver _ _ _ _ _ _ _ E) as P.
      destruct fl; [destruct b|]; try (inversion H; subst; eapply Q_trans; eassumption).
      eapply Q_trans; [eassumption|]. eapply Q_trans; [eassumption|]. eapply IH; eauto.
    + eapply Q_trans; [eassumption|]. eapply IH; eauto.
    + inversion H; subst. assumption.
  - inversion H; subst. destruct e; try apply Q_refl.
    destruct (sock_open s).
    + eapply Q_trans; [apply (Q_emit s TSockClosed I)|]. apply (Q_flags (emit s TSockClosed)).
    + apply Q_flags.
  - inversion H; subst. apply Q_refl.
  - eapply Q_trans; [apply Q_app_close|]. eapply IH; eauto.
Qed.

(* has_errored is set in handleDisconnect only, and stays set *)
Definition Ext (s s' : appst) : Prop := exists l, trace s' = trace s ++ l.
Lemma Q_Ext s s' : Q s s' -> Ext s s'.
Proof. intros [_ (l & T & _)]. now exists l. Qed.
Lemma Ext_trans a b c : Ext a b -> Ext b c -> Ext a c.
Proof. intros [l1 T1] [l2 T2]. exists (l1 ++ l2). rewrite T2, T1. now rewrite app_assoc. Qed.
Lemma Ext_in s s' e : Ext s s' -> In e (trace s) -> In e (trace s').
Proof. intros [l T] H. rewrite T. apply in_or_app. now left. Qed.

Lemma handle_disconnect_err cfg e rc s fl s' : handle_disconnect cfg e rc s = (fl, s') ->
  has_errored s' = true /\ Ext s s' /\ (rc = false -> on_error cfg = Ret -> In (TError e) (trace s')).
Proof.
  intro H. unfold handle_disconnect in H.
  set (s1 := set_flags _ _ _ _ _ true _) in H.
  assert (X1 : has_errored s1 = true /\ trace s1 = trace s) by (subst s1; proj; split; reflexivity).
  clearbody s1. destruct X1 as [He1 T1].
  destruct (if rc then (Normal, s1) else report_error cfg e s1) as [fl2 s2] eqn:E2.
  assert (X2 : has_errored s2 = true /\ Ext s s2 /\ (rc = false -> on_error cfg = Ret -> In (TError e) (trace s2))).
  { destruct rc.
    - inversion E2; subst. split; [assumption|]. split; [exists []; rewrite T1; now rewrite app_nil_r | discriminate].
    - unfold report_error in E2.
      assert (Ee : Ext s (emit s1 (TError e))) by (exists [TError e]; proj; now rewrite T1).
      assert (Ie : In (TError e) (trace (emit s1 (TError e)))) by (proj; apply in_or_app; right; now left).
      destruct (on_error cfg) eqn:Eoe; inversion E2; subst; proj;
        try (split; [assumption|]; split; [assumption|intros; (congruence || assumption)]).
      + split; [assumption|]. split; [exists []; rewrite T1; now rewrite app_nil_r | congruence].
      + destruct (Q_app_close (emit s1 (TError e))) as [Qe Ql]. proj.
        split; [congruence|]. split; [eapply Ext_trans; [eassumption | apply Q_Ext; now split]|congruence]. }
  clear E2. destruct X2 as (He2 & Ex2 & In2).
  destruct (teardown cfg None s2) as [fl3 s3] eqn:E3.
  pose proof (Q_teardown _ _ _ _ _ E3) as Q3. destruct Q3 as [Qe Ql].
  assert (X3 : has_errored s3 = true /\ Ext s s3 /\ (rc = false -> on_error cfg = Ret -> In (TError e) (trace s3))).
  { split; [congruence|]. assert (Ext s2 s3) by (apply Q_Ext; now split).
    split; [eapply Ext_trans; eassumption | intros; eapply Ext_in; eauto]. }
  destruct fl2; [destruct e; try destruct (negb (reconnect cfg =? 0))|]; inversion H; subst; auto.
Qed.

Definition Reported (tr : list tev) : Prop := exists e, e <> ECallback /\ In (TError e) tr.
Definition ErrI (s : appst) : Prop := has_errored s = true -> Reported (trace s).
Definition RepI (s : appst) : Prop := has_errored s = false -> noerr (trace s).

Lemma Q_ErrI s s' : Q s s' -> ErrI s -> ErrI s'.
Proof.
  intros HQ HE H'. pose proof HQ as [Ee _]. rewrite Ee in H'. destruct (HE H') as (e & Ne & Ie).
  exists e. split; [assumption|]. eapply Ext_in; [apply Q_Ext|]; eassumption.
Qed.
Lemma Q_RepI s s' : Q s s' -> RepI s -> RepI s'.
Proof.
  intros [Ee (l & T & N)] HR H'. rewrite Ee in H'. rewrite T. apply Forall_app. split; [apply HR | apply N]; assumption.
Qed.

Lemma hd_ErrI cfg e rc s fl s' : handle_disconnect cfg e rc s = (fl, s') ->
  on_error cfg = Ret -> e <> ECallback -> ErrI s -> (rc = true -> has_errored s = true) -> ErrI s'.
Proof.
  intros H Hoe Ne HE Hrc _. destruct (handle_disconnect_err _ _ _ _ _ _ H) as (_ & Ex & Hin).
  destruct rc.
  - destruct (HE (Hrc eq_refl)) as (x & Nx & Ix). exists x. split; [assumption|]. eapply Ext_in; eauto.
  - exists e. split; [assumption|]. now apply Hin.
Qed.

Lemma hd_RepI cfg e rc s fl s' : handle_disconnect cfg e rc s = (fl, s') -> RepI s'.
Proof.
  intros H H'. destruct (handle_disconnect_err _ _ _ _ _ _ H) as (E & _). congruence.
Qed.

Lemma app_close_keep s : keep_running (app_close s) = false.
Proof. unfold app_close. proj. destruct (has_sock s); reflexivity. Qed.

(* a callback leaves app.sock alone unless it closes the app *)
Lemma callback_sock cfg m ev s fl s' : callback cfg m ev s = (fl, s') ->
  has_sock s' = has_sock s \/ keep_running s' = false.
Proof.
  intro H. unfold callback in H.
  destruct m; [| | destruct (on_error cfg) | |]; inversion H; subst; proj; auto using app_close_keep.
Qed.

Lemma deliver_true cfg op f s fl s' : deliver cfg op f s = (fl, s', true) -> LiveI s -> DeadI cfg s'.
Proof.
  intros H HL. unfold deliver in H.
  destruct (op =? OPCODE_CLOSE).
  { destruct (teardown cfg (Some f) s) as [fl1 s1] eqn:E. inversion H; subst.
    apply (teardown_live _ _ _ _ _ E HL). }
  destruct (op =? OPCODE_PING); [destruct (callback cfg (on_ping cfg) _ s); discriminate|].
  destruct (op =? OPCODE_PONG); [destruct (callback cfg (on_pong cfg) _ s); discriminate|].
  destruct (callback cfg (on_data cfg) _ s) as [[|] s1]; [|discriminate].
  destruct (callback cfg (on_message cfg) _ s1); discriminate.
Qed.

Lemma dispatch_stopped cfg fuel evs s : keep_running s = false -> dispatch_fuel fuel cfg evs s = (LoopDone, s).
Proof. intro H. destruct fuel; cbn [dispatch_fuel]; [reflexivity|]. now rewrite H. Qed.

Lemma dispatch_exn cfg fuel : forall evs s e s', dispatch_fuel fuel cfg evs s = (LoopExn e, s') -> exists x, e = EExn x.
Proof.
  induction fuel as [|fuel IH]; intros evs s e s' H; cbn [dispatch_fuel] in H; [discriminate|].
  destruct (negb (keep_running s)); [discriminate|].
  destruct evs as [|[f|x| |] r]; [discriminate| | | |].
  - destruct (s_out (handle_frame _ _ _ _ _ f)) as [op f'| |x].
    + destruct (deliver cfg op f' _) as [[[|] s3] [|]]; try discriminate. eapply IH; eauto.
    + eapply IH; eauto.
    + inversion H; subst. eauto.
  - inversion H; subst. eauto.
  - inversion H; subst. eauto.
  - eapply IH; eauto.
Qed.

(* events after which the dispatcher loop cannot go on silently *)
Definition ends_loop (e : aev) : bool :=
  match e with AFrame f => a_opcode f =? 8 | _ => true end.
(* the script of every established connection says how the connection ends (no "silence forever") *)
Definition no_silence (env : list attempt) : Prop :=
  forall evs, In (Established evs) env -> existsb ends_loop evs = true.

Lemma dispatch_done cfg fuel : forall evs s s', (length evs < fuel)%nat -> existsb ends_loop evs = true ->
  LiveI s -> dispatch_fuel fuel cfg evs s = (LoopDone, s') -> keep_running s' = false.
Proof.
  induction fuel as [|fuel IH]; intros evs s s' Hf He HL H; [lia|]. cbn [dispatch_fuel] in H.
  destruct (keep_running s) eqn:K; cbn [negb] in H; [|inversion H; subst; assumption].
  destruct evs as [|[f|x| |] r]; [discriminate| | | |]; try discriminate.
  - cbn [existsb ends_loop length] in He, Hf.
    set (st := handle_frame _ _ _ _ _ f) in H.
    set (s2 := if existsb _ (s_writes st) then _ else _) in H.
    assert (L2 : LiveI s2).
    { subst s2. destruct (existsb _ (s_writes st)).
      - apply (LiveI_flags (emit (set_cf s (s_cf st)) TCloseFrameSent)). rewrite emit_emits.
        apply LiveI_emits; [reflexivity|]. now apply LiveI_set_cf.
      - now apply LiveI_set_cf. }
    clearbody s2.
    destruct (a_opcode f =? 8) eqn:E8.
    + (* the close frame *)
      assert (Es : s_out st = Return 8 f) by (subst st; rewrite hf_close by lia; reflexivity).
      rewrite Es in H. unfold deliver in H. rewrite OPCODE_CLOSE_eq in H. cbn [Z.eqb Pos.eqb] in H.
      destruct (teardown cfg (Some f) s2) as [fl1 s1] eqn:E.
      destruct (teardown_live _ _ _ _ _ E L2) as [(_ & K1 & _) _].
      destruct fl1; inversion H; subst; assumption.
    + cbn [orb] in He. destruct (s_out st) as [op f'| |x]; [| eapply (IH r); eauto; lia | discriminate].
      destruct (deliver cfg op f' s2) as [[fl s3] b] eqn:E.
      destruct fl; [|discriminate]. destruct b.
      * inversion H; subst. apply (deliver_true _ _ _ _ _ _ E L2).
      * destruct (deliver_post _ _ _ _ _ _ _ E L2) as [P | [(_ & K3 & _) _]]; [eapply (IH r); eauto; lia|].
        rewrite dispatch_stopped in H by assumption. inversion H; subst; assumption.
  - rewrite dispatch_stopped in H by apply app_close_keep. inversion H; subst. apply app_close_keep.
Qed.

Definition ends_ok (a : attempt) : Prop :=
  match a with Established evs => existsb ends_loop evs = true | _ => True end.

Lemma set_sock_err cfg a rc s fl s' : set_sock cfg a rc s = (fl, s') ->
  LiveI s -> (rc = true -> has_errored s = true) -> ends_ok a ->
  (on_error cfg = Ret -> ErrI s -> ErrI s') /\ (RepI s -> RepI s') /\
  (fl = Normal -> keep_running s' = true -> has_errored s' = true).
Proof.
  intros H HL Hrc Hends. unfold set_sock in H.
  set (s0 := if rc && has_sock s && sock_open s then _ else s) in H.
  assert (L0 : LiveI s0 /\ Q s s0).
  { subst s0. destruct (rc && has_sock s && sock_open s); [|split; [assumption|apply Q_refl]]. split.
    - apply (LiveI_flags (emit s TSockClosed)). rewrite emit_emits. now apply LiveI_emits.
    - eapply Q_trans; [apply (Q_emit s TSockClosed I)|]. apply (Q_flags (emit s TSockClosed)). }
  clearbody s0. destruct L0 as [L0 Q0].
  set (s1 := emit _ TConnect) in H.
  assert (L1 : LiveI s1 /\ Q s0 s1).
  { subst s1. split.
    - rewrite emit_emits. apply LiveI_emits; [reflexivity|]. now apply LiveI_flags.
    - eapply Q_trans; [apply (Q_flags s0 (keep_running s0) true false false (torn_down s0))|]. apply Q_emit. exact I. }
  clearbody s1. destruct L1 as [L1 Q1].
  assert (Q01 : Q s s1) by (eapply Q_trans; eassumption).
  assert (Hrc1 : rc = true -> has_errored s1 = true) by (intro; destruct Q01 as [-> _]; auto).
  assert (HD : forall e s4, e <> ECallback -> Q s s4 -> handle_disconnect cfg e rc s4 = (fl, s') ->
     (on_error cfg = Ret -> ErrI s -> ErrI s') /\ (RepI s -> RepI s') /\
     (fl = Normal -> keep_running s' = true -> has_errored s' = true)).
  { intros e s4 Ne Q4 H4. split; [|split].
    - intros Hoe HE. eapply hd_ErrI; try eassumption; [eapply Q_ErrI; eassumption|].
      intro R. destruct Q4 as [-> _]. auto.
    - intros _. eapply hd_RepI; eauto.
    - intros _ _. apply (handle_disconnect_err _ _ _ _ _ _ H4). }
  destruct a as [|st|evs]; [eapply HD; eauto; discriminate | eapply HD; eauto; discriminate|].
  set (s2 := set_cf _ cf_init) in H.
  assert (L2 : LiveI s2 /\ Q s1 s2 /\ has_sock s2 = true).
  { subst s2. split; [apply LiveI_set_cf; now apply LiveI_flags|]. split; [|reflexivity].
    eapply Q_trans; [apply (Q_flags s1 (keep_running s1) true true true (torn_down s1))|]. apply Q_set_cf. }
  clearbody s2. destruct L2 as (L2 & Q2 & Hs2).
  destruct (if rc && negb _ then _ else _) as [fl3 s3] eqn:E3.
  assert (L3 : LiveI s3 /\ Q s2 s3 /\ (has_sock s3 = true \/ keep_running s3 = false)).
  { destruct (rc && negb _).
    - split; [eapply callback_live; [|eassumption|assumption]; reflexivity|].
      split; [eapply Q_callback; [|eassumption]; exact I|].
      destruct (callback_sock _ _ _ _ _ _ E3); [left; congruence | now right].
    - split; [eapply callback_live; [|eassumption|assumption]; reflexivity|].
      split; [eapply Q_callback; [|eassumption]; exact I|].
      destruct (callback_sock _ _ _ _ _ _ E3); [left; congruence | now right]. }
  destruct L3 as (L3 & Q3 & Hs3).
  assert (Q03 : Q s s3) by (eapply Q_trans; [eassumption|]; eapply Q_trans; eassumption).
  destruct fl3; [|eapply HD; eauto; discriminate].
  destruct (has_sock s3) eqn:Hh; cbn [negb] in H.
  2:{ inversion H; subst.
      split; [intros _ HE; exact (Q_ErrI _ _ Q03 HE) | split; [intro HR; exact (Q_RepI _ _ Q03 HR)|]].
      intros _ K. destruct Hs3; congruence. }
  destruct (dispatch_loop cfg evs s3) as [le s4] eqn:E4. unfold dispatch_loop in E4.
  pose proof (Q_dispatch _ _ _ _ _ _ E4) as Q4.
  assert (Q04 : Q s s4) by (eapply Q_trans; eassumption).
  destruct le.
  - inversion H; subst.
    split; [intros _ HE; exact (Q_ErrI _ _ Q04 HE) | split; [intro HR; exact (Q_RepI _ _ Q04 HR)|]].
    intros _ K. rewrite (dispatch_done _ _ _ _ _ (Nat.lt_succ_diag_r _) Hends L3 E4) in K. discriminate.
  - destruct (dispatch_exn _ _ _ _ _ _ E4) as [x ->]. eapply HD; eauto. discriminate.
  - eapply HD; eauto. discriminate.
Qed.

Lemma attempts_err cfg env : forall rc s fl s', attempts_loop cfg env rc s = (fl, s') ->
  LiveI s -> (rc = true -> has_errored s = true) -> Forall ends_ok env ->
  (on_error cfg = Ret -> ErrI s -> ErrI s') /\ (RepI s -> RepI s').
Proof.
  induction env as [|a rest IH]; intros rc s fl s' H HL Hrc Hends; cbn [attempts_loop] in H.
  { inversion H; subst. tauto. }
  inversion Hends as [|? ? Ha Hr]; subst.
  destruct (set_sock cfg a rc s) as [fl1 s1] eqn:E1.
  destruct (set_sock_err _ _ _ _ _ _ E1 HL Hrc Ha) as (A1 & A2 & A3).
  destruct fl1; [|inversion H; subst; tauto].
  destruct (negb (reconnect cfg =? 0) && keep_running s1) eqn:C; [|inversion H; subst; tauto].
  apply andb_prop in C. destruct C as [_ K].
  destruct (set_sock_post _ _ _ _ _ _ E1 HL) as [P1 | [(_ & K' & _) _]]; [|congruence].
  destruct (IH _ _ _ _ H P1 (fun _ => A3 eq_refl K) Hr) as [B1 B2].
  split; auto.
Qed.

Lemma no_silence_ends env : no_silence env -> Forall ends_ok env.
Proof.
  intro H. apply Forall_forall. intros [| |evs] Hin; cbn; auto.
Qed.

Lemma run_err cfg env : no_silence env ->
  let s := snd (run_forever cfg env) in
  fst (run_forever cfg env) = has_errored s /\ (on_error cfg = Ret -> ErrI s) /\ RepI s.
Proof.
  intro Hn. unfold run_forever.
  destruct (attempts_loop cfg env false st_init) as [fl1 s1] eqn:E1.
  assert (Hrc0 : false = true -> has_errored st_init = true) by discriminate.
  destruct (attempts_err _ _ _ _ _ _ E1 LiveI_init Hrc0 (no_silence_ends _ Hn)) as [A1 A2].
  destruct (teardown cfg None s1) as [fl2 s2] eqn:E2. cbn [fst snd].
  pose proof (Q_teardown _ _ _ _ _ E2) as Q2.
  split; [reflexivity|]. split.
  - intro Hoe. eapply Q_ErrI; [eassumption|]. apply A1; [assumption|]. intro X. discriminate X.
  - eapply Q_RepI; [eassumption|]. apply A2. intros _. constructor.
Qed.

(* The general statement needs the hypothesis that the script of each connection says how the
   connection ends.  Without it the model lets the dispatcher loop return on an exhausted script
   with keep_running still set ("silence forever"), the outer loop then reconnects, and a failure of
   that attempt sets has_errored without a report (reconnecting = True): see
   C14_ret_true_reported_script_artifact.  The real dispatcher loop never returns while
   keep_running is set, so this is an artifact of finite scripts, not of the code. *)
Theorem C14_ret_true_reported_partial : forall cfg env, no_silence env ->
  fst (run_forever cfg env) = true -> on_error cfg = Ret ->
  exists e, e <> ECallback /\ In (TError e) (trace (snd (run_forever cfg env))).
Proof.
  intros cfg env Hn Ht Hoe. destruct (run_err cfg env Hn) as (E & A & _).
  apply (A Hoe). congruence.
Qed.

Lemma C14_ret_true_reported_script_artifact :
  let r := run_forever (cfg_all Ret 5 false) [Established []; Refused] in
  fst r = true /\ forall e, ~ In (TError e) (trace (snd r)).
Proof.
  cbv zeta. split; [reflexivity|]. intros e H. vm_compute in H. intuition discriminate.
Qed.

(* conversely: a False return value means that nothing but callback exceptions was ever reported *)
Theorem C14_ret_false_unreported : forall cfg env, no_silence env ->
  fst (run_forever cfg env) = false ->
  forall e, In (TError e) (trace (snd (run_forever cfg env))) -> e = ECallback.
Proof.
  intros cfg env Hn Hf e Hin. destruct (run_err cfg env Hn) as (E & _ & R).
  assert (N : noerr (trace (snd (run_forever cfg env)))) by (apply R; congruence).
  unfold noerr in N. rewrite Forall_forall in N. apply (N _ Hin).
Qed.

(* ================================================================================== *)
(* 4. A generic "everything appended to the trace satisfies G" pass                    *)
(* ================================================================================== *)

(* the stored first-fragment opcode is never the close opcode *)
Definition cf_noclose (cf : cframe) : Prop := forall op0 d, c_data cf = Some (op0, d) -> op0 <> 8.

Lemma cf_noclose_init : cf_noclose cf_init.
Proof. intros op0 d H. discriminate H. Qed.

Lemma is_data_not8 op : is_data op = true -> op <> 8.
Proof. intro H. apply is_data_cases in H. lia. Qed.

Lemma cur_msg_not8 cf f : cf_noclose cf -> is_data (a_opcode f) = true -> fst (cur_msg cf f) <> 8.
Proof.
  intros Hc Hd. unfold cur_msg. destruct (c_data cf) as [[op0 d0]|] eqn:E; cbn [fst].
  - eapply Hc; eauto.
  - now apply is_data_not8.
Qed.

Lemma hf_return fire skip control conn cf f : cf_noclose cf ->
  cf_noclose (s_cf (handle_frame fire skip control conn cf f)) /\
  forall op f', s_out (handle_frame fire skip control conn cf f) = Return op f' -> op = 8 ->
                f' = f /\ a_opcode f = 8.
Proof.
  intro Hc.
  destruct (is_data (a_opcode f)) eqn:Hd.
  - destruct (seq_ok (inprog cf) (wframe_of f)) eqn:Hs.
    + rewrite hf_data_ok by assumption. pose proof (cur_msg_not8 cf f Hc Hd) as N.
      destruct (negb (a_fin f =? 0) || fire).
      * match goal with |- context [if ?c then _ else _] => destruct c end; cbn [s_cf s_out]; (split; [intros ? ? X; discriminate X|]);
          intros op f' X; inversion X; subst; intro; contradiction.
      * cbn [s_cf s_out]. split; [|intros ? ? X; discriminate X].
        intros op0 d X. cbn [c_data] in X. inversion X. destruct (cur_msg cf f); cbn [fst] in *. inversion H0; subst. assumption.
    + rewrite C05_seq_reject by assumption. cbn [s_cf s_out]. split; [assumption|intros ? ? X; discriminate X].
  - destruct (Z.eq_dec (a_opcode f) 8) as [E|N8].
    { rewrite hf_close by assumption. cbn [s_cf s_out]. split; [assumption|]. intros op f' X _. inversion X; subst. now split. }
    destruct (Z.eq_dec (a_opcode f) 10) as [E|N10].
    { rewrite hf_pong by assumption. cbn [s_cf s_out]. split; [assumption|]. destruct control; intros op f' X; inversion X; subst; lia. }
    destruct (Z.eq_dec (a_opcode f) 9) as [E|N9].
    { destruct (Z_le_gt_dec (zlen (a_data f)) 125).
      - rewrite hf_ping by assumption. cbn [s_cf s_out]. split; [assumption|]. destruct control; intros op f' X; inversion X; subst; lia.
      - rewrite hf_ping_long by lia. cbn [s_cf s_out]. split; [assumption|]. intros op f' X; discriminate X. }
    rewrite hf_unknown by assumption. cbn [s_cf s_out]. split; [assumption|]. intros op f' X; discriminate X.
Qed.

Lemma close_consumes_in f r : In (AFrame f) (close_consumes r) -> In (AFrame f) r.
Proof.
  induction r as [|[g|x| |] r IH]; cbn [close_consumes]; intro H; try (now right); [contradiction|].
  destruct (a_opcode g =? OPCODE_CLOSE); right; auto.
Qed.

Lemma app_close_cf s : a_cf (app_close s) = a_cf s.
Proof. unfold app_close. proj. destruct (has_sock s); [|reflexivity]. rewrite sock_close_spec. reflexivity. Qed.

Lemma callback_cf cfg m ev s fl s' : callback cfg m ev s = (fl, s') -> a_cf s' = a_cf s.
Proof.
  intro H. unfold callback in H.
  destruct m; [| | destruct (on_error cfg) | |]; inversion H; subst; rewrite ?app_close_cf; reflexivity.
Qed.

Lemma teardown_cf cfg fr s fl s' : teardown cfg fr s = (fl, s') -> a_cf s' = a_cf s.
Proof.
  intro H. unfold teardown in H. destruct (torn_down s); [inversion H; subst; reflexivity|].
  destruct (close_args cfg fr) as [c r]. apply callback_cf in H. rewrite H. proj.
  destruct (has_sock s); [|reflexivity]. rewrite sock_close_spec. reflexivity.
Qed.

Lemma deliver_cf cfg op f s fl s' b : deliver cfg op f s = (fl, s', b) -> a_cf s' = a_cf s.
Proof.
  intro H. unfold deliver in H.
  destruct (op =? OPCODE_CLOSE).
  { destruct (teardown cfg (Some f) s) as [fl1 s1] eqn:E. inversion H; subst. eapply teardown_cf; eauto. }
  destruct (op =? OPCODE_PING).
  { destruct (callback cfg (on_ping cfg) _ s) as [fl1 s1] eqn:E. inversion H; subst. eapply callback_cf; eauto. }
  destruct (op =? OPCODE_PONG).
  { destruct (callback cfg (on_pong cfg) _ s) as [fl1 s1] eqn:E. inversion H; subst. eapply callback_cf; eauto. }
  destruct (callback cfg (on_data cfg) _ s) as [fl1 s1] eqn:E1. apply callback_cf in E1.
  destruct fl1; [|inversion H; subst; assumption].
  destruct (callback cfg (on_message cfg) _ s1) as [fl2 s2] eqn:E2. apply callback_cf in E2.
  inversion H; subst. congruence.
Qed.

Section Gen.
  Variable cfg : appcfg.
  Variable G : tev -> Prop.
  Hypothesis G_other : forall e, is_close_ev e = false -> is_connect_ev e = false -> G e.
  Hypothesis G_close0 : G (TClose None None).

  Definition X (s s' : appst) : Prop := exists l, trace s' = trace s ++ l /\ Forall G l.
  Definition Gf (fr : option abnf) : Prop := forall c r, close_args cfg fr = (c, r) -> G (TClose c r).

  Lemma Gf_None : Gf None.
  Proof. intros c r H. unfold close_args in H. destruct (on_close cfg); inversion H; subst; assumption. Qed.

  Lemma X_refl s : X s s.
  Proof. exists []. split; [now rewrite app_nil_r | constructor]. Qed.
  Lemma X_trans a b c : X a b -> X b c -> X a c.
  Proof.
    intros (l1 & T1 & N1) (l2 & T2 & N2). exists (l1 ++ l2).
    split; [rewrite T2, T1; now rewrite app_assoc | apply Forall_app; now split].
  Qed.
  Lemma X_emit s e : G e -> X s (emit s e).
  Proof. intro H. exists [e]. split; [reflexivity | repeat constructor; assumption]. Qed.
  Lemma X_flags s k h c o e t : X s (set_flags s k h c o e t).
  Proof. exists []. split; [proj; now rewrite app_nil_r | constructor]. Qed.
  Lemma X_set_cf s c : X s (set_cf s c).
  Proof. exists []. split; [proj; now rewrite app_nil_r | constructor]. Qed.

  Lemma X_sock_close s : X s (sock_close s).
  Proof.
    rewrite sock_close_spec. eapply X_trans; [|apply (X_flags (emits s (sc_evs s)))].
    exists (sc_evs s). split; [reflexivity|]. unfold sc_evs.
    destruct (sock_connected s && sock_open s), (sock_open s); repeat constructor; now apply G_other.
  Qed.

  Lemma X_app_close s : X s (app_close s).
  Proof.
    unfold app_close. proj. destruct (has_sock s); [|apply X_flags].
    set (s1 := set_flags s false true _ _ _ _).
    eapply X_trans; [apply (X_flags s false true (sock_connected s) (sock_open s) (has_errored s) (torn_down s))|].
    fold s1. eapply X_trans; [apply (X_sock_close s1)|]. apply X_flags.
  Qed.

  Lemma X_callback m ev s fl s' : G ev -> callback cfg m ev s = (fl, s') -> X s s'.
  Proof.
    intros Hev H. unfold callback in H.
    assert (E1 : X s (emit s ev)) by now apply X_emit.
    assert (E2 : X s (emit (emit s ev) (TError ECallback))).
    { eapply X_trans; [exact E1|]. apply X_emit. now apply G_other. }
    destruct m; [| | destruct (on_error cfg) | |]; inversion H; subst; auto using X_refl.
    eapply X_trans; [exact E1|apply X_app_close].
  Qed.

  Lemma X_report_error e s fl s' : report_error cfg e s = (fl, s') -> X s s'.
  Proof.
    intro H. unfold report_error in H.
    assert (E1 : X s (emit s (TError e))) by (apply X_emit; now apply G_other).
    destruct (on_error cfg); inversion H; subst; auto using X_refl.
    eapply X_trans; [exact E1|apply X_app_close].
  Qed.

  Lemma X_teardown fr s fl s' : Gf fr -> teardown cfg fr s = (fl, s') -> X s s'.
  Proof.
    intros HG H. unfold teardown in H. destruct (torn_down s); [inversion H; subst; apply X_refl|].
    destruct (close_args cfg fr) as [c r] eqn:Ec.
    set (s1 := set_flags s false _ _ _ _ true) in H.
    assert (Q1 : X s s1) by apply X_flags.
    set (s2 := if has_sock s1 then sock_close s1 else s1) in H.
    assert (Q2 : X s1 s2) by (subst s2; destruct (has_sock s1); [apply X_sock_close | apply X_refl]).
    set (s3 := set_flags s2 false false false false _ true) in H.
    assert (Q3 : X s2 s3) by apply X_flags.
    eapply X_trans; [exact Q1|]. eapply X_trans; [exact Q2|]. eapply X_trans; [exact Q3|].
    eapply X_callback; [|eassumption]. now apply HG.
  Qed.

  Lemma X_handle_disconnect e rc s fl s' : handle_disconnect cfg e rc s = (fl, s') -> X s s'.
  Proof.
    intro H. unfold handle_disconnect in H.
    set (s1 := set_flags _ _ _ _ _ true _) in H.
    assert (Q1 : X s s1) by apply X_flags. clearbody s1.
    destruct (if rc then (Normal, s1) else report_error cfg e s1) as [fl2 s2] eqn:E2.
    assert (Q2 : X s1 s2).
    { destruct rc; [inversion E2; subst; apply X_refl | eapply X_report_error; eauto]. }
    destruct (teardown cfg None s2) as [fl3 s3] eqn:E3.
    pose proof (X_teardown _ _ _ _ Gf_None E3) as Q3.
    assert (Q02 : X s s2) by (eapply X_trans; eassumption).
    assert (Q03 : X s s3) by (eapply X_trans; eassumption).
    destruct fl2; [destruct e; try destruct (negb (reconnect cfg =? 0))|]; inversion H; subst; assumption.
  Qed.

  Lemma X_deliver op f s fl s' b : ((op =? OPCODE_CLOSE) = true -> Gf (Some f)) ->
    deliver cfg op f s = (fl, s', b) -> X s s'.
  Proof.
    intros HG H. unfold deliver in H.
    destruct (op =? OPCODE_CLOSE).
    { destruct (teardown cfg (Some f) s) as [fl1 s1] eqn:E. inversion H; subst. eapply X_teardown; eauto. }
    destruct (op =? OPCODE_PING).
    { destruct (callback cfg (on_ping cfg) _ s) as [fl1 s1] eqn:E. inversion H; subst.
      eapply X_callback; [|eassumption]. now apply G_other. }
    destruct (op =? OPCODE_PONG).
    { destruct (callback cfg (on_pong cfg) _ s) as [fl1 s1] eqn:E. inversion H; subst.
      eapply X_callback; [|eassumption]. now apply G_other. }
    destruct (callback cfg (on_data cfg) _ s) as [fl1 s1] eqn:E1.
    assert (L1 : X s s1) by (eapply X_callback; [|eassumption]; now apply G_other).
    destruct fl1; [|inversion H; subst; assumption].
    destruct (callback cfg (on_message cfg) _ s1) as [fl2 s2] eqn:E2. inversion H; subst.
    eapply X_trans; [eassumption|]. eapply X_callback; [|eassumption]. now apply G_other.
  Qed.

  Lemma X_dispatch fuel : forall evs s le s',
    (forall f, In (AFrame f) evs -> a_opcode f = 8 -> Gf (Some f)) -> cf_noclose (a_cf s) ->
    dispatch_fuel fuel cfg evs s = (le, s') -> X s s'.
  Proof.
    induction fuel as [|fuel IH]; intros evs s le s' HF Hcf H; cbn [dispatch_fuel] in H.
    { inversion H; subst. apply X_refl. }
    destruct (negb (keep_running s)); [inversion H; subst; apply X_refl|].
    destruct evs as [|[f|e| |] r]; [inversion H; subst; apply X_refl| | | |].
    - destruct (hf_return false (app_skip_utf8 cfg) true (sock_connected s) (a_cf s) f Hcf) as [Hcf' Hret].
      set (st := handle_frame _ _ _ _ _ f) in *.
      set (s2 := if existsb _ (s_writes st) then _ else _) in H.
      assert (L2 : X s s2 /\ a_cf s2 = s_cf st).
      { subst s2. destruct (existsb _ (s_writes st)); [|split; [apply X_set_cf|reflexivity]].
        split; [|reflexivity].
        eapply X_trans; [apply (X_set_cf s (s_cf st))|].
        eapply X_trans; [apply (X_emit (set_cf s (s_cf st)) TCloseFrameSent); now apply G_other|].
        apply (X_flags (emit (set_cf s (s_cf st)) TCloseFrameSent)). }
      clearbody s2. destruct L2 as [L2 C2].
      assert (HFr : forall f0, In (AFrame f0) r -> a_opcode f0 = 8 -> Gf (Some f0)) by (intros; apply HF; [now right|assumption]).
      destruct (s_out st) as [op f'| |e] eqn:Eo.
      + destruct (deliver cfg op f' s2) as [[fl s3] b] eqn:E.
        assert (P : X s2 s3).
        { eapply X_deliver; [|eassumption]. rewrite OPCODE_CLOSE_eq. intro E8. apply Z.eqb_eq in E8.
          destruct (Hret op f' eq_refl E8) as [-> E8']. apply HF; [now left|assumption]. }
        pose proof (deliver_cf _ _ _ _ _ _ _ E) as C3.
        destruct fl; [destruct b|]; try (inversion H; subst; eapply X_trans; eassumption).
        eapply X_trans; [eassumption|]. eapply X_trans; [eassumption|]. eapply IH; [| |eassumption]; [assumption|].
        rewrite C3, C2. assumption.
      + eapply X_trans; [eassumption|]. eapply IH; [| |eassumption]; [assumption|]. rewrite C2. assumption.
      + inversion H; subst. assumption.
    - inversion H; subst. destruct e; try apply X_refl.
      destruct (sock_open s).
      + eapply X_trans; [apply (X_emit s TSockClosed); now apply G_other|]. apply (X_flags (emit s TSockClosed)).
      + apply X_flags.
    - inversion H; subst. apply X_refl.
    - eapply X_trans; [apply X_app_close|]. eapply IH; [| |eassumption].
      + intros f Hin. apply HF. right. now apply close_consumes_in.
      + rewrite app_close_cf. assumption.
  Qed.

  Definition att_ok (a : attempt) : Prop :=
    match a with Established evs => forall f, In (AFrame f) evs -> a_opcode f = 8 -> Gf (Some f) | _ => True end.

  (* one attempt: one TConnect, everything else satisfies G *)
  Lemma X_set_sock a rc s fl s' : att_ok a -> set_sock cfg a rc s = (fl, s') ->
    exists l0 l1, trace s' = trace s ++ l0 ++ TConnect :: l1 /\ Forall G l0 /\ Forall G l1 /\
                  (l0 = [] \/ l0 = [TSockClosed]).
  Proof.
    intros Ha H. unfold set_sock in H.
    set (s0 := if rc && has_sock s && sock_open s then _ else s) in H.
    assert (L0 : exists l0, trace s0 = trace s ++ l0 /\ Forall G l0 /\ (l0 = [] \/ l0 = [TSockClosed])).
    { subst s0. destruct (rc && has_sock s && sock_open s).
      - exists [TSockClosed]. split; [reflexivity|]. split; [|now right]. repeat constructor. now apply G_other.
      - exists []. split; [now rewrite app_nil_r|]. split; [constructor|now left]. }
    clearbody s0. destruct L0 as (l0 & T0 & G0 & S0).
    set (s1 := emit _ TConnect) in H.
    assert (T1 : trace s1 = trace s ++ l0 ++ [TConnect]) by (subst s1; proj; rewrite T0; now rewrite app_assoc).
    clearbody s1.
    assert (Fin : forall s4, X s1 s4 -> exists l0 l1, trace s4 = trace s ++ l0 ++ TConnect :: l1 /\ Forall G l0 /\ Forall G l1
                                        /\ (l0 = [] \/ l0 = [TSockClosed])).
    { intros s4 (l & T & Gl). exists l0, l. split; [|now repeat split]. rewrite T, T1. rewrite <- !app_assoc. reflexivity. }
    destruct a as [|st|evs]; [apply Fin; eapply X_handle_disconnect; eauto | apply Fin; eapply X_handle_disconnect; eauto|].
    set (s2 := set_cf _ cf_init) in H.
    assert (L2 : X s1 s2 /\ a_cf s2 = cf_init).
    { subst s2. split; [|reflexivity].
      eapply X_trans; [apply (X_flags s1 (keep_running s1) true true true (has_errored s1) (torn_down s1))|]. apply X_set_cf. }
    clearbody s2. destruct L2 as (L2 & C2).
    destruct (if rc && negb _ then _ else _) as [fl3 s3] eqn:E3.
    assert (L3 : X s2 s3 /\ a_cf s3 = cf_init).
    { destruct (rc && negb _); (split; [eapply X_callback; [|eassumption]; now apply G_other|]);
        apply callback_cf in E3; congruence. }
    destruct L3 as (L3 & C3).
    assert (L13 : X s1 s3) by (eapply X_trans; eassumption).
    destruct fl3; [|apply Fin; eapply X_trans; [exact L13|]; eapply X_handle_disconnect; eauto].
    destruct (negb (has_sock s3)); [inversion H; subst; now apply Fin|].
    destruct (dispatch_loop cfg evs s3) as [le s4] eqn:E4. unfold dispatch_loop in E4.
    assert (L4 : X s3 s4).
    { eapply X_dispatch; [| |eassumption]; [exact Ha|]. rewrite C3. apply cf_noclose_init. }
    assert (L14 : X s1 s4) by (eapply X_trans; eassumption).
    destruct le; [inversion H; subst; now apply Fin | |];
      apply Fin; (eapply X_trans; [exact L14|]); eapply X_handle_disconnect; eauto.
  Qed.
End Gen.

Lemma X_attempts cfg (G : tev -> Prop) (G_other : forall e, is_close_ev e = false -> is_connect_ev e = false -> G e)
  (G_close0 : G (TClose None None)) (G_conn : G TConnect) env : forall rc s fl s',
  Forall (att_ok cfg G) env -> attempts_loop cfg env rc s = (fl, s') -> X G s s'.
Proof.
  induction env as [|a rest IH]; intros rc s fl s' Ha H; cbn [attempts_loop] in H.
  { inversion H; subst. apply X_refl. }
  inversion Ha as [|? ? Ha1 Har]; subst.
  destruct (set_sock cfg a rc s) as [fl1 s1] eqn:E1.
  destruct (X_set_sock cfg G G_other G_close0 _ _ _ _ _ Ha1 E1) as (l0 & l1 & T & G0 & G1 & _).
  assert (X1 : X G s s1).
  { exists (l0 ++ TConnect :: l1). split; [assumption|]. apply Forall_app. split; [assumption|]. now constructor. }
  destruct fl1; [|inversion H; subst; assumption].
  destruct (negb (reconnect cfg =? 0) && keep_running s1); [|inversion H; subst; assumption].
  eapply X_trans; [exact X1|]. eapply IH; eauto.
Qed.

(* ================================================================================== *)
(* 5. C14 (c): the arguments of on_close                                               *)
(* ================================================================================== *)

Lemma close_args_info cfg f : on_close cfg <> Absent -> close_args cfg (Some f) = close_info (a_data f).
Proof.
  intro H. unfold close_args, close_info.
  assert (E : (if 2 <=? zlen (a_data f)
               then (Some (256 * byte_at (a_data f) 0 + byte_at (a_data f) 1), Some (zdrop 2 (a_data f)))
               else (None, None)) =
              match a_data f with b0 :: b1 :: reason => (Some (256 * b0 + b1), Some reason) | _ => (None, None) end).
  { destruct (a_data f) as [|b0 [|b1 r]]; [reflexivity | reflexivity|].
    assert (L : (2 <=? zlen (b0 :: b1 :: r)) = true) by (rewrite !zlen_cons; pose proof (zlen_nonneg r); lia).
    rewrite L, byte_at_0, byte_at_1, zdrop_2. reflexivity. }
  destruct (on_close cfg); [congruence|exact E..].
Qed.

Lemma close_args_absent cfg fr : on_close cfg = Absent -> close_args cfg fr = (None, None).
Proof. intro H. unfold close_args. now rewrite H. Qed.

Definition okclose (P : abnf -> Prop) (e : tev) : Prop :=
  match e with
  | TClose c r => (c = None /\ r = None) \/ exists f, P f /\ a_opcode f = 8 /\ (c, r) = close_info (a_data f)
  | _ => True
  end.

Definition frame_in (env : list attempt) (f : abnf) : Prop :=
  exists evs, In (Established evs) env /\ In (AFrame f) evs.

(* on_close gets (None, None), or the code and reason of a close frame the server sent *)
Theorem C14_args : forall cfg env c r, In (TClose c r) (trace (snd (run_forever cfg env))) ->
  (c = None /\ r = None) \/
  exists f, frame_in env f /\ a_opcode f = 8 /\ (c, r) = close_info (a_data f).
Proof.
  intros cfg env c r Hin.
  set (G := okclose (frame_in env)).
  assert (G_other : forall e, is_close_ev e = false -> is_connect_ev e = false -> G e)
    by (intros [] H1 H2; try exact I; discriminate H1).
  assert (G_close0 : G (TClose None None)) by (left; split; reflexivity).
  assert (G_conn : G TConnect) by exact I.
  assert (GF : forall f, frame_in env f -> a_opcode f = 8 -> Gf cfg G (Some f)).
  { intros f Hf H8 c0 r0 Hc. destruct (on_close cfg) eqn:Eoc.
    - rewrite close_args_absent in Hc by assumption. inversion Hc; subst. exact G_close0.
    - right. exists f. rewrite close_args_info in Hc by congruence. auto.
    - right. exists f. rewrite close_args_info in Hc by congruence. auto.
    - right. exists f. rewrite close_args_info in Hc by congruence. auto.
    - right. exists f. rewrite close_args_info in Hc by congruence. auto. }
  assert (Ha : Forall (att_ok cfg G) env).
  { apply Forall_forall. intros [| |evs] Hi; cbn; auto. intros f Hf H8. apply GF; [|assumption]. exists evs. now split. }
  revert Hin. unfold run_forever.
  destruct (attempts_loop cfg env false st_init) as [fl1 s1] eqn:E1.
  pose proof (X_attempts cfg G G_other G_close0 G_conn env _ _ _ _ Ha E1) as X1.
  destruct (teardown cfg None s1) as [fl2 s2] eqn:E2. cbn [snd].
  pose proof (X_teardown cfg G G_other _ _ _ _ (Gf_None cfg G G_close0) E2) as X2.
  destruct (X_trans G _ _ _ X1 X2) as (l & T & Gl). rewrite T. cbn [st_init trace app].
  intro Hin. rewrite Forall_forall in Gl. apply (Gl _ Hin).
Qed.

(* ================================================================================== *)
(* 6. Runs with well-behaved callbacks, computed                                       *)
(* ================================================================================== *)

Lemma callback_nice cfg m ev s : nice m -> nice (on_error cfg) ->
  callback cfg m ev s = (Normal, emits s (cb_evs cfg m ev)).
Proof.
  intros [-> | [-> | ->]] He; cbn [callback cb_evs]; [now rewrite emits_nil | reflexivity|].
  destruct He as [-> | [-> | ->]]; cbn [ev_if]; try reflexivity;
    unfold emit, emits; cbn; rewrite <- app_assoc; reflexivity.
Qed.

Lemma report_error_nice cfg e s : nice (on_error cfg) ->
  report_error cfg e s = (Normal, emits s (ev_if (on_error cfg) (TError e))).
Proof.
  unfold report_error. intros [-> | [-> | ->]]; cbn [ev_if]; [now rewrite emits_nil | reflexivity | reflexivity].
Qed.

(* what read() hands to the callbacks for one value returned by recv_data_frame (not a close frame) *)
Definition deliver_evs (cfg : appcfg) (op : Z) (d : bytes) : list tev :=
  if op =? 9 then cb_evs cfg (on_ping cfg) (TPing d)
  else if op =? 10 then cb_evs cfg (on_pong cfg) (TPong d)
  else let is_text := (op =? 1) && negb (app_skip_utf8 cfg) in
       cb_evs cfg (on_data cfg) (TData d op true is_text) ++ cb_evs cfg (on_message cfg) (TMessage d is_text).

Lemma deliver_nice cfg op f s : cfg_nice cfg -> op <> 8 ->
  deliver cfg op f s = (Normal, emits s (deliver_evs cfg op (a_data f)), false).
Proof.
  intros (No & Nr & Nm & Nd & Ne & Nc & Npi & Npo) H8. unfold deliver, deliver_evs. gen_consts.
  assert (E8 : (op =? 8) = false) by lia. rewrite E8.
  destruct (op =? 9); [rewrite callback_nice by assumption; reflexivity|].
  destruct (op =? 10); [rewrite callback_nice by assumption; reflexivity|].
  cbv zeta. rewrite callback_nice by assumption. rewrite callback_nice by assumption.
  rewrite emits_emits. reflexivity.
Qed.

(* the frames of one connection through handle_frame: values returned, first failure, final state *)
Fixpoint feed (skip : bool) (cf : cframe) (fs : list abnf) : list (Z * abnf) * option exn * cframe :=
  match fs with
  | [] => ([], None, cf)
  | f :: r =>
    let st := handle_frame false skip true true cf f in
    match s_out st with
    | Fail e => ([], Some e, s_cf st)
    | Again => feed skip (s_cf st) r
    | Return op f' => let '(ds, e, cf') := feed skip (s_cf st) r in ((op, f') :: ds, e, cf')
    end
  end.

Definition feed_evs (cfg : appcfg) (ds : list (Z * abnf)) : list tev :=
  flat_map (fun p => deliver_evs cfg (fst p) (a_data (snd p))) ds.

(* frames the connection accepts: no close frame among them, none rejected *)
Definition accepted (skip : bool) (fs : list abnf) : Prop :=
  no_close fs = true /\ snd (fst (feed skip cf_init fs)) = None.

Lemma hf_conn fire skip control c1 c2 cf f :
  s_out (handle_frame fire skip control c1 cf f) = s_out (handle_frame fire skip control c2 cf f) /\
  s_cf (handle_frame fire skip control c1 cf f) = s_cf (handle_frame fire skip control c2 cf f).
Proof.
  unfold handle_frame. cbv zeta.
  destruct (is_msg_opcode (a_opcode f) || (a_opcode f =? OPCODE_CONT)); [split; reflexivity|].
  destruct (a_opcode f =? OPCODE_CLOSE); [split; reflexivity|].
  destruct (a_opcode f =? OPCODE_PING); [destruct (ping_reply_ok (a_data f)); split; reflexivity|].
  destruct (a_opcode f =? OPCODE_PONG); split; reflexivity.
Qed.

Definition is_wclose (w : wreq) : bool := match w with WClose => true | _ => false end.

Lemma hf_no_wclose fire skip control conn cf f : a_opcode f <> 8 ->
  existsb is_wclose (s_writes (handle_frame fire skip control conn cf f)) = false.
Proof.
  intro H8. destruct (Z.eq_dec (a_opcode f) 9) as [E9|N9].
  - destruct (Z_le_gt_dec (zlen (a_data f)) 125).
    + rewrite hf_ping by assumption. reflexivity.
    + rewrite hf_ping_long by lia. reflexivity.
  - rewrite C07_only_replies; [reflexivity | exact N9 | exact H8].
Qed.

Lemma set_cf_norm s c1 l1 l2 c2 :
  set_cf (emits (emits (set_cf s c1) l1) l2) c2 = set_cf (emits s (l1 ++ l2)) c2.
Proof. unfold set_cf, emits. cbn. now rewrite app_assoc. Qed.
Lemma set_cf_norm0 s c1 l2 c2 : set_cf (emits (set_cf s c1) l2) c2 = set_cf (emits s l2) c2.
Proof. reflexivity. Qed.
Lemma set_cf_emits0 s c : set_cf s c = set_cf (emits s []) c.
Proof. now rewrite emits_nil. Qed.

Lemma no_close_cons f r : no_close (f :: r) = true -> a_opcode f <> 8 /\ no_close r = true.
Proof.
  unfold no_close. cbn [forallb]. intro H. apply andb_prop in H. destruct H as [H1 H2]. unfold OP_CLOSE in H1.
  split; [lia|assumption].
Qed.

(* Lemma A: the dispatcher loop over frames none of which is a close frame *)
Lemma dispatch_frames cfg (Hn : cfg_nice cfg) fs : forall n rest s,
  no_close fs = true -> cf_noclose (a_cf s) -> keep_running s = true ->
  dispatch_fuel (length fs + n) cfg (map AFrame fs ++ rest) s =
  let '(ds, e, cf') := feed (app_skip_utf8 cfg) (a_cf s) fs in
  let s' := set_cf (emits s (feed_evs cfg ds)) cf' in
  match e with
  | None => dispatch_fuel n cfg rest s'
  | Some x => (LoopExn (EExn x), s')
  end.
Proof.
  induction fs as [|f r IH]; intros n rest s Hnc Hcf Hk.
  { cbn [length Nat.add map app feed feed_evs flat_map]. rewrite emits_nil.
    replace (set_cf s (a_cf s)) with s by (destruct s; reflexivity). reflexivity. }
  apply no_close_cons in Hnc. destruct Hnc as [H8 Hnc].
  cbn [length Nat.add map app dispatch_fuel feed]. rewrite Hk. cbn [negb].
  destruct (hf_conn false (app_skip_utf8 cfg) true (sock_connected s) true (a_cf s) f) as [Eo Ec].
  destruct (hf_return false (app_skip_utf8 cfg) true true (a_cf s) f Hcf) as [Hcf' Hret].
  fold is_wclose. rewrite hf_no_wclose by assumption. rewrite Eo, Ec.
  set (st := handle_frame false (app_skip_utf8 cfg) true true (a_cf s) f) in *.
  destruct (s_out st) as [op f'| |x] eqn:Es.
  - assert (Hop : op <> 8) by (intro E; destruct (Hret op f' eq_refl E) as [_ ?]; contradiction).
    rewrite deliver_nice by assumption.
    rewrite (IH n rest (emits (set_cf s (s_cf st)) (deliver_evs cfg op (a_data f')))); [|assumption|exact Hcf'|exact Hk].
    cbn [a_cf emits set_cf].
    destruct (feed (app_skip_utf8 cfg) (s_cf st) r) as [[ds e] cf'].
    cbn [feed_evs flat_map fst snd]. fold (feed_evs cfg ds). rewrite set_cf_norm. reflexivity.
  - rewrite (IH n rest (set_cf s (s_cf st))); [|assumption|exact Hcf'|exact Hk].
    cbn [a_cf set_cf].
    destruct (feed (app_skip_utf8 cfg) (s_cf st) r) as [[ds e] cf']. reflexivity.
  - cbn [feed_evs flat_map]. rewrite emits_nil. reflexivity.
Qed.

Ltac flat := unfold emits, emit, set_flags, set_cf; cbn [keep_running has_sock sock_connected sock_open has_errored torn_down a_cf trace].

(* teardown with well-behaved callbacks, from a live state *)
Lemma teardown_nice cfg fr k h c o e cf tr : cfg_nice cfg ->
  teardown cfg fr (Build_appst k h c o e false cf tr) =
  (Normal, Build_appst false false false false e true cf
     (tr ++ (if h then (if c && o then [TCloseFrameSent] else []) ++ (if o then [TSockClosed] else []) else [])
         ++ cb_evs cfg (on_close cfg) (TClose (fst (close_args cfg fr)) (snd (close_args cfg fr))))).
Proof.
  intros (No & Nr & Nm & Nd & Ne & Nc & Npi & Npo). unfold teardown. cbn [torn_down].
  destruct (close_args cfg fr) as [cc rr]. cbn [fst snd].
  rewrite callback_nice by assumption. f_equal. flat.
  destruct h; cbn [has_sock].
  - rewrite sock_close_spec. unfold sc_evs. flat. rewrite <- !app_assoc. reflexivity.
  - flat. reflexivity.
Qed.

Lemma handle_disconnect_nice cfg x rc k h c o e cf tr : cfg_nice cfg -> x <> EKbd ->
  handle_disconnect cfg x rc (Build_appst k h c o e false cf tr) =
  let tr2 := tr ++ (if rc then [] else ev_if (on_error cfg) (TError x)) in
  if negb (reconnect cfg =? 0) then (Normal, Build_appst k h c o true false cf tr2)
  else teardown cfg None (Build_appst k h c o true false cf tr2).
Proof.
  intros Hn Hx. pose proof Hn as (No & Nr & Nm & Nd & Ne & Nc & Npi & Npo). unfold handle_disconnect. flat.
  destruct rc.
  - rewrite app_nil_r. destruct x; try contradiction; reflexivity.
  - rewrite report_error_nice by assumption. flat. destruct x; try contradiction; reflexivity.
Qed.

(* a close frame arrives on a connection that is up *)
Lemma dispatch_close_nice cfg n f r e cf tr : cfg_nice cfg -> a_opcode f = 8 ->
  dispatch_fuel (S n) cfg (AFrame f :: r) (Build_appst true true true true e false cf tr) =
  (LoopDone, Build_appst false false false false e true cf
     (tr ++ [TCloseFrameSent; TSockClosed]
         ++ cb_evs cfg (on_close cfg) (TClose (fst (close_args cfg (Some f))) (snd (close_args cfg (Some f)))))).
Proof.
  intros Hn H8. cbn [dispatch_fuel keep_running negb sock_connected a_cf].
  rewrite hf_close by assumption. cbn [s_writes s_out s_cf existsb orb]. flat.
  unfold deliver. gen_consts. cbn [Z.eqb Pos.eqb].
  rewrite teardown_nice by assumption. cbn [andb app]. rewrite <- !app_assoc. reflexivity.
Qed.

Definition open_evs (cfg : appcfg) (rc : bool) : list tev :=
  if rc && negb (match on_reconnect cfg with Absent => true | _ => false end)
  then cb_evs cfg (on_reconnect cfg) TReconnect else cb_evs cfg (on_open cfg) TOpen.

Lemma set_sock_established_nice cfg evs rc k h c o e cf tr : cfg_nice cfg ->
  set_sock cfg (Established evs) rc (Build_appst k h c o e false cf tr) =
  match dispatch_loop cfg evs
          (Build_appst k true true true e false cf_init
             (tr ++ (if rc && h && o then [TSockClosed] else []) ++ [TConnect] ++ open_evs cfg rc)) with
  | (LoopDone, s4) => (Normal, s4)
  | (LoopExn x, s4) => handle_disconnect cfg x rc s4
  | (LoopKbd, s4) => handle_disconnect cfg EKbd rc s4
  end.
Proof.
  intros (No & Nr & Nm & Nd & Ne & Nc & Npi & Npo). unfold set_sock, open_evs. flat.
  destruct (rc && negb match on_reconnect cfg with Absent => true | _ => false end);
    destruct (rc && h && o); flat; rewrite callback_nice by assumption; flat;
    rewrite <- ?app_assoc; cbn [app negb]; reflexivity.
Qed.

Lemma conn_frames cfg fs tail ds cf' e tr : cfg_nice cfg ->
  no_close fs = true -> feed (app_skip_utf8 cfg) cf_init fs = (ds, None, cf') ->
  dispatch_loop cfg (map AFrame fs ++ tail) (Build_appst true true true true e false cf_init tr) =
  dispatch_fuel (S (length tail)) cfg tail (Build_appst true true true true e false cf' (tr ++ feed_evs cfg ds)).
Proof.
  intros Hn Hnc Hf. unfold dispatch_loop. rewrite app_length, map_length, <- Nat.add_succ_r.
  rewrite dispatch_frames; [|assumption|assumption|apply cf_noclose_init|reflexivity].
  cbn [a_cf]. rewrite Hf. reflexivity.
Qed.

Lemma attempts_single cfg a rc s : attempts_loop cfg [a] rc s = set_sock cfg a rc s.
Proof.
  cbn [attempts_loop]. destruct (set_sock cfg a rc s) as [[|] s1]; [|reflexivity].
  destruct (negb (reconnect cfg =? 0) && keep_running s1); reflexivity.
Qed.

Definition closing_evs (cfg : appcfg) (fr : option abnf) : list tev :=
  cb_evs cfg (on_close cfg) (TClose (fst (close_args cfg fr)) (snd (close_args cfg fr))).

(* the server ends the connection with a close frame *)
Lemma run_server_close cfg fs closef junk ds cf' : cfg_nice cfg ->
  no_close fs = true -> feed (app_skip_utf8 cfg) cf_init fs = (ds, None, cf') -> a_opcode closef = 8 ->
  run_forever cfg [Established (map AFrame fs ++ AFrame closef :: junk)] =
  (false, Build_appst false false false false false true cf'
            ([TConnect] ++ open_evs cfg false ++ feed_evs cfg ds ++ [TCloseFrameSent; TSockClosed]
             ++ closing_evs cfg (Some closef))).
Proof.
  intros Hn Hnc Hf H8. unfold run_forever. rewrite attempts_single. unfold st_init.
  rewrite set_sock_established_nice by assumption. cbn [andb app].
  rewrite (conn_frames cfg fs _ ds cf') by assumption. cbn [length].
  rewrite dispatch_close_nice by assumption.
  rewrite teardown_dead by reflexivity. cbn [has_errored]. unfold closing_evs.
  rewrite <- ?app_assoc. reflexivity.
Qed.

Definition loss_evs (e : exn) : list tev := match e with ConnClosed => [TSockClosed] | _ => [] end.
Definition loss_open (e : exn) : bool := match e with ConnClosed => false | _ => true end.

Lemma dispatch_bad cfg n e r he cf tr :
  dispatch_fuel (S n) cfg (ABad e :: r) (Build_appst true true true true he false cf tr) =
  (LoopExn (EExn e), Build_appst true true (loss_open e) (loss_open e) he false cf (tr ++ loss_evs e)).
Proof.
  cbn [dispatch_fuel keep_running negb]. destruct e; cbn [loss_open loss_evs]; rewrite ?app_nil_r; reflexivity.
Qed.

Lemma EExn_not_kbd e : EExn e <> EKbd.
Proof. discriminate. Qed.

(* handleDisconnect followed (at once, or at the end of run_forever) by the teardown *)
Lemma hd_then_teardown cfg x k h c o e cf tr fl s1 fl2 s2 : cfg_nice cfg -> x <> EKbd ->
  handle_disconnect cfg x false (Build_appst k h c o e false cf tr) = (fl, s1) ->
  teardown cfg None s1 = (fl2, s2) ->
  s2 = Build_appst false false false false true true cf
         ((tr ++ ev_if (on_error cfg) (TError x))
          ++ (if h then (if c && o then [TCloseFrameSent] else []) ++ (if o then [TSockClosed] else []) else [])
          ++ closing_evs cfg None).
Proof.
  intros Hn Hx H1 H2. rewrite handle_disconnect_nice in H1 by assumption. cbv zeta in H1.
  destruct (negb (reconnect cfg =? 0)).
  - inversion H1; subst. rewrite teardown_nice in H2 by assumption. inversion H2; subst. reflexivity.
  - rewrite teardown_nice in H1 by assumption. inversion H1; subst.
    rewrite teardown_dead in H2 by reflexivity. inversion H2; subst. reflexivity.
Qed.

Definition final_close_evs (o : bool) : list tev := if o then [TCloseFrameSent; TSockClosed] else [].

(* the connection is lost: the receive call raises e *)
Lemma run_loss cfg fs e junk ds cf' : cfg_nice cfg ->
  no_close fs = true -> feed (app_skip_utf8 cfg) cf_init fs = (ds, None, cf') ->
  run_forever cfg [Established (map AFrame fs ++ ABad e :: junk)] =
  (true, Build_appst false false false false true true cf'
            ([TConnect] ++ open_evs cfg false ++ feed_evs cfg ds ++ loss_evs e
             ++ ev_if (on_error cfg) (TError (EExn e)) ++ final_close_evs (loss_open e) ++ closing_evs cfg None)).
Proof.
  intros Hn Hnc Hf. unfold run_forever. rewrite attempts_single. unfold st_init.
  rewrite set_sock_established_nice by assumption. cbn [andb app].
  rewrite (conn_frames cfg fs _ ds cf') by assumption. cbn [length].
  rewrite dispatch_bad.
  destruct (handle_disconnect cfg (EExn e) false _) as [fl s1] eqn:E1.
  destruct (teardown cfg None s1) as [fl2 s2] eqn:E2.
  rewrite (hd_then_teardown _ _ _ _ _ _ _ _ _ _ _ _ _ Hn (EExn_not_kbd _) E1 E2).
  cbn [has_errored]. f_equal. f_equal. unfold final_close_evs.
  destruct (loss_open e); cbn [andb app]; rewrite <- ?app_assoc; reflexivity.
Qed.

Lemma run_ping_timeout cfg fs junk ds cf' : cfg_nice cfg ->
  no_close fs = true -> feed (app_skip_utf8 cfg) cf_init fs = (ds, None, cf') ->
  run_forever cfg [Established (map AFrame fs ++ APingTimeout :: junk)] =
  (true, Build_appst false false false false true true cf'
            ([TConnect] ++ open_evs cfg false ++ feed_evs cfg ds
             ++ ev_if (on_error cfg) (TError (EExn TimedOut)) ++ [TCloseFrameSent; TSockClosed] ++ closing_evs cfg None)).
Proof.
  intros Hn Hnc Hf. unfold run_forever. rewrite attempts_single. unfold st_init.
  rewrite set_sock_established_nice by assumption. cbn [andb app].
  rewrite (conn_frames cfg fs _ ds cf') by assumption. cbn [length dispatch_fuel keep_running negb].
  destruct (handle_disconnect cfg (EExn TimedOut) false _) as [fl s1] eqn:E1.
  destruct (teardown cfg None s1) as [fl2 s2] eqn:E2.
  rewrite (hd_then_teardown _ _ _ _ _ _ _ _ _ _ _ _ _ Hn (EExn_not_kbd _) E1 E2).
  cbn [has_errored andb app]. rewrite <- ?app_assoc. reflexivity.
Qed.

(* the connection attempt fails *)
Lemma run_failed cfg a x : cfg_nice cfg ->
  (a = Refused /\ x = ERefused) \/ (exists st, a = Rejected st /\ x = EExn (BadStatus st)) ->
  run_forever cfg [a] =
  (true, Build_appst false false false false true true cf_init
           ([TConnect] ++ ev_if (on_error cfg) (TError x) ++ closing_evs cfg None)).
Proof.
  intros Hn Ha. unfold run_forever. rewrite attempts_single. unfold st_init.
  assert (E : set_sock cfg a false (Build_appst true false false false false false cf_init [])
              = handle_disconnect cfg x false (Build_appst true true false false false false cf_init [TConnect])).
  { destruct Ha as [[-> ->] | (st & -> & ->)]; reflexivity. }
  rewrite E.
  destruct (handle_disconnect cfg x false _) as [fl s1] eqn:E1.
  destruct (teardown cfg None s1) as [fl2 s2] eqn:E2.
  assert (Hx : x <> EKbd) by (destruct Ha as [[_ ->] | (st & _ & ->)]; discriminate).
  rewrite (hd_then_teardown _ _ _ _ _ _ _ _ _ _ _ _ _ Hn Hx E1 E2).
  cbn [has_errored andb app]. rewrite <- ?app_assoc. reflexivity.
Qed.

Lemma accepted_feed skip fs : accepted skip fs ->
  no_close fs = true /\ exists ds cf', feed skip cf_init fs = (ds, None, cf').
Proof.
  intros [H1 H2]. split; [assumption|]. destruct (feed skip cf_init fs) as [[ds e] cf']. cbn in H2. subst. eauto.
Qed.

Lemma cb_evs_ret cfg m e : m = Ret -> cb_evs cfg m e = [e].
Proof. intros ->. reflexivity. Qed.

(* C14 (c), positive direction: the code and reason of the server's close frame reach on_close *)
Theorem C14_args_server_close : forall cfg fs closef junk,
  cfg_nice cfg -> on_close cfg = Ret -> accepted (app_skip_utf8 cfg) fs -> a_opcode closef = 8 ->
  exists pre, trace (snd (run_forever cfg [Established (map AFrame fs ++ AFrame closef :: junk)]))
              = pre ++ [TClose (fst (close_info (a_data closef))) (snd (close_info (a_data closef)))].
Proof.
  intros cfg fs closef junk Hn Hc Ha H8. destruct (accepted_feed _ _ Ha) as (Hnc & ds & cf' & Hf).
  rewrite (run_server_close cfg fs closef junk ds cf' Hn Hnc Hf H8). cbn [snd trace].
  unfold closing_evs. rewrite cb_evs_ret by assumption. rewrite close_args_info by congruence.
  eexists. rewrite !app_assoc. reflexivity.
Qed.

Theorem C14_args_server_close_code : forall cfg fs closef junk b0 b1 reason,
  cfg_nice cfg -> on_close cfg = Ret -> accepted (app_skip_utf8 cfg) fs -> a_opcode closef = 8 ->
  a_data closef = b0 :: b1 :: reason ->
  exists pre, trace (snd (run_forever cfg [Established (map AFrame fs ++ AFrame closef :: junk)]))
              = pre ++ [TClose (Some (256 * b0 + b1)) (Some reason)].
Proof.
  intros cfg fs closef junk b0 b1 reason Hn Hc Ha H8 Hd.
  destruct (C14_args_server_close cfg fs closef junk Hn Hc Ha H8) as [pre E]. rewrite Hd in E. now exists pre.
Qed.

Theorem C14_args_server_close_empty : forall cfg fs closef junk,
  cfg_nice cfg -> on_close cfg = Ret -> accepted (app_skip_utf8 cfg) fs -> a_opcode closef = 8 ->
  a_data closef = [] ->
  exists pre, trace (snd (run_forever cfg [Established (map AFrame fs ++ AFrame closef :: junk)]))
              = pre ++ [TClose None None].
Proof.
  intros cfg fs closef junk Hn Hc Ha H8 Hd.
  destruct (C14_args_server_close cfg fs closef junk Hn Hc Ha H8) as [pre E]. rewrite Hd in E. now exists pre.
Qed.

Theorem C14_ret_false_server_close : forall cfg fs closef junk,
  cfg_nice cfg -> accepted (app_skip_utf8 cfg) fs -> a_opcode closef = 8 ->
  fst (run_forever cfg [Established (map AFrame fs ++ AFrame closef :: junk)]) = false.
Proof.
  intros cfg fs closef junk Hn Ha H8. destruct (accepted_feed _ _ Ha) as (Hnc & ds & cf' & Hf).
  rewrite (run_server_close cfg fs closef junk ds cf' Hn Hnc Hf H8). reflexivity.
Qed.

Lemma ev_if_ret m e : m = Ret -> ev_if m e = [e].
Proof. intros ->. reflexivity. Qed.

Theorem C14_ret_true_on_loss : forall cfg fs e junk,
  cfg_nice cfg -> accepted (app_skip_utf8 cfg) fs ->
  let r := run_forever cfg [Established (map AFrame fs ++ ABad e :: junk)] in
  fst r = true /\ (on_error cfg = Ret -> In (TError (EExn e)) (trace (snd r))).
Proof.
  intros cfg fs e junk Hn Ha. destruct (accepted_feed _ _ Ha) as (Hnc & ds & cf' & Hf). cbv zeta.
  rewrite (run_loss cfg fs e junk ds cf' Hn Hnc Hf). split; [reflexivity|].
  intro He. cbn [snd trace]. rewrite (ev_if_ret _ _ He).
  rewrite !in_app_iff. cbn [In]. intuition.
Qed.

Theorem C14_ret_true_ping_timeout : forall cfg fs junk,
  cfg_nice cfg -> accepted (app_skip_utf8 cfg) fs ->
  let r := run_forever cfg [Established (map AFrame fs ++ APingTimeout :: junk)] in
  fst r = true /\ (on_error cfg = Ret -> In (TError (EExn TimedOut)) (trace (snd r))).
Proof.
  intros cfg fs junk Hn Ha. destruct (accepted_feed _ _ Ha) as (Hnc & ds & cf' & Hf). cbv zeta.
  rewrite (run_ping_timeout cfg fs junk ds cf' Hn Hnc Hf). split; [reflexivity|].
  intro He. cbn [snd trace]. rewrite (ev_if_ret _ _ He).
  rewrite !in_app_iff. cbn [In]. intuition.
Qed.

Theorem C14_ret_true_refused : forall cfg, cfg_nice cfg ->
  let r := run_forever cfg [Refused] in
  fst r = true /\ (on_error cfg = Ret -> In (TError ERefused) (trace (snd r))).
Proof.
  intros cfg Hn. cbv zeta. rewrite (run_failed cfg Refused ERefused Hn) by (left; split; reflexivity).
  split; [reflexivity|]. intro He. cbn [snd trace]. rewrite (ev_if_ret _ _ He). right. now left.
Qed.

Theorem C14_ret_true_rejected : forall cfg st, cfg_nice cfg ->
  let r := run_forever cfg [Rejected st] in
  fst r = true /\ (on_error cfg = Ret -> In (TError (EExn (BadStatus st))) (trace (snd r))).
Proof.
  intros cfg st Hn. cbv zeta.
  rewrite (run_failed cfg (Rejected st) (EExn (BadStatus st)) Hn) by (right; exists st; split; reflexivity).
  split; [reflexivity|]. intro He. cbn [snd trace]. rewrite (ev_if_ret _ _ He). right. now left.
Qed.

(* the application closes itself from on_open: the run ends at once, returns False, reports no error;
   whatever the script says would have happened next is not looked at *)
Theorem C14_ret_false_own_close : forall cfg evs rest,
  on_open cfg = CallClose -> nice (on_close cfg) -> nice (on_error cfg) ->
  run_forever cfg (Established evs :: rest) =
  (false, Build_appst false false false false false true cf_init
            ([TConnect; TOpen; TCloseFrameSent; TSockClosed] ++ closing_evs cfg None)).
Proof.
  intros cfg evs rest Ho Hc He. unfold run_forever. cbn [attempts_loop].
  assert (E : set_sock cfg (Established evs) false st_init =
              (Normal, Build_appst false false false false false false cf_init [TConnect; TOpen; TCloseFrameSent; TSockClosed])).
  { unfold set_sock, st_init. flat. cbn [andb]. rewrite Ho. cbn [callback]. unfold app_close. flat.
    rewrite sock_close_spec. unfold sc_evs. flat. cbn [andb app negb]. reflexivity. }
  rewrite E. cbn [keep_running]. rewrite andb_false_r.
  unfold teardown. cbn [torn_down]. destruct (close_args cfg None) as [c r] eqn:Ec. flat.
  rewrite callback_nice by assumption. unfold closing_evs. rewrite Ec. reflexivity.
Qed.

Corollary C14_ret_false_own_close_no_error : forall cfg evs rest,
  on_open cfg = CallClose -> plain (on_close cfg) -> nice (on_error cfg) ->
  let r := run_forever cfg (Established evs :: rest) in
  fst r = false /\ forall e, ~ In (TError e) (trace (snd r)).
Proof.
  intros cfg evs rest Ho Hc He. cbv zeta.
  rewrite C14_ret_false_own_close by auto using plain_nice. split; [reflexivity|].
  intros e. cbn [snd trace]. unfold closing_evs. destruct Hc as [-> | ->]; cbn; intuition discriminate.
Qed.

(* ================================================================================== *)
(* 7. C15: reconnection                                                                *)
(* ================================================================================== *)

Lemma count_connect_zero l : Forall (fun e => is_connect_ev e = false) l <-> count_connect l = 0%nat.
Proof.
  induction l as [|e r IH]; [split; [reflexivity|constructor]|].
  rewrite count_connect_cons. split.
  - intro H. inversion H; subst. rewrite H2. apply IH in H3. lia.
  - intro H. destruct (is_connect_ev e) eqn:E; [lia|]. constructor; [assumption|]. apply IH. lia.
Qed.

(* every connection attempt shows as exactly one TConnect, preceded at most by the release of the old transport *)
Lemma set_sock_shape cfg a rc s fl s' : set_sock cfg a rc s = (fl, s') ->
  exists l0 l1, trace s' = trace s ++ l0 ++ TConnect :: l1 /\ count_connect l1 = 0%nat /\ (l0 = [] \/ l0 = [TSockClosed]).
Proof.
  intro H.
  set (G := fun e => is_connect_ev e = false).
  assert (G_other : forall e, is_close_ev e = false -> is_connect_ev e = false -> G e) by (intros; assumption).
  assert (G_close0 : G (TClose None None)) by reflexivity.
  assert (Ha : att_ok cfg G a) by (destruct a; cbn; auto; intros f _ _ c r _; reflexivity).
  destruct (X_set_sock cfg G G_other G_close0 _ _ _ _ _ Ha H) as (l0 & l1 & T & _ & G1 & S0).
  exists l0, l1. split; [assumption|]. split; [now apply count_connect_zero|assumption].
Qed.

Lemma teardown_no_connect cfg fr s fl s' : teardown cfg fr s = (fl, s') ->
  exists l, trace s' = trace s ++ l /\ count_connect l = 0%nat.
Proof.
  intro H.
  set (G := fun e => is_connect_ev e = false).
  assert (G_other : forall e, is_close_ev e = false -> is_connect_ev e = false -> G e) by (intros; assumption).
  assert (HG : Gf cfg G fr) by (intros c r _; reflexivity).
  destruct (X_teardown cfg G G_other _ _ _ _ HG H) as (l & T & Gl).
  exists l. split; [assumption | now apply count_connect_zero].
Qed.

Lemma conn_frames_gen cfg fs tail ds eo cf' e tr : cfg_nice cfg ->
  no_close fs = true -> feed (app_skip_utf8 cfg) cf_init fs = (ds, eo, cf') ->
  dispatch_loop cfg (map AFrame fs ++ tail) (Build_appst true true true true e false cf_init tr) =
  match eo with
  | None => dispatch_fuel (S (length tail)) cfg tail (Build_appst true true true true e false cf' (tr ++ feed_evs cfg ds))
  | Some x => (LoopExn (EExn x), Build_appst true true true true e false cf' (tr ++ feed_evs cfg ds))
  end.
Proof.
  intros Hn Hnc Hf. unfold dispatch_loop. rewrite app_length, map_length, <- Nat.add_succ_r.
  rewrite dispatch_frames; [|assumption|assumption|apply cf_noclose_init|reflexivity].
  cbn [a_cf]. rewrite Hf. reflexivity.
Qed.

(* an attempt that fails, or a connection that is lost (no close frame from the server) *)
Definition abnormal (a : attempt) : Prop :=
  a = Refused \/ (exists st, a = Rejected st) \/
  exists fs t junk, a = Established (map AFrame fs ++ t :: junk) /\ no_close fs = true /\
                    (t = APingTimeout \/ exists e, t = ABad e).

Lemma abn_step cfg a rc h c o e cf tr : cfg_nice cfg -> reconnect cfg <> 0 -> abnormal a ->
  exists h' c' o' cf' tr',
    set_sock cfg a rc (Build_appst true h c o e false cf tr) = (Normal, Build_appst true h' c' o' true false cf' tr').
Proof.
  intros Hn Hr Ha. assert (R : negb (reconnect cfg =? 0) = true) by lia.
  destruct Ha as [-> | [[st ->] | (fs & t & junk & -> & Hnc & Ht)]].
  - unfold set_sock. flat. destruct (rc && h && o); flat;
      (rewrite handle_disconnect_nice; [|assumption|discriminate]); cbv zeta; rewrite R; repeat eexists.
  - unfold set_sock. flat. destruct (rc && h && o); flat;
      (rewrite handle_disconnect_nice; [|assumption|discriminate]); cbv zeta; rewrite R; repeat eexists.
  - rewrite set_sock_established_nice by assumption.
    destruct (feed (app_skip_utf8 cfg) cf_init fs) as [[ds eo] cf'] eqn:Hf.
    rewrite (conn_frames_gen cfg fs _ ds eo cf') by assumption.
    destruct eo as [x|].
    + rewrite handle_disconnect_nice; [|assumption|discriminate]. cbv zeta; rewrite R; repeat eexists.
    + destruct Ht as [-> | [x ->]].
      * cbn [dispatch_fuel keep_running negb].
        rewrite handle_disconnect_nice; [|assumption|discriminate]. cbv zeta; rewrite R; repeat eexists.
      * cbn [length]. rewrite dispatch_bad.
        rewrite handle_disconnect_nice; [|assumption|discriminate]. cbv zeta; rewrite R; repeat eexists.
Qed.

Lemma retry_loop cfg (Hn : cfg_nice cfg) (Hr : reconnect cfg <> 0) fails : Forall abnormal fails ->
  forall last rc h c o e cf tr, LiveI (Build_appst true h c o e false cf tr) ->
  exists rc' h' c' o' e' cf' tr',
    attempts_loop cfg (fails ++ [last]) rc (Build_appst true h c o e false cf tr)
    = set_sock cfg last rc' (Build_appst true h' c' o' e' false cf' tr') /\
    LiveI (Build_appst true h' c' o' e' false cf' tr') /\
    count_connect tr' = (count_connect tr + length fails)%nat /\
    (fails = [] -> rc' = rc) /\ (fails <> [] -> rc' = true).
Proof.
  induction 1 as [|a rest Ha Hrest IH]; intros last rc h c o e cf tr HL.
  { exists rc, h, c, o, e, cf, tr. cbn [app length]. rewrite attempts_single.
    split; [reflexivity|]. split; [assumption|]. split; [lia|]. split; [reflexivity|congruence]. }
  destruct (abn_step cfg a rc h c o e cf tr Hn Hr Ha) as (h1 & c1 & o1 & cf1 & tr1 & E1).
  cbn [app attempts_loop]. rewrite E1. cbn [keep_running].
  assert (R : negb (reconnect cfg =? 0) = true) by lia. rewrite R. cbn [andb].
  assert (L1 : LiveI (Build_appst true h1 c1 o1 true false cf1 tr1)).
  { destruct (set_sock_post _ _ _ _ _ _ E1 HL) as [P | [(T & _) _]]; [assumption | discriminate T]. }
  destruct (set_sock_shape _ _ _ _ _ _ E1) as (l0 & l1 & T & C1 & S0). cbn [trace] in T.
  destruct (IH last true h1 c1 o1 true cf1 tr1 L1) as (rc' & h' & c' & o' & e' & cf' & tr' & E & L & C & F1 & F2).
  exists true, h', c', o', e', cf', tr'.
  assert (Erc : rc' = true).
  { destruct rest; [now apply F1 | apply F2; discriminate]. }
  subst rc'. split; [assumption|]. split; [assumption|]. split.
  - rewrite C, T. tr_simp. destruct S0 as [-> | ->]; tr_simp; cbn [length]; lia.
  - split; [discriminate|reflexivity].
Qed.

Lemma LiveI_st_init_lit : LiveI (Build_appst true false false false false false cf_init []).
Proof. split; reflexivity. Qed.

(* C15 (h): every abnormal loss is followed by a new attempt; on_close is not called in between *)
Theorem C15_retry : forall cfg fails last, cfg_nice cfg -> reconnect cfg <> 0 -> Forall abnormal fails ->
  let tr := trace (snd (run_forever cfg (fails ++ [last]))) in
  count_connect tr = (length fails + 1)%nat /\
  exists t1 t2, tr = t1 ++ TConnect :: t2 /\ count_connect t2 = 0%nat /\ count_close t1 = 0%nat.
Proof.
  intros cfg fails last Hn Hr Hf. cbv zeta. unfold run_forever, st_init.
  destruct (retry_loop cfg Hn Hr fails Hf last false false false false false cf_init [] LiveI_st_init_lit)
    as (rc' & h' & c' & o' & e' & cf' & tr' & E & L & C & _ & _).
  rewrite E.
  destruct (set_sock cfg last rc' _) as [fl1 s1] eqn:E1.
  destruct (set_sock_shape _ _ _ _ _ _ E1) as (l0 & l1 & T & C1 & S0). cbn [trace] in T.
  destruct (teardown cfg None s1) as [fl2 s2] eqn:E2. cbn [snd].
  destruct (teardown_no_connect _ _ _ _ _ E2) as (l2 & T2 & C2).
  assert (Tr : trace s2 = (tr' ++ l0) ++ TConnect :: (l1 ++ l2)).
  { rewrite T2, T. rewrite <- !app_assoc. cbn [app]. reflexivity. }
  destruct L as [_ L]. cbn [trace] in L. cbn [count_connect filter length] in C.
  split.
  - rewrite Tr. tr_simp. destruct S0 as [-> | ->]; tr_simp; lia.
  - exists (tr' ++ l0), (l1 ++ l2). split; [assumption|]. split; [tr_simp; lia|].
    tr_simp. destruct S0 as [-> | ->]; tr_simp; lia.
Qed.

(* C15 (j): once an attempt has ended the run, the rest of the script is never looked at *)
Lemma attempts_stop cfg env2 env1 : forall rc s fl s', env1 <> [] ->
  attempts_loop cfg env1 rc s = (fl, s') ->
  fl = Kbd \/ keep_running s' = false \/ reconnect cfg = 0 ->
  attempts_loop cfg (env1 ++ env2) rc s = (fl, s').
Proof.
  induction env1 as [|a rest IH]; intros rc s fl s' Hne H Hstop; [congruence|].
  cbn [app attempts_loop] in *.
  destruct (set_sock cfg a rc s) as [fl1 s1] eqn:E1.
  destruct fl1; [|assumption].
  destruct (negb (reconnect cfg =? 0) && keep_running s1) eqn:C; [|assumption].
  destruct rest as [|b rest'].
  - cbn [attempts_loop] in H. inversion H; subst. apply andb_prop in C. destruct C as [C1 C2].
    destruct Hstop as [X | [X | X]]; [discriminate X | congruence | lia].
  - apply IH; [discriminate|assumption|assumption].
Qed.

Definition run_ended (cfg : appcfg) (env : list attempt) : Prop :=
  let '(fl, s) := attempts_loop cfg env false st_init in
  fl = Kbd \/ keep_running s = false \/ reconnect cfg = 0.

Theorem C15_stop : forall cfg env1 env2, env1 <> [] -> run_ended cfg env1 ->
  run_forever cfg (env1 ++ env2) = run_forever cfg env1.
Proof.
  intros cfg env1 env2 Hne He. unfold run_ended in He. unfold run_forever.
  destruct (attempts_loop cfg env1 false st_init) as [fl s] eqn:E.
  rewrite (attempts_stop cfg env2 env1 _ _ _ _ Hne E He). reflexivity.
Qed.

Lemma app_nonempty {A} (l : list A) x : l ++ [x] <> [].
Proof. destruct l; discriminate. Qed.

(* a close frame from the server, accepted on a connection (possibly after failed attempts), ends the run *)
Theorem C15_stop_server_close : forall cfg fails fs closef junk env2,
  cfg_nice cfg -> Forall abnormal fails -> accepted (app_skip_utf8 cfg) fs -> a_opcode closef = 8 ->
  let last := Established (map AFrame fs ++ AFrame closef :: junk) in
  run_forever cfg ((fails ++ [last]) ++ env2) = run_forever cfg (fails ++ [last]).
Proof.
  intros cfg fails fs closef junk env2 Hn Hf Ha H8 last. apply C15_stop; [apply app_nonempty|].
  unfold run_ended. destruct (attempts_loop cfg (fails ++ [last]) false st_init) as [fl s] eqn:E.
  destruct (Z.eq_dec (reconnect cfg) 0) as [R0|Hr]; [now right; right|].
  right. left. unfold st_init in E.
  destruct (retry_loop cfg Hn Hr fails Hf last false false false false false cf_init [] LiveI_st_init_lit)
    as (rc' & h' & c' & o' & e' & cf' & tr' & E' & _).
  rewrite E' in E. subst last. rewrite set_sock_established_nice in E by assumption.
  destruct (accepted_feed _ _ Ha) as (Hnc & ds & cf2 & Hfeed).
  rewrite (conn_frames cfg fs _ ds cf2) in E by assumption. cbn [length] in E.
  rewrite dispatch_close_nice in E by assumption. inversion E; subst. reflexivity.
Qed.

Lemma dispatch_other_close cfg n r s : keep_running s = true ->
  dispatch_fuel (S n) cfg (AOtherClose :: r) s = (LoopDone, app_close s).
Proof. intro K. cbn [dispatch_fuel]. rewrite K. cbn [negb]. apply dispatch_stopped, app_close_keep. Qed.

(* the application's own close(), from another thread while the loop waits, ends the run *)
Theorem C15_stop_own_close : forall cfg fails fs junk env2,
  cfg_nice cfg -> Forall abnormal fails -> accepted (app_skip_utf8 cfg) fs ->
  let last := Established (map AFrame fs ++ AOtherClose :: junk) in
  run_forever cfg ((fails ++ [last]) ++ env2) = run_forever cfg (fails ++ [last]).
Proof.
  intros cfg fails fs junk env2 Hn Hf Ha last. apply C15_stop; [apply app_nonempty|].
  unfold run_ended. destruct (attempts_loop cfg (fails ++ [last]) false st_init) as [fl s] eqn:E.
  destruct (Z.eq_dec (reconnect cfg) 0) as [R0|Hr]; [now right; right|].
  right. left. unfold st_init in E.
  destruct (retry_loop cfg Hn Hr fails Hf last false false false false false cf_init [] LiveI_st_init_lit)
    as (rc' & h' & c' & o' & e' & cf' & tr' & E' & _).
  rewrite E' in E. subst last. rewrite set_sock_established_nice in E by assumption.
  destruct (accepted_feed _ _ Ha) as (Hnc & ds & cf2 & Hfeed).
  rewrite (conn_frames cfg fs _ ds cf2) in E by assumption.
  rewrite dispatch_other_close in E by reflexivity. inversion E; subst. apply app_close_keep.
Qed.

(* ... and so does close() called by a callback (here: on_open of the first connection) *)
Theorem C15_stop_callback_close : forall cfg evs rest,
  on_open cfg = CallClose -> nice (on_close cfg) -> nice (on_error cfg) ->
  run_forever cfg (Established evs :: rest) = run_forever cfg [Established evs] /\
  count_connect (trace (snd (run_forever cfg (Established evs :: rest)))) = 1%nat.
Proof.
  intros cfg evs rest Ho Hc He. rewrite !C14_ret_false_own_close by assumption. split; [reflexivity|].
  cbn [snd trace]. tr_simp. unfold closing_evs.
  destruct Hc as [-> | [-> | ->]]; cbn [cb_evs]; tr_simp; try reflexivity.
  destruct (on_error cfg); reflexivity.
Qed.

(* ================================================================================== *)
(* 8. C13: delivery of messages, pings and pongs                                       *)
(* ================================================================================== *)

(* what the application must see for one item of the server's stream *)
Definition item_evs (cfg : appcfg) (it : item) : list tev :=
  match it with
  | ItMsg op d =>
      let is_text := (op =? 1) && negb (app_skip_utf8 cfg) in
      cb_evs cfg (on_data cfg) (TData d op true is_text) ++ cb_evs cfg (on_message cfg) (TMessage d is_text)
  | ItPing d => cb_evs cfg (on_ping cfg) (TPing d)
  | ItPong d => cb_evs cfg (on_pong cfg) (TPong d)
  | ItClose _ => []
  end.
Definition expected (cfg : appcfg) (its : list item) : list tev := flat_map (item_evs cfg) its.

(* a text message that is not UTF-8 ends the connection (it is C06's subject); delivery is claimed up to there *)
Definition bad_item (skip : bool) (it : item) : bool :=
  match it with ItMsg op d => (op =? 1) && negb skip && negb (wf_utf8 d) | _ => false end.
Fixpoint good_prefix (skip : bool) (its : list item) : list item :=
  match its with
  | [] => []
  | it :: r => if bad_item skip it then [] else it :: good_prefix skip r
  end.

Lemma good_prefix_all skip its : forallb (fun it => negb (bad_item skip it)) its = true -> good_prefix skip its = its.
Proof.
  induction its as [|it r IH]; [reflexivity|]. cbn [forallb good_prefix]. intro H. apply andb_prop in H.
  destruct H as [H1 H2]. apply negb_true_iff in H1. rewrite H1, IH by assumption. reflexivity.
Qed.

Lemma items_data cf f r : is_data (a_opcode f) = true ->
  items (c_data cf) (wframe_of f :: r) =
  if a_fin f =? 0 then items (Some (cur_msg cf f)) r
  else ItMsg (fst (cur_msg cf f)) (snd (cur_msg cf f)) :: items None r.
Proof.
  intro H. apply is_data_cases in H. cbn [items wframe_of wh h_opcode h_fin wpayload].
  unfold OP_PING, OP_PONG, OP_CLOSE, cur_msg.
  assert (E9 : (a_opcode f =? 9) = false) by lia.
  assert (E10 : (a_opcode f =? 10) = false) by lia.
  assert (E8 : (a_opcode f =? 8) = false) by lia.
  rewrite E9, E10, E8. destruct (c_data cf) as [[op0 d0]|]; reflexivity.
Qed.

Lemma deliver_evs_msg cfg op d : op = 1 \/ op = 2 -> deliver_evs cfg op d = item_evs cfg (ItMsg op d).
Proof. intros [-> | ->]; reflexivity. Qed.

Lemma feed_items cfg fs : forall cf,
  nf_inv cf -> Forall abnf_ok fs ->
  legal_seq (negb (app_skip_utf8 cfg)) (inprog cf) (map wframe_of fs) = true -> no_close fs = true ->
  feed_evs cfg (fst (fst (feed (app_skip_utf8 cfg) cf fs)))
  = expected cfg (good_prefix (app_skip_utf8 cfg) (items (c_data cf) (map wframe_of fs))).
Proof.
  set (skip := app_skip_utf8 cfg).
  induction fs as [|f r IH]; intros cf Hinv Hall Hleg Hnc; [reflexivity|].
  inversion Hall as [|? ? Hf Hr]; subst.
  cbn [map legal_seq] in Hleg. cbn [no_close forallb] in Hnc.
  apply andb_prop in Hnc. destruct Hnc as [Hnc8 Hncr]. fold (no_close r) in Hncr.
  destruct (frame_verdict (negb skip) (wframe_of f)) eqn:V; try discriminate Hleg.
  cbn [andb] in Hleg. apply andb_prop in Hleg. destruct Hleg as [Hs Hleg].
  destruct (legal_facts _ _ V) as [Hk Hlen]. cbn [wframe_of wh h_opcode wpayload] in Hk, Hlen.
  unfold OP_CLOSE in Hnc8.
  cbn [map feed].
  destruct (known_cases _ Hk) as [Hd | [E | [E | E]]].
  - (* data frame *)
    rewrite (seq_next_data _ _ Hd) in Hleg.
    rewrite <- (next_recving_inprog cf f (nf_inv_wf _ Hinv) Hd Hs) in Hleg.
    destruct (nf_cur cf f Hinv Hf Hd Hs) as (Hop & Hok & Hrv).
    rewrite items_data by assumption.
    rewrite hf_data_ok by assumption. rewrite orb_false_r. cbn [negb andb].
    destruct Hf as [[Hfin | Hfin] _].
    + rewrite Hfin. cbn [Z.eqb negb s_out s_cf].
      apply (IH {| c_data := Some (cur_msg cf f); c_recving := next_recving cf f |}); try assumption.
      unfold nf_inv. cbn [c_data c_recving]. destruct (cur_msg cf f) as [op0 d0]. cbn [fst snd] in *. auto.
    + rewrite Hfin. cbn [Z.eqb negb].
      assert (Hnr : next_recving cf f = 0) by (unfold next_recving; rewrite Hfin; reflexivity).
      rewrite Hnr in *.
      assert (IH' : feed_evs cfg (fst (fst (feed skip {| c_data := None; c_recving := 0 |} r)))
                    = expected cfg (good_prefix skip (items None (map wframe_of r)))).
      { apply (IH {| c_data := None; c_recving := 0 |}); try assumption. reflexivity. }
      destruct (cur_msg cf f) as [op0 d0]. cbn [fst snd] in *.
      rewrite (validator_correct d0 Hok). cbn [good_prefix bad_item].
      destruct ((op0 =? 1) && negb skip && negb (wf_utf8 d0)); cbn [s_out s_cf]; [reflexivity|].
      destruct (feed skip {| c_data := None; c_recving := 0 |} r) as [[ds eo] cf'].
      cbn [fst snd feed_evs flat_map expected with_data a_data] in *. unfold feed_evs, expected in *.
      rewrite IH', deliver_evs_msg by assumption. reflexivity.
  - rewrite E in Hnc8. discriminate Hnc8.
  - (* ping *)
    assert (Hnd : is_data (a_opcode f) = false) by (rewrite E; reflexivity).
    unfold seq_next in Hleg. cbn [wframe_of wh h_opcode] in Hleg. rewrite Hnd in Hleg.
    rewrite hf_ping by (auto; apply Hlen; rewrite E; reflexivity). cbn [s_out s_cf].
    cbn [items wframe_of wh h_opcode wpayload]. rewrite E. cbn [OP_PING Z.eqb Pos.eqb good_prefix bad_item].
    specialize (IH cf Hinv Hr Hleg Hncr).
    destruct (feed skip cf r) as [[ds eo] cf'].
    cbn [fst snd feed_evs flat_map expected] in *. unfold feed_evs, expected in *. rewrite IH. reflexivity.
  - (* pong *)
    assert (Hnd : is_data (a_opcode f) = false) by (rewrite E; reflexivity).
    unfold seq_next in Hleg. cbn [wframe_of wh h_opcode] in Hleg. rewrite Hnd in Hleg.
    rewrite hf_pong by auto. cbn [s_out s_cf].
    cbn [items wframe_of wh h_opcode wpayload]. rewrite E. cbn [OP_PING OP_PONG Z.eqb Pos.eqb good_prefix bad_item].
    specialize (IH cf Hinv Hr Hleg Hncr).
    destruct (feed skip cf r) as [[ds eo] cf'].
    cbn [fst snd feed_evs flat_map expected] in *. unfold feed_evs, expected in *. rewrite IH. reflexivity.
Qed.

Definition GT (e : tev) : Prop := True.
Lemma X_GT_Ext s s' : X GT s s' -> Ext s s'.
Proof. intros (l & T & _). now exists l. Qed.
Lemma GT_other : forall e, is_close_ev e = false -> is_connect_ev e = false -> GT e.
Proof. intros; exact I. Qed.

Lemma Ext_refl s : Ext s s.
Proof. exists []. now rewrite app_nil_r. Qed.

Lemma Ext_handle_disconnect cfg e rc s fl s' : handle_disconnect cfg e rc s = (fl, s') -> Ext s s'.
Proof. intro H. apply (handle_disconnect_err _ _ _ _ _ _ H). Qed.

Lemma Ext_attempts cfg env rc s fl s' : attempts_loop cfg env rc s = (fl, s') -> Ext s s'.
Proof.
  intro H. apply X_GT_Ext. eapply (X_attempts cfg GT GT_other I I); [|eassumption].
  apply Forall_forall. intros [| |evs] _; cbn; auto. intros f _ _ c r _. exact I.
Qed.

(* whatever the first attempt leaves behind stays in the trace of the run *)
Lemma run_ext cfg a more fl1 s1 : set_sock cfg a false st_init = (fl1, s1) ->
  Ext s1 (snd (run_forever cfg (a :: more))).
Proof.
  intro E1. unfold run_forever. cbn [attempts_loop]. rewrite E1.
  assert (E2 : exists fl2 s2, (match fl1 with
                               | Normal => if negb (reconnect cfg =? 0) && keep_running s1
                                           then attempts_loop cfg more true s1 else (Normal, s1)
                               | Kbd => (Kbd, s1) end) = (fl2, s2) /\ Ext s1 s2).
  { destruct fl1; [|eexists _, _; split; [reflexivity|apply Ext_refl]].
    destruct (negb (reconnect cfg =? 0) && keep_running s1); [|eexists _, _; split; [reflexivity|apply Ext_refl]].
    destruct (attempts_loop cfg more true s1) as [fl2 s2] eqn:E. exists fl2, s2. split; [reflexivity|].
    eapply Ext_attempts; eauto. }
  destruct E2 as (fl2 & s2 & E2 & X2).
  replace (match set_sock cfg a false st_init with _ => _ end) with (fl2, s2) by (rewrite E1, <- E2; destruct fl1; reflexivity).
  destruct (teardown cfg None s2) as [fl3 s3] eqn:E3. cbn [snd].
  eapply Ext_trans; [exact X2|]. apply Q_Ext. eapply Q_teardown; eauto.
Qed.

Lemma set_sock_frames_ext cfg fs tail ds eo cf' fl s1 : cfg_nice cfg ->
  no_close fs = true -> feed (app_skip_utf8 cfg) cf_init fs = (ds, eo, cf') ->
  set_sock cfg (Established (map AFrame fs ++ tail)) false st_init = (fl, s1) ->
  exists rest, trace s1 = [TConnect] ++ open_evs cfg false ++ feed_evs cfg ds ++ rest.
Proof.
  intros Hn Hnc Hf H. unfold st_init in H. rewrite set_sock_established_nice in H by assumption.
  rewrite (conn_frames_gen cfg fs tail ds eo cf') in H by assumption. cbn [andb app] in H.
  set (S' := Build_appst true true true true false false cf' _) in H.
  assert (E : Ext S' s1).
  { destruct eo as [x|].
    - eapply Ext_handle_disconnect; eauto.
    - destruct (dispatch_fuel _ cfg tail S') as [le s4] eqn:E4.
      pose proof (Q_Ext _ _ (Q_dispatch _ _ _ _ _ _ E4)) as X4.
      destruct le; [inversion H; subst; assumption | |];
        (eapply Ext_trans; [exact X4|]; eapply Ext_handle_disconnect; eauto). }
  destruct E as [l T]. exists l. rewrite T. subst S'. cbn [trace app]. rewrite <- ?app_assoc. reflexivity.
Qed.

Lemma cbs_of_cb_evs cfg m e : is_cb e = true -> cbs_of (cb_evs cfg m e) = cb_evs cfg m e.
Proof.
  intro H. unfold cb_evs. destruct m; tr_simp; rewrite ?H; try reflexivity.
  destruct (on_error cfg); reflexivity.
Qed.

Lemma cbs_of_deliver_evs cfg op d : cbs_of (deliver_evs cfg op d) = deliver_evs cfg op d.
Proof.
  unfold deliver_evs. destruct (op =? 9); [now apply cbs_of_cb_evs|].
  destruct (op =? 10); [now apply cbs_of_cb_evs|]. cbv zeta.
  rewrite cbs_of_app, !cbs_of_cb_evs by reflexivity. reflexivity.
Qed.

Lemma cbs_of_feed_evs cfg ds : cbs_of (feed_evs cfg ds) = feed_evs cfg ds.
Proof.
  induction ds as [|p r IH]; [reflexivity|]. unfold feed_evs in *. cbn [flat_map].
  rewrite cbs_of_app, cbs_of_deliver_evs, IH. reflexivity.
Qed.

Lemma cbs_of_open_evs cfg rc : cbs_of (open_evs cfg rc) = open_evs cfg rc.
Proof. unfold open_evs. destruct (rc && negb _); now apply cbs_of_cb_evs. Qed.

(* C13 (f): on_open first, then every item of the stream, once, in order, a raising callback
   being reported and not stopping the following deliveries; whatever ends the connection *)
Theorem C13_trace : forall cfg fs tail more,
  cfg_nice cfg -> Forall abnf_ok fs -> frames_legal (app_skip_utf8 cfg) fs = true -> no_close fs = true ->
  exists rest,
    cbs (snd (run_forever cfg (Established (map AFrame fs ++ tail) :: more))) =
    cb_evs cfg (on_open cfg) TOpen
    ++ expected cfg (good_prefix (app_skip_utf8 cfg) (items None (map wframe_of fs))) ++ rest.
Proof.
  intros cfg fs tail more Hn Hall Hleg Hnc.
  destruct (set_sock cfg (Established (map AFrame fs ++ tail)) false st_init) as [fl s1] eqn:E1.
  destruct (feed (app_skip_utf8 cfg) cf_init fs) as [[ds eo] cf'] eqn:Hf.
  destruct (set_sock_frames_ext cfg fs tail ds eo cf' fl s1 Hn Hnc Hf E1) as [rest1 T1].
  destruct (run_ext cfg _ more _ _ E1) as [rest2 T2].
  pose proof (feed_items cfg fs cf_init nf_inv_init Hall Hleg Hnc) as FI. rewrite Hf in FI. cbn [fst c_data cf_init] in FI.
  exists (cbs_of rest1 ++ cbs_of rest2). unfold cbs. rewrite T2, T1.
  rewrite !cbs_of_app, cbs_of_open_evs, cbs_of_feed_evs, FI. cbn [cbs_of filter is_cb app].
  unfold open_evs. cbn [andb]. rewrite <- !app_assoc. reflexivity.
Qed.

(* when every text message is well formed (or validation is off) the whole stream is delivered *)
Corollary C13_trace_all : forall cfg fs tail more,
  cfg_nice cfg -> Forall abnf_ok fs -> frames_legal (app_skip_utf8 cfg) fs = true -> no_close fs = true ->
  forallb (fun it => negb (bad_item (app_skip_utf8 cfg) it)) (items None (map wframe_of fs)) = true ->
  exists rest,
    cbs (snd (run_forever cfg (Established (map AFrame fs ++ tail) :: more))) =
    cb_evs cfg (on_open cfg) TOpen ++ expected cfg (items None (map wframe_of fs)) ++ rest.
Proof.
  intros cfg fs tail more Hn Hall Hleg Hnc Hgood.
  destruct (C13_trace cfg fs tail more Hn Hall Hleg Hnc) as [rest E]. exists rest.
  now rewrite good_prefix_all in E.
Qed.

(* ---------------- C13 (g) / C15 (i): the first callback of a connection ---------------- *)

Lemma callback_first cfg m ev s fl s' : m <> Absent -> callback cfg m ev s = (fl, s') ->
  exists l, trace s' = trace s ++ ev :: l.
Proof.
  intros Hm H. unfold callback in H.
  assert (A : forall s0, exists l, trace (app_close s0) = trace s0 ++ l).
  { intro s0. destruct (Q_app_close s0) as [_ (l & T & _)]. now exists l. }
  destruct m; [congruence| | destruct (on_error cfg) | |]; inversion H; subst; proj;
    try (exists []; reflexivity); try (exists [TError ECallback]; rewrite <- app_assoc; reflexivity).
  destruct (A (emit s ev)) as [l T]. exists l. rewrite T. proj. rewrite <- app_assoc. reflexivity.
Qed.

(* which callback announces a connection, and with which event *)
Definition open_mode (cfg : appcfg) (rc : bool) : cbmode :=
  if rc && negb (match on_reconnect cfg with Absent => true | _ => false end) then on_reconnect cfg else on_open cfg.
Definition open_ev (cfg : appcfg) (rc : bool) : tev :=
  if rc && negb (match on_reconnect cfg with Absent => true | _ => false end) then TReconnect else TOpen.

Lemma set_sock_open_first cfg evs rc s fl s' : set_sock cfg (Established evs) rc s = (fl, s') ->
  open_mode cfg rc <> Absent ->
  exists l0 l1 post, trace s' = trace s ++ l0 ++ TConnect :: l1 /\ (l0 = [] \/ l0 = [TSockClosed]) /\
                     cbs_of l1 = open_ev cfg rc :: post.
Proof.
  intros H Hm. unfold set_sock in H.
  set (s0 := if rc && has_sock s && sock_open s then _ else s) in H.
  assert (L0 : exists l0, trace s0 = trace s ++ l0 /\ (l0 = [] \/ l0 = [TSockClosed])).
  { subst s0. destruct (rc && has_sock s && sock_open s).
    - exists [TSockClosed]. split; [reflexivity|now right].
    - exists []. split; [now rewrite app_nil_r|now left]. }
  clearbody s0. destruct L0 as (l0 & T0 & S0).
  set (s2 := set_cf _ cf_init) in H.
  assert (T2 : trace s2 = trace s ++ l0 ++ [TConnect]) by (subst s2; proj; rewrite T0; now rewrite app_assoc).
  clearbody s2.
  destruct (if rc && negb _ then _ else _) as [fl3 s3] eqn:E3.
  assert (T3 : exists l, trace s3 = trace s2 ++ open_ev cfg rc :: l).
  { unfold open_mode, open_ev in *. destruct (rc && negb _); eapply callback_first; eauto. }
  destruct T3 as (l3 & T3).
  assert (Fin : forall s4, Ext s3 s4 -> exists l0 l1 post, trace s4 = trace s ++ l0 ++ TConnect :: l1 /\
                 (l0 = [] \/ l0 = [TSockClosed]) /\ cbs_of l1 = open_ev cfg rc :: post).
  { intros s4 [l4 T4]. exists l0, (open_ev cfg rc :: l3 ++ l4), (cbs_of (l3 ++ l4)).
    split; [|split; [assumption|]].
    - rewrite T4, T3, T2. rewrite <- !app_assoc. reflexivity.
    - rewrite cbs_of_cons. unfold open_ev. destruct (rc && negb _); reflexivity. }
  destruct fl3; [|apply Fin; eapply Ext_handle_disconnect; eauto].
  destruct (negb (has_sock s3)); [inversion H; subst; apply Fin, Ext_refl|].
  destruct (dispatch_loop cfg evs s3) as [le s4] eqn:E4. unfold dispatch_loop in E4.
  pose proof (Q_Ext _ _ (Q_dispatch _ _ _ _ _ _ E4)) as X4.
  destruct le; [inversion H; subst; now apply Fin | |];
    apply Fin; (eapply Ext_trans; [exact X4|]); eapply Ext_handle_disconnect; eauto.
Qed.

(* C13 (g): the callbacks of a connection begin with on_open (on_reconnect), for any callbacks whatsoever *)
Theorem C13_open_first : forall cfg evs rc s fl s', set_sock cfg (Established evs) rc s = (fl, s') ->
  open_mode cfg rc <> Absent ->
  exists l post, trace s' = trace s ++ l /\ cbs_of l = open_ev cfg rc :: post.
Proof.
  intros cfg evs rc s fl s' H Hm.
  destruct (set_sock_open_first _ _ _ _ _ _ H Hm) as (l0 & l1 & post & T & S0 & C).
  exists (l0 ++ TConnect :: l1), post. split; [assumption|].
  rewrite cbs_of_app, cbs_of_cons, C. destruct S0 as [-> | ->]; reflexivity.
Qed.

Corollary C13_open_first_run : forall cfg evs more, on_open cfg <> Absent ->
  exists post, cbs (snd (run_forever cfg (Established evs :: more))) = TOpen :: post.
Proof.
  intros cfg evs more Ho.
  destruct (set_sock cfg (Established evs) false st_init) as [fl s1] eqn:E1.
  destruct (C13_open_first _ _ _ _ _ _ E1 Ho) as (l & post & T & C).
  destruct (run_ext cfg _ more _ _ E1) as [rest T2].
  exists (post ++ cbs_of rest). unfold cbs. rewrite T2, T. cbn [st_init trace app].
  rewrite cbs_of_app, C. reflexivity.
Qed.

Lemma decomp_unique (t l0 l1 l0' l1' : list tev) :
  t ++ l0 ++ TConnect :: l1 = t ++ l0' ++ TConnect :: l1' ->
  (l0 = [] \/ l0 = [TSockClosed]) -> (l0' = [] \/ l0' = [TSockClosed]) -> l0 = l0' /\ l1 = l1'.
Proof.
  intros H A B. apply app_inv_head in H.
  destruct A as [-> | ->], B as [-> | ->]; cbn [app] in H; inversion H; subst; split; reflexivity.
Qed.

(* C15 (i): after a loss, the connection that succeeds announces itself by on_reconnect, or by
   on_open when no on_reconnect was given, before anything else; no on_close came before *)
Theorem C15_resume : forall cfg fails evs, cfg_nice cfg -> reconnect cfg <> 0 -> Forall abnormal fails -> fails <> [] ->
  exists t1 t2, trace (snd (run_forever cfg (fails ++ [Established evs]))) = t1 ++ TConnect :: t2 /\
    count_connect t2 = 0%nat /\ count_close t1 = 0%nat /\
    (on_reconnect cfg <> Absent -> exists post, cbs_of t2 = TReconnect :: post) /\
    (on_reconnect cfg = Absent -> on_open cfg <> Absent -> exists post, cbs_of t2 = TOpen :: post).
Proof.
  intros cfg fails evs Hn Hr Hf Hne. unfold run_forever, st_init.
  destruct (retry_loop cfg Hn Hr fails Hf (Established evs) false false false false false cf_init [] LiveI_st_init_lit)
    as (rc' & h' & c' & o' & e' & cf' & tr' & E & L & C & _ & Hrc).
  rewrite E. rewrite (Hrc Hne) in *.
  destruct (set_sock cfg (Established evs) true _) as [fl1 s1] eqn:E1.
  destruct (set_sock_shape _ _ _ _ _ _ E1) as (l0 & l1 & T & C1 & S0). cbn [trace] in T.
  destruct (teardown cfg None s1) as [fl2 s2] eqn:E2. cbn [snd].
  destruct (teardown_no_connect _ _ _ _ _ E2) as (l2 & T2 & C2).
  exists (tr' ++ l0), (l1 ++ l2).
  destruct L as [_ L]. cbn [trace] in L.
  split; [rewrite T2, T; rewrite <- !app_assoc; reflexivity|].
  split; [tr_simp; lia|]. split; [tr_simp; destruct S0 as [-> | ->]; tr_simp; lia|].
  assert (First : open_mode cfg true <> Absent -> exists post, cbs_of (l1 ++ l2) = open_ev cfg true :: post).
  { intro Hm. destruct (set_sock_open_first _ _ _ _ _ _ E1 Hm) as (l0' & l1' & post & T' & S0' & C').
    cbn [trace] in T'. rewrite T in T'. destruct (decomp_unique _ _ _ _ _ T' S0 S0') as [_ ->].
    exists (post ++ cbs_of l2). rewrite cbs_of_app, C'. reflexivity. }
  unfold open_mode, open_ev in First. cbn [andb] in First. split.
  - intro Hx. destruct (on_reconnect cfg); [congruence|..]; apply First; discriminate.
  - intros Hx Ho. rewrite Hx in First. cbn [negb] in First. now apply First.
Qed.

(* ---------------- legal frames whose text messages are UTF-8 are accepted ---------------- *)

Definition items_good (skip : bool) (its : list item) : bool := forallb (fun it => negb (bad_item skip it)) its.

Lemma feed_ok skip fs : forall cf,
  nf_inv cf -> Forall abnf_ok fs ->
  legal_seq (negb skip) (inprog cf) (map wframe_of fs) = true -> no_close fs = true ->
  items_good skip (items (c_data cf) (map wframe_of fs)) = true ->
  snd (fst (feed skip cf fs)) = None.
Proof.
  induction fs as [|f r IH]; intros cf Hinv Hall Hleg Hnc Hgood; [reflexivity|].
  inversion Hall as [|? ? Hf Hr]; subst.
  cbn [map legal_seq] in Hleg. cbn [no_close forallb] in Hnc.
  apply andb_prop in Hnc. destruct Hnc as [Hnc8 Hncr]. fold (no_close r) in Hncr.
  destruct (frame_verdict (negb skip) (wframe_of f)) eqn:V; try discriminate Hleg.
  cbn [andb] in Hleg. apply andb_prop in Hleg. destruct Hleg as [Hs Hleg].
  destruct (legal_facts _ _ V) as [Hk Hlen]. cbn [wframe_of wh h_opcode wpayload] in Hk, Hlen.
  unfold OP_CLOSE in Hnc8.
  cbn [map feed] in *.
  destruct (known_cases _ Hk) as [Hd | [E | [E | E]]].
  - rewrite (seq_next_data _ _ Hd) in Hleg.
    rewrite <- (next_recving_inprog cf f (nf_inv_wf _ Hinv) Hd Hs) in Hleg.
    destruct (nf_cur cf f Hinv Hf Hd Hs) as (Hop & Hok & Hrv).
    rewrite items_data in Hgood by assumption.
    rewrite hf_data_ok by assumption. rewrite orb_false_r. cbn [negb andb].
    destruct Hf as [[Hfin | Hfin] _].
    + rewrite Hfin in *. cbn [Z.eqb negb s_out s_cf] in *.
      apply (IH {| c_data := Some (cur_msg cf f); c_recving := next_recving cf f |}); try assumption.
      unfold nf_inv. cbn [c_data c_recving]. destruct (cur_msg cf f) as [op0 d0]. cbn [fst snd] in *. auto.
    + rewrite Hfin in *. cbn [Z.eqb negb] in *.
      assert (Hnr : next_recving cf f = 0) by (unfold next_recving; rewrite Hfin; reflexivity).
      rewrite Hnr in *.
      destruct (cur_msg cf f) as [op0 d0]. cbn [fst snd] in *.
      unfold items_good in Hgood. cbn [forallb bad_item] in Hgood. apply andb_prop in Hgood. destruct Hgood as [G1 G2].
      apply negb_true_iff in G1. rewrite (validator_correct d0 Hok), G1. cbn [s_out s_cf].
      assert (IH' : snd (fst (feed skip {| c_data := None; c_recving := 0 |} r)) = None).
      { apply (IH {| c_data := None; c_recving := 0 |}); try assumption. reflexivity. }
      destruct (feed skip {| c_data := None; c_recving := 0 |} r) as [[ds eo] cf']. exact IH'.
  - rewrite E in Hnc8. discriminate Hnc8.
  - assert (Hnd : is_data (a_opcode f) = false) by (rewrite E; reflexivity).
    unfold seq_next in Hleg. cbn [wframe_of wh h_opcode] in Hleg. rewrite Hnd in Hleg.
    rewrite hf_ping by (auto; apply Hlen; rewrite E; reflexivity). cbn [s_out s_cf].
    cbn [items wframe_of wh h_opcode wpayload] in Hgood. rewrite E in Hgood.
    cbn [OP_PING Z.eqb Pos.eqb] in Hgood. unfold items_good in Hgood. cbn [forallb bad_item negb andb] in Hgood.
    specialize (IH cf Hinv Hr Hleg Hncr Hgood).
    destruct (feed skip cf r) as [[ds eo] cf']. exact IH.
  - assert (Hnd : is_data (a_opcode f) = false) by (rewrite E; reflexivity).
    unfold seq_next in Hleg. cbn [wframe_of wh h_opcode] in Hleg. rewrite Hnd in Hleg.
    rewrite hf_pong by auto. cbn [s_out s_cf].
    cbn [items wframe_of wh h_opcode wpayload] in Hgood. rewrite E in Hgood.
    cbn [OP_PING OP_PONG Z.eqb Pos.eqb] in Hgood. unfold items_good in Hgood. cbn [forallb bad_item negb andb] in Hgood.
    specialize (IH cf Hinv Hr Hleg Hncr Hgood).
    destruct (feed skip cf r) as [[ds eo] cf']. exact IH.
Qed.

(* the hypotheses of C04_reassembly, plus UTF-8 text, imply acceptance *)
Theorem legal_accepted : forall skip fs,
  Forall abnf_ok fs -> frames_legal skip fs = true -> no_close fs = true ->
  items_good skip (items None (map wframe_of fs)) = true -> accepted skip fs.
Proof.
  intros skip fs Hall Hleg Hnc Hg. split; [assumption|].
  apply (feed_ok skip fs cf_init nf_inv_init Hall Hleg Hnc Hg).
Qed.

(* C14 (c), positive direction, under the hypotheses of C04_reassembly *)
Corollary C14_args_server_close_legal : forall cfg fs closef junk,
  cfg_plain cfg -> on_close cfg = Ret ->
  Forall abnf_ok fs -> frames_legal (app_skip_utf8 cfg) fs = true -> no_close fs = true ->
  items_good (app_skip_utf8 cfg) (items None (map wframe_of fs)) = true ->
  a_opcode closef = 8 ->
  let r := run_forever cfg [Established (map AFrame fs ++ AFrame closef :: junk)] in
  fst r = false /\
  exists pre, trace (snd r) = pre ++ [TClose (fst (close_info (a_data closef))) (snd (close_info (a_data closef)))].
Proof.
  intros cfg fs closef junk Hp Hc Hall Hleg Hnc Hg H8. cbv zeta.
  pose proof (legal_accepted _ _ Hall Hleg Hnc Hg) as Ha. pose proof (cfg_plain_nice _ Hp) as Hn.
  split; [now apply C14_ret_false_server_close | now apply C14_args_server_close].
Qed.

(* ================================================================================== *)
(* 9. C15 (k): one transport at a time, each released exactly once                     *)
(* ================================================================================== *)

Definition is_sockclosed (e : tev) : bool := match e with TSockClosed => true | _ => false end.
Definition sc (tr : list tev) : nat := length (filter is_sockclosed tr).
Definition b2n (b : bool) : nat := if b then 1 else 0.

Lemma sc_app a b : sc (a ++ b) = (sc a + sc b)%nat.
Proof. unfold sc. now rewrite filter_app, app_length. Qed.
Lemma sc_cons e l : sc (e :: l) = (b2n (is_sockclosed e) + sc l)%nat.
Proof. unfold sc. cbn [filter]. destruct (is_sockclosed e); reflexivity. Qed.
Lemma sc_nil : sc [] = 0%nat.
Proof. reflexivity. Qed.
#[local] Hint Rewrite sc_app sc_cons sc_nil : sct.
Ltac sc_simp := autorewrite with sct in *; cbn [is_sockclosed b2n] in *.

(* app.sock is None only when no transport is open *)
Definition Tidy (s : appst) : Prop := has_sock s = false -> sock_open s = false.
(* transports are conserved: released ones are counted in the trace, the live one in the state *)
Definition K (s s' : appst) : Prop :=
  Tidy s -> Tidy s' /\ (sc (trace s') + b2n (sock_open s') = sc (trace s) + b2n (sock_open s))%nat.

Lemma K_refl s : K s s.
Proof. intro T. split; [assumption|reflexivity]. Qed.
Lemma K_trans a b c : K a b -> K b c -> K a c.
Proof. intros H1 H2 T. destruct (H1 T) as [T1 E1]. destruct (H2 T1) as [T2 E2]. split; [assumption|lia]. Qed.

Lemma K_emit s e : is_sockclosed e = false -> K s (emit s e).
Proof. intros He T. split; [exact T|]. proj. sc_simp. rewrite He. cbn. lia. Qed.
Lemma K_set_cf s c : K s (set_cf s c).
Proof. intros T. split; [exact T|reflexivity]. Qed.
(* flag updates that do not touch the transport and do not drop app.sock *)
Lemma K_flags s k c e t : K s (set_flags s k (has_sock s) c (sock_open s) e t).
Proof. intros T. split; [exact T|reflexivity]. Qed.

Lemma K_sock_close s : K s (sock_close s).
Proof.
  intros T. rewrite sock_close_spec. split; [intros _; reflexivity|]. proj. unfold sc_evs.
  destruct (sock_connected s && sock_open s), (sock_open s); sc_simp; lia.
Qed.

Lemma K_app_close s : K s (app_close s).
Proof.
  intros T. unfold app_close. proj. destruct (has_sock s) eqn:Eh.
  - set (s1 := set_flags s false true _ _ _ _).
    destruct (K_sock_close s1) as [_ E1]; [intros X; discriminate X|].
    split; [intros _; reflexivity|]. proj. rewrite sock_close_spec in *. proj. subst s1. proj. lia.
  - split; [|reflexivity]. intros _. proj. now apply T.
Qed.

Lemma K_callback cfg m ev s fl s' : is_sockclosed ev = false -> callback cfg m ev s = (fl, s') -> K s s'.
Proof.
  intros Hev H. unfold callback in H.
  assert (E1 : K s (emit s ev)) by now apply K_emit.
  assert (E2 : K s (emit (emit s ev) (TError ECallback))) by (eapply K_trans; [exact E1 | now apply K_emit]).
  destruct m; [| | destruct (on_error cfg) | |]; inversion H; subst; auto using K_refl.
  eapply K_trans; [exact E1|apply K_app_close].
Qed.

Lemma K_report_error cfg e s fl s' : report_error cfg e s = (fl, s') -> K s s'.
Proof.
  intro H. unfold report_error in H.
  assert (E1 : K s (emit s (TError e))) by now apply K_emit.
  destruct (on_error cfg); inversion H; subst; auto using K_refl.
  eapply K_trans; [exact E1|apply K_app_close].
Qed.

Lemma K_teardown cfg fr s fl s' : teardown cfg fr s = (fl, s') -> K s s'.
Proof.
  intro H. unfold teardown in H. destruct (torn_down s); [inversion H; subst; apply K_refl|].
  destruct (close_args cfg fr) as [c r].
  set (s3 := set_flags _ false false false false _ true) in H.
  assert (K3 : K s s3).
  { intros T. subst s3. proj. split; [intros _; reflexivity|]. proj.
    destruct (has_sock s) eqn:Eh.
    - set (s1 := set_flags s false true _ _ _ true).
      destruct (K_sock_close s1) as [_ E1]; [intros X; discriminate X|].
      rewrite sock_close_spec in *. proj. subst s1. proj. lia.
    - proj. rewrite (T Eh). reflexivity. }
  eapply K_trans; [exact K3|]. eapply K_callback; [|eassumption]. reflexivity.
Qed.

Lemma K_handle_disconnect cfg e rc s fl s' : handle_disconnect cfg e rc s = (fl, s') -> K s s'.
Proof.
  intro H. unfold handle_disconnect in H.
  set (s1 := set_flags _ _ _ _ _ true _) in H.
  assert (Q1 : K s s1) by apply K_flags. clearbody s1.
  destruct (if rc then (Normal, s1) else report_error cfg e s1) as [fl2 s2] eqn:E2.
  assert (Q2 : K s1 s2).
  { destruct rc; [inversion E2; subst; apply K_refl | eapply K_report_error; eauto]. }
  destruct (teardown cfg None s2) as [fl3 s3] eqn:E3.
  pose proof (K_teardown _ _ _ _ _ E3) as Q3.
  assert (Q02 : K s s2) by (eapply K_trans; eassumption).
  assert (Q03 : K s s3) by (eapply K_trans; eassumption).
  destruct fl2; [destruct e; try destruct (negb (reconnect cfg =? 0))|]; inversion H; subst; assumption.
Qed.

Lemma K_deliver cfg op f s fl s' b : deliver cfg op f s = (fl, s', b) -> K s s'.
Proof.
  intro H. unfold deliver in H.
  destruct (op =? OPCODE_CLOSE).
  { destruct (teardown cfg (Some f) s) as [fl1 s1] eqn:E. inversion H; subst. eapply K_teardown; eauto. }
  destruct (op =? OPCODE_PING).
  { destruct (callback cfg (on_ping cfg) _ s) as [fl1 s1] eqn:E. inversion H; subst.
    eapply K_callback; [|eassumption]. reflexivity. }
  destruct (op =? OPCODE_PONG).
  { destruct (callback cfg (on_pong cfg) _ s) as [fl1 s1] eqn:E. inversion H; subst.
    eapply K_callback; [|eassumption]. reflexivity. }
  destruct (callback cfg (on_data cfg) _ s) as [fl1 s1] eqn:E1.
  assert (L1 : K s s1) by (eapply K_callback; [|eassumption]; reflexivity).
  destruct fl1; [|inversion H; subst; assumption].
  destruct (callback cfg (on_message cfg) _ s1) as [fl2 s2] eqn:E2. inversion H; subst.
  eapply K_trans; [eassumption|]. eapply K_callback; [|eassumption]. reflexivity.
Qed.

Lemma K_dispatch cfg fuel : forall evs s le s', dispatch_fuel fuel cfg evs s = (le, s') -> K s s'.
Proof.
  induction fuel as [|fuel IH]; intros evs s le s' H; cbn [dispatch_fuel] in H.
  { inversion H; subst. apply K_refl. }
  destruct (negb (keep_running s)); [inversion H; subst; apply K_refl|].
  destruct evs as [|[f|e| |] r]; [inversion H; subst; apply K_refl| | | |].
  - set (st := handle_frame _ _ _ _ _ f) in H.
    set (s2 := if existsb _ (s_writes st) then _ else _) in H.
    assert (L2 : K s s2).
    { subst s2. destruct (existsb _ (s_writes st)); [|apply K_set_cf].
      eapply K_trans; [apply (K_set_cf s (s_cf st))|].
      eapply K_trans; [apply (K_emit (set_cf s (s_cf st)) TCloseFrameSent eq_refl)|].
      apply (K_flags (emit (set_cf s (s_cf st)) TCloseFrameSent)). }
    clearbody s2. destruct (s_out st) as [op f'| |e].
    + destruct (deliver cfg op f' s2) as [[fl s3] b] eqn:E.
      pose proof (K_deliver _ _ _ _ _ _ _ E) as P.
      destruct fl; [destruct b|]; try (inversion H; subst; eapply K_trans; eassumption).
      eapply K_trans; [eassumption|]. eapply K_trans; [eassumption|]. eapply IH; eauto.
    + eapply K_trans; [eassumption|]. eapply IH; eauto.
    + inversion H; subst. assumption.
  - inversion H; subst. destruct e; try apply K_refl.
    intros T. split; [intros _; reflexivity|]. destruct (sock_open s); proj; sc_simp; lia.
  - inversion H; subst. apply K_refl.
  - eapply K_trans; [apply K_app_close|]. eapply IH; eauto.
Qed.

Definition opens (a : attempt) : nat := match a with Established _ => 1 | _ => 0 end.

(* one attempt: the old transport, if any, is released before TConnect; a new one is live only if the
   attempt succeeds *)
Lemma set_sock_single cfg a rc s fl s' : set_sock cfg a rc s = (fl, s') ->
  Tidy s -> (rc = false -> sock_open s = false) ->
  Tidy s' /\ (sc (trace s') + b2n (sock_open s') = sc (trace s) + b2n (sock_open s) + opens a)%nat /\
  exists l1, trace s' = trace s ++ (if sock_open s then [TSockClosed] else []) ++ TConnect :: l1
             /\ count_connect l1 = 0%nat.
Proof.
  intros H T Hrc.
  (* the shape of the trace *)
  destruct (set_sock_shape _ _ _ _ _ _ H) as (l0 & l1 & Tr & C1 & S0).
  assert (Eo : rc && has_sock s && sock_open s = sock_open s).
  { destruct (sock_open s) eqn:Eo; [|now rewrite andb_false_r].
    destruct rc; [|discriminate (Hrc eq_refl)]. destruct (has_sock s) eqn:Eh; [reflexivity|]. rewrite (T Eh) in Eo. discriminate Eo. }
  unfold set_sock in H. rewrite Eo in H.
  set (s0 := if sock_open s then _ else s) in H.
  set (s1 := emit _ TConnect) in H.
  assert (F1 : has_sock s1 = true /\ sock_open s1 = false /\
               trace s1 = trace s ++ (if sock_open s then [TSockClosed] else []) ++ [TConnect]).
  { subst s1 s0. destruct (sock_open s); proj; rewrite <- ?app_assoc; repeat split; reflexivity. }
  clearbody s1. clear s0. destruct F1 as (Hs1 & Ho1 & T1).
  assert (Tidy1 : Tidy s1) by (intro X; congruence).
  assert (B1 : (sc (trace s1) + b2n (sock_open s1) = sc (trace s) + b2n (sock_open s))%nat).
  { rewrite T1, Ho1. destruct (sock_open s); sc_simp; lia. }
  assert (Fin : forall s4 n, K s1 s4 -> Ext s1 s4 -> n = 0%nat ->
     Tidy s4 /\ (sc (trace s4) + b2n (sock_open s4) = sc (trace s) + b2n (sock_open s) + n)%nat /\
     exists l, trace s4 = trace s ++ (if sock_open s then [TSockClosed] else []) ++ TConnect :: l).
  { intros s4 n K4 [l X4] ->. destruct (K4 Tidy1) as [T4 E4]. split; [assumption|]. split; [lia|].
    exists l. rewrite X4, T1. rewrite <- !app_assoc. reflexivity. }
  assert (Done : forall n, (Tidy s' /\ (sc (trace s') + b2n (sock_open s') = sc (trace s) + b2n (sock_open s) + n)%nat /\
     exists l, trace s' = trace s ++ (if sock_open s then [TSockClosed] else []) ++ TConnect :: l) ->
     Tidy s' /\ (sc (trace s') + b2n (sock_open s') = sc (trace s) + b2n (sock_open s) + n)%nat /\
     exists l1, trace s' = trace s ++ (if sock_open s then [TSockClosed] else []) ++ TConnect :: l1
             /\ count_connect l1 = 0%nat).
  { intros n (A & B & l & Tl). split; [assumption|]. split; [assumption|]. exists l. split; [assumption|].
    rewrite Tl in Tr.
    assert (S0' : (if sock_open s then [TSockClosed] else []) = [] \/ (if sock_open s then [TSockClosed] else []) = [TSockClosed])
      by (destruct (sock_open s); auto).
    destruct (decomp_unique _ _ _ _ _ Tr S0' S0) as [_ ->]. assumption. }
  destruct a as [|st|evs].
  - apply Done. apply Fin; [eapply K_handle_disconnect; eauto | eapply Ext_handle_disconnect; eauto | reflexivity].
  - apply Done. apply Fin; [eapply K_handle_disconnect; eauto | eapply Ext_handle_disconnect; eauto | reflexivity].
  - set (s2 := set_cf _ cf_init) in H.
    assert (F2 : has_sock s2 = true /\ sock_open s2 = true /\ trace s2 = trace s1) by (subst s2; proj; repeat split).
    clearbody s2. destruct F2 as (Hs2 & Ho2 & T2).
    assert (Tidy2 : Tidy s2) by (intro X; congruence).
    assert (Fin2 : forall s4, K s2 s4 -> Ext s2 s4 ->
       Tidy s4 /\ (sc (trace s4) + b2n (sock_open s4) = sc (trace s) + b2n (sock_open s) + 1)%nat /\
       exists l, trace s4 = trace s ++ (if sock_open s then [TSockClosed] else []) ++ TConnect :: l).
    { intros s4 K4 [l X4]. destruct (K4 Tidy2) as [T4 E4]. split; [assumption|].
      split; [rewrite E4, T2, Ho2; rewrite Ho1 in B1; cbn [b2n] in *; lia|].
      exists l. rewrite X4, T2, T1. rewrite <- !app_assoc. reflexivity. }
    apply (Done 1%nat).
    destruct (if rc && negb _ then _ else _) as [fl3 s3] eqn:E3.
    assert (L3 : K s2 s3 /\ Ext s2 s3).
    { destruct (rc && negb _); (split; [eapply K_callback; [|eassumption]; reflexivity |
                                        apply Q_Ext; eapply Q_callback; [|eassumption]; exact I]). }
    destruct L3 as [K3 X3].
    destruct fl3.
    2:{ apply Fin2; [eapply K_trans; [exact K3|]; eapply K_handle_disconnect; eauto
                    | eapply Ext_trans; [exact X3|]; eapply Ext_handle_disconnect; eauto]. }
    destruct (negb (has_sock s3)); [inversion H; subst; now apply Fin2|].
    destruct (dispatch_loop cfg evs s3) as [le s4] eqn:E4. unfold dispatch_loop in E4.
    pose proof (K_dispatch _ _ _ _ _ _ E4) as K4.
    pose proof (Q_Ext _ _ (Q_dispatch _ _ _ _ _ _ E4)) as X4.
    assert (K24 : K s2 s4) by (eapply K_trans; eassumption).
    assert (X24 : Ext s2 s4) by (eapply Ext_trans; eassumption).
    destruct le; [inversion H; subst; now apply Fin2 | |];
      (apply Fin2; [eapply K_trans; [exact K24|]; eapply K_handle_disconnect; eauto
                   | eapply Ext_trans; [exact X24|]; eapply Ext_handle_disconnect; eauto]).
Qed.

(* the number of transports released so far, sampled at each TConnect *)
Fixpoint sc_at_connects (acc : nat) (tr : list tev) : list nat :=
  match tr with
  | [] => []
  | TConnect :: r => acc :: sc_at_connects acc r
  | TSockClosed :: r => sc_at_connects (S acc) r
  | _ :: r => sc_at_connects acc r
  end.
(* the number of transports opened by the attempts before each attempt *)
Fixpoint est_prefixes (acc : nat) (l : list attempt) : list nat :=
  match l with [] => [] | a :: r => acc :: est_prefixes (acc + opens a) r end.
Fixpoint est_among (l : list attempt) : nat := match l with [] => 0%nat | a :: r => (opens a + est_among r)%nat end.

Lemma sac_app a : forall acc b, sc_at_connects acc (a ++ b) = sc_at_connects acc a ++ sc_at_connects (acc + sc a) b.
Proof.
  induction a as [|e r IH]; intros acc b; [cbn; now rewrite Nat.add_0_r|].
  rewrite sc_cons. destruct e; cbn [app sc_at_connects is_sockclosed b2n]; rewrite IH; cbn [app];
    try (f_equal; f_equal; lia); try (f_equal; lia).
Qed.

Lemma sac_noconn l : forall acc, count_connect l = 0%nat -> sc_at_connects acc l = [].
Proof.
  induction l as [|e r IH]; intros acc H; [reflexivity|]. rewrite count_connect_cons in H.
  destruct e; cbn [is_connect_ev] in H; try lia; cbn [sc_at_connects]; apply IH; lia.
Qed.

Lemma sac_length l : forall acc, length (sc_at_connects acc l) = count_connect l.
Proof.
  induction l as [|e r IH]; intros acc; [reflexivity|]. rewrite count_connect_cons.
  destruct e; cbn [sc_at_connects is_connect_ev length]; rewrite IH; reflexivity.
Qed.

Lemma est_prefixes_length l : forall acc, length (est_prefixes acc l) = length l.
Proof. induction l as [|a r IH]; intros acc; [reflexivity|]. cbn [est_prefixes length]. now rewrite IH. Qed.

Lemma attempts_single_transport cfg env : forall rc s fl s', attempts_loop cfg env rc s = (fl, s') ->
  Tidy s -> (rc = false -> sock_open s = false) ->
  exists k l, (k <= length env)%nat /\ Tidy s' /\
    (sc (trace s') + b2n (sock_open s') = sc (trace s) + b2n (sock_open s) + est_among (firstn k env))%nat /\
    trace s' = trace s ++ l /\
    sc_at_connects (sc (trace s)) l = est_prefixes (sc (trace s) + b2n (sock_open s)) (firstn k env).
Proof.
  induction env as [|a rest IH]; intros rc s fl s' H T Hrc; cbn [attempts_loop] in H.
  { inversion H; subst. exists 0%nat, []. cbn. rewrite app_nil_r. repeat split; auto; lia. }
  destruct (set_sock cfg a rc s) as [fl1 s1] eqn:E1.
  destruct (set_sock_single _ _ _ _ _ _ E1 T Hrc) as (T1 & B1 & l1 & Tr1 & C1).
  set (l0 := if sock_open s then [TSockClosed] else []) in *.
  assert (Sl0 : sc l0 = b2n (sock_open s) /\ count_connect l0 = 0%nat) by (subst l0; destruct (sock_open s); split; reflexivity).
  destruct Sl0 as [Sl0 Cl0].
  assert (One : sc_at_connects (sc (trace s)) (l0 ++ TConnect :: l1) = [(sc (trace s) + b2n (sock_open s))%nat]).
  { rewrite sac_app, (sac_noconn l0) by assumption. cbn [app sc_at_connects]. rewrite sac_noconn by assumption.
    now rewrite Sl0. }
  assert (Stop : (fl, s') = (fl1, s1) -> exists k l, (k <= length (a :: rest))%nat /\ Tidy s' /\
    (sc (trace s') + b2n (sock_open s') = sc (trace s) + b2n (sock_open s) + est_among (firstn k (a :: rest)))%nat /\
    trace s' = trace s ++ l /\
    sc_at_connects (sc (trace s)) l = est_prefixes (sc (trace s) + b2n (sock_open s)) (firstn k (a :: rest))).
  { intro X. inversion X; subst. exists 1%nat, (l0 ++ TConnect :: l1). cbn [firstn est_among est_prefixes length].
    split; [lia|]. split; [assumption|]. split; [lia|]. split; assumption. }
  destruct fl1; [|apply Stop; congruence].
  destruct (negb (reconnect cfg =? 0) && keep_running s1); [|apply Stop; congruence].
  destruct (IH true s1 fl s' H T1 (fun X => False_ind _ (diff_true_false X))) as (k & l & Hk & T' & B' & Tr' & S').
  exists (S k), ((l0 ++ TConnect :: l1) ++ l). cbn [firstn est_among est_prefixes length].
  split; [lia|]. split; [assumption|]. split; [lia|]. split; [rewrite Tr', Tr1; now rewrite <- !app_assoc|].
  rewrite sac_app, One. cbn [app]. f_equal.
  replace (sc (trace s) + sc (l0 ++ TConnect :: l1))%nat with (sc (trace s1)) by (rewrite Tr1; sc_simp; lia).
  rewrite S'. f_equal. lia.
Qed.

(* C15 (k): when the k-th connection attempt starts, every transport opened by the earlier attempts has
   been released (so at most one is ever live), and at the end every transport opened has been released,
   each exactly once *)
Theorem C15_single : forall cfg env, exists k, (k <= length env)%nat /\
  let tr := trace (snd (run_forever cfg env)) in
  count_connect tr = k /\
  sc_at_connects 0 tr = est_prefixes 0 (firstn k env) /\
  sc tr = est_among (firstn k env).
Proof.
  intros cfg env. unfold run_forever.
  destruct (attempts_loop cfg env false st_init) as [fl1 s1] eqn:E1.
  assert (T0 : Tidy st_init) by (intro; reflexivity).
  destruct (attempts_single_transport _ _ _ _ _ _ E1 T0 (fun _ => eq_refl)) as (k & l & Hk & T1 & B1 & Tr1 & S1).
  cbn [st_init trace sock_open sc filter length b2n app Nat.add] in B1, Tr1, S1.
  destruct (teardown cfg None s1) as [fl2 s2] eqn:E2. cbn [snd].
  destruct (K_teardown _ _ _ _ _ E2 T1) as [T2 B2].
  destruct (teardown_no_connect _ _ _ _ _ E2) as (l2 & Tr2 & C2).
  assert (O2 : sock_open s2 = false).
  { pose proof (C14_clean cfg env) as Hc. unfold run_forever in Hc. rewrite E1, E2 in Hc. cbn [snd] in Hc. tauto. }
  rewrite O2 in B2. cbn [b2n] in B2.
  assert (SA : sc_at_connects 0 (trace s2) = est_prefixes 0 (firstn k env)).
  { rewrite Tr2, Tr1, sac_app, S1, (sac_noconn l2) by assumption. now rewrite app_nil_r. }
  exists k. split; [assumption|]. cbv zeta. split; [|split; [assumption|lia]].
  rewrite <- (sac_length (trace s2) 0%nat), SA, est_prefixes_length. apply firstn_length_le. assumption.
Qed.

(* ================================================================================== *)
(* 10. C14 (b) for every configuration: after on_close, nothing but error reports      *)
(* ================================================================================== *)

Lemma count_close_errors post : forallb is_error_ev post = true -> count_close post = 0%nat.
Proof.
  induction post as [|e r IH]; [reflexivity|]. cbn [forallb]. intro H. apply andb_prop in H. destruct H as [H1 H2].
  rewrite count_close_cons, IH by assumption. destruct e; try discriminate H1; reflexivity.
Qed.

(* When on_close raises KeyboardInterrupt (or raises while on_error raises KeyboardInterrupt) during the
   teardown triggered by the server's close frame, handleDisconnect still reports the interrupt to
   on_error: see C14_close_last_interrupt_example.  Nothing else can follow on_close. *)
Theorem C14_close_last_any : forall cfg env, on_close cfg <> Absent ->
  exists pre c r post,
    cbs (snd (run_forever cfg env)) = pre ++ [TClose c r] ++ close_tail cfg ++ post /\
    no_close_ev pre /\ forallb is_error_ev post = true.
Proof.
  intros cfg env H. destruct (run_final cfg env) as [(_ & _ & _ & _ & _ & C & (pre & c & r & post & E & F)) _].
  exists pre, c, r, post.
  assert (Ev : ev_if (on_close cfg) (TClose c r) = [TClose c r]) by (destruct (on_close cfg); [congruence|reflexivity..]).
  rewrite Ev in E. split; [exact E|]. split; [|assumption].
  apply count_close_zero. rewrite <- count_close_cbs in C. fold (cbs (snd (run_forever cfg env))) in C.
  rewrite E in C. unfold cn in C. destruct (close_tail_cbs cfg) as [_ T].
  rewrite !count_close_app, T, (count_close_errors post F) in C. cbn in C. destruct (on_close cfg); try congruence; lia.
Qed.

Theorem C15_single_step : forall cfg a rc s fl s', set_sock cfg a rc s = (fl, s') ->
  Tidy s -> (rc = false -> sock_open s = false) ->
  Tidy s' /\ (sc (trace s') + b2n (sock_open s') = sc (trace s) + b2n (sock_open s) + opens a)%nat /\
  exists l1, trace s' = trace s ++ (if sock_open s then [TSockClosed] else []) ++ TConnect :: l1
             /\ count_connect l1 = 0%nat.
Proof. exact set_sock_single. Qed.

(* ================================================================================== *)
(* 11. C14 (d): runs that end without any error return False                           *)
(* ================================================================================== *)

(* no callback raises KeyboardInterrupt; they may return, raise, or call close() *)
Definition no_kbd (cfg : appcfg) : Prop := all_cb (fun m => m <> RaiseKbd) cfg.
(* traffic that is clean: frames, and possibly close() from another thread *)
Definition is_quiet (e : aev) : bool := match e with AFrame _ | AOtherClose => true | _ => false end.
Definition frames_of (evs : list aev) : list abnf :=
  flat_map (fun e => match e with AFrame f => [f] | _ => [] end) evs.

Lemma callback_flow cfg m ev s fl s' : m <> RaiseKbd -> on_error cfg <> RaiseKbd ->
  callback cfg m ev s = (fl, s') -> fl = Normal.
Proof.
  intros Hm He H. unfold callback in H.
  destruct m; [| | destruct (on_error cfg) | |]; inversion H; subst; congruence.
Qed.

Lemma teardown_flow cfg fr s fl s' : no_kbd cfg -> teardown cfg fr s = (fl, s') -> fl = Normal.
Proof.
  intros (No & Nr & Nm & Nd & Ne & Nc & Npi & Npo) H. unfold teardown in H.
  destruct (torn_down s); [now inversion H|]. destruct (close_args cfg fr) as [c r].
  eapply callback_flow; [| |eassumption]; assumption.
Qed.

Lemma deliver_flow cfg op f s fl s' b : no_kbd cfg -> deliver cfg op f s = (fl, s', b) -> fl = Normal.
Proof.
  intros Hk H. pose proof Hk as (No & Nr & Nm & Nd & Ne & Nc & Npi & Npo). unfold deliver in H.
  destruct (op =? OPCODE_CLOSE).
  { destruct (teardown cfg (Some f) s) as [fl1 s1] eqn:E. inversion H; subst. eapply teardown_flow; eauto. }
  destruct (op =? OPCODE_PING).
  { destruct (callback cfg (on_ping cfg) _ s) as [fl1 s1] eqn:E. inversion H; subst. eapply callback_flow; [| |eassumption]; assumption. }
  destruct (op =? OPCODE_PONG).
  { destruct (callback cfg (on_pong cfg) _ s) as [fl1 s1] eqn:E. inversion H; subst. eapply callback_flow; [| |eassumption]; assumption. }
  destruct (callback cfg (on_data cfg) _ s) as [fl1 s1] eqn:E1.
  assert (fl1 = Normal) by (eapply callback_flow; [| |eassumption]; assumption). subst fl1.
  destruct (callback cfg (on_message cfg) _ s1) as [fl2 s2] eqn:E2. inversion H; subst.
  eapply callback_flow; [| |eassumption]; assumption.
Qed.

Lemma dispatch_clean cfg (Hk : no_kbd cfg) fuel : forall evs s le s',
  forallb is_quiet evs = true ->
  snd (fst (feed (app_skip_utf8 cfg) (a_cf s) (frames_of evs))) = None ->
  dispatch_fuel fuel cfg evs s = (le, s') -> le = LoopDone.
Proof.
  induction fuel as [|fuel IH]; intros evs s le s' Hq Hf H; cbn [dispatch_fuel] in H; [now inversion H|].
  destruct (negb (keep_running s)); [now inversion H|].
  destruct evs as [|[f|e| |] r]; [now inversion H| | | |]; try discriminate Hq.
  - cbn [forallb is_quiet andb] in Hq. cbn [frames_of flat_map app feed] in Hf. fold (frames_of r) in Hf.
    destruct (hf_conn false (app_skip_utf8 cfg) true (sock_connected s) true (a_cf s) f) as [Eo Ec].
    rewrite Eo, Ec in H.
    set (st := handle_frame false (app_skip_utf8 cfg) true true (a_cf s) f) in *.
    set (s2 := if existsb _ _ then _ else _) in H.
    assert (C2 : a_cf s2 = s_cf st) by (subst s2; destruct (existsb _ _); reflexivity).
    clearbody s2.
    destruct (s_out st) as [op f'| |x].
    + destruct (feed (app_skip_utf8 cfg) (s_cf st) (frames_of r)) as [[ds eo] cf'] eqn:Ef. cbn [fst snd] in Hf. subst eo.
      destruct (deliver cfg op f' s2) as [[fl s3] b] eqn:E.
      pose proof (deliver_flow _ _ _ _ _ _ _ Hk E). subst fl.
      destruct b; [now inversion H|].
      eapply IH; [exact Hq| |exact H]. rewrite (deliver_cf _ _ _ _ _ _ _ E), C2, Ef. reflexivity.
    + eapply IH; [exact Hq| |exact H]. rewrite C2. exact Hf.
    + discriminate Hf.
  - rewrite dispatch_stopped in H by apply app_close_keep. now inversion H.
Qed.

(* server close, close() from a callback or from another thread, raising callbacks: as long as no
   frame is rejected and the transport does not fail, run_forever returns False and on_error has
   seen nothing but callback exceptions *)
Theorem C14_ret_false_clean : forall cfg evs, no_kbd cfg -> forallb is_quiet evs = true ->
  snd (fst (feed (app_skip_utf8 cfg) cf_init (frames_of evs))) = None ->
  let r := run_forever cfg [Established evs] in
  fst r = false /\ forall e, In (TError e) (trace (snd r)) -> e = ECallback.
Proof.
  intros cfg evs Hk Hq Hf. cbv zeta. unfold run_forever. rewrite attempts_single.
  assert (S1 : exists fl s1, set_sock cfg (Established evs) false st_init = (fl, s1) /\ Q st_init s1).
  { unfold set_sock. cbn [andb].
    set (s2 := set_cf _ cf_init).
    assert (Q2 : Q st_init s2 /\ a_cf s2 = cf_init).
    { subst s2. split; [|reflexivity]. unfold st_init. split; [reflexivity|]. exists [TConnect]. split; [reflexivity|].
      intros _. repeat constructor. }
    clearbody s2. destruct Q2 as [Q2 C2].
    destruct (callback cfg (on_open cfg) TOpen s2) as [fl3 s3] eqn:E3.
    pose proof Hk as (No & Nr & Nm & Nd & Ne & Nc & Npi & Npo).
    assert (fl3 = Normal) by (eapply callback_flow; [| |eassumption]; assumption). subst fl3.
    assert (Q3 : Q st_init s3) by (eapply Q_trans; [exact Q2|]; eapply Q_callback; [|eassumption]; exact I).
    destruct (negb (has_sock s3)); [eexists _, _; split; [reflexivity|assumption]|].
    destruct (dispatch_loop cfg evs s3) as [le s4] eqn:E4. unfold dispatch_loop in E4.
    assert (le = LoopDone).
    { eapply (dispatch_clean cfg Hk); [exact Hq| |exact E4]. rewrite (callback_cf _ _ _ _ _ _ E3), C2. exact Hf. }
    subst le. eexists _, _. split; [reflexivity|]. eapply Q_trans; [exact Q3|]. eapply Q_dispatch; eauto. }
  destruct S1 as (fl & s1 & E1 & Q1). rewrite E1.
  destruct (teardown cfg None s1) as [fl2 s2] eqn:E2. cbn [fst snd].
  assert (Q2 : Q st_init s2) by (eapply Q_trans; [exact Q1|]; eapply Q_teardown; eauto).
  destruct Q2 as [He (l & T & N)]. split; [rewrite He; reflexivity|].
  intros e Hin. rewrite T in Hin. cbn [st_init trace app] in Hin.
  specialize (N eq_refl). unfold noerr in N. rewrite Forall_forall in N. apply (N _ Hin).
Qed.

Print Assumptions C14_close_once.
Print Assumptions C14_close_absent.
Print Assumptions C14_clean.
Print Assumptions C14_close_last_gen.
Print Assumptions C14_close_last.
Print Assumptions C14_close_last_raising.
Print Assumptions C14_close_last_callclose.
Print Assumptions C14_close_last_any.
Print Assumptions C14_close_last_interrupt_example.
Print Assumptions C14_ret_true_reported_partial.
Print Assumptions C14_ret_true_reported_script_artifact.
Print Assumptions C14_ret_false_unreported.
Print Assumptions C14_args.
Print Assumptions C14_args_server_close.
Print Assumptions C14_args_server_close_code.
Print Assumptions C14_args_server_close_empty.
Print Assumptions C14_args_server_close_legal.
Print Assumptions legal_accepted.
Print Assumptions C14_ret_false_server_close.
Print Assumptions C14_ret_true_on_loss.
Print Assumptions C14_ret_true_ping_timeout.
Print Assumptions C14_ret_true_refused.
Print Assumptions C14_ret_true_rejected.
Print Assumptions C14_ret_false_own_close.
Print Assumptions C14_ret_false_own_close_no_error.
Print Assumptions C13_trace.
Print Assumptions C13_trace_all.
Print Assumptions C13_open_first.
Print Assumptions C13_open_first_run.
Print Assumptions C15_retry.
Print Assumptions C15_resume.
Print Assumptions C15_stop.
Print Assumptions C15_stop_server_close.
Print Assumptions C15_stop_own_close.
Print Assumptions C15_stop_callback_close.
Print Assumptions C15_single.
Print Assumptions C15_single_step.
Print Assumptions C14_ret_false_clean.
