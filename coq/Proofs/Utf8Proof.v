(* The regenerated validator (Gen.GenUtils.validate_utf8) decides exactly
   Spec.Utf8.wf_utf8, for every byte string. *)
From Coq Require Import ZArith List Bool Lia.
From WS Require Import Base.Bytes Base.Sweep Base.GenPrelude Spec.Utf8 Gen.GenUtils.
Import ListNotations.
Open Scope Z_scope.

(* Residual requirement of a state: byte ranges still owed, then a well-formed rest. *)
Definition rng := (Z * Z)%type.
Fixpoint wf_need (n : list rng) (l : bytes) : bool :=
  match n, l with
  | [], _ => wf_utf8 l
  | (lo, hi) :: n', b :: r => inr lo hi b && wf_need n' r
  | _ :: _, [] => false
  end.

Definition c_ : rng := (128, 191).
Definition first_need (b : Z) : option (list rng) :=
  if inr 0 127 b then Some []
  else if inr 194 223 b then Some [c_]
  else if b =? 224 then Some [(160, 191); c_]
  else if inr 225 236 b then Some [c_; c_]
  else if b =? 237 then Some [(128, 159); c_]
  else if inr 238 239 b then Some [c_; c_]
  else if b =? 240 then Some [(144, 191); c_; c_]
  else if inr 241 243 b then Some [c_; c_; c_]
  else if b =? 244 then Some [(128, 143); c_; c_]
  else None.

Definition advance (n : list rng) (b : Z) : option (list rng) :=
  match n with
  | [] => first_need b
  | (lo, hi) :: n' => if inr lo hi b then Some n' else None
  end.

Lemma wf_need_nil l : wf_need [] l = wf_utf8 l.
Proof. destruct l; reflexivity. Qed.

Lemma wf_utf8_first b r :
  wf_utf8 (b :: r) = match first_need b with None => false | Some n => wf_need n r end.
Proof.
  unfold first_need. cbn [wf_utf8].
  repeat match goal with
  | |- context [if ?c then _ else _] => destruct c
  end; try reflexivity; cbn [wf_need];
  try (destruct r as [|b1 [|b2 [|b3 r']]]; cbn [wf_need]; unfold c_, cont;
       rewrite ?wf_need_nil, ?andb_false_r, ?andb_assoc; reflexivity).
Qed.

Lemma wf_need_advance n b r :
  wf_need n (b :: r) = match advance n b with None => false | Some n' => wf_need n' r end.
Proof.
  destruct n as [|[lo hi] n']; cbn [advance].
  - rewrite wf_need_nil. apply wf_utf8_first.
  - cbn [wf_need]. destruct (inr lo hi b); reflexivity.
Qed.

(* The automaton's live states and what each still owes. *)
Definition live : list Z := [0; 24; 36; 48; 60; 72; 84; 96].
Definition need (s : Z) : list rng :=
  if s =? 0 then [] else if s =? 24 then [c_] else if s =? 36 then [c_; c_]
  else if s =? 48 then [(160, 191); c_] else if s =? 60 then [(128, 159); c_]
  else if s =? 72 then [(144, 191); c_; c_] else if s =? 84 then [c_; c_; c_]
  else if s =? 96 then [(128, 143); c_; c_] else [(1, 0)].

Definition rng_eqb (a b : rng) := (fst a =? fst b) && (snd a =? snd b).
Fixpoint need_eqb (a b : list rng) : bool :=
  match a, b with
  | [], [] => true
  | x :: a', y :: b' => rng_eqb x y && need_eqb a' b'
  | _, _ => false
  end.
Lemma need_eqb_eq a b : need_eqb a b = true -> a = b.
Proof.
  revert b; induction a as [|[x1 x2] a IH]; destruct b as [|[y1 y2] b]; simpl; try discriminate; auto.
  unfold rng_eqb; simpl. intro H.
  apply andb_prop in H as [H1 H2]. apply andb_prop in H1 as [Ha Hb].
  apply Z.eqb_eq in Ha, Hb. subst. f_equal. now apply IH.
Qed.

Definition step (s b : Z) : Z := fst (decode_step s 0 b).

Lemma decode_step_state_indep s c b : fst (decode_step s c b) = step s b.
Proof. reflexivity. Qed.

(* One sweep over 8 live states x 256 bytes of the REGENERATED table. *)
Definition step_ok (s b : Z) : bool :=
  match advance (need s) b with
  | None => step s b =? UTF8_REJECT
  | Some n' => negb (step s b =? UTF8_REJECT) && existsb (Z.eqb (step s b)) live
               && need_eqb (need (step s b)) n'
  end.

Lemma step_sweep : forallb (fun s => forallb (step_ok s) (zrange 256 0)) live = true.
Proof. vm_compute. reflexivity. Qed.

Lemma step_correct s b : In s live -> 0 <= b < 256 ->
  match advance (need s) b with
  | None => step s b = UTF8_REJECT
  | Some n' => step s b <> UTF8_REJECT /\ In (step s b) live /\ need (step s b) = n'
  end.
Proof.
  intros Hs Hb. pose proof step_sweep as H. rewrite forallb_forall in H.
  specialize (H s Hs). pose proof (forall_range _ _ _ H b ltac:(lia)) as Hok.
  unfold step_ok in Hok. destruct (advance (need s) b) as [n'|].
  - apply andb_prop in Hok as [Hok Hn]. apply andb_prop in Hok as [Hr Hl].
    split; [|split].
    + intro E. rewrite E, Z.eqb_refl in Hr. discriminate.
    + apply existsb_exists in Hl as [x [Hx Hx']]. apply Z.eqb_eq in Hx'. now subst.
    + now apply need_eqb_eq.
  - now apply Z.eqb_eq.
Qed.

(* End of input: accepted exactly in the state that owes nothing. *)
Lemma final_correct s c : In s live ->
  validate_utf8_loop [] s c = match need s with [] => true | _ => false end.
Proof.
  intro Hs. cbn [validate_utf8_loop]. unfold live in Hs. cbn [In] in Hs.
  repeat (destruct Hs as [<-|Hs]; [vm_compute; reflexivity|]). destruct Hs.
Qed.

Lemma loop_correct l : bytes_ok l -> forall s c, In s live ->
  validate_utf8_loop l s c = wf_need (need s) l.
Proof.
  induction l as [|b r IH]; intros Hok s c Hs.
  - rewrite final_correct by assumption. destruct (need s) as [|[? ?] ?]; reflexivity.
  - inversion Hok as [|? ? Hb Hr]; subst.
    rewrite wf_need_advance. cbn [validate_utf8_loop].
    destruct (decode_step s c b) as [s' c'] eqn:E.
    assert (Hs' : s' = step s b) by (rewrite <- (decode_step_state_indep s c b), E; reflexivity).
    pose proof (step_correct s b Hs Hb) as Hstep.
    destruct (advance (need s) b) as [n'|].
    + destruct Hstep as (Hne & Hlive & Hneed).
      rewrite <- Hs' in *. destruct (s' =? UTF8_REJECT) eqn:Er.
      * apply Z.eqb_eq in Er. contradiction.
      * rewrite (IH Hr s' c' Hlive), Hneed. reflexivity.
    + rewrite <- Hs' in Hstep. rewrite Hstep, Z.eqb_refl. reflexivity.
Qed.

Theorem validator_correct l : bytes_ok l -> validate_utf8 l = wf_utf8 l.
Proof.
  intro Hok. unfold validate_utf8.
  rewrite (loop_correct l Hok UTF8_ACCEPT 0).
  - change (need UTF8_ACCEPT) with (need 0) || idtac. vm_compute (need UTF8_ACCEPT). apply wf_need_nil.
  - vm_compute. auto.
Qed.
