(* C16: keepalive (ping thread, select timeout, check()) -- proofs over Model/PingTimer.v and the
   generated comparisons of Gen/GenApp.v. *)
From Coq Require Import ZArith List Bool Lia ZifyBool.
From WS Require Import Base.Res Base.Bytes Base.GenPrelude Gen.GenApp Model.PingTimer.
Import ListNotations.
Open Scope Z_scope.

(* ------------------------------------------------------------------------------------------ *)
(* Isolation of the generated definitions                                                     *)
(* ------------------------------------------------------------------------------------------ *)

Lemma ping_expired_spec now lp lpong T :
  T <> 0 ->
  ping_expired now lp lpong T
  = (negb (lp =? 0) && (now - lp >? T) && ((lpong - lp <? 0) || (lpong - lp >? T))).
Proof.
  intros H. unfold ping_expired, ping_check.
  destruct (T =? 0) eqn:E; [lia|]. cbn [negb]. cbv zeta.
  destruct (negb (lp =? 0) && (now - lp >? T) && ((lpong - lp <? 0) || (lpong - lp >? T))); reflexivity.
Qed.

Lemma ping_expired_T0 now lp lpong : ping_expired now lp lpong 0 = false.
Proof. reflexivity. Qed.

Lemma ping_expired_true_iff now lp lpong T :
  0 < T ->
  (ping_expired now lp lpong T = true <-> lp <> 0 /\ now - lp > T /\ (lpong < lp \/ lpong - lp > T)).
Proof. intros H. rewrite ping_expired_spec by lia. lia. Qed.

Lemma ping_expired_false now lp lpong T :
  0 < T ->
  (lp = 0 \/ now - lp <= T \/ (0 <= lpong - lp /\ lpong - lp <= T)) ->
  ping_expired now lp lpong T = false.
Proof. intros H. rewrite ping_expired_spec by lia. lia. Qed.

(* ------------------------------------------------------------------------------------------ *)
(* (1) argument checks                                                                        *)
(* ------------------------------------------------------------------------------------------ *)

Theorem C16_args : forall I To,
  ping_args_rejected I To = true <->
  ((exists t, To = Some t /\ t <= 0) \/ I < 0 \/
   (exists t, To = Some t /\ t <> 0 /\ I <> 0 /\ I <= t)).
Proof.
  intros I To. unfold ping_args_rejected, is_none, truthy_opt_Z.
  destruct To as [t|]; split.
  - intros H.
    destruct (Z_le_gt_dec t 0); [left; eauto|].
    destruct (Z_lt_ge_dec I 0); [right; left; assumption|].
    right; right. exists t. split; [reflexivity|]. cbn in H. lia.
  - intros [[t' [E H]]|[H|[t' [E H]]]]; try (inversion E; subst t'); lia.
  - cbn. lia.
  - intros [[t' [E H]]|[H|[t' [E H]]]]; try discriminate. cbn. lia.
Qed.

(* ------------------------------------------------------------------------------------------ *)
(* (5) the "two timeouts" bound is false for accepted pairs with T < I <= 2T                   *)
(* ------------------------------------------------------------------------------------------ *)

Example C16_witness_late :
  fst (keepalive 0 3000 2000 false [] 60000) = Detected 12000.
Proof. vm_compute. reflexivity. Qed.

Example C16_witness_never :
  fst (keepalive 0 3000 2000 true [] 60000) = Quiet.
Proof. vm_compute. reflexivity. Qed.

Example C16_witness_late_2100 :
  fst (keepalive 0 2100 2000 false [] 60000) = Detected 42000.
Proof. vm_compute. reflexivity. Qed.

Theorem C16_2T_refuted :
  exists I T pf horizon,
    ping_args_rejected I (Some T) = false /\ 0 < T /\ T < I /\
    (let p := 2 * I in
     match fst (keepalive 0 I T pf [] horizon) with
     | Detected d => d > p + 2 * T
     | Quiet => p + 2 * T < horizon
     end).
Proof.
  exists 3000, 2000, false, 60000.
  split; [reflexivity|]. split; [lia|]. split; [lia|].
  cbv zeta. rewrite C16_witness_late. cbv iota. lia.
Qed.

Theorem C16_2T_refuted_never :
  exists I T pf horizon,
    ping_args_rejected I (Some T) = false /\ 0 < T /\ T < I /\
    (let p := 2 * I in
     fst (keepalive 0 I T pf [] horizon) = Quiet /\ p + 2 * T < horizon).
Proof.
  exists 3000, 2000, true, 60000.
  split; [reflexivity|]. split; [lia|]. split; [lia|].
  cbv zeta. rewrite C16_witness_never. split; [reflexivity|lia].
Qed.

(* ------------------------------------------------------------------------------------------ *)
(* (3, witness) tie artefact: a pong that arrives on the very tick of a ping and is read BEFORE  *)
(* the ping is written (ping_first = false) does not answer that ping                           *)
(* ------------------------------------------------------------------------------------------ *)

(* ping at 6000 and its pong on the same tick, read first: reported at 8000 although a pong
   arrived in [p, p + T] -- so the closed window [p, p+T] is too generous when ping_first = false *)
Example C16_false_alarm_tie_witness :
  fst (keepalive 0 3000 1000 false [(6000, APong)] 10000) = Detected 8000.
Proof. vm_compute. reflexivity. Qed.

Example C16_tie_ping_first_ok :
  fst (keepalive 0 3000 1000 true [(6000, APong)] 10000) = Quiet.
Proof. vm_compute. reflexivity. Qed.

(* unsolicited extra pong long after the answer: harmless in the repaired code *)
Example C16_extra_pong_ok :
  fst (keepalive 0 3000 1000 true [(6010, APong); (8000, APong); (9010, APong)] 10000) = Quiet.
Proof. vm_compute. reflexivity. Qed.

(* negative clock values: last_pong_tm = 0 looks like a pong "after" the ping; hence 0 <= t0 below *)
Example C16_negative_clock_witness :
  fst (keepalive (-10000) 3000 1000 true [(-4000, APong); (-1000, APong)] 0) = Detected (-2000).
Proof. vm_compute. reflexivity. Qed.

(* ------------------------------------------------------------------------------------------ *)
(* One step of t_run, isolated                                                                *)
(* ------------------------------------------------------------------------------------------ *)

Definition loop_time (s : tstate) (arr : list (Z * arrival)) : Z :=
  match arr with (t, _) :: _ => Z.min t (next_check s) | [] => next_check s end.

Definition ping_before (pf : bool) (s : tstate) (arr : list (Z * arrival)) : bool :=
  if pf then next_ping s <=? loop_time s arr else next_ping s <? loop_time s arr.

Definition ping_step (I : Z) (s : tstate) : tstate :=
  {| now := next_ping s; last_ping := next_ping s; last_pong := last_pong s;
     next_ping := next_ping s + I; next_check := next_check s; pings := pings s ++ [next_ping s] |}.

Definition wake (T c lpong : Z) (s : tstate) : tstate :=
  {| now := c; last_ping := last_ping s; last_pong := lpong;
     next_ping := next_ping s; next_check := c + T; pings := pings s |}.

Definition pong_update (s : tstate) (t : Z) (a : arrival) : Z :=
  match a with
  | APong => if last_pong s <? last_ping s then t else last_pong s
  | AData => last_pong s
  end.

Definition loop_step (T : Z) (s : tstate) (arr : list (Z * arrival)) : tstate * list (Z * arrival) :=
  match arr with
  | (t, a) :: r =>
    if t <=? next_check s then (wake T t (pong_update s t a) s, r)
    else (wake T (next_check s) (last_pong s) s, arr)
  | [] => (wake T (next_check s) (last_pong s) s, arr)
  end.

Lemma t_run_S k I T pf arr h s :
  t_run (S k) I T pf arr h s =
  if ping_before pf s arr then
    if h <? next_ping s then (Quiet, s) else t_run k I T pf arr h (ping_step I s)
  else if h <? loop_time s arr then (Quiet, s)
  else let '(s1, arr') := loop_step T s arr in
       if do_check T s1 then (Detected (now s1), s1) else t_run k I T pf arr' h s1.
Proof.
  destruct arr as [|[t a] r]; [reflexivity|].
  cbn [t_run]. unfold ping_before, loop_time, loop_step.
  destruct (if pf then _ else _); [reflexivity|].
  destruct (h <? Z.min t (next_check s)); [reflexivity|].
  destruct (t <=? next_check s); reflexivity.
Qed.

Lemma loop_time_le_nc s arr : loop_time s arr <= next_check s.
Proof. unfold loop_time. destruct arr as [|[t a] r]; lia. Qed.

Lemma loop_time_head s t a r : loop_time s ((t, a) :: r) <= t.
Proof. unfold loop_time. lia. Qed.

Lemma ping_before_true pf s arr : ping_before pf s arr = true -> next_ping s <= loop_time s arr.
Proof. unfold ping_before. destruct pf; lia. Qed.

Lemma ping_before_false pf s arr :
  ping_before pf s arr = false ->
  loop_time s arr <= next_ping s /\ (pf = true -> loop_time s arr < next_ping s).
Proof. unfold ping_before. destruct pf; split; intros; try lia; discriminate. Qed.

(* what the loop's wake-up does *)
Lemma loop_step_spec T s arr s1 arr' :
  loop_step T s arr = (s1, arr') ->
  let c := loop_time s arr in
  now s1 = c /\ last_ping s1 = last_ping s /\ next_ping s1 = next_ping s /\
  pings s1 = pings s /\ next_check s1 = c + T /\
  ((exists a, arr = (c, a) :: arr' /\ last_pong s1 = pong_update s c a) \/
   (arr' = arr /\ last_pong s1 = last_pong s /\ c = next_check s /\
    forall t a r, arr = (t, a) :: r -> next_check s < t)).
Proof.
  unfold loop_step, loop_time. destruct arr as [|[t a] r].
  - intros E; inversion E; subst; cbn. repeat split; try reflexivity.
    right. repeat split; try reflexivity. intros; discriminate.
  - destruct (t <=? next_check s) eqn:Et; intros E; inversion E; subst; cbn.
    + replace (Z.min t (next_check s)) with t by lia.
      repeat split; try reflexivity. left. exists a. split; reflexivity.
    + replace (Z.min t (next_check s)) with (next_check s) by lia.
      repeat split; try reflexivity. right. repeat split; try reflexivity.
      intros t' a' r' E'. inversion E'; subst. lia.
Qed.

(* ------------------------------------------------------------------------------------------ *)
(* Arrivals                                                                                   *)
(* ------------------------------------------------------------------------------------------ *)

Fixpoint arrivals_from (lo : Z) (arr : list (Z * arrival)) : Prop :=
  match arr with
  | [] => True
  | (t, _) :: r => lo <= t /\ arrivals_from t r
  end.

(* times non-decreasing, all >= t0 *)
Definition arrivals_sorted (t0 : Z) (arr : list (Z * arrival)) : Prop := arrivals_from t0 arr.

Lemma arrivals_from_In lo arr : arrivals_from lo arr -> forall t a, In (t, a) arr -> lo <= t.
Proof.
  revert lo. induction arr as [|[t' a'] r IH]; intros lo H t a Hin; [destruct Hin|].
  destruct H as [H1 H2]. destruct Hin as [E|Hin].
  - inversion E; subst; assumption.
  - specialize (IH _ H2 _ _ Hin). lia.
Qed.

Lemma arrivals_from_head lo lo' arr :
  arrivals_from lo arr -> (forall t a r, arr = (t, a) :: r -> lo' <= t) -> arrivals_from lo' arr.
Proof.
  destruct arr as [|[t a] r]; [trivial|]. intros [H1 H2] H. split; [eapply H; reflexivity|assumption].
Qed.

(* ------------------------------------------------------------------------------------------ *)
(* Ping times, step counting                                                                  *)
(* ------------------------------------------------------------------------------------------ *)

Definition ping_time (t0 I : Z) (k : nat) : Z := t0 + (Z.of_nat k + 2) * I.

Definition ping_list (t0 I : Z) (n : nat) : list Z := map (ping_time t0 I) (seq 0 n).

Lemma ping_list_S t0 I n : ping_list t0 I (S n) = ping_list t0 I n ++ [ping_time t0 I n].
Proof. unfold ping_list. rewrite seq_S, map_app. reflexivity. Qed.

Lemma ping_list_length t0 I n : length (ping_list t0 I n) = n.
Proof. unfold ping_list. rewrite map_length, seq_length. reflexivity. Qed.

Lemma ping_list_nth t0 I n k :
  (k < n)%nat -> nth_error (ping_list t0 I n) k = Some (ping_time t0 I k).
Proof.
  intros H. unfold ping_list.
  rewrite nth_error_map, nth_error_nth' with (d := O) by (rewrite seq_length; assumption).
  rewrite seq_nth by assumption. reflexivity.
Qed.

Definition cnt (d T : Z) : Z := if d <? 0 then 0 else d / T + 1.

Lemma cnt_nonneg d T : 0 < T -> 0 <= cnt d T.
Proof.
  intros H. unfold cnt. destruct (Z.ltb_spec d 0); [lia|].
  pose proof (Z.div_pos d T). lia.
Qed.

Lemma cnt_step d T : 0 < T -> 0 <= d -> cnt (d - T) T = cnt d T - 1.
Proof.
  intros H Hd. unfold cnt.
  destruct (Z.ltb_spec d 0); [lia|].
  destruct (Z.ltb_spec (d - T) 0).
  - rewrite Z.div_small by lia. lia.
  - replace d with ((d - T) + 1 * T) at 2 by lia. rewrite Z.div_add by lia. lia.
Qed.

Lemma cnt_mono d1 d2 T : 0 < T -> d1 <= d2 -> cnt d1 T <= cnt d2 T.
Proof.
  intros H Hd. unfold cnt.
  destruct (Z.ltb_spec d1 0); destruct (Z.ltb_spec d2 0); try lia.
  - pose proof (Z.div_pos d2 T). lia.
  - pose proof (Z.div_le_mono d1 d2 T). lia.
Qed.

(* ------------------------------------------------------------------------------------------ *)
(* The basic invariant of a run                                                               *)
(* ------------------------------------------------------------------------------------------ *)

Section Run.
Variables (t0 I T : Z) (pf : bool) (horizon : Z).
Hypothesis HT : 0 < T.
Hypothesis HI : 0 < I.

Record Inv (s : tstate) (arr : list (Z * arrival)) : Prop := {
  inv_np : now s <= next_ping s;
  inv_nc1 : now s <= next_check s;
  inv_nc2 : next_check s <= now s + T;
  inv_arr : arrivals_from (now s) arr;
  inv_pl : pings s = ping_list t0 I (length (pings s));
  inv_npv : next_ping s = ping_time t0 I (length (pings s));
  inv_lp : last_ping s = 0 \/ (last_ping s = next_ping s - I /\ (1 <= length (pings s))%nat)
}.

Lemma Inv_init arr : arrivals_sorted t0 arr -> Inv (t_init t0 I T) arr.
Proof.
  intros H. constructor; cbn [t_init now next_ping next_check last_ping last_pong pings length];
    unfold ping_time; try lia; try reflexivity; try assumption.
Qed.

Lemma loop_time_ge s arr : Inv s arr -> now s <= loop_time s arr.
Proof.
  intros Hi. pose proof (inv_nc1 _ _ Hi). pose proof (inv_arr _ _ Hi) as Ha.
  unfold loop_time. destruct arr as [|[t a] r]; [lia|]. destruct Ha. lia.
Qed.

Lemma ping_step_Inv s arr :
  Inv s arr -> ping_before pf s arr = true -> Inv (ping_step I s) arr.
Proof.
  intros Hi Hp. apply ping_before_true in Hp.
  pose proof (loop_time_le_nc s arr). destruct Hi.
  constructor; unfold ping_step; cbn [now next_ping next_check last_ping last_pong pings].
  - lia.
  - lia.
  - lia.
  - eapply arrivals_from_head; [eassumption|]. intros t a r E. subst arr.
    pose proof (loop_time_head s t a r). lia.
  - rewrite app_length; cbn [length]. rewrite Nat.add_1_r, ping_list_S, <- inv_pl0, <- inv_npv0. reflexivity.
  - rewrite app_length; cbn [length]. rewrite inv_npv0. unfold ping_time. lia.
  - right. rewrite app_length; cbn [length]. lia.
Qed.

Lemma loop_step_Inv s arr s1 arr' :
  Inv s arr -> ping_before pf s arr = false -> loop_step T s arr = (s1, arr') -> Inv s1 arr'.
Proof.
  intros Hi Hp Hs. apply ping_before_false in Hp. destruct Hp as [Hp _].
  apply loop_step_spec in Hs. cbv zeta in Hs.
  destruct Hs as (Hn & Hlp & Hnp & Hpl & Hnc & Hc).
  pose proof (loop_time_ge _ _ Hi). destruct Hi.
  constructor; rewrite ?Hn, ?Hlp, ?Hnp, ?Hpl, ?Hnc; try assumption; try lia.
  destruct Hc as [(a & E & _)|(E & _ & Ec & Hh)].
  - rewrite E in inv_arr0. destruct inv_arr0. assumption.
  - subst arr'. eapply arrivals_from_head; [eassumption|].
    intros t a r E. specialize (Hh _ _ _ E). lia.
Qed.

(* enough fuel: every step lowers this measure *)
Definition meas (s : tstate) (arr : list (Z * arrival)) : Z :=
  cnt (horizon - next_check s) T + cnt (horizon - next_ping s) I + Z.of_nat (length arr).

Lemma meas_nonneg s arr : 0 <= meas s arr.
Proof.
  unfold meas. pose proof (cnt_nonneg (horizon - next_check s) T HT).
  pose proof (cnt_nonneg (horizon - next_ping s) I HI). lia.
Qed.

Lemma ping_step_meas s arr :
  next_ping s <= horizon -> meas (ping_step I s) arr = meas s arr - 1.
Proof.
  intros H. unfold meas, ping_step; cbn [now next_ping next_check last_ping last_pong pings].
  replace (horizon - (next_ping s + I)) with (horizon - next_ping s - I) by lia.
  rewrite cnt_step by lia. lia.
Qed.

Lemma loop_step_meas s arr s1 arr' :
  Inv s arr -> loop_time s arr <= horizon -> loop_step T s arr = (s1, arr') ->
  meas s1 arr' <= meas s arr - 1.
Proof.
  intros Hi Hh Hs. apply loop_step_spec in Hs. cbv zeta in Hs.
  destruct Hs as (Hn & Hlp & Hnp & Hpl & Hnc & Hc).
  pose proof (loop_time_ge _ _ Hi). destruct Hi.
  unfold meas. rewrite Hnp, Hnc.
  destruct Hc as [(a & E & _)|(E & _ & Ec & _)].
  - assert (El : length arr = S (length arr')) by (rewrite E at 1; reflexivity).
    rewrite El, Nat2Z.inj_succ.
    pose proof (cnt_mono (horizon - (loop_time s arr + T)) (horizon - next_check s) T HT). lia.
  - subst arr'. rewrite Ec in *.
    replace (horizon - (next_check s + T)) with (horizon - next_check s - T) by lia.
    rewrite cnt_step by lia. lia.
Qed.

(* ------------------------------------------------------------------------------------------ *)
(* (3) a responsive peer is never reported                                                     *)
(* ------------------------------------------------------------------------------------------ *)

(* q is in the answer window of the ping written at p: not later than p + T, and after the ping in
   the processing order (on the tick of the ping itself only when the ping thread goes first) *)
Definition window (p q : Z) : Prop := (if pf then p <= q else p < q) /\ q <= p + T.

(* every ping written up to time [lim] is answered within its window; nothing is said about any
   other arrival *)
Definition responsive (lim : Z) (arr : list (Z * arrival)) : Prop :=
  forall k : nat, ping_time t0 I k <= lim -> exists q, In (q, APong) arr /\ window (ping_time t0 I k) q.

Definition Resp (lim : Z) (s : tstate) (arr : list (Z * arrival)) : Prop :=
  forall k : nat, next_ping s <= ping_time t0 I k -> ping_time t0 I k <= lim ->
    exists q, In (q, APong) arr /\ window (ping_time t0 I k) q.

Definition Ans (s : tstate) (arr : list (Z * arrival)) : Prop :=
  last_ping s = 0 \/
  (last_pong s < last_ping s /\ exists q, In (q, APong) arr /\ q <= last_ping s + T) \/
  (last_ping s <= last_pong s /\ last_pong s <= last_ping s + T).

Record NF (lim : Z) (s : tstate) (arr : list (Z * arrival)) : Prop := {
  nf_inv : Inv s arr;
  nf_lpong : last_pong s <= now s;
  nf_lping : last_ping s <= now s;
  nf_resp : Resp lim s arr;
  nf_ans : Ans s arr
}.

Lemma NF_init lim arr :
  0 <= t0 -> arrivals_sorted t0 arr -> responsive lim arr -> NF lim (t_init t0 I T) arr.
Proof.
  intros H0 Ha Hr. constructor.
  - apply Inv_init; assumption.
  - cbn. lia.
  - cbn. lia.
  - intros k _ Hk. apply Hr; assumption.
  - left. reflexivity.
Qed.

Lemma ping_step_NF lim s arr :
  NF lim s arr -> ping_before pf s arr = true -> next_ping s <= lim -> NF lim (ping_step I s) arr.
Proof.
  intros Hn Hp Hl. destruct Hn as [Hi Hpo Hpi Hr Ha].
  pose proof (ping_step_Inv _ _ Hi Hp) as Hi'.
  pose proof (inv_np _ _ Hi) as Hnp.
  constructor; [assumption| | | |]; unfold ping_step in *;
    cbn [now next_ping next_check last_ping last_pong pings] in *.
  - lia.
  - lia.
  - intros k Hk1 Hk2. cbn [next_ping] in Hk1. apply Hr; lia.
  - unfold Ans; cbn [last_ping last_pong]. destruct (Z_lt_ge_dec (last_pong s) (next_ping s)) as [Hlt|Hge].
    + right; left. split; [assumption|].
      destruct (Hr (length (pings s))) as (q & Hq & Hw).
      * rewrite <- (inv_npv _ _ Hi). lia.
      * rewrite <- (inv_npv _ _ Hi). assumption.
      * rewrite <- (inv_npv _ _ Hi) in Hw. exists q. split; [assumption|]. destruct Hw. lia.
    + right; right. lia.
Qed.

Lemma loop_step_NF lim s arr s1 arr' :
  NF lim s arr -> ping_before pf s arr = false -> loop_step T s arr = (s1, arr') -> NF lim s1 arr'.
Proof.
  intros Hn Hp Hs. destruct Hn as [Hi Hpo Hpi Hr Ha].
  pose proof (loop_step_Inv _ _ _ _ Hi Hp Hs) as Hi'.
  pose proof (loop_time_ge _ _ Hi) as Hge.
  apply ping_before_false in Hp. destruct Hp as [Hp1 Hp2].
  apply loop_step_spec in Hs. cbv zeta in Hs.
  destruct Hs as (Hnow & Hlp & Hnp & Hpl & Hnc & Hc).
  set (c := loop_time s arr) in *.
  destruct Hc as [(a & E & Hpong)|(E & Hpong & Ec & _)].
  - (* an arrival is read *)
    assert (Hmin : forall q b, In (q, b) arr -> c <= q).
    { intros q b Hin. pose proof (inv_arr _ _ Hi) as Harr. rewrite E in Harr, Hin.
      destruct Harr as [_ Harr]. destruct Hin as [Eq|Hin]; [inversion Eq; lia|].
      eapply arrivals_from_In; eassumption. }
    assert (Hup : last_pong s1 <= c).
    { rewrite Hpong. unfold pong_update. destruct a; [destruct (last_pong s <? last_ping s)|]; lia. }
    constructor; [assumption|lia|lia| |].
    + intros k Hk1 Hk2. rewrite Hnp in Hk1.
      destruct (Hr k Hk1 Hk2) as (q & Hq & Hw). exists q. split; [|assumption].
      rewrite E in Hq. destruct Hq as [Eq|Hq]; [|assumption].
      exfalso. inversion Eq; subst q. unfold window in Hw. destruct Hw as [Hw _].
      destruct pf; [specialize (Hp2 eq_refl)|]; lia.
    + unfold Ans. rewrite Hlp, Hpong. destruct Ha as [Ha|[(Ha1 & q & Hq & Hq2)|Ha]].
      * left; assumption.
      * destruct a; unfold pong_update.
        -- right; right. destruct (Z.ltb_spec (last_pong s) (last_ping s)); [|lia].
           specialize (Hmin _ _ Hq). lia.
        -- right; left. split; [assumption|]. exists q. split; [|assumption].
           rewrite E in Hq. destruct Hq as [Eq|Hq]; [discriminate|assumption].
      * right; right. destruct a; unfold pong_update; [|assumption].
        destruct (Z.ltb_spec (last_pong s) (last_ping s)); lia.
  - (* select timeout *)
    subst arr'. constructor; [assumption|lia|lia| |].
    + intros k Hk1 Hk2. rewrite Hnp in Hk1. apply Hr; assumption.
    + unfold Ans. rewrite Hlp, Hpong. assumption.
Qed.

Lemma NF_check lim s arr : NF lim s arr -> do_check T s = false.
Proof.
  intros [Hi Hpo Hpi Hr Ha]. unfold do_check. apply ping_expired_false; [assumption|].
  destruct Ha as [Ha|[(Ha1 & q & Hq & Hq2)|Ha]].
  - left; assumption.
  - right; left. pose proof (arrivals_from_In _ _ (inv_arr _ _ Hi) _ _ Hq). lia.
  - right; right. lia.
Qed.

Lemma NF_run lim : horizon <= lim ->
  forall fuel s arr, NF lim s arr -> fst (t_run fuel I T pf arr horizon s) = Quiet.
Proof.
  intros Hl. induction fuel as [|k IH]; intros s arr Hn; [reflexivity|].
  rewrite t_run_S.
  destruct (ping_before pf s arr) eqn:Hp.
  - destruct (Z.ltb_spec horizon (next_ping s)); [reflexivity|].
    apply IH. apply ping_step_NF; [assumption|assumption|lia].
  - destruct (Z.ltb_spec horizon (loop_time s arr)); [reflexivity|].
    destruct (loop_step T s arr) as [s1 arr'] eqn:Hs.
    pose proof (loop_step_NF _ _ _ _ _ Hn Hp Hs) as Hn'.
    rewrite (NF_check _ _ _ Hn'). apply IH. assumption.
Qed.

(* ------------------------------------------------------------------------------------------ *)
(* (4) a peer that falls silent is reported within two timeouts when 2T < I                    *)
(* ------------------------------------------------------------------------------------------ *)

Section Detect.
Variable p : Z.
Hypothesis H2T : 2 * T < I.
Hypothesis Hph : p + 2 * T <= horizon.
Hypothesis Hp0 : 0 < p.

Record Det (s : tstate) (arr : list (Z * arrival)) : Prop := {
  det_inv : Inv s arr;
  det_silent : forall q, In (q, APong) arr -> q < p;
  det_lpong : last_pong s < p;
  det_phase : (exists j : nat, next_ping s + Z.of_nat j * I = p) \/
              (next_ping s = p + I /\ last_ping s = p /\ next_check s <= p + 2 * T)
}.

(* while the ping at p has not been written, the peer has been answering *)
Definition Wit (s : tstate) (arr : list (Z * arrival)) : Prop := next_ping s <= p -> NF (p - 1) s arr.

Lemma Det_run : forall fuel s arr,
  Det s arr -> meas s arr < Z.of_nat fuel ->
  exists d, fst (t_run fuel I T pf arr horizon s) = Detected d /\ d <= p + 2 * T /\
            (Wit s arr -> p + T < d).
Proof.
  induction fuel as [|k IH]; intros s arr Hd Hm.
  { pose proof (meas_nonneg s arr). lia. }
  rewrite t_run_S. destruct Hd as [Hi Hsil Hlpong Hph'].
  pose proof (loop_time_le_nc s arr) as Hlt.
  assert (HA : (exists j : nat, next_ping s + Z.of_nat j * I = p) -> next_ping s <= p).
  { intros [j Hj]. assert (0 <= Z.of_nat j * I) by (apply Z.mul_nonneg_nonneg; lia). lia. }
  destruct (ping_before pf s arr) eqn:Hp.
  - (* the ping thread *)
    pose proof (ping_before_true _ _ _ Hp) as Hp'.
    destruct Hph' as [HphA|(HB1 & HB2 & HB3)]; [|lia].
    pose proof (HA HphA) as Hle.
    destruct (Z.ltb_spec horizon (next_ping s)); [lia|].
    destruct (IH (ping_step I s) arr) as (d & Hd1 & Hd2 & Hd3).
    + constructor; [apply ping_step_Inv; assumption|assumption| |];
        unfold ping_step; cbn [now next_ping next_check last_ping last_pong pings].
      * assumption.
      * destruct HphA as [[|j] Hj].
        -- right. pose proof (inv_nc2 _ _ Hi). pose proof (inv_np _ _ Hi). lia.
        -- left. exists j. lia.
    + rewrite ping_step_meas by lia. lia.
    + exists d. split; [assumption|]. split; [assumption|].
      intros Hw. apply Hd3. intros Hle'. unfold ping_step in Hle'; cbn [next_ping] in Hle'.
      apply ping_step_NF; [apply Hw; lia|assumption|lia].
  - (* the loop *)
    pose proof (ping_before_false _ _ _ Hp) as [Hp1 Hp2].
    assert (Hch : loop_time s arr <= horizon).
    { destruct Hph' as [HphA|(HB1 & HB2 & HB3)]; [pose proof (HA HphA)|]; lia. }
    destruct (Z.ltb_spec horizon (loop_time s arr)); [lia|].
    destruct (loop_step T s arr) as [s1 arr'] eqn:Hs.
    pose proof (loop_step_Inv _ _ _ _ Hi Hp Hs) as Hi'.
    pose proof (loop_step_meas _ _ _ _ Hi Hch Hs) as Hm'.
    pose proof Hs as Hspec. apply loop_step_spec in Hspec. cbv zeta in Hspec.
    destruct Hspec as (Hnow & Hlp & Hnp & Hpl & Hnc & Hc).
    assert (Hsil' : forall q, In (q, APong) arr' -> q < p).
    { intros q Hq. apply Hsil. destruct Hc as [(a & E & _)|(E & _)].
      - rewrite E. right; assumption.
      - subst arr'. assumption. }
    assert (Hlpong' : last_pong s1 < p).
    { destruct Hc as [(a & E & Hpong)|(E & Hpong & _)]; rewrite Hpong; [|assumption].
      unfold pong_update. destruct a; [|assumption].
      destruct (last_pong s <? last_ping s); [|assumption].
      apply Hsil. rewrite E at 2. left; reflexivity. }
    assert (HW : Wit s arr -> next_ping s <= p -> NF (p - 1) s1 arr').
    { intros Hw Hle. eapply loop_step_NF; [apply Hw; assumption|eassumption|eassumption]. }
    destruct (do_check T s1) eqn:Hck.
    + (* reported here *)
      exists (now s1). split; [reflexivity|]. rewrite Hnow.
      destruct Hph' as [HphA|(HB1 & HB2 & HB3)].
      * pose proof (HA HphA) as Hle0. split; [lia|]. intros Hw.
        rewrite (NF_check _ _ _ (HW Hw Hle0)) in Hck. discriminate.
      * split; [lia|]. intros _. unfold do_check in Hck.
        apply ping_expired_true_iff in Hck; [|assumption]. lia.
    + destruct (IH s1 arr') as (d & Hd1 & Hd2 & Hd3).
      * constructor; [assumption|assumption|assumption|]. rewrite Hnp, Hlp, Hnc.
        destruct Hph' as [HphA|(HB1 & HB2 & HB3)]; [left; assumption|right].
        split; [assumption|]. split; [assumption|].
        destruct (Z_le_gt_dec (loop_time s arr) (p + T)); [lia|]. exfalso.
        assert (do_check T s1 = true); [|congruence].
        unfold do_check. apply ping_expired_true_iff; [assumption|]. lia.
      * lia.
      * exists d. split; [assumption|]. split; [assumption|].
        intros Hw. apply Hd3. intros Hle. rewrite Hnp in Hle. apply HW; assumption.
Qed.

End Detect.

Lemma t_fuel_enough arr :
  t0 <= horizon -> meas (t_init t0 I T) arr < Z.of_nat (t_fuel I T (horizon - t0) arr).
Proof.
  intros H. unfold meas, t_fuel, t_init; cbn [next_check next_ping].
  pose proof (cnt_mono (horizon - (t0 + T)) (horizon - t0) T HT).
  pose proof (cnt_mono (horizon - (t0 + 2 * I)) (horizon - t0) I HI).
  unfold cnt in H0 at 2. unfold cnt in H1 at 2.
  destruct (Z.ltb_spec (horizon - t0) 0); [lia|].
  pose proof (Z.div_pos (horizon - t0) T). pose proof (Z.div_pos (horizon - t0) I).
  lia.
Qed.

(* ------------------------------------------------------------------------------------------ *)
(* (2) the pings written during a run                                                         *)
(* ------------------------------------------------------------------------------------------ *)

Definition stop_time (o : outcome) : Z := match o with Detected d => d | Quiet => horizon end.

Lemma run_final_Inv : forall fuel s arr,
  Inv s arr -> exists arr', Inv (snd (t_run fuel I T pf arr horizon s)) arr'.
Proof.
  induction fuel as [|k IH]; intros s arr Hi; [exists arr; assumption|].
  rewrite t_run_S. destruct (ping_before pf s arr) eqn:Hp.
  - destruct (horizon <? next_ping s); [exists arr; assumption|].
    apply IH. apply ping_step_Inv; assumption.
  - destruct (horizon <? loop_time s arr); [exists arr; assumption|].
    destruct (loop_step T s arr) as [s1 arr'] eqn:Hs.
    pose proof (loop_step_Inv _ _ _ _ Hi Hp Hs) as Hi'.
    destruct (do_check T s1); [exists arr'; assumption|]. apply IH; assumption.
Qed.

(* the run does not stop before the next ping is due *)
Lemma run_final_stop : forall fuel s arr,
  Inv s arr -> meas s arr < Z.of_nat fuel ->
  stop_time (fst (t_run fuel I T pf arr horizon s)) <= next_ping (snd (t_run fuel I T pf arr horizon s)).
Proof.
  induction fuel as [|k IH]; intros s arr Hi Hm.
  { pose proof (meas_nonneg s arr). lia. }
  rewrite t_run_S. destruct (ping_before pf s arr) eqn:Hp.
  - destruct (Z.ltb_spec horizon (next_ping s)); [cbn; lia|].
    apply IH; [apply ping_step_Inv; assumption|]. rewrite ping_step_meas by lia. lia.
  - pose proof (ping_before_false _ _ _ Hp) as [Hp1 _].
    destruct (Z.ltb_spec horizon (loop_time s arr)); [cbn; lia|].
    destruct (loop_step T s arr) as [s1 arr'] eqn:Hs.
    pose proof (loop_step_Inv _ _ _ _ Hi Hp Hs) as Hi'.
    pose proof (loop_step_meas _ _ _ _ Hi H Hs) as Hm'.
    apply loop_step_spec in Hs. cbv zeta in Hs. destruct Hs as (Hnow & _ & Hnp & _).
    destruct (do_check T s1); [cbn; lia|]. apply IH; [assumption|lia].
Qed.

Lemma run_past_horizon fuel s arr :
  Inv s arr -> horizon < now s -> fst (t_run fuel I T pf arr horizon s) = Quiet.
Proof.
  intros Hi Hh. destruct fuel as [|k]; [reflexivity|]. rewrite t_run_S.
  pose proof (inv_np _ _ Hi). pose proof (loop_time_ge _ _ Hi).
  destruct (ping_before pf s arr).
  - destruct (Z.ltb_spec horizon (next_ping s)); [reflexivity|lia].
  - destruct (Z.ltb_spec horizon (loop_time s arr)); [reflexivity|lia].
Qed.

(* no ping is written after the run has stopped *)
Lemma run_final_pings_le : forall fuel s arr,
  Inv s arr -> (forall x, In x (pings s) -> x <= now s /\ x <= horizon) ->
  forall x, In x (pings (snd (t_run fuel I T pf arr horizon s))) ->
            x <= stop_time (fst (t_run fuel I T pf arr horizon s)).
Proof.
  induction fuel as [|k IH]; intros s arr Hi Hx; [intros x Hin; apply Hx; assumption|].
  rewrite t_run_S. destruct (ping_before pf s arr) eqn:Hp.
  - destruct (Z.ltb_spec horizon (next_ping s)); [intros x Hin; apply Hx; assumption|].
    apply IH; [apply ping_step_Inv; assumption|].
    pose proof (inv_np _ _ Hi).
    unfold ping_step; cbn [now pings]. intros x Hin. apply in_app_or in Hin.
    destruct Hin as [Hin|[E|[]]]; [specialize (Hx _ Hin)|]; lia.
  - destruct (Z.ltb_spec horizon (loop_time s arr)); [intros x Hin; apply Hx; assumption|].
    destruct (loop_step T s arr) as [s1 arr'] eqn:Hs.
    pose proof (loop_step_Inv _ _ _ _ Hi Hp Hs) as Hi'.
    pose proof (loop_time_ge _ _ Hi).
    apply loop_step_spec in Hs. cbv zeta in Hs. destruct Hs as (Hnow & _ & _ & Hpl & _).
    assert (Hx' : forall x, In x (pings s1) -> x <= now s1 /\ x <= horizon).
    { intros x Hin. rewrite Hpl in Hin. specialize (Hx _ Hin). lia. }
    destruct (do_check T s1); [intros x Hin; cbn; apply Hx'; assumption|].
    apply IH; assumption.
Qed.

End Run.

(* strongest true form: the answer to a ping must come after the ping in the processing order *)
Theorem C16_no_false_alarm_partial : forall t0 I T pf arr horizon,
  0 <= t0 -> 0 < T -> T < I ->
  arrivals_sorted t0 arr ->
  responsive t0 I T pf horizon arr ->
  fst (keepalive t0 I T pf arr horizon) = Quiet.
Proof.
  intros t0 I T pf arr horizon H0 HT HI Ha Hr. unfold keepalive.
  eapply NF_run with (lim := horizon) (t0 := t0); try lia.
  apply NF_init; try assumption; lia.
Qed.

(* the statement as asked (closed window [p, p+T]) when the ping thread wins ties *)
Theorem C16_no_false_alarm_ping_first : forall t0 I T arr horizon,
  0 <= t0 -> 0 < T -> T < I ->
  arrivals_sorted t0 arr ->
  (forall k : nat, let p := t0 + (Z.of_nat k + 2) * I in
     p <= horizon -> exists q, In (q, APong) arr /\ p <= q <= p + T) ->
  fst (keepalive t0 I T true arr horizon) = Quiet.
Proof.
  intros t0 I T arr horizon H0 HT HI Ha Hr.
  apply C16_no_false_alarm_partial; assumption.   (* window true p q is [p <= q <= p + T] *)
Qed.

(* ... and for either tie order when every answer comes strictly after its ping *)
Theorem C16_no_false_alarm_strict : forall t0 I T pf arr horizon,
  0 <= t0 -> 0 < T -> T < I ->
  arrivals_sorted t0 arr ->
  (forall k : nat, let p := t0 + (Z.of_nat k + 2) * I in
     p <= horizon -> exists q, In (q, APong) arr /\ p < q <= p + T) ->
  fst (keepalive t0 I T pf arr horizon) = Quiet.
Proof.
  intros t0 I T pf arr horizon H0 HT HI Ha Hr.
  apply C16_no_false_alarm_partial; try assumption.
  intros k Hk. destruct (Hr k Hk) as (q & Hq & Hw). exists q. split; [assumption|].
  unfold window, ping_time. destruct pf; lia.
Qed.

(* ------------------------------------------------------------------------------------------ *)
(* (4) top level                                                                               *)
(* ------------------------------------------------------------------------------------------ *)

(* no pong arrives at time p or later *)
Definition silent_from (p : Z) (arr : list (Z * arrival)) : Prop :=
  forall q, In (q, APong) arr -> q < p.

Lemma Det_init t0 I T arr (k : nat) :
  0 <= t0 -> 0 < T -> 0 < I -> arrivals_sorted t0 arr ->
  silent_from (ping_time t0 I k) arr ->
  Det t0 I T (ping_time t0 I k) (t_init t0 I T) arr.
Proof.
  intros H0 HT HI Ha Hs. constructor.
  - apply Inv_init; assumption.
  - assumption.
  - cbn [t_init last_pong]. unfold ping_time. nia.
  - left. exists k. cbn [t_init next_ping]. unfold ping_time. lia.
Qed.

(* whatever happened before: once the peer is silent from the ping at p on, the timeout is raised
   not later than p + 2T (possibly earlier, if it had already stopped answering before p) *)
Theorem C16_detect_2T : forall t0 I T pf arr horizon (k : nat),
  0 <= t0 -> 0 < T -> 2 * T < I ->
  arrivals_sorted t0 arr ->
  let p := t0 + (Z.of_nat k + 2) * I in
  silent_from p arr ->
  p + 2 * T <= horizon ->
  exists d, fst (keepalive t0 I T pf arr horizon) = Detected d /\ d <= p + 2 * T.
Proof.
  intros t0 I T pf arr horizon k H0 HT HI Ha p Hs Hh.
  assert (Hp' : t0 < p) by (unfold p; nia).
  assert (Hp : 0 < p) by lia.
  destruct (Det_run t0 I T pf horizon HT ltac:(lia) p HI Hh Hp
              (t_fuel I T (horizon - t0) arr) (t_init t0 I T) arr) as (d & H1 & H2 & _).
  - apply Det_init; try assumption; lia.
  - apply t_fuel_enough; lia.
  - exists d. split; assumption.
Qed.

(* ... and when the peer answered every earlier ping, exactly in the window (p + T, p + 2T] *)
Theorem C16_detect_2T_window : forall t0 I T pf arr horizon (k : nat),
  0 <= t0 -> 0 < T -> 2 * T < I ->
  arrivals_sorted t0 arr ->
  let p := t0 + (Z.of_nat k + 2) * I in
  responsive t0 I T pf (p - 1) arr ->
  silent_from p arr ->
  p + 2 * T <= horizon ->
  exists d, fst (keepalive t0 I T pf arr horizon) = Detected d /\ p + T < d <= p + 2 * T.
Proof.
  intros t0 I T pf arr horizon k H0 HT HI Ha p Hr Hs Hh.
  assert (Hp' : t0 < p) by (unfold p; nia).
  assert (Hp : 0 < p) by lia.
  destruct (Det_run t0 I T pf horizon HT ltac:(lia) p HI Hh Hp
              (t_fuel I T (horizon - t0) arr) (t_init t0 I T) arr) as (d & H1 & H2 & H3).
  - apply Det_init; try assumption; lia.
  - apply t_fuel_enough; lia.
  - exists d. split; [assumption|]. split; [|assumption]. apply H3.
    intros _. apply NF_init; try assumption; lia.
Qed.

(* ------------------------------------------------------------------------------------------ *)
(* (2) top level                                                                               *)
(* ------------------------------------------------------------------------------------------ *)

Theorem C16_periodic : forall t0 I T pf arr horizon,
  0 < T -> T < I ->
  arrivals_sorted t0 arr ->
  let r := keepalive t0 I T pf arr horizon in
  let stop := match fst r with Detected d => d | Quiet => horizon end in
  (* the k-th ping was written at t0 + (k+2) I *)
  (forall (k : nat) x, nth_error (pings (snd r)) k = Some x -> x = t0 + (Z.of_nat k + 2) * I) /\
  (* none is skipped before the run stopped *)
  (forall k : nat, t0 + (Z.of_nat k + 2) * I < stop ->
                   nth_error (pings (snd r)) k = Some (t0 + (Z.of_nat k + 2) * I)) /\
  (* none is written after it stopped *)
  (forall x, In x (pings (snd r)) -> x <= stop).
Proof.
  intros t0 I T pf arr horizon HT HI Ha r stop.
  assert (HI0 : 0 < I) by lia.
  assert (Hi0 : Inv t0 I T (t_init t0 I T) arr) by (apply Inv_init; first [assumption|lia]).
  destruct (run_final_Inv t0 I T pf horizon HT HI0 (t_fuel I T (horizon - t0) arr) _ _ Hi0)
    as [arr' Hf].
  fold (keepalive t0 I T pf arr horizon) in Hf. fold r in Hf.
  split; [|split].
  - intros k x Hk. rewrite (inv_pl _ _ _ _ _ Hf) in Hk.
    assert (Hlt : (k < length (pings (snd r)))%nat).
    { rewrite <- (ping_list_length t0 I (length (pings (snd r)))).
      apply nth_error_Some. congruence. }
    rewrite ping_list_nth in Hk by assumption. inversion Hk. reflexivity.
  - intros k Hk.
    destruct (Z_lt_ge_dec horizon t0) as [Hlt|Hge].
    + exfalso. unfold stop, r, keepalive in Hk.
      rewrite (run_past_horizon t0 I T pf horizon _ _ _ Hi0) in Hk by (cbn; lia).
      nia.
    + pose proof (run_final_stop t0 I T pf horizon HT HI0 (t_fuel I T (horizon - t0) arr) _ _ Hi0
                    (t_fuel_enough t0 I T horizon HT HI0 arr ltac:(lia))) as Hst.
      fold (keepalive t0 I T pf arr horizon) in Hst. fold r in Hst.
      change (stop_time horizon (fst r)) with stop in Hst.
      rewrite (inv_npv _ _ _ _ _ Hf) in Hst. unfold ping_time in Hst.
      rewrite (inv_pl _ _ _ _ _ Hf). apply ping_list_nth. nia.
  - intros x Hx.
    apply (run_final_pings_le t0 I T pf horizon HT HI0 (t_fuel I T (horizon - t0) arr) _ _ Hi0);
      [|exact Hx].
    intros y [].
Qed.

(* ------------------------------------------------------------------------------------------ *)
(* (3) with the closed window [p, p+T] and the loop winning ties the statement is false        *)
(* ------------------------------------------------------------------------------------------ *)

Theorem C16_no_false_alarm_closed_window_refuted :
  exists t0 I T arr horizon d,
    0 <= t0 /\ 0 < T /\ T < I /\ arrivals_sorted t0 arr /\
    (forall k : nat, let p := t0 + (Z.of_nat k + 2) * I in
       p <= horizon -> exists q, In (q, APong) arr /\ p <= q <= p + T) /\
    fst (keepalive t0 I T false arr horizon) = Detected d.
Proof.
  exists 0, 3000, 1000, [(6000, APong)], 8999, 8000.
  repeat (split; [cbn; lia|]). split.
  - intros [|k] p Hp; [|unfold p in Hp; lia].
    exists 6000. split; [left; reflexivity|]. unfold p. cbn. lia.
  - vm_compute. reflexivity.
Qed.

Print Assumptions C16_args.
Print Assumptions C16_periodic.
Print Assumptions C16_no_false_alarm_partial.
Print Assumptions C16_no_false_alarm_ping_first.
Print Assumptions C16_no_false_alarm_strict.
Print Assumptions C16_no_false_alarm_closed_window_refuted.
Print Assumptions C16_false_alarm_tie_witness.
Print Assumptions C16_detect_2T.
Print Assumptions C16_detect_2T_window.
Print Assumptions C16_2T_refuted.
Print Assumptions C16_2T_refuted_never.
Print Assumptions C16_witness_late.
Print Assumptions C16_witness_never.
