(* C11: the TLS option decision logic (Model/Tls.v).

     "For wss:// targets the byte stream is TLS from its first byte and the server's certificate
      chain and host name are verified by default ...  Verification is weakened only by the
      documented options (CERT_NONE, check_hostname False, a custom CA file, path or context,
      server_hostname), each affecting only its own check, and ws:// targets are never wrapped."

   The theorems quantify over ALL option records (arbitrary strings, arbitrary integer cert_reqs)
   and all environments; they are proved by case analysis.  An explicit enumeration [all_opts] of
   the decision-relevant space is swept by vm_compute as a second, independent check. *)
From Coq Require Import ZArith List Bool Lia.
From WS Require Import Base.Res Base.Bytes Base.Str Model.Tls.
Import ListNotations.
Open Scope Z_scope.

(* ------------------------------------------------------------------------------------------ *)
(* normal form of the model *)

(* the check_hostname / verify_mode assignments of _wrap_sni_socket *)
Definition assign (cr : Z) (ch : option bool) (sv : bool) : res ctx :=
  let c0 := ctx_new sv in
  if (cr =? CERT_NONE) && negb (match ch with Some b => b | None => false end)
  then set_verify_mode CERT_NONE (set_check_hostname false c0)
  else set_verify_mode cr (set_check_hostname (match ch with Some b => b | None => true end) c0).

(* what the two assignments amount to, CPython's coupling rules included *)
Lemma assign_spec : forall cr ch sv,
  assign cr ch sv =
  if cr =? 0 then match ch with Some true => Raise ValueErr | _ => Ok (mk_ctx false 0) end
  else if (0 <=? cr) && (cr <=? 2)
       then Ok (mk_ctx (match ch with Some b => b | None => true end) cr)
       else Raise ValueErr.
Proof.
  intros cr ch sv. unfold assign, ctx_new, set_verify_mode, set_check_hostname,
    CERT_NONE, CERT_REQUIRED.
  destruct (cr =? 0) eqn:E0.
  - apply Z.eqb_eq in E0. subst cr. destruct sv, ch as [[|]|]; reflexivity.
  - destruct sv, ch as [[|]|]; simpl; rewrite ?E0; simpl; try reflexivity;
      destruct ((0 <=? cr) && (cr <=? 2)); reflexivity.
Qed.

(* the start state of the context (PROTOCOL_TLS_CLIENT or a legacy protocol) never matters *)
Lemma assign_any_protocol : forall cr ch sv sv', assign cr ch sv = assign cr ch sv'.
Proof. intros. rewrite !assign_spec. reflexivity. Qed.

Definition eff_cr (opt : sslopt) : Z := match cert_reqs opt with Some z => z | None => CERT_REQUIRED end.

Definition eff_ca (opt : sslopt) (env : env_bundle) : option str * option str :=
  if truthy_o (env_path env) && env_isfile env && is_none (ca_certs opt)
  then (env_path env, ca_cert_path opt)
  else if truthy_o (env_path env) && env_isdir env && is_none (ca_cert_path opt)
  then (ca_certs opt, env_path env)
  else (ca_certs opt, ca_cert_path opt).

Definition eff_host (opt : sslopt) (url_host : str) : str :=
  match server_hostname opt with Some (c :: s) => c :: s | _ => url_host end.

Definition has_ca (opt : sslopt) (env : env_bundle) : bool :=
  truthy_o (fst (eff_ca opt env)) || truthy_o (snd (eff_ca opt env)).

Lemma ssl_socket_eq : forall opt env host,
  ssl_socket opt env host =
  if context opt then Ok (custom_plan (eff_host opt host))
  else match assign (eff_cr opt) (check_hostname opt) (ssl_version opt) with
       | Ok c =>
         let loc := negb (eff_cr opt =? 0) && has_ca opt env in
         Ok (mk_wrap false (c_verify c) (c_check c) (eff_host opt host)
                     (if loc then fst (eff_ca opt env) else None)
                     (if loc then snd (eff_ca opt env) else None)
                     (negb (eff_cr opt =? 0) && negb (has_ca opt env))
                     (certfile opt || cert_chain opt) (ciphers opt) (ecdh_curve opt) (ssl_version opt))
       | Raise e => Raise e
       end.
Proof.
  intros opt env host. unfold ssl_socket, has_ca. fold (eff_cr opt). fold (eff_ca opt env).
  assert (Eh : (if truthy_o (server_hostname opt)
                then match server_hostname opt with Some s => s | None => host end else host)
               = eff_host opt host).
  { unfold eff_host. destruct (server_hostname opt) as [[|c s]|]; reflexivity. }
  rewrite Eh. destruct (eff_ca opt env) as [cafile capath]. unfold wrap_sni_socket.
  destruct (context opt); [reflexivity|]. fold (assign (eff_cr opt) (check_hostname opt) (ssl_version opt)).
  destruct (assign (eff_cr opt) (check_hostname opt) (ssl_version opt)); reflexivity.
Qed.

(* the decision table: everything that is decided, as a closed expression of the options *)
Lemma tls_plan_table : forall opt env host,
  tls_plan true opt env host =
  if context opt then Ok (Wrap (custom_plan (eff_host opt host)))
  else
    let cr := eff_cr opt in
    let loc := negb (cr =? 0) && has_ca opt env in
    let mk v c := Ok (Wrap (mk_wrap false v c (eff_host opt host)
                     (if loc then fst (eff_ca opt env) else None)
                     (if loc then snd (eff_ca opt env) else None)
                     (negb (cr =? 0) && negb (has_ca opt env))
                     (certfile opt || cert_chain opt) (ciphers opt) (ecdh_curve opt) (ssl_version opt))) in
    if cr =? 0 then match check_hostname opt with Some true => Raise ValueErr | _ => mk 0 false end
    else if (0 <=? cr) && (cr <=? 2)
         then mk cr (match check_hostname opt with Some b => b | None => true end)
         else Raise ValueErr.
Proof.
  intros opt env host. unfold tls_plan. rewrite ssl_socket_eq, assign_spec.
  destruct (context opt); [reflexivity|]. cbv zeta.
  destruct (eff_cr opt =? 0).
  - destruct (check_hostname opt) as [[|]|]; reflexivity.
  - destruct ((0 <=? eff_cr opt) && (eff_cr opt <=? 2)); reflexivity.
Qed.

(* ------------------------------------------------------------------------------------------ *)
(* C11: defaults, ws:// *)

Definition default_plan (host : str) : wrap_plan :=
  mk_wrap false CERT_REQUIRED true host None None true false false false false.

Theorem C11_default : forall host,
  tls_plan true empty_opt NoBundle host = Ok (Wrap (default_plan host)).
Proof. reflexivity. Qed.

Theorem C11_default_fields : forall host, exists w,
  tls_plan true empty_opt NoBundle host = Ok (Wrap w) /\
  verify_mode w = 2 /\ check_host w = true /\ server_name w = host /\
  load_default_certs w = true /\ custom_context w = false /\ ca_file w = None /\ ca_path w = None.
Proof. intro host. exists (default_plan host). repeat split. Qed.

Theorem C11_ws_never : forall opt env host, tls_plan false opt env host = Ok NoWrap.
Proof. reflexivity. Qed.

(* a wss:// target is wrapped or the connection attempt fails; it is never left in clear *)
Theorem C11_wss_never_plain : forall have_ssl opt env host,
  connect_tls have_ssl true opt env host <> Ok NoWrap /\ tls_plan true opt env host <> Ok NoWrap.
Proof.
  intros hs opt env host.
  assert (H : tls_plan true opt env host <> Ok NoWrap).
  { unfold tls_plan. destruct (ssl_socket opt env host); simpl; discriminate. }
  split; [|exact H]. unfold connect_tls. destruct hs; [exact H | discriminate].
Qed.

Theorem C11_no_ssl_module : forall opt env host, connect_tls false true opt env host = Raise WsGeneric.
Proof. reflexivity. Qed.

(* ------------------------------------------------------------------------------------------ *)
(* C11_only_documented *)

Ltac use_table H :=
  rewrite tls_plan_table in H; cbv zeta in H;
  repeat match type of H with
  | context [if ?b then _ else _] => destruct b eqn:?; try discriminate
  | context [match ?x with _ => _ end] => destruct x eqn:?; try discriminate
  end.

(* verify_mode is CERT_REQUIRED unless cert_reqs was supplied with another value (or a custom context) *)
Theorem C11_verify_mode_only_cert_reqs : forall opt env host w,
  tls_plan true opt env host = Ok (Wrap w) ->
  custom_context w = true /\ context opt = true
  \/ custom_context w = false /\ verify_mode w = eff_cr opt /\
     (verify_mode w <> 2 -> exists z, cert_reqs opt = Some z /\ z <> 2 /\ verify_mode w = z).
Proof.
  intros opt env host w H. rewrite tls_plan_table in H. cbv zeta in H.
  destruct (context opt) eqn:Ec.
  - inversion H; subst. left. split; reflexivity.
  - right. unfold eff_cr, CERT_REQUIRED in *. destruct (cert_reqs opt) as [z|] eqn:Ez.
    + destruct (z =? 0) eqn:E0.
      * apply Z.eqb_eq in E0. subst z.
        destruct (check_hostname opt) as [[|]|]; try discriminate; inversion H; subst; simpl;
          (split; [reflexivity | split; [reflexivity | intros _; exists 0; repeat split; lia]]).
      * destruct ((0 <=? z) && (z <=? 2)); [|discriminate]. inversion H; subst. simpl.
        split; [reflexivity | split; [reflexivity | intro Hz; exists z; auto]].
    + simpl in H. inversion H; subst. simpl. split; [reflexivity | split; [reflexivity | intro; contradiction]].
Qed.

(* the host name check is on unless check_hostname=False or cert_reqs=CERT_NONE was supplied *)
Theorem C11_check_host_only_documented : forall opt env host w,
  tls_plan true opt env host = Ok (Wrap w) ->
  check_host w = false ->
  check_hostname opt = Some false \/ cert_reqs opt = Some 0 \/ context opt = true.
Proof.
  intros opt env host w H Hc. rewrite tls_plan_table in H. cbv zeta in H.
  destruct (context opt) eqn:Ec; [auto|].
  unfold eff_cr, CERT_REQUIRED in *. destruct (cert_reqs opt) as [z|] eqn:Ez.
  - destruct (z =? 0) eqn:E0.
    + apply Z.eqb_eq in E0. subst z. auto.
    + destruct ((0 <=? z) && (z <=? 2)); [|discriminate]. inversion H; subst. simpl in Hc.
      destruct (check_hostname opt) as [[|]|]; try discriminate. auto.
  - simpl in H. inversion H; subst. simpl in Hc.
    destruct (check_hostname opt) as [[|]|]; try discriminate. auto.
Qed.

(* the environment bundle is used only when it names an existing file or directory *)
Definition env_effective (env : env_bundle) : bool :=
  truthy_o (env_path env) && (env_isfile env || env_isdir env).

(* the trust store is the platform default unless ca_certs, ca_cert_path or the environment bundle
   say otherwise; with CERT_NONE nothing is loaded at all *)
Theorem C11_ca_source_only_documented : forall opt env host w,
  tls_plan true opt env host = Ok (Wrap w) ->
  custom_context w = false ->
  truthy_o (ca_certs opt) = false -> truthy_o (ca_cert_path opt) = false -> env_effective env = false ->
  ca_file w = None /\ ca_path w = None /\ load_default_certs w = negb (verify_mode w =? 0).
Proof.
  intros opt env host w H Hcu Ha Hp He.
  assert (Hca : has_ca opt env = false).
  { unfold has_ca, eff_ca, env_effective in *.
    destruct env as [|p|p|p]; simpl in *; rewrite ?andb_false_r; simpl; rewrite ?Ha, ?Hp; try reflexivity;
      rewrite andb_true_r in He; rewrite He; simpl; rewrite Ha, Hp; reflexivity. }
  rewrite tls_plan_table in H. cbv zeta in H. rewrite Hca in H. rewrite !andb_false_r in H.
  destruct (context opt); [inversion H; subst; discriminate|].
  destruct (eff_cr opt =? 0) eqn:E0.
  - destruct (check_hostname opt) as [[|]|]; try discriminate; inversion H; subst; simpl; auto.
  - destruct ((0 <=? eff_cr opt) && (eff_cr opt <=? 2)); [|discriminate].
    inversion H; subst. simpl. rewrite E0. auto.
Qed.

(* ... and when a CA file / path is in force it is exactly the documented one *)
Theorem C11_ca_source_values : forall opt env host w,
  tls_plan true opt env host = Ok (Wrap w) -> custom_context w = false ->
  (forall f, ca_file w = Some f ->
     ca_certs opt = Some f \/ (ca_certs opt = None /\ env = BundleFile f /\ f <> [])) /\
  (forall d, ca_path w = Some d ->
     ca_cert_path opt = Some d \/ (ca_cert_path opt = None /\ env = BundleDir d /\ d <> [])) /\
  (load_default_certs w = true -> ca_file w = None /\ ca_path w = None).
Proof.
  intros opt env host w H Hcu. rewrite tls_plan_table in H. cbv zeta in H.
  destruct (context opt); [inversion H; subst; discriminate|].
  assert (G : forall loc v c,
     let w' := mk_wrap false v c (eff_host opt host)
                 (if loc && has_ca opt env then fst (eff_ca opt env) else None)
                 (if loc && has_ca opt env then snd (eff_ca opt env) else None)
                 (loc && negb (has_ca opt env))
                 (certfile opt || cert_chain opt) (ciphers opt) (ecdh_curve opt) (ssl_version opt) in
     (forall f, ca_file w' = Some f ->
        ca_certs opt = Some f \/ (ca_certs opt = None /\ env = BundleFile f /\ f <> [])) /\
     (forall d, ca_path w' = Some d ->
        ca_cert_path opt = Some d \/ (ca_cert_path opt = None /\ env = BundleDir d /\ d <> [])) /\
     (load_default_certs w' = true -> ca_file w' = None /\ ca_path w' = None)).
  { intros loc v c. simpl. destruct loc; simpl; [|repeat split; discriminate].
    destruct (has_ca opt env); simpl; [|repeat split; discriminate].
    unfold eff_ca. split; [|split; [|discriminate]].
    - intros f Hf. destruct env as [|p|p|p]; simpl in *; rewrite ?andb_false_r in Hf; simpl in Hf; auto.
      + destruct p as [|x p]; simpl in Hf; auto.
        destruct (ca_certs opt) eqn:Ea; simpl in Hf; auto. inversion Hf; subst. right. repeat split. discriminate.
      + destruct p as [|x p]; simpl in Hf; auto.
        destruct (ca_cert_path opt); simpl in Hf; auto.
    - intros d Hd. destruct env as [|p|p|p]; simpl in *; rewrite ?andb_false_r in Hd; simpl in Hd; auto.
      + destruct p as [|x p]; simpl in Hd; auto.
        destruct (ca_certs opt); simpl in Hd; auto.
      + destruct p as [|x p]; simpl in Hd; auto.
        destruct (ca_cert_path opt) eqn:Ea; simpl in Hd; auto. inversion Hd; subst. right. repeat split. discriminate. }
  destruct (eff_cr opt =? 0) eqn:E0.
  - destruct (check_hostname opt) as [[|]|]; try discriminate; inversion H; subst w;
      apply (G false 0 false).
  - destruct ((0 <=? eff_cr opt) && (eff_cr opt <=? 2)); [|discriminate]. inversion H; subst w.
    apply (G true).
Qed.

(* the name sent as SNI and checked against the certificate is the URL's host unless
   server_hostname (non-empty) was supplied; this holds for a custom context too *)
Theorem C11_server_name_only_documented : forall opt env host w,
  tls_plan true opt env host = Ok (Wrap w) ->
  server_name w = eff_host opt host /\
  (server_name w <> host -> exists s, server_hostname opt = Some s /\ s <> [] /\ server_name w = s).
Proof.
  intros opt env host w H.
  assert (E : server_name w = eff_host opt host).
  { rewrite tls_plan_table in H. cbv zeta in H.
    destruct (context opt); [inversion H; reflexivity|].
    destruct (eff_cr opt =? 0).
    - destruct (check_hostname opt) as [[|]|]; try discriminate; inversion H; reflexivity.
    - destruct ((0 <=? eff_cr opt) && (eff_cr opt <=? 2)); [|discriminate]. inversion H; reflexivity. }
  split; [exact E|]. rewrite E. unfold eff_host.
  destruct (server_hostname opt) as [[|c s]|]; try contradiction.
  intros _. exists (c :: s). repeat split. discriminate.
Qed.

Theorem C11_only_documented : forall opt env host w,
  tls_plan true opt env host = Ok (Wrap w) ->
  (verify_mode w <> 2 -> (exists z, cert_reqs opt = Some z /\ z <> 2) \/ context opt = true) /\
  (check_host w = false -> check_hostname opt = Some false \/ cert_reqs opt = Some 0 \/ context opt = true) /\
  (server_name w <> host -> exists s, server_hostname opt = Some s /\ s <> []) /\
  (custom_context w = false ->
   truthy_o (ca_certs opt) = false -> truthy_o (ca_cert_path opt) = false -> env_effective env = false ->
   ca_file w = None /\ ca_path w = None /\ load_default_certs w = negb (verify_mode w =? 0)) /\
  (custom_context w = true <-> context opt = true).
Proof.
  intros opt env host w H. repeat split.
  - intro Hv. destruct (C11_verify_mode_only_cert_reqs _ _ _ _ H) as [[_ Hc]|[_ [_ Hz]]]; [auto|].
    left. destruct (Hz Hv) as [z [? [? _]]]. exists z. auto.
  - apply (C11_check_host_only_documented _ _ _ _ H).
  - intro Hs. destruct (C11_server_name_only_documented _ _ _ _ H) as [_ Hx].
    destruct (Hx Hs) as [s [? [? _]]]. exists s. auto.
  - eapply C11_ca_source_only_documented; eassumption.
  - eapply C11_ca_source_only_documented; eassumption.
  - eapply C11_ca_source_only_documented; eassumption.
  - intro Hc. destruct (C11_verify_mode_only_cert_reqs _ _ _ _ H) as [[_ ?]|[? _]]; [assumption|congruence].
  - intro Hc. destruct (C11_verify_mode_only_cert_reqs _ _ _ _ H) as [[? _]|[Hf _]]; [assumption|].
    exfalso. rewrite tls_plan_table in H. rewrite Hc in H. inversion H; subst. discriminate Hf.
Qed.

(* when the model refuses an option set: only ValueError, only for the two combinations the real
   SSLContext refuses *)
Theorem C11_errors : forall opt env host ex,
  tls_plan true opt env host = Raise ex ->
  ex = ValueErr /\ context opt = false /\
  (cert_reqs opt = Some 0 /\ check_hostname opt = Some true
   \/ exists z, cert_reqs opt = Some z /\ (z < 0 \/ z > 2)).
Proof.
  intros opt env host ex H. rewrite tls_plan_table in H. cbv zeta in H.
  destruct (context opt); [discriminate|]. unfold eff_cr, CERT_REQUIRED in H.
  destruct (cert_reqs opt) as [z|]; [|simpl in H; discriminate].
  destruct (z =? 0) eqn:E0.
  - apply Z.eqb_eq in E0. subst z. destruct (check_hostname opt) as [[|]|]; try discriminate.
    inversion H. auto.
  - destruct ((0 <=? z) && (z <=? 2)) eqn:Er; [discriminate|]. inversion H.
    repeat split. right. exists z. split; [reflexivity|].
    apply andb_false_iff in Er. destruct Er as [Er|Er]; [apply Z.leb_gt in Er | apply Z.leb_gt in Er]; lia.
Qed.

(* ------------------------------------------------------------------------------------------ *)
(* non-interference of the other keys *)

Definition with_others (o : sslopt) (cf sv ci cc ec : bool) : sslopt :=
  mk_sslopt (cert_reqs o) (check_hostname o) (ca_certs o) (ca_cert_path o) (context o)
            (server_hostname o) cf sv ci cc ec.

(* what matters for authentication of the peer *)
Definition sec_view (r : res plan)
  : res (option (bool * Z * bool * str * option str * option str * bool)) :=
  match r with
  | Ok NoWrap => Ok None
  | Ok (Wrap w) => Ok (Some (custom_context w, verify_mode w, check_host w, server_name w,
                             ca_file w, ca_path w, load_default_certs w))
  | Raise e => Raise e
  end.

(* certfile, ssl_version, ciphers, cert_chain, ecdh_curve: present or not, in any combination,
   they change neither verify_mode, check_hostname, the server name, the CA source, nor whether
   the option set is refused *)
Theorem C11_other_keys_do_not_interfere : forall b o cf sv ci cc ec env host,
  sec_view (tls_plan b (with_others o cf sv ci cc ec) env host) = sec_view (tls_plan b o env host).
Proof.
  intros b o cf sv ci cc ec env host. destruct b; [|reflexivity].
  rewrite !tls_plan_table. destruct o as [cr ch ca cp cx sh f1 f2 f3 f4 f5].
  unfold with_others, has_ca, eff_ca, eff_host, eff_cr. cbn.
  destruct cx; [reflexivity|].
  destruct (match cr with Some z => z | None => CERT_REQUIRED end =? 0).
  - destruct ch as [[|]|]; reflexivity.
  - destruct ((0 <=? match cr with Some z => z | None => CERT_REQUIRED end)
              && (match cr with Some z => z | None => CERT_REQUIRED end <=? 2)); reflexivity.
Qed.

(* ------------------------------------------------------------------------------------------ *)
(* each option affects only its own check *)

Definition map_plan (f : wrap_plan -> wrap_plan) (r : res plan) : res plan :=
  match r with Ok (Wrap w) => Ok (Wrap (f w)) | other => other end.

Definition with_check_hostname (o : sslopt) (ch : option bool) : sslopt :=
  mk_sslopt (cert_reqs o) ch (ca_certs o) (ca_cert_path o) (context o) (server_hostname o)
            (certfile o) (ssl_version o) (ciphers o) (cert_chain o) (ecdh_curve o).
Definition with_ca (o : sslopt) (ca cp : option str) : sslopt :=
  mk_sslopt (cert_reqs o) (check_hostname o) ca cp (context o) (server_hostname o)
            (certfile o) (ssl_version o) (ciphers o) (cert_chain o) (ecdh_curve o).
Definition with_server_hostname (o : sslopt) (sh : option str) : sslopt :=
  mk_sslopt (cert_reqs o) (check_hostname o) (ca_certs o) (ca_cert_path o) (context o) sh
            (certfile o) (ssl_version o) (ciphers o) (cert_chain o) (ecdh_curve o).
Definition with_cert_reqs (o : sslopt) (cr : option Z) : sslopt :=
  mk_sslopt cr (check_hostname o) (ca_certs o) (ca_cert_path o) (context o) (server_hostname o)
            (certfile o) (ssl_version o) (ciphers o) (cert_chain o) (ecdh_curve o).

Definition forget_check_host (w : wrap_plan) : wrap_plan :=
  mk_wrap (custom_context w) (verify_mode w) false (server_name w) (ca_file w) (ca_path w)
          (load_default_certs w) (loads_client_cert w) (sets_ciphers w) (sets_ecdh_curve w) (explicit_protocol w).
Definition forget_ca (w : wrap_plan) : wrap_plan :=
  mk_wrap (custom_context w) (verify_mode w) (check_host w) (server_name w) None None
          false (loads_client_cert w) (sets_ciphers w) (sets_ecdh_curve w) (explicit_protocol w).
Definition forget_name (w : wrap_plan) : wrap_plan :=
  mk_wrap (custom_context w) (verify_mode w) (check_host w) [] (ca_file w) (ca_path w)
          (load_default_certs w) (loads_client_cert w) (sets_ciphers w) (sets_ecdh_curve w) (explicit_protocol w).
Definition forget_verify (w : wrap_plan) : wrap_plan :=
  mk_wrap (custom_context w) 0 (check_host w) (server_name w) (ca_file w) (ca_path w)
          (load_default_certs w) (loads_client_cert w) (sets_ciphers w) (sets_ecdh_curve w) (explicit_protocol w).

(* check_hostname: whatever it is changed to, every other part of an accepted plan is unchanged *)
Theorem C11_check_hostname_own_check : forall o ch env host w w',
  tls_plan true o env host = Ok (Wrap w) ->
  tls_plan true (with_check_hostname o ch) env host = Ok (Wrap w') ->
  forget_check_host w' = forget_check_host w.
Proof.
  intros o ch env host w w' H H'. rewrite tls_plan_table in H, H'.
  destruct o as [cr c0 ca cp cx sh f1 f2 f3 f4 f5].
  unfold with_check_hostname, has_ca, eff_ca, eff_host, eff_cr in *. cbn in *.
  destruct cx; [inversion H; inversion H'; reflexivity|].
  destruct (match cr with Some z => z | None => CERT_REQUIRED end =? 0).
  - destruct c0 as [[|]|]; try discriminate; destruct ch as [[|]|]; try discriminate;
      inversion H; inversion H'; reflexivity.
  - destruct ((0 <=? match cr with Some z => z | None => CERT_REQUIRED end)
              && (match cr with Some z => z | None => CERT_REQUIRED end <=? 2)); [|discriminate].
    inversion H; inversion H'; reflexivity.
Qed.

(* ca_certs / ca_cert_path / the environment bundle: only the trust store changes, including
   whether the option set is accepted at all *)
Theorem C11_ca_options_own_check : forall o ca cp env env' host,
  map_plan forget_ca (tls_plan true (with_ca o ca cp) env' host)
  = map_plan forget_ca (tls_plan true o env host).
Proof.
  intros o ca cp env env' host. rewrite !tls_plan_table.
  destruct o as [cr c0 ca0 cp0 cx sh f1 f2 f3 f4 f5].
  unfold with_ca, eff_host, eff_cr. cbn.
  destruct cx; [reflexivity|].
  destruct (match cr with Some z => z | None => CERT_REQUIRED end =? 0).
  - destruct c0 as [[|]|]; reflexivity.
  - destruct ((0 <=? match cr with Some z => z | None => CERT_REQUIRED end)
              && (match cr with Some z => z | None => CERT_REQUIRED end <=? 2)); reflexivity.
Qed.

(* server_hostname: only the server name changes *)
Theorem C11_server_hostname_own_check : forall o sh env host,
  map_plan forget_name (tls_plan true (with_server_hostname o sh) env host)
  = map_plan forget_name (tls_plan true o env host).
Proof.
  intros o sh env host. rewrite !tls_plan_table.
  destruct o as [cr c0 ca0 cp0 cx sh0 f1 f2 f3 f4 f5].
  unfold with_server_hostname, has_ca, eff_ca, eff_cr. cbn.
  destruct cx; [reflexivity|].
  destruct (match cr with Some z => z | None => CERT_REQUIRED end =? 0).
  - destruct c0 as [[|]|]; reflexivity.
  - destruct ((0 <=? match cr with Some z => z | None => CERT_REQUIRED end)
              && (match cr with Some z => z | None => CERT_REQUIRED end <=? 2)); reflexivity.
Qed.

(* cert_reqs among absent / CERT_OPTIONAL / CERT_REQUIRED: only verify_mode changes *)
Definition verifying (cr : option Z) : Prop := cr = None \/ cr = Some 1 \/ cr = Some 2.

Theorem C11_cert_reqs_own_check_partial : forall o cr env host,
  verifying (cert_reqs o) -> verifying cr ->
  map_plan forget_verify (tls_plan true (with_cert_reqs o cr) env host)
  = map_plan forget_verify (tls_plan true o env host).
Proof.
  intros o cr env host Ho Hc. rewrite !tls_plan_table.
  destruct o as [cr0 c0 ca0 cp0 cx sh0 f1 f2 f3 f4 f5].
  unfold with_cert_reqs, has_ca, eff_ca, eff_host, eff_cr, verifying in *. cbn in *.
  destruct cx; [reflexivity|].
  destruct Ho as [->|[->| ->]]; destruct Hc as [->|[->| ->]]; reflexivity.
Qed.

(* FINDING (forced by CPython, not hidden): cert_reqs=CERT_NONE weakens more than the chain check.
   It also switches the host name check off and skips loading any CA, and together with an explicit
   check_hostname=True the option set is refused with ValueError instead of connecting. *)
Theorem C11_cert_none_disables_hostname_check : forall o env host,
  context o = false -> cert_reqs o = Some 0 ->
  (check_hostname o = Some true /\ tls_plan true o env host = Raise ValueErr)
  \/ (check_hostname o <> Some true /\
      exists w, tls_plan true o env host = Ok (Wrap w) /\
                verify_mode w = 0 /\ check_host w = false /\
                load_default_certs w = false /\ ca_file w = None /\ ca_path w = None).
Proof.
  intros o env host Hc Hr. rewrite tls_plan_table. unfold eff_cr. rewrite Hc, Hr. cbn.
  destruct (check_hostname o) as [[|]|].
  - left. auto.
  - right. split; [discriminate|]. eexists. split; [reflexivity|]. repeat split.
  - right. split; [discriminate|]. eexists. split; [reflexivity|]. repeat split.
Qed.

Theorem C11_cert_reqs_own_check_refuted :
  ~ (forall z host w,
       tls_plan true (with_cert_reqs empty_opt (Some z)) NoBundle host = Ok (Wrap w) ->
       check_host w = true).
Proof.
  intro H. specialize (H 0 [] _ eq_refl). discriminate.
Qed.

(* "alone" instances: one documented option on top of the defaults *)
Theorem C11_check_hostname_false_alone : forall host,
  tls_plan true (with_check_hostname empty_opt (Some false)) NoBundle host
  = Ok (Wrap (mk_wrap false 2 false host None None true false false false false)).
Proof. reflexivity. Qed.

Theorem C11_ca_file_alone : forall c f host,
  tls_plan true (with_ca empty_opt (Some (c :: f)) None) NoBundle host
  = Ok (Wrap (mk_wrap false 2 true host (Some (c :: f)) None false false false false false)).
Proof. reflexivity. Qed.

Theorem C11_ca_path_alone : forall c d host,
  tls_plan true (with_ca empty_opt None (Some (c :: d))) NoBundle host
  = Ok (Wrap (mk_wrap false 2 true host None (Some (c :: d)) false false false false false)).
Proof. reflexivity. Qed.

Theorem C11_env_file_alone : forall c f host,
  tls_plan true empty_opt (BundleFile (c :: f)) host
  = Ok (Wrap (mk_wrap false 2 true host (Some (c :: f)) None false false false false false)).
Proof. reflexivity. Qed.

Theorem C11_env_dir_alone : forall c d host,
  tls_plan true empty_opt (BundleDir (c :: d)) host
  = Ok (Wrap (mk_wrap false 2 true host None (Some (c :: d)) false false false false false)).
Proof. reflexivity. Qed.

Theorem C11_env_missing_alone : forall p host,
  tls_plan true empty_opt (BundleMissing p) host = Ok (Wrap (default_plan host)).
Proof. intros [|c p] host; reflexivity. Qed.

(* an explicit ca_certs wins over the environment file; the environment directory is then NOT
   consulted either ("elif") unless it is a directory *)
Theorem C11_user_ca_beats_env : forall c f e host,
  tls_plan true (with_ca empty_opt (Some (c :: f)) None) (BundleFile e) host
  = Ok (Wrap (mk_wrap false 2 true host (Some (c :: f)) None false false false false false)).
Proof. intros c f [|x e] host; reflexivity. Qed.

Theorem C11_server_hostname_alone : forall c s host,
  tls_plan true (with_server_hostname empty_opt (Some (c :: s))) NoBundle host
  = Ok (Wrap (mk_wrap false 2 true (c :: s) None None true false false false false)).
Proof. reflexivity. Qed.

Theorem C11_cert_none_alone : forall host,
  tls_plan true (with_cert_reqs empty_opt (Some 0)) NoBundle host
  = Ok (Wrap (mk_wrap false 0 false host None None false false false false false)).
Proof. reflexivity. Qed.

Theorem C11_cert_none_with_check_hostname_true : forall env host,
  tls_plan true (with_check_hostname (with_cert_reqs empty_opt (Some 0)) (Some true)) env host
  = Raise ValueErr.
Proof. intros. rewrite tls_plan_table. reflexivity. Qed.

Theorem C11_cert_optional_alone : forall host,
  tls_plan true (with_cert_reqs empty_opt (Some 1)) NoBundle host
  = Ok (Wrap (mk_wrap false 1 true host None None true false false false false)).
Proof. reflexivity. Qed.

(* a custom context: the library decides nothing but the server name *)
Theorem C11_custom_context : forall o env host,
  context o = true -> tls_plan true o env host = Ok (Wrap (custom_plan (eff_host o host))).
Proof. intros o env host H. rewrite tls_plan_table, H. reflexivity. Qed.

(* ------------------------------------------------------------------------------------------ *)
(* order of transport actions *)

(* [a] occurs, and no [b] occurs before its first occurrence *)
Definition precedes (a b : step) (l : list step) : Prop :=
  exists l1 l2, l = l1 ++ a :: l2 /\ ~ In b l1 /\ ~ In a l1 /\ In b l2.

Theorem C11_wss_first : forall t,
  precedes TlsWrap HandshakeWrite (connect_order true t) /\
  precedes OpenSocket TlsWrap (connect_order true t) /\
  (t = true -> precedes Tunnel TlsWrap (connect_order true t)).
Proof.
  intros [|]; repeat split.
  - exists [OpenSocket; Tunnel], [HandshakeWrite]. simpl. intuition discriminate.
  - exists [], [Tunnel; TlsWrap; HandshakeWrite]. simpl. intuition discriminate.
  - intros _. exists [OpenSocket], [TlsWrap; HandshakeWrite]. simpl. intuition discriminate.
  - exists [OpenSocket], [HandshakeWrite]. simpl. intuition discriminate.
  - exists [], [TlsWrap; HandshakeWrite]. simpl. intuition discriminate.
  - discriminate.
Qed.

Theorem C11_order_explicit :
  connect_order true false = [OpenSocket; TlsWrap; HandshakeWrite] /\
  connect_order true true = [OpenSocket; Tunnel; TlsWrap; HandshakeWrite] /\
  connect_order false false = [OpenSocket; HandshakeWrite] /\
  connect_order false true = [OpenSocket; Tunnel; HandshakeWrite].
Proof. repeat split. Qed.

Theorem C11_ws_no_wrap_step : forall t, ~ In TlsWrap (connect_order false t).
Proof. intros [|]; simpl; intuition discriminate. Qed.

Theorem C11_wss_first_socks : precedes TlsWrap HandshakeWrite (connect_order_full PathSocks true).
Proof. exists [SocksConnect], [HandshakeWrite]. simpl. intuition discriminate. Qed.

(* CAVEAT (outside the property's quantifier, documented as "pre-initialized stream socket"): with
   connect(url, socket=s) the caller's socket is used as it is, also for wss:// *)
Theorem C11_caller_socket_not_wrapped : forall is_secure,
  ~ In TlsWrap (connect_order_full PathCallerSocket is_secure).
Proof. intros b. simpl. intuition discriminate. Qed.

(* ------------------------------------------------------------------------------------------ *)
(* second check: an explicit enumeration of the decision-relevant option space, swept by
   vm_compute.  (The theorems above already hold for every option record; by
   C11_other_keys_do_not_interfere the five presence flags left at [false] here are irrelevant.) *)

Definition sF : str := [70].  (* "F" *)
Definition sD : str := [68].  (* "D" *)
Definition sS : str := [83].  (* "S" *)
Definition sE : str := [69].  (* "E" *)
Definition sH : str := [104]. (* "h": the URL's host *)

Definition all_cert_reqs : list (option Z) := [None; Some 0; Some 1; Some 2; Some 3; Some (-1)].
Definition all_check_hostname : list (option bool) := [None; Some true; Some false].
Definition all_str_opt (s : str) : list (option str) := [None; Some []; Some s].
Definition all_bool : list bool := [false; true].

Definition all_opts : list sslopt :=
  flat_map (fun cr => flat_map (fun ch => flat_map (fun ca => flat_map (fun cp =>
  flat_map (fun cx => map (fun sh =>
    mk_sslopt cr ch ca cp cx sh false false false false false)
  (all_str_opt sS)) all_bool) (all_str_opt sD)) (all_str_opt sF)) all_check_hostname) all_cert_reqs.

Definition all_envs : list env_bundle :=
  [NoBundle; BundleFile sE; BundleDir sE; BundleMissing sE; BundleFile []; BundleDir []; BundleMissing []].

Definition opt_Z_is (o : option Z) (z : Z) : bool := match o with Some x => x =? z | None => false end.
Definition opt_bool_is (o : option bool) (b : bool) : bool := match o with Some x => eqb x b | None => false end.

(* the boolean form of C11_only_documented and C11_errors *)
Definition chk (o : sslopt) (e : env_bundle) : bool :=
  match tls_plan true o e sH with
  | Ok NoWrap => false
  | Raise ex =>
      exn_eqb ex ValueErr && negb (context o) &&
      (opt_Z_is (cert_reqs o) 0 && opt_bool_is (check_hostname o) true
       || match cert_reqs o with Some z => (z <? 0) || (2 <? z) | None => false end)
  | Ok (Wrap w) =>
      eqb (custom_context w) (context o) &&
      implb (negb (verify_mode w =? 2))
            (context o || match cert_reqs o with Some z => negb (z =? 2) | None => false end) &&
      implb (negb (check_host w))
            (context o || opt_bool_is (check_hostname o) false || opt_Z_is (cert_reqs o) 0) &&
      implb (negb (str_eqb (server_name w) sH)) (truthy_o (server_hostname o)) &&
      implb (negb (context o) && negb (truthy_o (ca_certs o)) && negb (truthy_o (ca_cert_path o))
             && negb (env_effective e))
            (is_none (ca_file w) && is_none (ca_path w)
             && eqb (load_default_certs w) (negb (verify_mode w =? 0)))
  end.

Lemma sweep_ok : forallb (fun o => forallb (chk o) all_envs) all_opts = true.
Proof. vm_compute. reflexivity. Qed.

Theorem C11_sweep : forall o e, In o all_opts -> In e all_envs -> chk o e = true.
Proof.
  intros o e Ho He. pose proof sweep_ok as H. rewrite forallb_forall in H.
  specialize (H o Ho). rewrite forallb_forall in H. exact (H e He).
Qed.

Lemma all_opts_size : length all_opts = 972%nat /\ length all_envs = 7%nat.
Proof. vm_compute. split; reflexivity. Qed.

(* the number of accepted / refused combinations, as a regression anchor for the validation script *)
Lemma sweep_counts :
  Z.of_nat (length (filter (fun oe => is_ok (tls_plan true (fst oe) (snd oe) sH))
                           (flat_map (fun o => map (fun e => (o, e)) all_envs) all_opts))) = 5481.
Proof. vm_compute. reflexivity. Qed.

Print Assumptions C11_default.
Print Assumptions C11_ws_never.
Print Assumptions C11_wss_never_plain.
Print Assumptions C11_only_documented.
Print Assumptions C11_ca_source_values.
Print Assumptions C11_errors.
Print Assumptions C11_other_keys_do_not_interfere.
Print Assumptions C11_check_hostname_own_check.
Print Assumptions C11_ca_options_own_check.
Print Assumptions C11_server_hostname_own_check.
Print Assumptions C11_cert_reqs_own_check_partial.
Print Assumptions C11_cert_none_disables_hostname_check.
Print Assumptions C11_cert_reqs_own_check_refuted.
Print Assumptions C11_wss_first.
Print Assumptions C11_caller_socket_not_wrapped.
Print Assumptions C11_sweep.
Print Assumptions assign_any_protocol.
