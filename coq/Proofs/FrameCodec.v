(* Spec-level round trip: the RFC decoder inverts the canonical encoder. *)
From Coq Require Import ZArith List Bool Lia ZifyBool.
From WS Require Import Base.Bytes Spec.Frame Proofs.BytesLemmas.
Import ListNotations.
Open Scope Z_scope.
Ltac Zify.zify_post_hook ::= Z.div_mod_to_equations.

Lemma xor_cyc_twice key i d : xor_cyc key i (xor_cyc key i d) = d.
Proof.
  revert i; induction d as [|x d IH]; intro i; cbn [xor_cyc]; [reflexivity|].
  rewrite IH. f_equal. rewrite Z.lxor_assoc, Z.lxor_nilpotent, Z.lxor_0_r. reflexivity.
Qed.
Lemma xor_cyc_len key i d : length (xor_cyc key i d) = length d.
Proof. revert i; induction d as [|x d IH]; intro i; cbn [xor_cyc length]; [reflexivity|now rewrite IH]. Qed.
Lemma xor_cyc_zlen key i d : zlen (xor_cyc key i d) = zlen d.
Proof. unfold zlen. now rewrite xor_cyc_len. Qed.

Definition bit (x : Z) : Prop := x = 0 \/ x = 1.
Definition wf_hdr (h : hdr) : Prop :=
  bit (h_fin h) /\ bit (h_rsv1 h) /\ bit (h_rsv2 h) /\ bit (h_rsv3 h) /\ 0 <= h_opcode h < 16.
Definition wf_frame (f : wframe) : Prop :=
  wf_hdr (wh f) /\ bytes_ok (wpayload f) /\ zlen (wpayload f) < 2 ^ 63 /\
  match wkey f with Some k => length k = 4%nat | None => True end.

Lemma pow63 : 2 ^ 63 = 9223372036854775808. Proof. reflexivity. Qed.
Lemma pow256_2 : 256 ^ Z.of_nat 2 = 65536. Proof. reflexivity. Qed.
Lemma pow256_8 : 256 ^ Z.of_nat 8 = 18446744073709551616. Proof. reflexivity. Qed.

Lemma zsplit_lit (k : nat) a r : length a = k -> zsplit (Z.of_nat k) (a ++ r) = Some (a, r).
Proof. intros <-. apply zsplit_app. Qed.

Theorem decode_encode f rest : wf_frame f -> decode (encode f ++ rest) = Frame f rest.
Proof.
  destruct f as [[fin r1 r2 r3 op] key p].
  intros ((Hfin & Hr1 & Hr2 & Hr3 & Hop) & Hp & Hlen & Hkey). cbn [wh wkey wpayload h_fin h_rsv1 h_rsv2 h_rsv3 h_opcode] in Hfin, Hr1, Hr2, Hr3, Hop, Hp, Hlen, Hkey.
  unfold encode, encode_with. cbn [wh wkey wpayload h_fin h_rsv1 h_rsv2 h_rsv3 h_opcode].
  pose proof (zlen_nonneg p) as Hn0. rewrite pow63 in Hlen.
  set (n := zlen p) in *.
  set (b0 := 128 * fin + 64 * r1 + 32 * r2 + 16 * r3 + op).
  assert (Hb0 : b0 / 128 = fin /\ (b0 / 64) mod 2 = r1 /\ (b0 / 32) mod 2 = r2 /\ (b0 / 16) mod 2 = r3
                /\ b0 mod 16 = op).
  { unfold b0, bit in *. lia. }
  destruct Hb0 as (E1 & E2 & E3 & E4 & E5).
  set (m := match key with Some _ => 128 | None => 0 end).
  assert (Hm : m = 0 \/ m = 128) by (unfold m; destruct key; auto).
  set (body := match key with Some k => k ++ xor_cyc k 0 p | None => p end).
  assert (Hbody : forall ms, ms = (if m =? 128 then 1 else 0) ->
     match (if ms =? 1 then match zsplit 4 (body ++ rest) with Some (k, r2') => Some (Some k, r2') | None => None end
            else Some (None, body ++ rest)) with
     | None => Incomplete
     | Some (key', r2') =>
       match zsplit n r2' with
       | None => Incomplete
       | Some (p', rest') =>
         Frame {| wh := {| h_fin := fin; h_rsv1 := r1; h_rsv2 := r2; h_rsv3 := r3; h_opcode := op |};
                  wkey := key'; wpayload := match key' with Some k => xor_cyc k 0 p' | None => p' end |} rest'
       end
     end = Frame {| wh := {| h_fin := fin; h_rsv1 := r1; h_rsv2 := r2; h_rsv3 := r3; h_opcode := op |};
                    wkey := key; wpayload := p |} rest).
  { intros ms ->. unfold body, m. destruct key as [k|].
    - change ((if 128 =? 128 then 1 else 0) =? 1) with true. cbv iota.
      rewrite <- app_assoc. change 4 with (Z.of_nat 4). rewrite (zsplit_lit 4 k _ Hkey). cbv beta iota.
      unfold n. rewrite <- (xor_cyc_zlen k 0 p), zsplit_app, xor_cyc_twice. reflexivity.
    - change ((if 0 =? 128 then 1 else 0) =? 1) with false. cbv iota.
      unfold n. rewrite zsplit_app. reflexivity. }
  clearbody m body. destruct (n <? 126) eqn:C1.
  - (* 7-bit length *)
    cbn [app]. unfold decode, decode_with. fold b0. rewrite E1, E2, E3, E4, E5.
    assert (Hb1 : (m + n) / 128 = (if m =? 128 then 1 else 0) /\ (m + n) mod 128 = n) by (destruct Hm as [Hm|Hm]; rewrite Hm; [change (0 =? 128) with false | change (128 =? 128) with true]; cbv iota; lia).
    destruct Hb1 as [Hb1 Hb2]. rewrite Hb2. cbv zeta. rewrite C1.
    apply Hbody. exact Hb1.
  - destruct (n <? 65536) eqn:C2.
    + (* 16-bit length *)
      cbn [app]. unfold decode, decode_with. fold b0. rewrite E1, E2, E3, E4, E5.
      assert (Hb1 : (m + 126) / 128 = (if m =? 128 then 1 else 0) /\ (m + 126) mod 128 = 126) by (destruct Hm as [Hm|Hm]; rewrite Hm; [change (0 =? 128) with false | change (128 =? 128) with true]; cbv iota; lia).
      destruct Hb1 as [Hb1 Hb2]. rewrite Hb2. cbv zeta.
      change (126 <? 126) with false. change (126 =? 126) with true. cbv iota.
      rewrite <- app_assoc. change 2 with (Z.of_nat 2) at 1. rewrite (zsplit_lit 2 _ _ (be_encode_length 2 n)).
      rewrite be_roundtrip by (rewrite pow256_2; lia).
      replace (126 <=? n) with true by lia.
      apply Hbody. exact Hb1.
    + (* 64-bit length *)
      cbn [app]. unfold decode, decode_with. fold b0. rewrite E1, E2, E3, E4, E5.
      assert (Hb1 : (m + 127) / 128 = (if m =? 128 then 1 else 0) /\ (m + 127) mod 128 = 127) by (destruct Hm as [Hm|Hm]; rewrite Hm; [change (0 =? 128) with false | change (128 =? 128) with true]; cbv iota; lia).
      destruct Hb1 as [Hb1 Hb2]. rewrite Hb2. cbv zeta.
      change (127 <? 126) with false. change (127 =? 126) with false. cbv iota.
      rewrite <- app_assoc. change 8 with (Z.of_nat 8) at 1. rewrite (zsplit_lit 8 _ _ (be_encode_length 8 n)).
      rewrite be_roundtrip by (rewrite pow256_8; lia).
      rewrite pow63. replace ((65536 <=? n) && (n <? 9223372036854775808)) with true by lia.
      apply Hbody. exact Hb1.
Qed.
