(* Adequacy of Spec.Utf8.wf_utf8 (Unicode Table 3-7): the well-formed byte strings
   are exactly the UTF-8 encodings of sequences of Unicode scalar values. *)
From Coq Require Import ZArith List Bool Lia ZifyBool.
From WS Require Import Base.Bytes Spec.Utf8 Gen.GenUtils Proofs.Utf8Proof.
Import ListNotations.
Open Scope Z_scope.

Ltac Zify.zify_post_hook ::= Z.div_mod_to_equations.

(* ---- the rows of the table, as rewriting lemmas ---- *)

Lemma wf_row1 b0 r : 0 <= b0 <= 127 -> wf_utf8 (b0 :: r) = wf_utf8 r.
Proof.
  intro H. cbn [wf_utf8]. destruct (inr 0 127 b0) eqn:E; [reflexivity|].
  unfold inr in E. lia.
Qed.

Lemma wf_row2 b0 b1 r : 194 <= b0 <= 223 ->
  wf_utf8 (b0 :: b1 :: r) = cont b1 && wf_utf8 r.
Proof.
  intro H. cbn [wf_utf8].
  destruct (inr 0 127 b0) eqn:E0; [unfold inr in E0; lia|].
  destruct (inr 194 223 b0) eqn:E1; [reflexivity|unfold inr in E1; lia].
Qed.

Definition lo3 (b0 : Z) : Z := if b0 =? 224 then 160 else 128.
Definition hi3 (b0 : Z) : Z := if b0 =? 237 then 159 else 191.
Definition lo4 (b0 : Z) : Z := if b0 =? 240 then 144 else 128.
Definition hi4 (b0 : Z) : Z := if b0 =? 244 then 143 else 191.

Lemma wf_row3 b0 b1 b2 r : 224 <= b0 <= 239 ->
  wf_utf8 (b0 :: b1 :: b2 :: r) = inr (lo3 b0) (hi3 b0) b1 && cont b2 && wf_utf8 r.
Proof.
  intro H. cbn [wf_utf8]. unfold lo3, hi3, cont.
  destruct (inr 0 127 b0) eqn:E0; [unfold inr in E0; lia|].
  destruct (inr 194 223 b0) eqn:E1; [unfold inr in E1; lia|].
  destruct (b0 =? 224) eqn:E2.
  { destruct (b0 =? 237) eqn:E3; [lia|reflexivity]. }
  destruct (inr 225 236 b0) eqn:E3.
  { destruct (b0 =? 237) eqn:E4; [unfold inr in E3; lia|reflexivity]. }
  destruct (b0 =? 237) eqn:E4; [reflexivity|].
  destruct (inr 238 239 b0) eqn:E5; [reflexivity|].
  unfold inr in *. lia.
Qed.

Lemma wf_row4 b0 b1 b2 b3 r : 240 <= b0 <= 244 ->
  wf_utf8 (b0 :: b1 :: b2 :: b3 :: r) =
  inr (lo4 b0) (hi4 b0) b1 && cont b2 && cont b3 && wf_utf8 r.
Proof.
  intro H. cbn [wf_utf8]. unfold lo4, hi4, cont.
  destruct (inr 0 127 b0) eqn:E0; [unfold inr in E0; lia|].
  destruct (inr 194 223 b0) eqn:E1; [unfold inr in E1; lia|].
  destruct (b0 =? 224) eqn:E2; [lia|].
  destruct (inr 225 236 b0) eqn:E3; [unfold inr in E3; lia|].
  destruct (b0 =? 237) eqn:E4; [lia|].
  destruct (inr 238 239 b0) eqn:E5; [unfold inr in E5; lia|].
  destruct (b0 =? 240) eqn:E6.
  { destruct (b0 =? 244) eqn:E7; [lia|reflexivity]. }
  destruct (inr 241 243 b0) eqn:E7.
  { destruct (b0 =? 244) eqn:E8; [unfold inr in E7; lia|reflexivity]. }
  destruct (b0 =? 244) eqn:E8; [reflexivity|].
  unfold inr in *. lia.
Qed.

(* ---- the shape of an encoded scalar value ---- *)

Inductive enc_shape (c : Z) : bytes -> Prop :=
| ES1 : 0 <= c <= 127 -> enc_shape c [c]
| ES2 b0 b1 : 194 <= b0 <= 223 -> 128 <= b1 <= 191 ->
    c = (b0 - 192) * 64 + (b1 - 128) -> enc_shape c [b0; b1]
| ES3 b0 b1 b2 : 224 <= b0 <= 239 -> lo3 b0 <= b1 <= hi3 b0 -> 128 <= b2 <= 191 ->
    c = (b0 - 224) * 4096 + (b1 - 128) * 64 + (b2 - 128) -> enc_shape c [b0; b1; b2]
| ES4 b0 b1 b2 b3 : 240 <= b0 <= 244 -> lo4 b0 <= b1 <= hi4 b0 ->
    128 <= b2 <= 191 -> 128 <= b3 <= 191 ->
    c = (b0 - 240) * 262144 + (b1 - 128) * 4096 + (b2 - 128) * 64 + (b3 - 128) ->
    enc_shape c [b0; b1; b2; b3].

Lemma scalar_range c : scalar c = true -> 0 <= c <= 55295 \/ 57344 <= c <= 1114111.
Proof. unfold scalar, inr. lia. Qed.

Lemma encode1_shape c : scalar c = true -> enc_shape c (utf8_encode1 c).
Proof.
  intro Hs. apply scalar_range in Hs. unfold utf8_encode1.
  destruct (c <? 128) eqn:E1.
  { apply ES1. lia. }
  destruct (c <? 2048) eqn:E2.
  { apply ES2; lia. }
  destruct (c <? 65536) eqn:E3.
  { apply ES3; unfold lo3, hi3.
    - lia.
    - destruct (224 + c / 4096 =? 224) eqn:Ea; destruct (224 + c / 4096 =? 237) eqn:Eb; lia.
    - lia.
    - lia. }
  apply ES4; unfold lo4, hi4.
  - lia.
  - destruct (240 + c / 262144 =? 240) eqn:Ea; destruct (240 + c / 262144 =? 244) eqn:Eb; lia.
  - lia.
  - lia.
  - lia.
Qed.

Lemma shape_wf c l r : enc_shape c l -> wf_utf8 (l ++ r) = wf_utf8 r.
Proof.
  intro H. destruct H; cbn [app].
  - now apply wf_row1.
  - rewrite wf_row2 by assumption.
    replace (cont b1) with true by (unfold cont, inr; lia). reflexivity.
  - rewrite wf_row3 by assumption.
    replace (inr (lo3 b0) (hi3 b0) b1) with true by (unfold inr; lia).
    replace (cont b2) with true by (unfold cont, inr; lia). reflexivity.
  - rewrite wf_row4 by assumption.
    replace (inr (lo4 b0) (hi4 b0) b1) with true by (unfold inr; lia).
    replace (cont b2) with true by (unfold cont, inr; lia).
    replace (cont b3) with true by (unfold cont, inr; lia). reflexivity.
Qed.

(* (a) *)
Theorem wf_encode1 : forall c r, scalar c = true ->
  wf_utf8 (utf8_encode1 c ++ r) = wf_utf8 r.
Proof. intros c r Hs. apply (shape_wf c). now apply encode1_shape. Qed.

(* (b) *)
Theorem wf_utf8_encode : forall cs, forallb scalar cs = true ->
  wf_utf8 (utf8_encode cs) = true.
Proof.
  induction cs as [|c cs IH]; intro H; [reflexivity|].
  cbn [forallb] in H. apply andb_prop in H as [Hc Hcs].
  unfold utf8_encode in *. cbn [flat_map]. rewrite wf_encode1 by assumption. auto.
Qed.

(* (e) *)
Lemma shape_bytes_ok c l : enc_shape c l -> bytes_ok l.
Proof.
  intro H. destruct H; unfold lo3, hi3, lo4, hi4 in *;
  repeat (apply Forall_cons; [unfold byte_ok; try lia|]); try apply Forall_nil.
  - destruct (b0 =? 224), (b0 =? 237); lia.
  - destruct (b0 =? 240), (b0 =? 244); lia.
Qed.

Theorem encode1_bytes_ok : forall c, scalar c = true -> bytes_ok (utf8_encode1 c).
Proof. intros c Hs. apply (shape_bytes_ok c). now apply encode1_shape. Qed.

(* ---- a shape determines a scalar value whose encoding is the shape ---- *)

Lemma shape_scalar c l : enc_shape c l -> scalar c = true /\ utf8_encode1 c = l.
Proof.
  intro H. destruct H as [H|b0 b1 H0 H1 Hc|b0 b1 b2 H0 H1 H2 Hc|b0 b1 b2 b3 H0 H1 H2 H3 Hc].
  - split; [unfold scalar, inr; lia|].
    unfold utf8_encode1. destruct (c <? 128) eqn:E; [reflexivity|lia].
  - split; [unfold scalar, inr; lia|].
    unfold utf8_encode1.
    destruct (c <? 128) eqn:E1; [lia|].
    destruct (c <? 2048) eqn:E2; [|lia].
    f_equal; [lia|]. f_equal. lia.
  - assert (Hb1 : 128 <= b1 <= 191 /\ (b0 = 224 -> 160 <= b1) /\ (b0 = 237 -> b1 <= 159)).
    { unfold lo3, hi3 in H1. destruct (b0 =? 224) eqn:Ea; destruct (b0 =? 237) eqn:Eb; lia. }
    clear H1. destruct Hb1 as (H1 & H1a & H1b).
    split; [unfold scalar, inr; lia|].
    unfold utf8_encode1.
    destruct (c <? 128) eqn:E1; [lia|].
    destruct (c <? 2048) eqn:E2; [lia|].
    destruct (c <? 65536) eqn:E3; [|lia].
    f_equal; [lia|]. f_equal; [lia|]. f_equal. lia.
  - assert (Hb1 : 128 <= b1 <= 191 /\ (b0 = 240 -> 144 <= b1) /\ (b0 = 244 -> b1 <= 143)).
    { unfold lo4, hi4 in H1. destruct (b0 =? 240) eqn:Ea; destruct (b0 =? 244) eqn:Eb; lia. }
    clear H1. destruct Hb1 as (H1 & H1a & H1b).
    split; [unfold scalar, inr; lia|].
    unfold utf8_encode1.
    destruct (c <? 128) eqn:E1; [lia|].
    destruct (c <? 2048) eqn:E2; [lia|].
    destruct (c <? 65536) eqn:E3; [lia|].
    f_equal; [lia|]. f_equal; [lia|]. f_equal; [lia|]. f_equal. lia.
Qed.

(* One step of decoding: a non-empty well-formed string starts with a shape. *)
Lemma wf_peel b0 r : wf_utf8 (b0 :: r) = true ->
  exists c l r', enc_shape c l /\ b0 :: r = l ++ r' /\ wf_utf8 r' = true
                 /\ (length r' < length (b0 :: r))%nat.
Proof.
  intro H. cbn [wf_utf8] in H.
  destruct (inr 0 127 b0) eqn:E0.
  { exists b0, [b0], r. repeat split; [apply ES1; unfold inr in E0; lia|assumption|cbn; lia]. }
  destruct (inr 194 223 b0) eqn:E1.
  { destruct r as [|b1 r']; [discriminate|].
    apply andb_prop in H as [Hc Hr].
    exists ((b0 - 192) * 64 + (b1 - 128)), [b0; b1], r'.
    repeat split; [|assumption|cbn; lia].
    unfold cont, inr in *. apply ES2; lia. }
  assert (three : forall lo hi, 224 <= b0 <= 239 -> lo3 b0 = lo -> hi3 b0 = hi ->
            match r with b1 :: b2 :: r' => inr lo hi b1 && cont b2 && wf_utf8 r' | _ => false end = true ->
            exists c l r', enc_shape c l /\ b0 :: r = l ++ r' /\ wf_utf8 r' = true
                 /\ (length r' < length (b0 :: r))%nat).
  { intros lo hi Hb0 Hlo Hhi Hm. destruct r as [|b1 [|b2 r']]; try discriminate.
    apply andb_prop in Hm as [Hm Hr]. apply andb_prop in Hm as [Hc1 Hc2].
    exists ((b0 - 224) * 4096 + (b1 - 128) * 64 + (b2 - 128)), [b0; b1; b2], r'.
    repeat split; [|assumption|cbn; lia].
    unfold cont, inr in *. apply ES3; lia. }
  assert (four : forall lo hi, 240 <= b0 <= 244 -> lo4 b0 = lo -> hi4 b0 = hi ->
            match r with b1 :: b2 :: b3 :: r' => inr lo hi b1 && cont b2 && cont b3 && wf_utf8 r' | _ => false end = true ->
            exists c l r', enc_shape c l /\ b0 :: r = l ++ r' /\ wf_utf8 r' = true
                 /\ (length r' < length (b0 :: r))%nat).
  { intros lo hi Hb0 Hlo Hhi Hm. destruct r as [|b1 [|b2 [|b3 r']]]; try discriminate.
    apply andb_prop in Hm as [Hm Hr]. apply andb_prop in Hm as [Hm Hc3].
    apply andb_prop in Hm as [Hc1 Hc2].
    exists ((b0 - 240) * 262144 + (b1 - 128) * 4096 + (b2 - 128) * 64 + (b3 - 128)),
           [b0; b1; b2; b3], r'.
    repeat split; [|assumption|cbn; lia].
    unfold cont, inr in *. apply ES4; lia. }
  destruct (b0 =? 224) eqn:E2.
  { apply (three 160 191); [lia|unfold lo3; now rewrite E2| |exact H].
    unfold hi3. destruct (b0 =? 237) eqn:E; [lia|reflexivity]. }
  destruct (inr 225 236 b0) eqn:E3.
  { apply (three 128 191); [unfold inr in E3; lia|unfold lo3; now rewrite E2| |exact H].
    unfold hi3. destruct (b0 =? 237) eqn:E; [unfold inr in E3; lia|reflexivity]. }
  destruct (b0 =? 237) eqn:E4.
  { apply (three 128 159); [lia|unfold lo3; now rewrite E2|unfold hi3; now rewrite E4|exact H]. }
  destruct (inr 238 239 b0) eqn:E5.
  { apply (three 128 191); [unfold inr in E5; lia|unfold lo3; now rewrite E2|unfold hi3; now rewrite E4|exact H]. }
  destruct (b0 =? 240) eqn:E6.
  { apply (four 144 191); [lia|unfold lo4; now rewrite E6| |exact H].
    unfold hi4. destruct (b0 =? 244) eqn:E; [lia|reflexivity]. }
  destruct (inr 241 243 b0) eqn:E7.
  { apply (four 128 191); [unfold inr in E7; lia|unfold lo4; now rewrite E6| |exact H].
    unfold hi4. destruct (b0 =? 244) eqn:E; [unfold inr in E7; lia|reflexivity]. }
  destruct (b0 =? 244) eqn:E8; [|discriminate].
  apply (four 128 143); [lia|unfold lo4; now rewrite E6|unfold hi4; now rewrite E8|exact H].
Qed.

(* (c)  The hypothesis bytes_ok is not needed (the table itself bounds every byte);
   it is kept to match the requested statement; see wf_utf8_decodes_nobound. *)
Lemma wf_utf8_decodes_nobound : forall l, wf_utf8 l = true ->
  exists cs, forallb scalar cs = true /\ l = utf8_encode cs.
Proof.
  intro l. remember (length l) as n eqn:Hn. revert l Hn.
  induction n as [n IH] using lt_wf_ind. intros l Hn Hwf.
  destruct l as [|b0 r].
  { exists []. split; reflexivity. }
  destruct (wf_peel b0 r Hwf) as (c & l1 & r' & Hsh & Hl & Hr & Hlen).
  destruct (IH (length r') ltac:(lia) r' eq_refl Hr) as (cs & Hcs & Hr').
  destruct (shape_scalar c l1 Hsh) as [Hsc Henc].
  exists (c :: cs). split.
  - cbn [forallb]. now rewrite Hsc, Hcs.
  - unfold utf8_encode in *. cbn [flat_map]. now rewrite Henc, <- Hr'.
Qed.

Theorem wf_utf8_decodes : forall l, bytes_ok l -> wf_utf8 l = true ->
  exists cs, forallb scalar cs = true /\ l = utf8_encode cs.
Proof. intros l _. apply wf_utf8_decodes_nobound. Qed.

(* wf_utf8 as an equivalence *)
Theorem wf_utf8_iff_scalar_encoding : forall l,
  wf_utf8 l = true <-> exists cs, forallb scalar cs = true /\ l = utf8_encode cs.
Proof.
  intro l. split; [apply wf_utf8_decodes_nobound|].
  intros (cs & Hcs & ->). now apply wf_utf8_encode.
Qed.

(* (d) injectivity of the encoding on scalar values *)
Lemma shape_prefix_unique c1 l1 r1 c2 l2 r2 :
  enc_shape c1 l1 -> enc_shape c2 l2 -> l1 ++ r1 = l2 ++ r2 -> c1 = c2 /\ r1 = r2.
Proof.
  intros H1 H2 E.
  destruct H1; destruct H2; cbn [app] in E; injection E; intros; subst; try lia; split; auto; lia.
Qed.

Theorem utf8_encode_injective : forall cs1 cs2,
  forallb scalar cs1 = true -> forallb scalar cs2 = true ->
  utf8_encode cs1 = utf8_encode cs2 -> cs1 = cs2.
Proof.
  unfold utf8_encode.
  induction cs1 as [|c1 cs1 IH]; intros [|c2 cs2] H1 H2 E; cbn [flat_map forallb] in *.
  - reflexivity.
  - apply andb_prop in H2 as [Hc _]. apply encode1_shape in Hc.
    destruct Hc; discriminate.
  - apply andb_prop in H1 as [Hc _]. apply encode1_shape in Hc.
    destruct Hc; discriminate.
  - apply andb_prop in H1 as [Hc1 H1]. apply andb_prop in H2 as [Hc2 H2].
    destruct (shape_prefix_unique _ _ _ _ _ _ (encode1_shape _ Hc1) (encode1_shape _ Hc2) E)
      as [-> Er].
    f_equal. now apply IH.
Qed.

(* The regenerated validator accepts exactly the encodings of scalar-value sequences. *)
Theorem validator_accepts_exactly_scalar_encodings : forall l, bytes_ok l ->
  (validate_utf8 l = true <-> exists cs, forallb scalar cs = true /\ l = utf8_encode cs).
Proof.
  intros l Hok. rewrite (validator_correct l Hok). apply wf_utf8_iff_scalar_encoding.
Qed.

Print Assumptions wf_encode1.
Print Assumptions wf_utf8_encode.
Print Assumptions wf_utf8_decodes.
Print Assumptions utf8_encode_injective.
Print Assumptions encode1_bytes_ok.
Print Assumptions validator_accepts_exactly_scalar_encodings.
