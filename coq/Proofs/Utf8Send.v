(* The sending side meets the receiving side: the payload of a text frame built from a str (a list of Unicode scalar
   values, encoded by str.encode("utf-8") = utf8_encode, tie B) is accepted by the validator regenerated from
   websocket/_utils.py -- so a text message sent by this client is never rejected by a peer running the same check. *)
From Coq Require Import ZArith List Bool Lia.
From WS Require Import Base.Res Base.Bytes Spec.Utf8 Gen.GenUtils Proofs.BytesLemmas Proofs.Utf8Proof Proofs.Utf8Adequacy.
Import ListNotations.
Open Scope Z_scope.

Lemma utf8_encode_bytes_ok : forall cs, forallb scalar cs = true -> bytes_ok (utf8_encode cs).
Proof.
  induction cs as [|c cs IH]; cbn [forallb utf8_encode flat_map]; intro H.
  - constructor.
  - apply andb_true_iff in H as [Hc Hcs]. apply bytes_ok_app. split.
    + apply encode1_bytes_ok; exact Hc.
    + apply IH; exact Hcs.
Qed.

Theorem text_payload_accepted : forall cs, forallb scalar cs = true -> validate_utf8 (utf8_encode cs) = true.
Proof.
  intros cs H. apply validator_accepts_exactly_scalar_encodings.
  - apply utf8_encode_bytes_ok; exact H.
  - exists cs. split; [exact H | reflexivity].
Qed.

(* and what the receiver decodes is what was sent: the encoding determines the text *)
Theorem text_payload_determines_text : forall cs1 cs2,
  forallb scalar cs1 = true -> forallb scalar cs2 = true -> utf8_encode cs1 = utf8_encode cs2 -> cs1 = cs2.
Proof. exact utf8_encode_injective. Qed.

Print Assumptions text_payload_accepted.
Print Assumptions text_payload_determines_text.
