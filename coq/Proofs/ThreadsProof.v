(* C12: atomicity of send_frame / recv under the connection locks, and necessity of the locks.
   Model: Model/Threads.v (small-step interleaving of n threads sharing one connection). *)
From Coq Require Import ZArith List Bool Lia Permutation.
From WS Require Import Base.Bytes Model.Threads Proofs.BytesLemmas.
Import ListNotations.

(* ------------------------------------------------------------------ *)
(* generic list lemmas                                                 *)
(* ------------------------------------------------------------------ *)

Lemma set_nth_app {A} (a b : list A) y x : set_nth (a ++ y :: b) (length a) x = a ++ x :: b.
Proof.
  unfold set_nth. induction a as [|z a IH]; cbn [length app firstn skipn]; [reflexivity|].
  f_equal. exact IH.
Qed.

Lemma set_nth_cons_S {A} (y : A) l i x : set_nth (y :: l) (S i) x = y :: set_nth l i x.
Proof. reflexivity. Qed.

Lemma set_nth_length {A} (l : list A) i x : length (set_nth l i x) = length l.
Proof.
  revert i; induction l as [|y l IH]; intro i.
  - destruct i; reflexivity.
  - destruct i as [|i]; [reflexivity|]. rewrite set_nth_cons_S. cbn [length]. now rewrite IH.
Qed.

Lemma nth_error_set_nth_same {A} (l : list A) i x :
  (i < length l)%nat -> nth_error (set_nth l i x) i = Some x.
Proof.
  revert i; induction l as [|y l IH]; intros i H; cbn [length] in H; [lia|].
  destruct i as [|i]; [reflexivity|]. rewrite set_nth_cons_S. cbn [nth_error]. apply IH. lia.
Qed.

Lemma nth_error_set_nth_other {A} (l : list A) i j x :
  i <> j -> nth_error (set_nth l i x) j = nth_error l j.
Proof.
  revert i j; induction l as [|y l IH]; intros i j H.
  - destruct i; reflexivity.
  - destruct i as [|i].
    + destruct j as [|j]; [congruence|reflexivity].
    + rewrite set_nth_cons_S. destruct j as [|j]; [reflexivity|]. cbn [nth_error]. apply IH. congruence.
Qed.

Lemma nth_error_mid {A} (a b : list A) y : nth_error (a ++ y :: b) (length a) = Some y.
Proof. induction a as [|z a IH]; cbn [length app nth_error]; [reflexivity|exact IH]. Qed.

Lemma app_mid_single {A} (a b : list A) x y : a ++ x :: b = [y] -> a = [] /\ x = y /\ b = [].
Proof.
  destruct a as [|z a]; cbn [app]; intro H.
  - inversion H; subst. auto.
  - inversion H as [[H1 H2]]. exfalso. symmetry in H2. exact (app_cons_not_nil _ _ _ H2).
Qed.

Lemma app_mid_not_nil {A} (a b : list A) x : a ++ x :: b = [] -> False.
Proof. intro H. symmetry in H. exact (app_cons_not_nil _ _ _ H). Qed.

Lemma skipn_cons_inv {A} k (l : list A) x ms :
  skipn k l = x :: ms -> nth_error l k = Some x /\ skipn (S k) l = ms.
Proof.
  revert l; induction k as [|k IH]; intros l H.
  - cbn [skipn] in H. subst l. split; reflexivity.
  - destruct l as [|y l]; [discriminate|]. cbn [skipn] in H. apply IH in H as [H1 H2].
    split; [exact H1|exact H2].
Qed.

Lemma firstn_S_nth {A} k (l : list A) x : nth_error l k = Some x -> firstn (S k) l = firstn k l ++ [x].
Proof.
  revert l; induction k as [|k IH]; intros l H.
  - destruct l as [|y l]; [discriminate|]. cbn in H. inversion H; subst. reflexivity.
  - destruct l as [|y l]; [discriminate|]. cbn [nth_error] in H. apply IH in H.
    change (firstn (S (S k)) (y :: l)) with (y :: firstn (S k) l). rewrite H. reflexivity.
Qed.

Lemma perm_deliver {A} (da db fs : list A) m :
  Permutation (da ++ db) fs -> Permutation (da ++ m :: db) (fs ++ [m]).
Proof.
  intro H. apply Permutation_sym.
  eapply Permutation_trans; [apply Permutation_sym, Permutation_cons_append|].
  apply Permutation_cons_app. apply Permutation_sym. exact H.
Qed.

(* ------------------------------------------------------------------ *)
(* (1) senders: the write loop under the lock is atomic                *)
(* ------------------------------------------------------------------ *)

(* frames of the threads that have not got the lock yet / unwritten suffixes of the threads inside
   the write loop, in thread order *)
Definition waiting (ts : list sstate) : list bytes :=
  flat_map (fun t => match t with SWaiting f => [f] | _ => [] end) ts.
Definition holding (ts : list sstate) : list bytes :=
  flat_map (fun t => match t with SHolding r => [r] | _ => [] end) ts.

(* [done]: frames completely written, in completion order; [pre]: what the lock owner has already
   written of its frame.  The wire is always whole frames followed by a prefix of the owner's frame;
   at most one thread is inside the write loop and it is the lock owner; no frame is lost or
   duplicated. *)
Definition send_inv (frames : list bytes) (w : sworld) : Prop :=
  exists (done : list bytes) (pre : bytes),
    s_wire w = concat done ++ pre /\
    match s_lock w with
    | None => pre = [] /\ holding (s_threads w) = [] /\
              Permutation (done ++ waiting (s_threads w)) frames
    | Some i => exists rest,
              nth_error (s_threads w) i = Some (SHolding rest) /\
              holding (s_threads w) = [rest] /\
              Permutation (done ++ (pre ++ rest) :: waiting (s_threads w)) frames
    end.

Lemma waiting_mid a y b :
  waiting (a ++ y :: b) = waiting a ++ match y with SWaiting f => [f] | _ => [] end ++ waiting b.
Proof. unfold waiting. rewrite flat_map_app. reflexivity. Qed.
Lemma holding_mid a y b :
  holding (a ++ y :: b) = holding a ++ match y with SHolding r => [r] | _ => [] end ++ holding b.
Proof. unfold holding. rewrite flat_map_app. reflexivity. Qed.

Lemma in_holding r l : In (SHolding r) l -> In r (holding l).
Proof. intro H. unfold holding. apply in_flat_map. exists (SHolding r). split; [exact H|left; reflexivity]. Qed.

(* "exactly the lock owner": if nobody in [a] and [b] is inside the loop, a thread found inside the
   loop in [a ++ y :: b] is [y] *)
Lemma holder_unique a y b j r :
  holding a = [] -> holding b = [] -> nth_error (a ++ y :: b) j = Some (SHolding r) -> j = length a.
Proof.
  intros Ha Hb Hj. destruct (lt_eq_lt_dec j (length a)) as [[Hlt|Heq]|Hgt]; [|exact Heq|]; exfalso.
  - rewrite nth_error_app1 in Hj by exact Hlt. apply nth_error_In, in_holding in Hj.
    rewrite Ha in Hj. exact Hj.
  - rewrite nth_error_app2 in Hj by lia.
    destruct (j - length a)%nat as [|d] eqn:E; [lia|]. cbn [nth_error] in Hj.
    apply nth_error_In, in_holding in Hj. rewrite Hb in Hj. exact Hj.
Qed.

Lemma sstep_inv frames w i k w' :
  send_inv frames w -> sstep true w i k = Some w' -> send_inv frames w'.
Proof.
  intros (done & pre & Hw & Hl) Hs. unfold sstep in Hs.
  destruct (nth_error (s_threads w) i) as [y|] eqn:Hn; [|discriminate].
  apply nth_error_split in Hn as (ta & tb & Hts & Hlen). subst i.
  rewrite Hts in Hs, Hl. unfold send_inv.
  destruct y as [f | [|b0 r] | ]; [ | | |discriminate].
  - (* SWaiting f: takes the lock if it is free *)
    destruct (s_lock w) as [j|] eqn:Hlock; [discriminate|].
    injection Hs as <-. cbn [s_wire s_lock s_threads]. rewrite set_nth_app.
    destruct Hl as (-> & Hh & Hp).
    rewrite holding_mid in Hh. cbn [app] in Hh. apply app_eq_nil in Hh as [Ha Hb].
    exists done, []. split; [exact Hw|].
    exists f. split; [apply nth_error_mid|]. split.
    + rewrite holding_mid, Ha, Hb. reflexivity.
    + rewrite waiting_mid in Hp |- *. cbn [app] in Hp |- *.
      eapply Permutation_trans; [|exact Hp]. apply Permutation_app_head, Permutation_middle.
  - (* SHolding []: frame complete, releases the lock *)
    destruct (s_lock w) as [j|] eqn:Hlock.
    2:{ destruct Hl as (_ & Hh & _). rewrite holding_mid in Hh. cbn [app] in Hh.
        exfalso. exact (app_mid_not_nil _ _ _ Hh). }
    injection Hs as <-. cbn [s_wire s_lock s_threads]. rewrite set_nth_app.
    destruct Hl as (rest & Hj & Hh & Hp).
    rewrite holding_mid in Hh. cbn [app] in Hh. apply app_mid_single in Hh as (Ha & <- & Hb).
    exists (done ++ [pre]), []. split.
    + rewrite concat_app. cbn [concat]. rewrite !app_nil_r. exact Hw.
    + split; [reflexivity|]. split.
      * rewrite holding_mid, Ha, Hb. reflexivity.
      * rewrite waiting_mid in Hp |- *. cbn [app] in Hp |- *. rewrite app_nil_r in Hp.
        rewrite <- app_assoc. cbn [app]. exact Hp.
  - (* SHolding (b0 :: r): one (possibly short) write *)
    destruct (s_lock w) as [j|] eqn:Hlock.
    2:{ destruct Hl as (_ & Hh & _). rewrite holding_mid in Hh. cbn [app] in Hh.
        exfalso. exact (app_mid_not_nil _ _ _ Hh). }
    cbv zeta in Hs. injection Hs as <-. cbn [s_wire s_lock s_threads]. rewrite set_nth_app.
    destruct Hl as (rest & Hj & Hh & Hp).
    rewrite holding_mid in Hh. cbn [app] in Hh. apply app_mid_single in Hh as (Ha & <- & Hb).
    apply (holder_unique _ _ _ _ _ Ha Hb) in Hj. subst j.
    set (n := Z.max 1 (Z.min k (zlen (b0 :: r)))).
    exists done, (pre ++ ztake n (b0 :: r)). split.
    + rewrite Hw, app_assoc. reflexivity.
    + exists (zdrop n (b0 :: r)). split; [apply nth_error_mid|]. split.
      * rewrite holding_mid, Ha, Hb. reflexivity.
      * rewrite <- app_assoc, ztake_zdrop.
        rewrite waiting_mid in Hp |- *. exact Hp.
Qed.

Lemma srun_inv frames sched : forall w, send_inv frames w -> send_inv frames (srun true w sched).
Proof.
  induction sched as [|[i k] r IH]; intros w H; cbn [srun]; [exact H|].
  destruct (sstep true w i k) as [w'|] eqn:E; apply IH; [eapply sstep_inv; eassumption|exact H].
Qed.

Lemma sinit_inv frames : send_inv frames (sinit frames).
Proof.
  exists [], []. cbn [sinit s_wire s_lock s_threads concat app]. split; [reflexivity|].
  split; [reflexivity|]. split.
  - unfold holding. induction frames as [|f fs IH]; [reflexivity|exact IH].
  - replace (waiting (map SWaiting frames)) with frames; [apply Permutation_refl|].
    unfold waiting. induction frames as [|f fs IH]; [reflexivity|]. cbn [map flat_map app]. now rewrite <- IH.
Qed.

Theorem atomic_send_inv : forall frames sched, send_inv frames (srun true (sinit frames) sched).
Proof. intros frames sched. apply srun_inv, sinit_inv. Qed.

Lemma all_sdone_nothing ts :
  forallb (fun t => match t with SDone => true | _ => false end) ts = true ->
  waiting ts = [] /\ holding ts = [].
Proof.
  induction ts as [|t ts IH]; intro H; [split; reflexivity|].
  cbn [forallb] in H. apply andb_true_iff in H as [Ht H]. destruct t; try discriminate.
  exact (IH H).
Qed.

Theorem atomic_send : forall frames sched,
  all_sdone (srun true (sinit frames) sched) = true ->
  exists perm, Permutation perm frames /\ s_wire (srun true (sinit frames) sched) = concat perm.
Proof.
  intros frames sched Hd.
  destruct (atomic_send_inv frames sched) as (done & pre & Hw & Hl).
  apply all_sdone_nothing in Hd as [Hwt Hh].
  destruct (s_lock (srun true (sinit frames) sched)) as [j|].
  - destruct Hl as (rest & _ & Hh' & _). rewrite Hh in Hh'. discriminate.
  - destruct Hl as (-> & _ & Hp). rewrite Hwt, app_nil_r in Hp. rewrite app_nil_r in Hw.
    exists done. split; assumption.
Qed.

(* ------------------------------------------------------------------ *)
(* (2) without the lock the frames interleave on the wire              *)
(* ------------------------------------------------------------------ *)

Definition tear_frames : list bytes := [[1; 2]; [3; 4]]%Z.
Definition tear_sched : list (nat * Z) := map (fun i : nat => (i, 1%Z)) [0; 1; 0; 1; 0; 1; 0; 1]%nat.

Theorem unlocked_send_tears : exists frames sched,
  all_sdone (srun false (sinit frames) sched) = true /\
  forall perm, Permutation perm frames -> s_wire (srun false (sinit frames) sched) <> concat perm.
Proof.
  exists tear_frames, tear_sched. split; [vm_compute; reflexivity|].
  intros perm Hp. apply Permutation_sym in Hp. unfold tear_frames in Hp.
  apply Permutation_length_2_inv in Hp. destruct Hp as [-> | ->]; vm_compute; discriminate.
Qed.

(* ------------------------------------------------------------------ *)
(* (3) receivers: a message read under the read lock is delivered intact *)
(* ------------------------------------------------------------------ *)

Definition rholding (ts : list rstate) : list (list bytes) :=
  flat_map (fun t => match t with RHolding g => [g] | _ => [] end) ts.
Definition rdel (ts : list rstate) : list (list bytes) :=
  flat_map (fun t => match t with RDone m => [m] | _ => [] end) ts.

(* k messages have been delivered, each whole and to exactly one thread; at most one thread is
   reading, it is the lock owner, and it has either read nothing yet or a proper prefix [got] of
   message number k whose remaining chunks are [r_cur]. *)
Definition recv_inv (stream : list (list bytes)) (w : rworld) : Prop :=
  exists k : nat,
    Permutation (delivered w) (firstn k stream) /\
    match r_lock w with
    | None => r_cur w = [] /\ rholding (r_threads w) = [] /\ r_stream w = skipn k stream
    | Some i => exists got,
        nth_error (r_threads w) i = Some (RHolding got) /\
        rholding (r_threads w) = [got] /\
        ((got = [] /\ r_cur w = [] /\ r_stream w = skipn k stream) \/
         (r_cur w <> [] /\ nth_error stream k = Some (got ++ r_cur w) /\
          r_stream w = skipn (S k) stream))
    end.

Lemma rholding_mid a y b :
  rholding (a ++ y :: b) = rholding a ++ match y with RHolding g => [g] | _ => [] end ++ rholding b.
Proof. unfold rholding. rewrite flat_map_app. reflexivity. Qed.
Lemma rdel_mid a y b :
  rdel (a ++ y :: b) = rdel a ++ match y with RDone m => [m] | _ => [] end ++ rdel b.
Proof. unfold rdel. rewrite flat_map_app. reflexivity. Qed.

Lemma in_rholding g l : In (RHolding g) l -> In g (rholding l).
Proof. intro H. unfold rholding. apply in_flat_map. exists (RHolding g). split; [exact H|left; reflexivity]. Qed.

Lemma rholder_unique a y b j g :
  rholding a = [] -> rholding b = [] -> nth_error (a ++ y :: b) j = Some (RHolding g) -> j = length a.
Proof.
  intros Ha Hb Hj. destruct (lt_eq_lt_dec j (length a)) as [[Hlt|Heq]|Hgt]; [|exact Heq|]; exfalso.
  - rewrite nth_error_app1 in Hj by exact Hlt. apply nth_error_In, in_rholding in Hj.
    rewrite Ha in Hj. exact Hj.
  - rewrite nth_error_app2 in Hj by lia.
    destruct (j - length a)%nat as [|d] eqn:E; [lia|]. cbn [nth_error] in Hj.
    apply nth_error_In, in_rholding in Hj. rewrite Hb in Hj. exact Hj.
Qed.

Lemma rstep_inv stream w i w' :
  recv_inv stream w -> rstep true w i = Some w' -> recv_inv stream w'.
Proof.
  intros (k & Hp & Hl) Hs. unfold rstep in Hs.
  destruct (nth_error (r_threads w) i) as [y|] eqn:Hn; [|discriminate].
  apply nth_error_split in Hn as (ta & tb & Hts & Hlen). subst i.
  unfold delivered in Hp. fold (rdel (r_threads w)) in Hp.
  rewrite Hts in Hs, Hl, Hp. unfold recv_inv, delivered.
  destruct y as [ | got' | m ]; [| |discriminate].
  - (* RWaiting: takes the read lock if it is free *)
    destruct (r_lock w) as [j|] eqn:Hlock; [discriminate|].
    injection Hs as <-. cbn [r_lock r_cur r_stream r_threads]. rewrite set_nth_app.
    destruct Hl as (Hc & Hh & Hst).
    rewrite rholding_mid in Hh. cbn [app] in Hh. apply app_eq_nil in Hh as [Ha Hb].
    exists k. split.
    + fold (rdel (ta ++ RHolding [] :: tb)). rewrite rdel_mid in Hp |- *. exact Hp.
    + exists []. split; [apply nth_error_mid|]. split.
      * rewrite rholding_mid, Ha, Hb. reflexivity.
      * left. auto.
  - (* RHolding got': reads the next chunk *)
    destruct (r_lock w) as [j|] eqn:Hlock.
    2:{ destruct Hl as (_ & Hh & _). rewrite rholding_mid in Hh. cbn [app] in Hh.
        exfalso. exact (app_mid_not_nil _ _ _ Hh). }
    destruct Hl as (got & Hj & Hh & Hd).
    rewrite rholding_mid in Hh. cbn [app] in Hh. apply app_mid_single in Hh as (Ha & -> & Hb).
    apply (rholder_unique _ _ _ _ _ Ha Hb) in Hj. subst j.
    rewrite rdel_mid in Hp. cbn [app] in Hp.
    destruct Hd as [(-> & Hc & Hst) | (Hc & Hm & Hst)].
    + (* nothing read yet: start message k *)
      rewrite Hc in Hs.
      destruct (r_stream w) as [|[|c rest] ms] eqn:Hrs; try discriminate.
      symmetry in Hst. apply skipn_cons_inv in Hst as [Hnth Hsk].
      destruct rest as [|c2 rest2]; injection Hs as <-;
        cbn [r_lock r_cur r_stream r_threads]; rewrite set_nth_app.
      * exists (S k). split.
        -- fold (rdel (ta ++ RDone ([] ++ [c]) :: tb)). rewrite rdel_mid. cbn [app].
           rewrite (firstn_S_nth _ _ _ Hnth). apply perm_deliver. exact Hp.
        -- split; [reflexivity|]. split; [|symmetry; exact Hsk].
           rewrite rholding_mid, Ha, Hb. reflexivity.
      * exists k. split.
        -- fold (rdel (ta ++ RHolding ([] ++ [c]) :: tb)). rewrite rdel_mid. cbn [app]. exact Hp.
        -- exists ([] ++ [c]). split; [apply nth_error_mid|]. split.
           ++ rewrite rholding_mid, Ha, Hb. reflexivity.
           ++ right. split; [discriminate|]. split; [exact Hnth|symmetry; exact Hsk].
    + (* in the middle of message k *)
      destruct (r_cur w) as [|c rest] eqn:Hcur; [exfalso; apply Hc; reflexivity|].
      destruct rest as [|c2 rest2]; injection Hs as <-;
        cbn [r_lock r_cur r_stream r_threads]; rewrite set_nth_app.
      * exists (S k). split.
        -- fold (rdel (ta ++ RDone (got ++ [c]) :: tb)). rewrite rdel_mid. cbn [app].
           rewrite (firstn_S_nth _ _ _ Hm). apply perm_deliver. exact Hp.
        -- split; [reflexivity|]. split; [|exact Hst].
           rewrite rholding_mid, Ha, Hb. reflexivity.
      * exists k. split.
        -- fold (rdel (ta ++ RHolding (got ++ [c]) :: tb)). rewrite rdel_mid. cbn [app]. exact Hp.
        -- exists (got ++ [c]). split; [apply nth_error_mid|]. split.
           ++ rewrite rholding_mid, Ha, Hb. reflexivity.
           ++ right. split; [discriminate|]. split; [|exact Hst].
              rewrite <- app_assoc. exact Hm.
Qed.

Lemma rrun_inv stream sched : forall w, recv_inv stream w -> recv_inv stream (rrun true w sched).
Proof.
  induction sched as [|i r IH]; intros w H; cbn [rrun]; [exact H|].
  destruct (rstep true w i) as [w'|] eqn:E; apply IH; [eapply rstep_inv; eassumption|exact H].
Qed.

Lemma rinit_inv stream n : recv_inv stream (rinit stream n).
Proof.
  exists 0%nat. unfold delivered. cbn [rinit r_lock r_cur r_stream r_threads firstn skipn].
  assert (Hd : forall n, flat_map (fun t => match t with RDone m => [m] | _ => [] end) (repeat RWaiting n) = []).
  { intro n0. induction n0 as [|n0 IH]; [reflexivity|exact IH]. }
  assert (Hh : forall n, rholding (repeat RWaiting n) = []).
  { intro n0. unfold rholding. induction n0 as [|n0 IH]; [reflexivity|exact IH]. }
  rewrite Hd, Hh. split; [apply Permutation_refl|]. auto.
Qed.

(* holds for every stream (an empty message just blocks the readers), so the non-emptiness
   hypothesis of the theorems below is not needed for the invariant *)
Theorem atomic_recv_inv : forall stream n sched, recv_inv stream (rrun true (rinit stream n) sched).
Proof. intros stream n sched. apply rrun_inv, rinit_inv. Qed.

Theorem atomic_recv : forall stream n sched,
  Forall (fun m => m <> []) stream ->
  let w := rrun true (rinit stream n) sched in
  r_lock w = None ->
  exists k, Permutation (delivered w) (firstn k stream) /\ r_stream w = skipn k stream /\ r_cur w = [].
Proof.
  intros stream n sched _ w Hlock.
  destruct (atomic_recv_inv stream n sched) as (k & Hp & Hl). fold w in Hp, Hl.
  rewrite Hlock in Hl. destruct Hl as (Hc & _ & Hst).
  exists k. auto.
Qed.

Theorem atomic_recv_intact : forall stream n sched m,
  Forall (fun m => m <> []) stream ->
  In m (delivered (rrun true (rinit stream n) sched)) -> In m stream.
Proof.
  intros stream n sched m _ Hin.
  destruct (atomic_recv_inv stream n sched) as (k & Hp & _).
  apply (Permutation_in _ Hp) in Hin.
  rewrite <- (firstn_skipn k stream). apply in_or_app. left. exact Hin.
Qed.

(* ------------------------------------------------------------------ *)
(* (4) without the read lock two receivers split one message           *)
(* ------------------------------------------------------------------ *)

Theorem unlocked_recv_tears : exists stream n sched,
  Forall (fun m => m <> []) stream /\
  exists m, In m (delivered (rrun false (rinit stream n) sched)) /\ ~ In m stream.
Proof.
  exists [[[1]; [2]]]%Z, 2%nat, [0; 1; 0; 1]%nat. split.
  - constructor; [discriminate|constructor].
  - exists [[2]]%Z. split.
    + vm_compute. left. reflexivity.
    + intros [H|[]]. discriminate.
Qed.

(* non-vacuity of (1) and (3): the same witnesses, run WITH the locks, complete and are intact *)
Example locked_send_completes :
  all_sdone (srun true (sinit tear_frames) (tear_sched ++ tear_sched)) = true /\
  s_wire (srun true (sinit tear_frames) (tear_sched ++ tear_sched)) = [1; 2; 3; 4]%Z.
Proof. vm_compute. split; reflexivity. Qed.

Example unlocked_send_wire :
  s_wire (srun false (sinit tear_frames) tear_sched) = [1; 3; 2; 4]%Z.
Proof. vm_compute. reflexivity. Qed.

Example locked_recv_intact :
  delivered (rrun true (rinit [[[1]; [2]]; [[3]]]%Z 2) [0; 1; 0; 1; 0; 1; 1]%nat) = [[[1]; [2]]; [[3]]]%Z.
Proof. vm_compute. reflexivity. Qed.

Print Assumptions atomic_send_inv.
Print Assumptions atomic_send.
Print Assumptions unlocked_send_tears.
Print Assumptions atomic_recv_inv.
Print Assumptions atomic_recv.
Print Assumptions atomic_recv_intact.
Print Assumptions unlocked_recv_tears.
