(* Proofs for C18 (URL parsing) and C19 (proxy decision): the models Model/Url.v and
   Model/Proxy.v against the specifications Spec/Url.v and Spec/Proxy.v.

   C18  C18_parse                  every URL of the grammar of Spec/Url.v parses to [expected]
        C18_reject_no_colon        no ":" at all
        C18_reject_scheme(_general) any other text in front of "://"
        C18_reject_no_host         no "//" after the scheme / empty host between "//" and the path
        C18_default_ports          80 / 443 / explicit port / TLS flag exactly for wss
        C18_trailing_semicolon_refuted   "ws://h/path;" asks for "/path": outside the grammar
   C19  C19_exempt, C19_exempt_env, C19_exempt_any_source   _is_no_proxy_host = Spec.Proxy.exempt
        C19_ip_host_domain_note    an IPv4 host is never matched against ".domain" entries
        C19_decision, C19_direct, C19_proxied   the decision table of get_proxy_info
        C19_scheme_variable(_secure)   the other scheme's variables are not consulted
        C19_env_value_form         http://[user:password@]host[:port][/...] as environment value;
                                   "user@" without password makes the code raise TypeError
   Where a statement differs from the plan it is said next to it:
   - C19_exempt needs no condition on the host ([host_ok] is True); the conditions are on the
     list entries ([entry_ok]);
   - get_proxy_info returns the port as [option Z] (the code returns None for it when the
     environment value names no port). *)
From Coq Require Import ZArith List Bool Lia.
From WS Require Import Base.Res Base.Bytes Base.Str Base.StrMore Base.Sweep Gen.GenHandshake.
From WS Require Import Model.Url Model.Proxy Spec.Url Spec.Proxy.
Import ListNotations.
Open Scope Z_scope.

(* ================================================================== *)
(* Part A: lemmas about the string functions                          *)
(* ================================================================== *)

Lemma str_eqb_refl a : str_eqb a a = true.
Proof. induction a; simpl; [reflexivity|]. now rewrite Z.eqb_refl, IHa. Qed.

Lemma str_eqb_eq a b : str_eqb a b = true <-> a = b.
Proof.
  split; [|intros ->; apply str_eqb_refl].
  revert b; induction a as [|x a IH]; destruct b as [|y b]; simpl; intros H; try discriminate; auto.
  apply andb_true_iff in H as [H1 H2]. apply Z.eqb_eq in H1. subst. f_equal. auto.
Qed.

Lemma str_eqb_neq a b : a <> b -> str_eqb a b = false.
Proof. intros H. destruct (str_eqb a b) eqn:E; [|reflexivity]. apply str_eqb_eq in E. contradiction. Qed.

Lemma cc_app c a b : contains_char c (a ++ b) = contains_char c a || contains_char c b.
Proof. induction a; simpl; [reflexivity|]. now rewrite IHa, orb_assoc. Qed.

Lemma cc_forallb P k s : forallb P s = true -> P k = false -> contains_char k s = false.
Proof.
  induction s as [|a s IH]; simpl; intros H Hk; [reflexivity|].
  apply andb_true_iff in H as [Ha Hs]. rewrite IH by assumption.
  destruct (Z.eqb_spec a k); [subst; congruence|reflexivity].
Qed.

Lemma forallb_impl (P Q : Z -> bool) s :
  (forall c, P c = true -> Q c = true) -> forallb P s = true -> forallb Q s = true.
Proof.
  intros HPQ. induction s; simpl; [reflexivity|]. intros H.
  apply andb_true_iff in H as [Ha Hs]. now rewrite (HPQ _ Ha), IHs.
Qed.

Lemma split_once_none c s : contains_char c s = false -> split_once c s = None.
Proof.
  induction s; simpl; intros H; [reflexivity|].
  apply orb_false_iff in H as [H1 H2]. now rewrite H1, IHs.
Qed.

Lemma split_once_app c a b : contains_char c a = false -> split_once c (a ++ c :: b) = Some (a, b).
Proof.
  induction a; simpl; intros H.
  - now rewrite Z.eqb_refl.
  - apply orb_false_iff in H as [H1 H2]. now rewrite H1, IHa.
Qed.

Lemma split_once_some c s a b :
  split_once c s = Some (a, b) -> s = a ++ c :: b /\ contains_char c a = false.
Proof.
  revert a b; induction s as [|x s IH]; simpl; intros a b H; [discriminate|].
  destruct (Z.eqb_spec x c) as [->|Hne].
  - inversion H; subst. now split.
  - destruct (split_once c s) as [[a' b']|]; [|discriminate].
    inversion H; subst. destruct (IH _ _ eq_refl) as [-> Hc]. split; [reflexivity|].
    simpl. rewrite Hc. destruct (Z.eqb_spec x c); [contradiction|reflexivity].
Qed.

Lemma split_once_none_inv c s : split_once c s = None -> contains_char c s = false.
Proof.
  induction s as [|x s IH]; simpl; [reflexivity|].
  destruct (x =? c); [discriminate|]. destruct (split_once c s) as [[? ?]|]; [discriminate|].
  intros _. now rewrite IH.
Qed.

Lemma rsplit_once_none c s : contains_char c s = false -> rsplit_once c s = None.
Proof.
  induction s; simpl; intros H; [reflexivity|].
  apply orb_false_iff in H as [H1 H2]. now rewrite IHs, H1.
Qed.

Lemma rsplit_once_none_inv c s : rsplit_once c s = None -> contains_char c s = false.
Proof.
  induction s as [|x s IH]; simpl; [reflexivity|].
  destruct (rsplit_once c s) as [[? ?]|]; [discriminate|].
  destruct (x =? c); [discriminate|]. intros _. now rewrite IH.
Qed.

Lemma rsplit_once_app c a b : contains_char c b = false -> rsplit_once c (a ++ c :: b) = Some (a, b).
Proof.
  intros Hb. induction a; simpl.
  - now rewrite (rsplit_once_none _ _ Hb), Z.eqb_refl.
  - now rewrite IHa.
Qed.

Lemma rsplit_once_some c s a b :
  rsplit_once c s = Some (a, b) -> s = a ++ c :: b /\ contains_char c b = false.
Proof.
  revert a b; induction s as [|x s IH]; simpl; intros a b H; [discriminate|].
  destruct (rsplit_once c s) as [[a' b']|] eqn:E.
  - inversion H; subst. destruct (IH _ _ eq_refl) as [-> Hc]. now split.
  - destruct (Z.eqb_spec x c) as [->|]; [|discriminate]. inversion H; subst.
    split; [reflexivity|]. now apply rsplit_once_none_inv.
Qed.

Lemma span_app P a b :
  forallb P a = true -> match b with [] => True | c :: _ => P c = false end ->
  span P (a ++ b) = (a, b).
Proof.
  intros Ha Hb. induction a as [|x a IH]; simpl in *.
  - destruct b; [reflexivity|]. simpl. now rewrite Hb.
  - apply andb_true_iff in Ha as [Hx Ha]. now rewrite Hx, (IH Ha).
Qed.

Lemma partition_none c s : contains_char c s = false -> partition c s = (s, false, []).
Proof. intros H. unfold partition. now rewrite split_once_none. Qed.

Lemma partition_app c a b : contains_char c a = false -> partition c (a ++ c :: b) = (a, true, b).
Proof. intros H. unfold partition. now rewrite split_once_app. Qed.

Lemma null_false_iff {A} (l : list A) : null l = false <-> l <> [].
Proof. destruct l; simpl; split; congruence. Qed.

(* ================================================================== *)
(* Part B: C18, URL parsing                                           *)
(* ================================================================== *)

(* ---- decimal text of ports and octets: one sweep over 0..65535 ---- *)
Definition num_text_ok (n : Z) : bool :=
  let t := str_of_Z n in
  all_digits t && match parse_nat t with Some m => m =? n | None => false end.

Lemma num_text_sweep : forallb num_text_ok (zrange (Z.to_nat 65536) 0) = true.
Proof. vm_compute. reflexivity. Qed.

Lemma num_text n : 0 <= n <= 65535 ->
  all_digits (str_of_Z n) = true /\ parse_nat (str_of_Z n) = Some n.
Proof.
  intros H.
  assert (Hs : num_text_ok n = true).
  { apply (forall_range _ _ _ num_text_sweep). rewrite Z2Nat.id; lia. }
  unfold num_text_ok in Hs. apply andb_true_iff in Hs as [H1 H2]. split; [assumption|].
  destruct (parse_nat (str_of_Z n)); [|discriminate]. apply Z.eqb_eq in H2. now subst.
Qed.

Lemma all_digits_forallb t : all_digits t = true -> forallb is_digit t = true /\ t <> [].
Proof.
  unfold all_digits. intros H. apply andb_true_iff in H as [H1 H2]. split; [assumption|].
  destruct t; [discriminate|congruence].
Qed.

(* ---- the pieces of an authority ---- *)
Definition pre_ok (pre : str) : Prop :=
  pre = [] \/ exists u, pre = u ++ [64] /\ forallb userinfo_char u = true.
Definition sfx_ok (sfx : str) (po : option str) : Prop :=
  (sfx = [] /\ po = None) \/ exists ds, sfx = 58 :: ds /\ po = Some ds /\ all_digits ds = true.

Lemma pre_cc pre k : pre_ok pre -> userinfo_char k = false -> (64 =? k) = false ->
  contains_char k pre = false.
Proof.
  intros [->|[u [-> Hu]]] Hk H64; [reflexivity|].
  rewrite cc_app, (cc_forallb _ _ _ Hu Hk). cbn [contains_char orb]. now rewrite H64.
Qed.

Lemma sfx_cc sfx po k : sfx_ok sfx po -> is_digit k = false -> (58 =? k) = false ->
  contains_char k sfx = false.
Proof.
  intros [[-> _]|[ds [-> [_ Hd]]]] Hk H58; [reflexivity|].
  apply all_digits_forallb in Hd as [Hd _].
  cbn [contains_char]. now rewrite H58, (cc_forallb _ _ _ Hd Hk).
Qed.

Lemma after_at pre hp : pre_ok pre -> contains_char 64 hp = false ->
  snd (rpartition 64 (pre ++ hp)) = hp.
Proof.
  intros [->|[u [-> Hu]]] Hhp; unfold rpartition.
  - simpl. now rewrite rsplit_once_none.
  - rewrite <- app_assoc. simpl. now rewrite rsplit_once_app.
Qed.

Lemma name_hp_cc t sfx po k :
  forallb name_char t = true -> sfx_ok sfx po ->
  name_char k = false -> is_digit k = false -> (58 =? k) = false ->
  contains_char k (t ++ sfx) = false.
Proof.
  intros Ht Hs H1 H2 H3. now rewrite cc_app, (cc_forallb _ _ _ Ht H1), (sfx_cc _ _ _ Hs H2 H3).
Qed.

Lemma sfx_partition sfx po : sfx_ok sfx po ->
  (let '(_, _, port) := partition 58 sfx in if null port then None else Some port) = po.
Proof.
  intros [[-> ->]|[ds [-> [-> Hd]]]]; [reflexivity|].
  apply all_digits_forallb in Hd as [_ Hd].
  unfold partition. simpl. destruct ds; [congruence|reflexivity].
Qed.

Lemma hostinfo_plain pre t sfx po :
  pre_ok pre -> forallb name_char t = true -> sfx_ok sfx po ->
  hostinfo_of (pre ++ t ++ sfx) = (t, po).
Proof.
  intros Hpre Ht Hs. unfold hostinfo_of.
  pose proof (after_at pre (t ++ sfx) Hpre) as Hat.
  rewrite (name_hp_cc t sfx po 64 Ht Hs) in Hat by reflexivity. specialize (Hat eq_refl).
  destruct (rpartition 64 (pre ++ t ++ sfx)) as [[x y] z]. simpl in Hat. subst z.
  rewrite (partition_none 91) by (apply (name_hp_cc t sfx po 91 Ht Hs); reflexivity).
  destruct Hs as [[-> ->]|[ds [-> [-> Hd]]]].
  - rewrite app_nil_r. rewrite (partition_none 58) by (apply (cc_forallb _ _ _ Ht); reflexivity).
    reflexivity.
  - rewrite (partition_app 58) by (apply (cc_forallb _ _ _ Ht); reflexivity).
    apply all_digits_forallb in Hd as [_ Hd]. destruct ds; [congruence|reflexivity].
Qed.

Lemma ip6_lit_char_eq c : ip6_lit_char c = ip6_char c.
Proof.
  unfold ip6_lit_char, ip6_char, in_chars. simpl.
  destruct (is_hex c), (c =? 58), (c =? 46); reflexivity.
Qed.

Lemma v6_hp_cc lit sfx po k :
  forallb ip6_lit_char lit = true -> sfx_ok sfx po ->
  ip6_lit_char k = false -> is_digit k = false -> (58 =? k) = false -> (93 =? k) = false ->
  (91 =? k) = false ->
  contains_char k (91 :: lit ++ 93 :: sfx) = false.
Proof.
  intros Hl Hs H1 H2 H3 H4 H5. cbn [contains_char]. rewrite H5, cc_app, (cc_forallb _ _ _ Hl H1).
  cbn [contains_char]. now rewrite H4, (sfx_cc _ _ _ Hs H2 H3).
Qed.

Lemma hostinfo_v6 pre lit sfx po :
  pre_ok pre -> forallb ip6_lit_char lit = true -> sfx_ok sfx po ->
  hostinfo_of (pre ++ 91 :: lit ++ 93 :: sfx) = (lit, po).
Proof.
  intros Hpre Hl Hs. unfold hostinfo_of.
  pose proof (after_at pre (91 :: lit ++ 93 :: sfx) Hpre) as Hat.
  rewrite (v6_hp_cc lit sfx po 64 Hl Hs) in Hat by reflexivity. specialize (Hat eq_refl).
  destruct (rpartition 64 (pre ++ 91 :: lit ++ 93 :: sfx)) as [[x y] z]. simpl in Hat. subst z.
  change (91 :: lit ++ 93 :: sfx) with ([] ++ 91 :: (lit ++ 93 :: sfx)).
  rewrite (partition_app 91) by reflexivity.
  rewrite (partition_app 93) by (apply (cc_forallb _ _ _ Hl); reflexivity).
  pose proof (sfx_partition sfx po Hs) as Hp.
  destruct (partition 58 sfx) as [[x1 y1] port]. now rewrite Hp.
Qed.

(* the two bracket tests *)
Lemma brackets_plain pre t sfx po :
  pre_ok pre -> forallb name_char t = true -> sfx_ok sfx po ->
  netloc_brackets_ok (pre ++ t ++ sfx) = true.
Proof.
  intros Hpre Ht Hs. unfold netloc_brackets_ok.
  rewrite !(cc_app _ pre).
  rewrite (pre_cc pre 91 Hpre), (pre_cc pre 93 Hpre) by reflexivity.
  rewrite (name_hp_cc t sfx po 91 Ht Hs), (name_hp_cc t sfx po 93 Ht Hs) by reflexivity.
  reflexivity.
Qed.

Lemma check_ip_literal_ok lit :
  wf_host (HIPv6 lit) = true -> check_bracketed_host lit = true.
Proof.
  simpl. intros H. apply andb_true_iff in H as [H Hc]. apply andb_true_iff in H as [Hn Hl].
  assert (Hl' : forallb ip6_char lit = true).
  { eapply forallb_impl; [|exact Hl]. intros c. now rewrite ip6_lit_char_eq. }
  assert (Hgen : check_ip_literal lit = true).
  { unfold check_ip_literal.
    rewrite (partition_none 37) by (apply (cc_forallb _ _ _ Hl); reflexivity).
    now rewrite Hn, Hl', Hc. }
  unfold check_bracketed_host. destruct lit as [|c r]; [assumption|].
  destruct (Z.eqb_spec c 118) as [->|]; [|assumption].
  simpl in Hl. discriminate.
Qed.

Lemma brackets_v6 pre lit sfx po :
  pre_ok pre -> wf_host (HIPv6 lit) = true -> sfx_ok sfx po ->
  netloc_brackets_ok (pre ++ 91 :: lit ++ 93 :: sfx) = true.
Proof.
  intros Hpre Hwf Hs. pose proof (check_ip_literal_ok lit Hwf) as Hck.
  simpl in Hwf. apply andb_true_iff in Hwf as [Hwf _]. apply andb_true_iff in Hwf as [_ Hl].
  unfold netloc_brackets_ok.
  assert (H91 : contains_char 91 (pre ++ 91 :: lit ++ 93 :: sfx) = true).
  { rewrite cc_app. simpl. now rewrite orb_true_r. }
  assert (H93 : contains_char 93 (pre ++ 91 :: lit ++ 93 :: sfx) = true).
  { rewrite cc_app. simpl. rewrite cc_app. simpl. now rewrite !orb_true_r. }
  rewrite H91, H93. cbn [xorb andb].
  rewrite (partition_app 91) by (apply (pre_cc pre 91 Hpre); reflexivity).
  rewrite (partition_app 93) by (apply (cc_forallb _ _ _ Hl); reflexivity).
  assumption.
Qed.

(* ---- components of a well-formed url_parts ---- *)
Definition pre_of (p : url_parts) : str :=
  match p_userinfo p with Some u => u ++ [64] | None => [] end.
Definition sfx_of (p : url_parts) : str :=
  match p_port p with Some n => 58 :: str_of_Z n | None => [] end.
Definition po_of (p : url_parts) : option str := option_map str_of_Z (p_port p).

Lemma authority_split p : authority p = pre_of p ++ host_render (p_host p) ++ sfx_of p.
Proof. reflexivity. Qed.

Lemma wf_pre p : wf_userinfo (p_userinfo p) = true -> pre_ok (pre_of p).
Proof.
  unfold pre_of, pre_ok. destruct (p_userinfo p) as [u|]; simpl; intros H; [right|left; reflexivity].
  now exists u.
Qed.

Lemma wf_sfx p : wf_port (p_port p) = true -> sfx_ok (sfx_of p) (po_of p).
Proof.
  unfold sfx_of, po_of, sfx_ok. destruct (p_port p) as [n|]; simpl; intros H; [right|left; now split].
  exists (str_of_Z n). repeat split. apply num_text. lia.
Qed.

Lemma digit_name c : is_digit c = true -> name_char c = true.
Proof. unfold name_char. intros ->. now rewrite orb_true_r. Qed.

Lemma octet_text a : octet_ok a = true -> forallb name_char (str_of_Z a) = true /\ str_of_Z a <> [].
Proof.
  unfold octet_ok. intros H. destruct (num_text a) as [Hd _]; [lia|].
  apply all_digits_forallb in Hd as [Hd Hn]. split; [|assumption].
  eapply forallb_impl; [apply digit_name|assumption].
Qed.

Lemma plain_host_text h :
  wf_host h = true -> (forall lit, h <> HIPv6 lit) ->
  forallb name_char (host_text h) = true /\ host_text h <> [].
Proof.
  destruct h as [n|a b c d|lit]; simpl; intros H Hne.
  - apply andb_true_iff in H as [Hn Hc]. split; [assumption|]. destruct n; [discriminate|congruence].
  - apply andb_true_iff in H as [H Hd]. apply andb_true_iff in H as [H Hc].
    apply andb_true_iff in H as [Ha Hb].
    destruct (octet_text _ Ha) as [Fa Na], (octet_text _ Hb) as [Fb _],
             (octet_text _ Hc) as [Fc _], (octet_text _ Hd) as [Fd _].
    split.
    + repeat (rewrite forallb_app; cbn [forallb]). rewrite Fa, Fb, Fc, Fd. reflexivity.
    + destruct (str_of_Z a); [congruence|discriminate].
  - exfalso. now apply (Hne lit).
Qed.

(* facts about the authority of a well-formed URL *)
Lemma authority_facts p : wf_parts p ->
  (forall k, In k [47; 63; 35] -> contains_char k (authority p) = false)
  /\ netloc_brackets_ok (authority p) = true
  /\ hostinfo_of (authority p) = (host_text (p_host p), po_of p).
Proof.
  unfold wf_parts, wf_partsb. intros H.
  apply andb_true_iff in H as [H Hq]. apply andb_true_iff in H as [H Hpath].
  apply andb_true_iff in H as [H Hport]. apply andb_true_iff in H as [Hui Hhost].
  pose proof (wf_pre p Hui) as Hpre. pose proof (wf_sfx p Hport) as Hs.
  rewrite authority_split.
  destruct (p_host p) as [n|a b c d|lit] eqn:Eh.
  1,2: rewrite <- Eh in *;
    assert (Hne : forall lit, p_host p <> HIPv6 lit) by (rewrite Eh; congruence);
    destruct (plain_host_text _ Hhost Hne) as [Ft Nt];
    replace (host_render (p_host p)) with (host_text (p_host p)) by (rewrite Eh; reflexivity);
    (split; [|split]);
    [ intros k Hk; rewrite cc_app;
      destruct Hk as [<-|[<-|[<-|[]]]];
      (rewrite (pre_cc _ _ Hpre) by reflexivity);
      (rewrite (name_hp_cc _ _ _ _ Ft Hs) by reflexivity); reflexivity
    | eapply brackets_plain; eassumption
    | eapply hostinfo_plain; eassumption ].
  assert (Hl : forallb ip6_lit_char lit = true).
  { simpl in Hhost. apply andb_true_iff in Hhost as [Hh _]. now apply andb_true_iff in Hh as [_ Hh]. }
  replace (host_render (HIPv6 lit) ++ sfx_of p) with (91 :: lit ++ 93 :: sfx_of p)
    by (simpl; rewrite <- app_assoc; reflexivity).
  change (host_text (HIPv6 lit)) with lit.
  split; [|split].
  - intros k Hk. rewrite cc_app. destruct Hk as [<-|[<-|[<-|[]]]];
      (rewrite (pre_cc _ _ Hpre) by reflexivity);
      (rewrite (v6_hp_cc _ _ _ _ Hl Hs) by reflexivity); reflexivity.
  - eapply brackets_v6; eassumption.
  - eapply hostinfo_v6; eassumption.
Qed.

(* ---- path and query ---- *)
Definition query_text (p : url_parts) : str := match p_query p with Some q => q | None => [] end.

Lemma path_char_facts c : path_char c = true -> (c =? 63) = false /\ (c =? 35) = false.
Proof.
  intros H. split.
  - destruct (Z.eqb_spec c 63) as [->|]; [discriminate H|reflexivity].
  - destruct (Z.eqb_spec c 35) as [->|]; [discriminate H|reflexivity].
Qed.

Lemma path_query_facts p : wf_parts p ->
  match path_query p with [] => True | c :: _ => negb (is_delim c) = false end
  /\ contains_char 35 (path_query p) = false
  /\ split_first 63 (path_query p) = (p_path p, query_text p).
Proof.
  unfold wf_parts, wf_partsb. intros H.
  apply andb_true_iff in H as [H Hq]. apply andb_true_iff in H as [_ Hpath].
  unfold path_query, query_text.
  assert (Hp63 : contains_char 63 (p_path p) = false /\ contains_char 35 (p_path p) = false).
  { destruct (p_path p) as [|c r]; [now split|]. cbn [wf_path] in Hpath.
    apply andb_true_iff in Hpath as [Hpath _]. apply andb_true_iff in Hpath as [_ Hf].
    split; apply (cc_forallb _ _ _ Hf); reflexivity. }
  destruct Hp63 as [Hp63 Hp35].
  split; [|split].
  - destruct (p_path p) as [|c r].
    + destruct (p_query p); simpl; [reflexivity|exact I].
    + cbn [wf_path] in Hpath. apply andb_true_iff in Hpath as [Hpath _].
      apply andb_true_iff in Hpath as [Hc _]. apply Z.eqb_eq in Hc. subst c. reflexivity.
  - rewrite cc_app, Hp35. destruct (p_query p) as [q|]; [|reflexivity].
    simpl in Hq. apply andb_true_iff in Hq as [_ Hq].
    cbn [contains_char orb]. rewrite (cc_forallb _ _ _ Hq) by reflexivity. reflexivity.
  - unfold split_first. destruct (p_query p) as [q|].
    + now rewrite split_once_app.
    + rewrite app_nil_r. now rewrite split_once_none.
Qed.

(* the path after urlparse's ";params" split, as parse_url sees it *)
Definition pp (path : str) : str * str :=
  if contains_char 59 path then splitparams path else (path, []).

Lemma resource_params path : wf_path path = true ->
  (if null (snd (pp path))
   then (if null (fst (pp path)) then [47] else fst (pp path))
   else (if null (fst (pp path)) then [47] else fst (pp path)) ++ 59 :: snd (pp path))
  = match path with [] => [47] | _ => path end.
Proof.
  destruct path as [|c r]; [reflexivity|]. intros Hwf. cbn [wf_path] in Hwf.
  apply andb_true_iff in Hwf as [Hwf Hlast]. apply andb_true_iff in Hwf as [Hc _].
  apply Z.eqb_eq in Hc. subst c.
  unfold pp. destruct (contains_char 59 (47 :: r)) eqn:E59; [|reflexivity].
  unfold splitparams.
  destruct (rsplit_once 47 (47 :: r)) as [[dir seg]|] eqn:ER.
  2: { apply rsplit_once_none_inv in ER. discriminate ER. }
  apply rsplit_once_some in ER as [Hp Hseg].
  destruct (split_once 59 seg) as [[a b]|] eqn:ES; [|reflexivity].
  apply split_once_some in ES as [-> Ha].
  cbn [fst snd].
  destruct b as [|z b].
  - exfalso. rewrite Hp in Hlast.
    replace (dir ++ 47 :: a ++ [59]) with ((dir ++ 47 :: a) ++ [59]) in Hlast
      by (rewrite <- app_assoc; reflexivity).
    rewrite last_last in Hlast. discriminate Hlast.
  - cbn [null]. destruct (dir ++ 47 :: a) eqn:Ed.
    + exfalso. eapply app_cons_not_nil. symmetry. exact Ed.
    + cbn [null]. rewrite <- Ed, Hp, <- app_assoc. reflexivity.
Qed.

Lemma detect_scheme_slash x d : detect_scheme (47 :: x) d = (d, 47 :: x).
Proof. reflexivity. Qed.

Lemma after_slashes_47 x : after_slashes (47 :: 47 :: x) = Some x.
Proof. reflexivity. Qed.

Lemma not_delim_forallb s :
  (forall k, In k [47; 63; 35] -> contains_char k s = false) ->
  forallb (fun c => negb (is_delim c)) s = true.
Proof.
  intros H. induction s as [|x s IH]; [reflexivity|].
  cbn [forallb].
  assert (H47 := H 47 (or_introl eq_refl)).
  assert (H63 := H 63 (or_intror (or_introl eq_refl))).
  assert (H35 := H 35 (or_intror (or_intror (or_introl eq_refl)))).
  cbn [contains_char] in H47, H63, H35.
  apply orb_false_iff in H47 as [A1 A2]. apply orb_false_iff in H63 as [B1 B2].
  apply orb_false_iff in H35 as [C1 C2].
  unfold is_delim at 1. rewrite A1, B1, C1. cbn [orb negb andb].
  apply IH. intros k [<-|[<-|[<-|[]]]]; assumption.
Qed.

Lemma urlparse_rendered_gen url d p : wf_parts p ->
  detect_scheme url d = (s_http, 47 :: 47 :: authority p ++ path_query p) ->
  urlparse url d =
  Ok (mk_parsed s_http (authority p) (fst (pp (p_path p))) (snd (pp (p_path p))) (query_text p) []).
Proof.
  intros Hwf Hds.
  destruct (authority_facts p Hwf) as [Hcc [Hbr _]].
  destruct (path_query_facts p Hwf) as [Hhd [H35 H63]].
  unfold urlparse, urlsplit. rewrite Hds.
  cbv beta iota. rewrite after_slashes_47.
  unfold split_netloc. rewrite (span_app _ _ _ (not_delim_forallb _ Hcc) Hhd).
  rewrite Hbr. cbn [bind].
  unfold split_first at 1. rewrite (split_once_none 35) by assumption.
  rewrite H63. cbv beta iota. cbn [bind]. cbv beta iota.
  replace (mem_str s_http uses_params) with true by reflexivity. cbn [andb].
  fold (pp (p_path p)). destruct (pp (p_path p)); reflexivity.
Qed.

Lemma urlparse_rendered p : wf_parts p ->
  urlparse (47 :: 47 :: authority p ++ path_query p) s_http =
  Ok (mk_parsed s_http (authority p) (fst (pp (p_path p))) (snd (pp (p_path p))) (query_text p) []).
Proof. intros Hwf. apply urlparse_rendered_gen; [assumption|apply detect_scheme_slash]. Qed.

Lemma lower_name_digits t : forallb ip6_lit_char t = true \/ forallb name_char t = true ->
  contains_char 37 t = false.
Proof. intros [H|H]; apply (cc_forallb _ _ _ H); reflexivity. Qed.

Lemma host_text_facts p : wf_parts p ->
  host_text (p_host p) <> [] /\ contains_char 37 (host_text (p_host p)) = false.
Proof.
  unfold wf_parts, wf_partsb. intros H.
  apply andb_true_iff in H as [H _]. apply andb_true_iff in H as [H _].
  apply andb_true_iff in H as [H _]. apply andb_true_iff in H as [_ Hhost].
  destruct (p_host p) as [n|a b c d|lit] eqn:Eh.
  1,2: rewrite <- Eh in *;
    assert (Hne : forall lit, p_host p <> HIPv6 lit) by (rewrite Eh; congruence);
    destruct (plain_host_text _ Hhost Hne) as [Ft Nt]; split; [assumption|];
    apply lower_name_digits; now right.
  simpl in *. apply andb_true_iff in Hhost as [Hh _]. apply andb_true_iff in Hh as [Hn Hl].
  split; [destruct lit; [discriminate|congruence]|]. apply lower_name_digits; now left.
Qed.

Lemma hostname_rendered p : wf_parts p ->
  hostname_of (authority p) = Some (expected_host (p_host p)).
Proof.
  intros Hwf. destruct (authority_facts p Hwf) as [_ [_ Hhi]].
  destruct (host_text_facts p Hwf) as [Hne H37].
  unfold hostname_of. rewrite Hhi.
  destruct (host_text (p_host p)) as [|c r] eqn:Et; [congruence|].
  cbn [null]. rewrite (partition_none 37) by assumption.
  unfold expected_host. rewrite Et, !app_nil_r. reflexivity.
Qed.

Lemma port_rendered p : wf_parts p -> port_of (authority p) = Ok (p_port p).
Proof.
  intros Hwf. destruct (authority_facts p Hwf) as [_ [_ Hhi]].
  unfold wf_parts, wf_partsb in Hwf.
  apply andb_true_iff in Hwf as [H _]. apply andb_true_iff in H as [H _].
  apply andb_true_iff in H as [_ Hport].
  unfold port_of. rewrite Hhi. unfold po_of. cbn [snd].
  destruct (p_port p) as [n|]; [|reflexivity]. simpl in Hport. cbn [option_map].
  destruct (num_text n) as [Hd Hp]; [lia|]. rewrite Hd, Hp.
  replace ((0 <=? n) && (n <=? 65535)) with true; [reflexivity|].
  symmetry. apply andb_true_iff. split; apply Z.leb_le; lia.
Qed.

(* the central statement: what parse_url computes on a rendered URL, for ANY text without ':'
   in the place of the scheme *)
Lemma parse_url_rendered sch p :
  contains_char 58 sch = false -> wf_parts p ->
  parse_url (render_with_scheme sch p) =
  if str_eqb sch s_ws then
    Ok (expected_host (p_host p),
        match p_port p with Some n => n | None => default_port_ws end,
        expected_resource p, ws_is_secure)
  else if str_eqb sch s_wss then
    Ok (expected_host (p_host p),
        match p_port p with Some n => n | None => default_port_wss end,
        expected_resource p, wss_is_secure)
  else Raise ValueErr.
Proof.
  intros Hsch Hwf. unfold parse_url, render_with_scheme.
  assert (Hc : contains_char 58 (sch ++ [58; 47; 47] ++ authority p ++ path_query p) = true).
  { rewrite cc_app. cbn [app contains_char]. rewrite Z.eqb_refl. now rewrite orb_true_r. }
  rewrite Hc. cbn [negb]. cbn [app]. rewrite (split_once_app 58 sch) by assumption.
  rewrite (urlparse_rendered p Hwf). cbn [bind u_netloc u_path u_params u_query].
  rewrite (hostname_rendered p Hwf), (port_rendered p Hwf). cbn [bind].
  assert (Hres : (if null (query_text p)
                  then (if null (snd (pp (p_path p)))
                        then (if null (fst (pp (p_path p))) then [47] else fst (pp (p_path p)))
                        else (if null (fst (pp (p_path p))) then [47] else fst (pp (p_path p)))
                             ++ 59 :: snd (pp (p_path p)))
                  else (if null (snd (pp (p_path p)))
                        then (if null (fst (pp (p_path p))) then [47] else fst (pp (p_path p)))
                        else (if null (fst (pp (p_path p))) then [47] else fst (pp (p_path p)))
                             ++ 59 :: snd (pp (p_path p))) ++ 63 :: query_text p)
                 = expected_resource p).
  { unfold wf_parts, wf_partsb in Hwf.
    apply andb_true_iff in Hwf as [H Hq]. apply andb_true_iff in H as [_ Hpath].
    rewrite (resource_params _ Hpath). unfold expected_resource, query_text.
    destruct (p_query p) as [q|].
    - simpl in Hq. apply andb_true_iff in Hq as [Hn _]. destruct q; [discriminate|].
      cbn [null]. destruct (p_path p); reflexivity.
    - cbn [null]. rewrite app_nil_r. destruct (p_path p); reflexivity. }
  assert (Hport : forall d, 1 <= d ->
            (if match p_port p with Some n => n | None => 0 end =? 0 then d
             else match p_port p with Some n => n | None => 0 end)
            = match p_port p with Some n => n | None => d end).
  { intros d Hd. unfold wf_parts, wf_partsb in Hwf.
    apply andb_true_iff in Hwf as [H _]. apply andb_true_iff in H as [H _].
    apply andb_true_iff in H as [_ Hp]. destruct (p_port p) as [n|]; [|reflexivity].
    simpl in Hp. destruct (Z.eqb_spec n 0); [lia|reflexivity]. }
  destruct (str_eqb sch s_ws).
  - cbn [bind]. rewrite Hres, Hport by (unfold default_port_ws; lia). reflexivity.
  - destruct (str_eqb sch s_wss).
    + cbn [bind]. rewrite Hres, Hport by (unfold default_port_wss; lia). reflexivity.
    + reflexivity.
Qed.

(* ---- the C18 theorems ---- *)

(* Every URL of the grammar of Spec/Url.v (upper-case letters allowed in the host, the expected
   host being lower-cased; user-info allowed; paths may hold ";" but do not end with it). *)
Theorem C18_parse : forall p, wf_parts p -> parse_url (render p) = Ok (expected p).
Proof.
  intros p Hwf. unfold render.
  rewrite parse_url_rendered; [|destruct (p_scheme p); reflexivity|assumption].
  unfold expected, expected_port, expected_secure.
  destruct (p_scheme p); reflexivity.
Qed.

Theorem C18_reject_no_colon : forall s, contains_char 58 s = false -> parse_url s = Raise ValueErr.
Proof. intros s H. unfold parse_url. now rewrite H. Qed.

(* any text without ':' in front of "://..." other than exactly "ws" / "wss" *)
Theorem C18_reject_scheme_general : forall p sch,
  wf_parts p -> contains_char 58 sch = false -> sch <> s_ws -> sch <> s_wss ->
  parse_url (render_with_scheme sch p) = Raise ValueErr.
Proof.
  intros p sch Hwf Hc H1 H2. rewrite parse_url_rendered by assumption.
  now rewrite (str_eqb_neq _ _ H1), (str_eqb_neq _ _ H2).
Qed.

Lemma scheme_ok_no_colon sch : scheme_ok sch -> contains_char 58 sch = false.
Proof. intros [_ H]. apply (cc_forallb _ _ _ H). reflexivity. Qed.

Theorem C18_reject_scheme : forall p sch,
  wf_parts p -> scheme_ok sch -> sch <> s_ws -> sch <> s_wss ->
  parse_url (render_with_scheme sch p) = Raise ValueErr.
Proof.
  intros p sch Hwf Hs. apply C18_reject_scheme_general; [assumption|]. now apply scheme_ok_no_colon.
Qed.

(* -- no host -- *)

(* whatever follows, urlparse keeps the netloc it has cut out *)
Lemma urlparse_keeps_netloc url d scheme url1 netloc url2 :
  detect_scheme url d = (scheme, url1) ->
  match after_slashes url1 with
  | Some r => let (netloc, rest) := split_netloc r in
              if netloc_brackets_ok netloc then Ok (netloc, rest) else Raise ValueErr
  | None => Ok ([], url1)
  end = Ok (netloc, url2) ->
  exists p', urlparse url d = Ok p' /\ u_netloc p' = netloc.
Proof.
  intros Hd Hn. unfold urlparse, urlsplit. rewrite Hd. cbv beta iota. rewrite Hn.
  cbn [bind]. cbv beta iota.
  destruct (split_first 35 url2) as [url3 fragment].
  destruct (split_first 63 url3) as [path query]. cbn [bind]. cbv beta iota.
  destruct (if mem_str scheme uses_params && contains_char 59 path
            then splitparams path else (path, [])) as [path' params].
  eexists. split; reflexivity.
Qed.

Lemma detect_scheme_no_colon rest d : contains_char 58 rest = false -> detect_scheme rest d = (d, rest).
Proof.
  intros H. unfold detect_scheme. destruct rest as [|c r]; [reflexivity|].
  destruct (is_alpha c); [|reflexivity]. now rewrite split_once_none.
Qed.

(* (a) nothing of the form "//" after the scheme: "ws:/path", "ws:path", "ws:", "ws:/" ... *)
Theorem C18_reject_no_slashes : forall sch rest,
  contains_char 58 sch = false -> contains_char 58 rest = false ->
  after_slashes rest = None ->
  parse_url (sch ++ 58 :: rest) = Raise ValueErr.
Proof.
  intros sch rest Hs Hr Hns. unfold parse_url.
  assert (Hc : contains_char 58 (sch ++ 58 :: rest) = true).
  { rewrite cc_app. cbn [contains_char]. rewrite Z.eqb_refl. now rewrite orb_true_r. }
  rewrite Hc. cbn [negb]. rewrite (split_once_app 58 sch) by assumption.
  destruct (urlparse_keeps_netloc rest s_http s_http rest [] rest) as [p' [Hp Hnl]].
  - now apply detect_scheme_no_colon.
  - now rewrite Hns.
  - rewrite Hp. cbn [bind]. rewrite Hnl. reflexivity.
Qed.

(* the same with the familiar test *)
Lemma after_slashes_starts_with rest : starts_with [47; 47] rest = false -> after_slashes rest = None.
Proof.
  destruct rest as [|a [|b r]]; try reflexivity. cbn [starts_with after_slashes].
  rewrite (Z.eqb_sym 47 a), (Z.eqb_sym 47 b), andb_true_r. now intros ->.
Qed.

(* (b) the slashes are there but the host is empty: "ws:///path", "ws://:80/", "ws://u@:80/p?q" ...
   the URL of p written without its host *)
Definition render_without_host (sch : str) (p : url_parts) : str :=
  sch ++ [58; 47; 47] ++ (pre_of p ++ sfx_of p) ++ path_query p.

Theorem C18_reject_empty_host : forall sch p,
  contains_char 58 sch = false -> wf_parts p ->
  parse_url (render_without_host sch p) = Raise ValueErr.
Proof.
  intros sch p Hs Hwf. unfold parse_url, render_without_host.
  assert (Hc : contains_char 58 (sch ++ [58; 47; 47] ++ (pre_of p ++ sfx_of p) ++ path_query p) = true).
  { rewrite cc_app. cbn [app contains_char]. rewrite Z.eqb_refl. now rewrite orb_true_r. }
  rewrite Hc. cbn [negb app]. rewrite (split_once_app 58 sch) by assumption.
  destruct (path_query_facts p Hwf) as [Hhd _].
  unfold wf_parts, wf_partsb in Hwf.
  apply andb_true_iff in Hwf as [H _]. apply andb_true_iff in H as [H _].
  apply andb_true_iff in H as [H Hport]. apply andb_true_iff in H as [Hui _].
  pose proof (wf_pre p Hui) as Hpre. pose proof (wf_sfx p Hport) as Hsfx.
  assert (Hcc : forall k, In k [47; 63; 35] -> contains_char k (pre_of p ++ sfx_of p) = false).
  { intros k Hk. rewrite cc_app. destruct Hk as [<-|[<-|[<-|[]]]];
      (rewrite (pre_cc _ _ Hpre) by reflexivity);
      (rewrite (sfx_cc _ _ _ Hsfx) by reflexivity); reflexivity. }
  destruct (urlparse_keeps_netloc (47 :: 47 :: (pre_of p ++ sfx_of p) ++ path_query p) s_http s_http
              (47 :: 47 :: (pre_of p ++ sfx_of p) ++ path_query p) (pre_of p ++ sfx_of p) (path_query p))
    as [p' [Hp Hnl]].
  - apply detect_scheme_slash.
  - rewrite after_slashes_47. unfold split_netloc.
    rewrite (span_app _ _ _ (not_delim_forallb _ Hcc) Hhd).
    change (pre_of p ++ sfx_of p) with (pre_of p ++ [] ++ sfx_of p).
    now rewrite (brackets_plain _ [] _ _ Hpre eq_refl Hsfx).
  - rewrite Hp. cbn [bind]. rewrite Hnl.
    unfold hostname_of. change (pre_of p ++ sfx_of p) with (pre_of p ++ [] ++ sfx_of p).
    rewrite (hostinfo_plain _ [] _ _ Hpre eq_refl Hsfx). reflexivity.
Qed.

Theorem C18_reject_no_host :
  (forall sch rest, contains_char 58 sch = false -> contains_char 58 rest = false ->
     starts_with [47; 47] rest = false -> parse_url (sch ++ 58 :: rest) = Raise ValueErr)
  /\ (forall sch p, contains_char 58 sch = false -> wf_parts p ->
        parse_url (render_without_host sch p) = Raise ValueErr).
Proof.
  split.
  - intros. apply C18_reject_no_slashes; auto using after_slashes_starts_with.
  - apply C18_reject_empty_host.
Qed.

(* default ports and the TLS flag *)
Theorem C18_default_ports : forall p, wf_parts p ->
  (p_port p = None -> p_scheme p = SWs ->
     parse_url (render p) = Ok (expected_host (p_host p), 80, expected_resource p, false))
  /\ (p_port p = None -> p_scheme p = SWss ->
     parse_url (render p) = Ok (expected_host (p_host p), 443, expected_resource p, true))
  /\ (forall n, p_port p = Some n ->
     parse_url (render p) = Ok (expected_host (p_host p), n, expected_resource p, expected_secure p))
  /\ ((exists h n r, parse_url (render p) = Ok (h, n, r, true)) <-> p_scheme p = SWss).
Proof.
  intros p Hwf. rewrite (C18_parse p Hwf). unfold expected, expected_port, expected_secure.
  repeat split.
  - intros -> ->. reflexivity.
  - intros -> ->. reflexivity.
  - intros n ->. reflexivity.
  - intros [h [n [r H]]]. destruct (p_scheme p); [discriminate|reflexivity].
  - intros ->. do 3 eexists. reflexivity.
Qed.

(* the constants of the code, as regenerated from the source *)
Lemma C18_code_constants :
  default_port_ws = 80 /\ default_port_wss = 443 /\ ws_is_secure = false /\ wss_is_secure = true.
Proof. repeat split. Qed.

(* What the grammar leaves out.  A path ending in ";" (empty parameters of the last segment) is
   a path of RFC 3986, but the code asks for the resource without the ";": *)
Definition p_trailing_semicolon : url_parts :=
  mk_parts SWs None (HName [104]) None [47; 112; 97; 116; 104; 59] None.   (* ws://h/path; *)

Theorem C18_trailing_semicolon_refuted :
  exists p, wf_host (p_host p) = true /\ forallb path_char (p_path p) = true
            /\ parse_url (render p) <> Ok (expected p).
Proof.
  exists p_trailing_semicolon. repeat split. vm_compute. discriminate.
Qed.

Example C18_trailing_semicolon_values :
  render p_trailing_semicolon = [119; 115; 58; 47; 47; 104; 47; 112; 97; 116; 104; 59]
  /\ parse_url (render p_trailing_semicolon) = Ok ([104], 80, [47; 112; 97; 116; 104], false)
  /\ expected p_trailing_semicolon = ([104], 80, [47; 112; 97; 116; 104; 59], false).
Proof. vm_compute. repeat split. Qed.

(* ================================================================== *)
(* Part C: C19, exemption from proxying                               *)
(* ================================================================== *)

Lemma zrange_in_inv : forall n s x, In x (zrange n s) -> s <= x < s + Z.of_nat n.
Proof.
  induction n as [|n IH]; intros s x H; simpl in H; [contradiction|].
  destruct H as [->|H]; [lia|]. apply IH in H. lia.
Qed.

Lemma existsb_filter {A} (f g : A -> bool) l :
  existsb f (filter g l) = existsb (fun x => g x && f x) l.
Proof.
  induction l as [|x l IH]; [reflexivity|]. simpl. destruct (g x); simpl; now rewrite IH.
Qed.

Lemma existsb_ext_in {A} (f g : A -> bool) l :
  (forall x, In x l -> f x = g x) -> existsb f l = existsb g l.
Proof.
  induction l as [|x l IH]; intros H; [reflexivity|]. simpl.
  rewrite (H x (or_introl eq_refl)), IH; [reflexivity|]. intros y Hy. apply H. now right.
Qed.

(* ---- an octet: the model's syntactic test against the specification's search ---- *)
Definition octet_fwd (n : Z) : bool :=
  match canon_octet (str_of_Z n) with Some m => m =? n | None => false end.
Lemma octet_fwd_sweep : forallb octet_fwd (zrange 256 0) = true.
Proof. vm_compute. reflexivity. Qed.

Lemma canon_octet_text n : 0 <= n <= 255 -> canon_octet (str_of_Z n) = Some n.
Proof.
  intros H. assert (Hs : octet_fwd n = true) by (apply (forall_range _ _ _ octet_fwd_sweep); simpl; lia).
  unfold octet_fwd in Hs. destruct (canon_octet (str_of_Z n)); [|discriminate].
  apply Z.eqb_eq in Hs. now subst.
Qed.

(* whenever the model reads a value v out of t, v is an octet and t is its decimal text *)
Definition canon_rt (t : str) : bool :=
  match canon_octet t with
  | Some v => (0 <=? v) && (v <=? 255) && str_eqb (str_of_Z v) t
  | None => true
  end.

Lemma canon_rt_sweep1 : forallb (fun a => canon_rt [a]) (zrange 10 48) = true.
Proof. vm_compute. reflexivity. Qed.
Lemma canon_rt_sweep2 :
  forallb (fun a => forallb (fun b => canon_rt [a; b]) (zrange 10 48)) (zrange 10 48) = true.
Proof. vm_compute. reflexivity. Qed.
Lemma canon_rt_sweep3 :
  forallb (fun a => forallb (fun b => forallb (fun c => canon_rt [a; b; c]) (zrange 10 48)) (zrange 10 48))
          (zrange 10 48) = true.
Proof. vm_compute. reflexivity. Qed.

Lemma is_digit_range a : is_digit a = true -> 48 <= a < 48 + Z.of_nat 10.
Proof. unfold is_digit. intros H. apply andb_true_iff in H as [H1 H2]. simpl. lia. Qed.
Lemma nz_digit_digit a : nz_digit a = true -> is_digit a = true.
Proof. unfold nz_digit, is_digit. intros H. apply andb_true_iff in H as [H1 H2].
  apply andb_true_iff. split; lia. Qed.

Lemma canon_rt_all t : canon_rt t = true.
Proof.
  destruct t as [|a [|b [|c [|d r]]]]; try reflexivity.
  - destruct (is_digit a) eqn:Da.
    + exact (forall_range _ _ _ canon_rt_sweep1 a (is_digit_range a Da)).
    + unfold canon_rt, canon_octet. now rewrite Da.
  - destruct (nz_digit a) eqn:Da; [destruct (is_digit b) eqn:Db|].
    + exact (forall_range2 (fun a b => canon_rt [a; b]) _ _ _ _ canon_rt_sweep2 a b
               (is_digit_range a (nz_digit_digit a Da)) (is_digit_range b Db)).
    + unfold canon_rt, canon_octet. now rewrite Da, Db.
    + unfold canon_rt, canon_octet. now rewrite Da.
  - destruct (nz_digit a) eqn:Da; [destruct (is_digit b) eqn:Db; [destruct (is_digit c) eqn:Dc|]|].
    + pose proof (forall_range _ _ _ canon_rt_sweep3 a (is_digit_range a (nz_digit_digit a Da))) as H1.
      cbv beta in H1.
      exact (forall_range2 (fun b c => canon_rt [a; b; c]) _ _ _ _ H1 b c
               (is_digit_range b Db) (is_digit_range c Dc)).
    + unfold canon_rt, canon_octet. now rewrite Da, Db, Dc.
    + unfold canon_rt, canon_octet. now rewrite Da, Db.
    + unfold canon_rt, canon_octet. now rewrite Da.
Qed.

Lemma canon_octet_some t v : canon_octet t = Some v -> 0 <= v <= 255 /\ str_of_Z v = t.
Proof.
  intros H. pose proof (canon_rt_all t) as R. unfold canon_rt in R. rewrite H in R.
  apply andb_true_iff in R as [R Hs]. apply andb_true_iff in R as [R1 R2].
  apply str_eqb_eq in Hs. split; [lia|assumption].
Qed.

Lemma canon_octet_eq t : canon_octet t = octet_of t.
Proof.
  unfold octet_of.
  destruct (find (fun n => str_eqb (str_of_Z n) t) (zrange 256 0)) as [n|] eqn:F.
  - apply find_some in F as [Hin Hn]. apply str_eqb_eq in Hn. apply zrange_in_inv in Hin.
    rewrite <- Hn. apply canon_octet_text. simpl in Hin. lia.
  - destruct (canon_octet t) as [v|] eqn:E; [|reflexivity].
    apply canon_octet_some in E as [Hv Ht].
    assert (Hin : In v (zrange 256 0)) by (apply zrange_in; simpl; lia).
    pose proof (find_none _ _ F v Hin) as Hf. cbv beta in Hf.
    rewrite Ht, str_eqb_refl in Hf. discriminate.
Qed.

Definition quad_bytes (q : Z * Z * Z * Z) : list Z := let '(a, b, c, d) := q in [a; b; c; d].

Lemma inet_aton_quad s : inet_aton s = option_map quad_bytes (quad_of s).
Proof.
  unfold inet_aton, quad_of.
  destruct (split_on 46 s) as [|a [|b [|c [|d [|e r]]]]]; try reflexivity.
  rewrite !canon_octet_eq.
  destruct (octet_of a), (octet_of b), (octet_of c), (octet_of d); reflexivity.
Qed.

Lemma is_ip_address_quad s :
  is_ip_address s = match quad_of s with Some _ => true | None => false end.
Proof. unfold is_ip_address. rewrite inet_aton_quad. now destruct (quad_of s). Qed.

Lemma be_decode_quad q : be_decode (quad_bytes q) = quad_value q.
Proof.
  destruct q as [[[a b] c] d]. unfold be_decode, quad_bytes, quad_value. cbn [fold_left].
  change (2 ^ 24) with 16777216. change (2 ^ 16) with 65536. change (2 ^ 8) with 256. lia.
Qed.

Lemma ip_to_int_quad s : ip_to_int s = option_map quad_value (quad_of s).
Proof.
  unfold ip_to_int. rewrite inet_aton_quad. destruct (quad_of s); [|reflexivity].
  cbn [option_map]. now rewrite be_decode_quad.
Qed.

(* ---- the netmask: the code's shift-and-mask against 2^32 - 2^(32-k), every prefix length ---- *)
Lemma netmask_sweep : forallb (fun k => netmask_of_prefix k =? mask k) (zrange 33 0) = true.
Proof. vm_compute. reflexivity. Qed.

Lemma netmask_mask k : 0 <= k <= 32 -> netmask_of_prefix k = mask k.
Proof.
  intros H. apply Z.eqb_eq. apply (forall_range _ _ _ netmask_sweep). simpl. lia.
Qed.

(* ---- split ---- *)
Lemma split_on_once c s :
  split_on c s = match split_once c s with None => [s] | Some (a, b) => a :: split_on c b end.
Proof.
  induction s as [|x r IH]; [reflexivity|]. cbn [split_on split_once].
  destruct (x =? c); [reflexivity|]. rewrite IH.
  destruct (split_once c r) as [[a b]|]; reflexivity.
Qed.

Lemma split_on_not_nil c s : split_on c s <> [].
Proof. rewrite split_on_once. destruct (split_once c s) as [[a b]|]; discriminate. Qed.

(* Str.split_all is the same function *)
Lemma split_all_aux_split_on c s cur :
  split_all_aux c s cur =
  match split_on c s with h :: t => (rev cur ++ h) :: t | [] => [] end.
Proof.
  revert cur. induction s as [|x r IH]; intros cur; cbn [split_all_aux split_on].
  - now rewrite app_nil_r.
  - destruct (x =? c).
    + rewrite app_nil_r. f_equal. rewrite IH. destruct (split_on c r); reflexivity.
    + rewrite IH. destruct (split_on c r) as [|h t] eqn:E.
      * exfalso. eapply split_on_not_nil. exact E.
      * cbn [rev]. now rewrite <- app_assoc.
Qed.

Lemma split_on_split_all c s : split_on c s = split_all c s.
Proof.
  unfold split_all. rewrite split_all_aux_split_on.
  destruct (split_on c s) eqn:E; [exfalso; eapply split_on_not_nil; exact E|reflexivity].
Qed.

(* ---- int(netmask) on a text without white space or sign is the decimal value ---- *)
Definition plain_char (c : Z) : bool := negb (is_space c) && negb (c =? 43) && negb (c =? 45).

Lemma lstrip_plain s : forallb plain_char s = true -> lstrip s = s.
Proof.
  destruct s as [|c r]; [reflexivity|]. cbn [forallb lstrip]. intros H.
  apply andb_true_iff in H as [H _]. unfold plain_char in H.
  apply andb_true_iff in H as [H _]. apply andb_true_iff in H as [H _].
  apply negb_true_iff in H. now rewrite H.
Qed.

Lemma forallb_rev (P : Z -> bool) s : forallb P (rev s) = forallb P s.
Proof.
  induction s as [|c r IH]; [reflexivity|]. cbn [rev forallb].
  rewrite forallb_app, IH. cbn [forallb]. now rewrite andb_true_r, andb_comm.
Qed.

Lemma strip_plain s : forallb plain_char s = true -> strip s = s.
Proof.
  intros H. unfold strip, rstrip. rewrite (lstrip_plain s H).
  rewrite lstrip_plain by (now rewrite forallb_rev). apply rev_involutive.
Qed.

Lemma parse_nat_aux_fold s : forall acc,
  parse_nat_aux s acc =
  if forallb is_digit s then Some (fold_left (fun a c => a * 10 + (c - 48)) s acc) else None.
Proof.
  induction s as [|c r IH]; intros acc; [reflexivity|]. cbn [parse_nat_aux forallb fold_left].
  destruct (is_digit c); [|reflexivity]. now rewrite IH.
Qed.

Lemma parse_int_head c r : c <> 45 -> c <> 43 ->
  match c :: r with
  | [] => None
  | 45 :: r0 => match r0 with [] => None | _ => option_map Z.opp (parse_nat_aux r0 0) end
  | 43 :: r0 => match r0 with [] => None | _ => parse_nat_aux r0 0 end
  | r0 => parse_nat_aux r0 0
  end = parse_nat_aux (c :: r) 0.
Proof.
  intros H45 H43.
  destruct c as [|p|p]; try reflexivity.
  do 7 (try (destruct p as [p|p|]; try reflexivity)); congruence.
Qed.

Lemma parse_int_plain t : forallb plain_char t = true -> parse_int t = decimal t.
Proof.
  intros H. unfold parse_int, decimal. rewrite (strip_plain t H).
  destruct t as [|c r]; [reflexivity|].
  rewrite parse_int_head.
  - rewrite parse_nat_aux_fold. cbn [null negb andb]. reflexivity.
  - cbn [forallb] in H. apply andb_true_iff in H as [H _]. unfold plain_char in H.
    apply andb_true_iff in H as [_ H]. apply negb_true_iff in H. now apply Z.eqb_neq.
  - cbn [forallb] in H. apply andb_true_iff in H as [H _]. unfold plain_char in H.
    apply andb_true_iff in H as [H _]. apply andb_true_iff in H as [_ H].
    apply negb_true_iff in H. now apply Z.eqb_neq.
Qed.

(* ---- the lists for which model and specification are compared ----
   An entry is admissible when
   - in an entry holding "/", the text after the first "/" has no white space and no sign
     character (int() of the code tolerates both: "10.0.0.0/+8", "0.0.0.0/-0", "10.0.0.0/ 8"
     are blocks for the code, not for the specification), and
   - it does not start with two dots (the code strips ALL leading dots of a domain entry). *)
Definition entry_ok (e : str) : bool :=
  match split_once 47 e with None => true | Some (_, t) => forallb plain_char t end
  && negb (starts_with [46; 46] e).
Definition list_ok (lst : list str) : Prop := forallb entry_ok lst = true.

(* no condition on the host is needed; kept so that statements read as in the property *)
Definition host_ok (h : str) : Prop := True.

Lemma decimal_no_slash t k : decimal t = Some k -> contains_char 47 t = false.
Proof.
  unfold decimal. destruct (negb (null t) && forallb is_digit t) eqn:E; [|discriminate].
  intros _. apply andb_true_iff in E as [_ E]. apply (cc_forallb _ _ _ E). reflexivity.
Qed.

(* one entry as a CIDR block *)
Lemma block_entry hostname q e :
  entry_ok e = true -> quad_of hostname = Some q ->
  is_subnet_address e && is_address_in_network hostname e = in_block (quad_value q) e.
Proof.
  intros Hok Hq. unfold entry_ok in Hok. apply andb_true_iff in Hok as [Hok _].
  unfold is_subnet_address, is_address_in_network, in_block, cidr_of.
  rewrite (ip_to_int_quad hostname), Hq. cbn [option_map].
  rewrite (split_on_once 47 e).
  destruct (split_once 47 e) as [[addr t]|]; [|reflexivity].
  rewrite (split_on_once 47 t).
  destruct (split_once 47 t) as [[t1 t2]|] eqn:Et.
  - (* a second "/": not a block for either side *)
    assert (Hd : decimal t = None).
    { destruct (decimal t) as [k|] eqn:Ed; [|reflexivity].
      apply decimal_no_slash in Ed. rewrite (split_once_none _ _ Ed) in Et. discriminate. }
    rewrite Hd.
    assert (Hl : match t1 :: split_on 47 t2 with [_] => false | _ => true end = true).
    { destruct (split_on 47 t2) eqn:E2; [exfalso; eapply split_on_not_nil; exact E2|reflexivity]. }
    destruct (split_on 47 t2) eqn:E2; [discriminate Hl|].
    destruct (quad_of addr); reflexivity.
  - rewrite is_ip_address_quad, ip_to_int_quad, (parse_int_plain t Hok).
    destruct (quad_of addr) as [qa|]; [|reflexivity]. cbn [option_map andb].
    destruct (decimal t) as [k|]; [|reflexivity].
    unfold subnet_prefix_ok, address_in_network.
    destruct ((0 <=? k) && (k <=? 32)) eqn:Ek; [|reflexivity].
    rewrite netmask_mask; [reflexivity|].
    apply andb_true_iff in Ek as [E1 E2]. lia.
Qed.

(* ---- suffixes ---- *)
Lemma starts_with_iff p s : starts_with p s = true <-> exists q, s = p ++ q.
Proof.
  revert s; induction p as [|x p IH]; intros s; cbn [starts_with].
  - split; [intros _; now exists s|reflexivity].
  - destruct s as [|y s].
    + split; [discriminate|]. intros [q Hq]. discriminate Hq.
    + split.
      * intros H. apply andb_true_iff in H as [H1 H2]. apply Z.eqb_eq in H1. subst y.
        apply IH in H2 as [q ->]. now exists q.
      * intros [q Hq]. cbn [app] in Hq. inversion Hq; subst.
        rewrite Z.eqb_refl. apply IH. now exists q.
Qed.

Lemma ends_with_iff p s : ends_with p s = true <-> exists q, s = q ++ p.
Proof.
  unfold ends_with. rewrite starts_with_iff. split.
  - intros [q Hq]. exists (rev q).
    rewrite <- (rev_involutive s), Hq, rev_app_distr, rev_involutive. reflexivity.
  - intros [q ->]. exists (rev q). apply rev_app_distr.
Qed.

Lemma is_suffix_iff p s : is_suffix p s = true <-> exists q, s = q ++ p.
Proof.
  unfold is_suffix. induction s as [|x s IH]; cbn [tails existsb].
  - rewrite orb_false_r, str_eqb_eq. split.
    + intros ->. now exists [].
    + intros [q Hq]. symmetry in Hq. apply app_eq_nil in Hq as [_ ->]. reflexivity.
  - rewrite orb_true_iff, str_eqb_eq, IH. split.
    + intros [->|[q ->]]; [now exists []|now exists (x :: q)].
    + intros [q Hq]. destruct q as [|y q].
      * left. now rewrite Hq.
      * right. cbn [app] in Hq. inversion Hq; subst. now exists q.
Qed.

Lemma ends_with_is_suffix p s : ends_with p s = is_suffix p s.
Proof.
  apply eq_true_iff_eq. now rewrite ends_with_iff, is_suffix_iff.
Qed.

(* one entry as a leading-dot domain *)
Lemma domain_entry hostname e :
  entry_ok e = true ->
  starts_with [46] e &&
    (str_eqb hostname (lstrip_char 46 e) || ends_with (46 :: lstrip_char 46 e) hostname)
  = in_domain hostname e.
Proof.
  intros Hok. unfold entry_ok in Hok. apply andb_true_iff in Hok as [_ Hok].
  apply negb_true_iff in Hok. unfold in_domain.
  destruct e as [|c d]; [reflexivity|].
  cbn [starts_with]. rewrite andb_true_r, (Z.eqb_sym 46 c).
  destruct (Z.eqb_spec c 46) as [->|]; [|reflexivity]. cbn [andb].
  assert (Hd : lstrip_char 46 (46 :: d) = d).
  { cbn [lstrip_char]. rewrite Z.eqb_refl. destruct d as [|c2 d2]; [reflexivity|].
    cbn [starts_with] in Hok. rewrite Z.eqb_refl, andb_true_r in Hok. cbn [andb] in Hok.
    cbn [lstrip_char]. rewrite (Z.eqb_sym c2 46), Hok. reflexivity. }
  rewrite Hd, ends_with_is_suffix. reflexivity.
Qed.

(* ---- where the list comes from ---- *)
Lemma effective_list opt env : effective_no_proxy opt env = no_proxy_list opt env.
Proof.
  unfold effective_no_proxy, no_proxy_list, env_value, env_get, remove_char.
  change k_no_proxy with v_no_proxy. change k_NO_PROXY with v_NO_PROXY.
  destruct opt as [[|x l]|]; try reflexivity;
  match goal with |- (if null ?v then _ else _) = _ => destruct v; reflexivity end.
Qed.

(* ---- the C19 exemption theorems ---- *)

(* whatever the source of the list *)
Theorem C19_exempt_any_source : forall hostname opt env,
  list_ok (no_proxy_list opt env) ->
  is_no_proxy_host hostname opt env = exempt hostname (no_proxy_list opt env).
Proof.
  intros hostname opt env Hok. unfold is_no_proxy_host. rewrite effective_list.
  set (l := no_proxy_list opt env) in *. unfold exempt. change [42] with s_star.
  destruct (mem_str s_star l); [reflexivity|].
  destruct (mem_str hostname l); [reflexivity|]. cbn [orb].
  unfold list_ok in Hok. rewrite forallb_forall in Hok.
  rewrite is_ip_address_quad. destruct (quad_of hostname) as [q|] eqn:Eq.
  - rewrite existsb_filter. apply existsb_ext_in. intros e He.
    apply block_entry; [now apply Hok|assumption].
  - rewrite existsb_filter. apply existsb_ext_in. intros e He.
    apply domain_entry. now apply Hok.
Qed.

(* the no_proxy option, when it lists something, is the list; the environment is not looked at *)
Theorem C19_exempt : forall env hostname lst,
  host_ok hostname -> list_ok lst -> lst <> [] ->
  is_no_proxy_host hostname (Some lst) env = exempt hostname lst.
Proof.
  intros env hostname lst _ Hok Hne.
  assert (Hl : no_proxy_list (Some lst) env = lst) by (destruct lst; [congruence|reflexivity]).
  rewrite <- Hl at 2. apply C19_exempt_any_source. now rewrite Hl.
Qed.

(* no option (None or an empty list): the environment, no_proxy before NO_PROXY *)
Theorem C19_exempt_env : forall env hostname opt,
  opt = None \/ opt = Some [] ->
  list_ok (no_proxy_list None env) ->
  is_no_proxy_host hostname opt env = exempt hostname (no_proxy_list None env)
  /\ no_proxy_list None env =
     match env_value v_no_proxy v_NO_PROXY env with [] => [] | v => split_on 44 v end.
Proof.
  intros env hostname opt Hopt Hok.
  assert (Hl : no_proxy_list opt env = no_proxy_list None env) by (destruct Hopt as [->| ->]; reflexivity).
  split; [|reflexivity]. rewrite <- Hl. apply C19_exempt_any_source. now rewrite Hl.
Qed.

(* nothing listed anywhere: never exempt *)
Corollary C19_exempt_nothing : forall env hostname opt,
  no_proxy_list opt env = [] -> is_no_proxy_host hostname opt env = false.
Proof.
  intros env hostname opt H. rewrite C19_exempt_any_source; rewrite H; [|reflexivity].
  unfold exempt. cbn [mem_str existsb orb]. now destruct (quad_of hostname).
Qed.

(* The guard of clause (4): for a host that is an IPv4 address the code never looks at the
   domain entries, so the unguarded reading of the property text differs on such hosts. *)
Theorem C19_ip_host_domain_note :
  exists hostname lst,
    list_ok lst /\ is_no_proxy_host hostname (Some lst) [] = false
    /\ exempt hostname lst = false /\ exempt_unguarded hostname lst = true.
Proof.
  exists [49; 46; 50; 46; 51; 46; 52], [[46; 51; 46; 52]].   (* "1.2.3.4", [".3.4"] *)
  vm_compute. repeat split.
Qed.

Lemma exempt_unguarded_names hostname lst :
  quad_of hostname = None -> exempt_unguarded hostname lst = exempt hostname lst.
Proof. intros H. unfold exempt_unguarded, exempt. rewrite H. now rewrite orb_false_r. Qed.

(* ================================================================== *)
(* Part D: C19, the decision of get_proxy_info                        *)
(* ================================================================== *)

Lemma scheme_value_eq sec env :
  (if sec : bool
   then remove_char 32 (env_get k_https_proxy (env_get k_HTTPS_PROXY [] env) env)
   else remove_char 32 (env_get k_http_proxy (env_get k_HTTP_PROXY [] env) env))
  = scheme_proxy_value sec env.
Proof. destruct sec; reflexivity. Qed.

(* The whole decision table.  In words: an exempt target is never proxied; otherwise a proxy
   host given by option wins over the environment (and its port must not be 0); otherwise the
   environment variable of the scheme decides (http_proxy / HTTP_PROXY for ws, https_proxy /
   HTTPS_PROXY for wss, lower case first, spaces ignored); otherwise there is no proxy. *)
Theorem C19_decision : forall hostname sec ph pp pa npx env,
  list_ok (no_proxy_list npx env) ->
  get_proxy_info hostname sec ph pp pa npx env =
  if exempt hostname (no_proxy_list npx env) then Ok (None, Some 0, None)
  else match ph with
       | Some (c :: h) => if pp =? 0 then Raise ProxyErr else Ok (Some (c :: h), Some pp, pa)
       | _ => match scheme_proxy_value sec env with
              | [] => Ok (None, Some 0, None)
              | v => proxy_of_value v
              end
       end.
Proof.
  intros hostname sec ph pp pa npx env Hok. unfold get_proxy_info.
  rewrite (C19_exempt_any_source _ _ _ Hok).
  destruct (exempt hostname (no_proxy_list npx env)); [reflexivity|].
  rewrite scheme_value_eq.
  destruct ph as [[|c h]|]; try reflexivity;
    destruct (scheme_proxy_value sec env); reflexivity.
Qed.

(* "exactly when": no proxy without a source or for an exempt target ... *)
Corollary C19_direct : forall hostname sec ph pp pa npx env,
  list_ok (no_proxy_list npx env) ->
  use_proxy hostname sec ph npx env = false ->
  get_proxy_info hostname sec ph pp pa npx env = Ok (None, Some 0, None).
Proof.
  intros hostname sec ph pp pa npx env Hok Hu. rewrite C19_decision by assumption.
  unfold use_proxy in Hu.
  destruct (exempt hostname (no_proxy_list npx env)); [reflexivity|]. cbn [negb andb] in Hu.
  apply orb_false_iff in Hu as [Hg Hv]. apply negb_false_iff in Hv.
  destruct ph as [[|c h]|]; try discriminate Hg;
    destruct (scheme_proxy_value sec env); try discriminate Hv; reflexivity.
Qed.

(* ... and with a source and a non-exempt target the proxy of that source is used *)
Corollary C19_proxied : forall hostname sec ph pp pa npx env,
  list_ok (no_proxy_list npx env) ->
  use_proxy hostname sec ph npx env = true ->
  (forall h, ph = Some h -> h <> [] ->
     get_proxy_info hostname sec ph pp pa npx env =
     if pp =? 0 then Raise ProxyErr else Ok (Some h, Some pp, pa))
  /\ (given ph = false ->
      scheme_proxy_value sec env <> [] /\
      get_proxy_info hostname sec ph pp pa npx env = proxy_of_value (scheme_proxy_value sec env)).
Proof.
  intros hostname sec ph pp pa npx env Hok Hu. rewrite C19_decision by assumption.
  unfold use_proxy in Hu. apply andb_true_iff in Hu as [He Hs]. apply negb_true_iff in He.
  rewrite He. split.
  - intros h -> Hh. destruct h; [congruence|reflexivity].
  - intros Hg. rewrite Hg in Hs. cbn [orb] in Hs. apply negb_true_iff in Hs.
    destruct (scheme_proxy_value sec env) eqn:Ev; [discriminate Hs|].
    split; [discriminate|]. destruct ph as [[|c h]|]; try reflexivity. discriminate Hg.
Qed.

(* https_proxy / HTTPS_PROXY are never consulted for ws, nor http_proxy / HTTP_PROXY for wss:
   two environments that differ only there give the same answer *)
Theorem C19_scheme_variable : forall hostname ph pp pa npx env1 env2,
  (forall k, alist_get k env1 = alist_get k env2 \/ k = v_https_proxy \/ k = v_HTTPS_PROXY) ->
  get_proxy_info hostname false ph pp pa npx env1 = get_proxy_info hostname false ph pp pa npx env2.
Proof.
  intros hostname ph pp pa npx env1 env2 H.
  assert (E : forall k, k <> v_https_proxy -> k <> v_HTTPS_PROXY -> alist_get k env1 = alist_get k env2).
  { intros k H1 H2. destruct (H k) as [E|[E|E]]; [assumption|contradiction|contradiction]. }
  unfold get_proxy_info, is_no_proxy_host, effective_no_proxy, env_get.
  rewrite (E k_no_proxy), (E k_NO_PROXY), (E k_http_proxy), (E k_HTTP_PROXY) by (intro X; inversion X).
  reflexivity.
Qed.

Theorem C19_scheme_variable_secure : forall hostname ph pp pa npx env1 env2,
  (forall k, alist_get k env1 = alist_get k env2 \/ k = v_http_proxy \/ k = v_HTTP_PROXY) ->
  get_proxy_info hostname true ph pp pa npx env1 = get_proxy_info hostname true ph pp pa npx env2.
Proof.
  intros hostname ph pp pa npx env1 env2 H.
  assert (E : forall k, k <> v_http_proxy -> k <> v_HTTP_PROXY -> alist_get k env1 = alist_get k env2).
  { intros k H1 H2. destruct (H k) as [E|[E|E]]; [assumption|contradiction|contradiction]. }
  unfold get_proxy_info, is_no_proxy_host, effective_no_proxy, env_get.
  rewrite (E k_no_proxy), (E k_NO_PROXY), (E k_https_proxy), (E k_HTTPS_PROXY) by (intro X; inversion X).
  reflexivity.
Qed.

(* ---- the value of the environment variable: http://[user[:password]@]host[:port][/...] ---- *)
Definition proxy_url (p : url_parts) : str := s_http ++ 58 :: 47 :: 47 :: authority p ++ path_query p.

Lemma detect_scheme_http rest d : detect_scheme (s_http ++ 58 :: rest) d = (s_http, rest).
Proof. reflexivity. Qed.

Lemma hostport_no_at p : wf_parts p -> contains_char 64 (host_render (p_host p) ++ sfx_of p) = false.
Proof.
  unfold wf_parts, wf_partsb. intros H.
  apply andb_true_iff in H as [H _]. apply andb_true_iff in H as [H _].
  apply andb_true_iff in H as [H Hport]. apply andb_true_iff in H as [_ Hhost].
  pose proof (wf_sfx p Hport) as Hs.
  destruct (p_host p) as [n|a b c d|lit] eqn:Eh.
  1,2: rewrite <- Eh in *;
    assert (Hne : forall lit, p_host p <> HIPv6 lit) by (rewrite Eh; congruence);
    destruct (plain_host_text _ Hhost Hne) as [Ft Nt];
    replace (host_render (p_host p)) with (host_text (p_host p)) by (rewrite Eh; reflexivity);
    apply (name_hp_cc _ _ _ _ Ft Hs); reflexivity.
  assert (Hl : forallb ip6_lit_char lit = true).
  { simpl in Hhost. apply andb_true_iff in Hhost as [Hh _]. now apply andb_true_iff in Hh as [_ Hh]. }
  replace (host_render (HIPv6 lit) ++ sfx_of p) with (91 :: lit ++ 93 :: sfx_of p)
    by (simpl; rewrite <- app_assoc; reflexivity).
  apply (v6_hp_cc _ _ _ _ Hl Hs); reflexivity.
Qed.

Lemma userinfo_rendered p : wf_parts p ->
  userinfo_of (authority p) =
  match p_userinfo p with
  | None => (None, None)
  | Some u => let '(user, have_pw, pw) := partition 58 u in
              (Some user, if have_pw : bool then Some pw else None)
  end.
Proof.
  intros Hwf. pose proof (hostport_no_at p Hwf) as H64.
  unfold userinfo_of, rpartition. rewrite authority_split. unfold pre_of.
  destruct (p_userinfo p) as [u|].
  - rewrite <- app_assoc. cbn [app]. rewrite rsplit_once_app by assumption. reflexivity.
  - cbn [app]. rewrite rsplit_once_none by assumption. reflexivity.
Qed.

Theorem C19_env_value_form : forall p, wf_parts p ->
  (p_userinfo p = None ->
     proxy_of_value (proxy_url p) = Ok (Some (expected_host (p_host p)), p_port p, None))
  /\ (forall user pw, p_userinfo p = Some (user ++ 58 :: pw) ->
        contains_char 58 user = false -> user <> [] ->
        proxy_of_value (proxy_url p) = Ok (Some (expected_host (p_host p)), p_port p, Some (user, pw)))
  /\ (forall user, p_userinfo p = Some user -> contains_char 58 user = false -> user <> [] ->
        proxy_of_value (proxy_url p) = Raise (Internal TypeErr)).
Proof.
  intros p Hwf.
  assert (Hp : urlparse (proxy_url p) [] =
               Ok (mk_parsed s_http (authority p) (fst (pp (p_path p))) (snd (pp (p_path p)))
                             (query_text p) [])).
  { apply urlparse_rendered_gen; [assumption|apply detect_scheme_http]. }
  unfold proxy_of_value. rewrite Hp. cbn [bind u_netloc].
  rewrite (userinfo_rendered p Hwf), (hostname_rendered p Hwf), (port_rendered p Hwf).
  repeat split.
  - intros ->. reflexivity.
  - intros user pw -> Hu Hne. rewrite (partition_app 58) by assumption.
    destruct user; [congruence|reflexivity].
  - intros user -> Hu Hne. rewrite (partition_none 58) by assumption.
    destruct user; [congruence|reflexivity].
Qed.

(* ---- examples (the right-hand sides are what the real code returns, see harness/corr/url_validate.py) ---- *)

(* parse_url("wss://User:Pw@[2001:DB8::1]:8443/chat;v=1/room;x?a=1&b=2") = ("2001:db8::1", 8443, "/chat;v=1/room;x?a=1&b=2", True) *)
Example ex_01 :
  parse_url [119; 115; 115; 58; 47; 47; 85; 115; 101; 114; 58; 80; 119; 64; 91; 50; 48; 48; 49; 58; 68; 66; 56; 58; 58; 49; 93; 58; 56; 52; 52; 51; 47; 99; 104; 97; 116; 59; 118; 61; 49; 47; 114; 111; 111; 109; 59; 120; 63; 97; 61; 49; 38; 98; 61; 50]
  = Ok ([50; 48; 48; 49; 58; 100; 98; 56; 58; 58; 49], 8443, [47; 99; 104; 97; 116; 59; 118; 61; 49; 47; 114; 111; 111; 109; 59; 120; 63; 97; 61; 49; 38; 98; 61; 50], true).
Proof. vm_compute. reflexivity. Qed.

(* parse_url("ws://EXAMPLE.com") = ("example.com", 80, "/", False) *)
Example ex_02 :
  parse_url [119; 115; 58; 47; 47; 69; 88; 65; 77; 80; 76; 69; 46; 99; 111; 109]
  = Ok ([101; 120; 97; 109; 112; 108; 101; 46; 99; 111; 109], 80, [47], false).
Proof. vm_compute. reflexivity. Qed.

(* parse_url("ws://h?q") = ("h", 80, "/?q", False) *)
Example ex_03 :
  parse_url [119; 115; 58; 47; 47; 104; 63; 113]
  = Ok ([104], 80, [47; 63; 113], false).
Proof. vm_compute. reflexivity. Qed.

(* parse_url("wss://1.2.3.4:443/") = ("1.2.3.4", 443, "/", True) *)
Example ex_04 :
  parse_url [119; 115; 115; 58; 47; 47; 49; 46; 50; 46; 51; 46; 52; 58; 52; 52; 51; 47]
  = Ok ([49; 46; 50; 46; 51; 46; 52], 443, [47], true).
Proof. vm_compute. reflexivity. Qed.

(* parse_url("ws://h:0/") = ("h", 80, "/", False) *)
Example ex_05 :
  parse_url [119; 115; 58; 47; 47; 104; 58; 48; 47]
  = Ok ([104], 80, [47], false).
Proof. vm_compute. reflexivity. Qed.

(* parse_url("ws://h:65535/p") = ("h", 65535, "/p", False) *)
Example ex_06 :
  parse_url [119; 115; 58; 47; 47; 104; 58; 54; 53; 53; 51; 53; 47; 112]
  = Ok ([104], 65535, [47; 112], false).
Proof. vm_compute. reflexivity. Qed.

(* parse_url("ws://h:65536/p") raises ValueError *)
Example ex_07 :
  parse_url [119; 115; 58; 47; 47; 104; 58; 54; 53; 53; 51; 54; 47; 112]
  = Raise ValueErr.
Proof. vm_compute. reflexivity. Qed.

(* parse_url("http://h/") raises ValueError *)
Example ex_08 :
  parse_url [104; 116; 116; 112; 58; 47; 47; 104; 47]
  = Raise ValueErr.
Proof. vm_compute. reflexivity. Qed.

(* parse_url("ws:///p") raises ValueError *)
Example ex_09 :
  parse_url [119; 115; 58; 47; 47; 47; 112]
  = Raise ValueErr.
Proof. vm_compute. reflexivity. Qed.

(* parse_url("ws:/h/p") raises ValueError *)
Example ex_10 :
  parse_url [119; 115; 58; 47; 104; 47; 112]
  = Raise ValueErr.
Proof. vm_compute. reflexivity. Qed.

(* parse_url("WS://h/") raises ValueError *)
Example ex_11 :
  parse_url [87; 83; 58; 47; 47; 104; 47]
  = Raise ValueErr.
Proof. vm_compute. reflexivity. Qed.

(* parse_url("ws://:80/") raises ValueError *)
Example ex_12 :
  parse_url [119; 115; 58; 47; 47; 58; 56; 48; 47]
  = Raise ValueErr.
Proof. vm_compute. reflexivity. Qed.

(* parse_url("ws://[::1") raises ValueError *)
Example ex_13 :
  parse_url [119; 115; 58; 47; 47; 91; 58; 58; 49]
  = Raise ValueErr.
Proof. vm_compute. reflexivity. Qed.

(* parse_url("ws:foo://host/p") = ("host", 80, "/p", False) *)
Example ex_14 :
  parse_url [119; 115; 58; 102; 111; 111; 58; 47; 47; 104; 111; 115; 116; 47; 112]
  = Ok ([104; 111; 115; 116], 80, [47; 112], false).
Proof. vm_compute. reflexivity. Qed.

(* parse_url("ws://h/p?") = ("h", 80, "/p", False) *)
Example ex_15 :
  parse_url [119; 115; 58; 47; 47; 104; 47; 112; 63]
  = Ok ([104], 80, [47; 112], false).
Proof. vm_compute. reflexivity. Qed.

(* parse_url("ws://h/p#frag") = ("h", 80, "/p", False) *)
Example ex_16 :
  parse_url [119; 115; 58; 47; 47; 104; 47; 112; 35; 102; 114; 97; 103]
  = Ok ([104], 80, [47; 112], false).
Proof. vm_compute. reflexivity. Qed.

(* _is_no_proxy_host("badexample", ['.example']) with environment {} is False *)
Example ex_17 :
  is_no_proxy_host [98; 97; 100; 101; 120; 97; 109; 112; 108; 101] (Some [[46; 101; 120; 97; 109; 112; 108; 101]]) []
  = false.
Proof. vm_compute. reflexivity. Qed.

(* _is_no_proxy_host("a.example", ['.example']) with environment {} is True *)
Example ex_18 :
  is_no_proxy_host [97; 46; 101; 120; 97; 109; 112; 108; 101] (Some [[46; 101; 120; 97; 109; 112; 108; 101]]) []
  = true.
Proof. vm_compute. reflexivity. Qed.

(* _is_no_proxy_host("example", ['.example']) with environment {} is True *)
Example ex_19 :
  is_no_proxy_host [101; 120; 97; 109; 112; 108; 101] (Some [[46; 101; 120; 97; 109; 112; 108; 101]]) []
  = true.
Proof. vm_compute. reflexivity. Qed.

(* _is_no_proxy_host("example", ['xample']) with environment {} is False *)
Example ex_20 :
  is_no_proxy_host [101; 120; 97; 109; 112; 108; 101] (Some [[120; 97; 109; 112; 108; 101]]) []
  = false.
Proof. vm_compute. reflexivity. Qed.

(* _is_no_proxy_host("192.168.1.77", ['192.168.1.0/24']) with environment {} is True *)
Example ex_21 :
  is_no_proxy_host [49; 57; 50; 46; 49; 54; 56; 46; 49; 46; 55; 55] (Some [[49; 57; 50; 46; 49; 54; 56; 46; 49; 46; 48; 47; 50; 52]]) []
  = true.
Proof. vm_compute. reflexivity. Qed.

(* _is_no_proxy_host("192.168.1.77", ['192.168.1.128/25']) with environment {} is False *)
Example ex_22 :
  is_no_proxy_host [49; 57; 50; 46; 49; 54; 56; 46; 49; 46; 55; 55] (Some [[49; 57; 50; 46; 49; 54; 56; 46; 49; 46; 49; 50; 56; 47; 50; 53]]) []
  = false.
Proof. vm_compute. reflexivity. Qed.

(* _is_no_proxy_host("192.168.1.77", ['192.168.1.77/32']) with environment {} is True *)
Example ex_23 :
  is_no_proxy_host [49; 57; 50; 46; 49; 54; 56; 46; 49; 46; 55; 55] (Some [[49; 57; 50; 46; 49; 54; 56; 46; 49; 46; 55; 55; 47; 51; 50]]) []
  = true.
Proof. vm_compute. reflexivity. Qed.

(* _is_no_proxy_host("192.168.1.77", ['0.0.0.0/0']) with environment {} is True *)
Example ex_24 :
  is_no_proxy_host [49; 57; 50; 46; 49; 54; 56; 46; 49; 46; 55; 55] (Some [[48; 46; 48; 46; 48; 46; 48; 47; 48]]) []
  = true.
Proof. vm_compute. reflexivity. Qed.

(* _is_no_proxy_host("192.168.1.77", ['192.168.1.77/24']) with environment {} is False *)
Example ex_25 :
  is_no_proxy_host [49; 57; 50; 46; 49; 54; 56; 46; 49; 46; 55; 55] (Some [[49; 57; 50; 46; 49; 54; 56; 46; 49; 46; 55; 55; 47; 50; 52]]) []
  = false.
Proof. vm_compute. reflexivity. Qed.

(* _is_no_proxy_host("192.168.1.77", ['10.0.0.0/8', '*']) with environment {} is True *)
Example ex_26 :
  is_no_proxy_host [49; 57; 50; 46; 49; 54; 56; 46; 49; 46; 55; 55] (Some [[49; 48; 46; 48; 46; 48; 46; 48; 47; 56]; [42]]) []
  = true.
Proof. vm_compute. reflexivity. Qed.

(* _is_no_proxy_host("x.example", None) with environment {'NO_PROXY': 'a, .example'} is True *)
Example ex_27 :
  is_no_proxy_host [120; 46; 101; 120; 97; 109; 112; 108; 101] None [([78; 79; 95; 80; 82; 79; 88; 89], [97; 44; 32; 46; 101; 120; 97; 109; 112; 108; 101])]
  = true.
Proof. vm_compute. reflexivity. Qed.

(* _is_no_proxy_host("x.example", None) with environment {'no_proxy': '', 'NO_PROXY': 'a, .example'} is False *)
Example ex_28 :
  is_no_proxy_host [120; 46; 101; 120; 97; 109; 112; 108; 101] None [([110; 111; 95; 112; 114; 111; 120; 121], []); ([78; 79; 95; 80; 82; 79; 88; 89], [97; 44; 32; 46; 101; 120; 97; 109; 112; 108; 101])]
  = false.
Proof. vm_compute. reflexivity. Qed.

(* _is_no_proxy_host("x.example", ['zzz']) with environment {'no_proxy': '*'} is False *)
Example ex_29 :
  is_no_proxy_host [120; 46; 101; 120; 97; 109; 112; 108; 101] (Some [[122; 122; 122]]) [([110; 111; 95; 112; 114; 111; 120; 121], [42])]
  = false.
Proof. vm_compute. reflexivity. Qed.

(* _is_no_proxy_host("x.example", []) with environment {'no_proxy': '*'} is True *)
Example ex_30 :
  is_no_proxy_host [120; 46; 101; 120; 97; 109; 112; 108; 101] (Some []) [([110; 111; 95; 112; 114; 111; 120; 121], [42])]
  = true.
Proof. vm_compute. reflexivity. Qed.

(* _is_subnet_address("0.0.0.0/-0") is True *)
Example ex_31 :
  is_subnet_address [48; 46; 48; 46; 48; 46; 48; 47; 45; 48]
  = true.
Proof. vm_compute. reflexivity. Qed.

(* _is_subnet_address("10.0.0.0/+8") is True *)
Example ex_32 :
  is_subnet_address [49; 48; 46; 48; 46; 48; 46; 48; 47; 43; 56]
  = true.
Proof. vm_compute. reflexivity. Qed.

(* _is_subnet_address("10.0.0.0/32") is True *)
Example ex_33 :
  is_subnet_address [49; 48; 46; 48; 46; 48; 46; 48; 47; 51; 50]
  = true.
Proof. vm_compute. reflexivity. Qed.

(* _is_subnet_address("10.0.0.0/33") is False *)
Example ex_34 :
  is_subnet_address [49; 48; 46; 48; 46; 48; 46; 48; 47; 51; 51]
  = false.
Proof. vm_compute. reflexivity. Qed.

(* get_proxy_info("t.example", False, None, 0, None, None) with environment {'http_proxy': 'http://hp.example:3128', 'https_proxy': 'http://u:p@SP.example:8443/'}: ('hp.example', 3128, None) *)
Example ex_35 :
  get_proxy_info [116; 46; 101; 120; 97; 109; 112; 108; 101] false None 0 None None [([104; 116; 116; 112; 95; 112; 114; 111; 120; 121], [104; 116; 116; 112; 58; 47; 47; 104; 112; 46; 101; 120; 97; 109; 112; 108; 101; 58; 51; 49; 50; 56]); ([104; 116; 116; 112; 115; 95; 112; 114; 111; 120; 121], [104; 116; 116; 112; 58; 47; 47; 117; 58; 112; 64; 83; 80; 46; 101; 120; 97; 109; 112; 108; 101; 58; 56; 52; 52; 51; 47])]
  = Ok (Some [104; 112; 46; 101; 120; 97; 109; 112; 108; 101], Some 3128, None).
Proof. vm_compute. reflexivity. Qed.

(* get_proxy_info("t.example", True, None, 0, None, None) with environment {'http_proxy': 'http://hp.example:3128', 'https_proxy': 'http://u:p@SP.example:8443/'}: ('sp.example', 8443, ('u', 'p')) *)
Example ex_36 :
  get_proxy_info [116; 46; 101; 120; 97; 109; 112; 108; 101] true None 0 None None [([104; 116; 116; 112; 95; 112; 114; 111; 120; 121], [104; 116; 116; 112; 58; 47; 47; 104; 112; 46; 101; 120; 97; 109; 112; 108; 101; 58; 51; 49; 50; 56]); ([104; 116; 116; 112; 115; 95; 112; 114; 111; 120; 121], [104; 116; 116; 112; 58; 47; 47; 117; 58; 112; 64; 83; 80; 46; 101; 120; 97; 109; 112; 108; 101; 58; 56; 52; 52; 51; 47])]
  = Ok (Some [115; 112; 46; 101; 120; 97; 109; 112; 108; 101], Some 8443, Some ([117], [112])).
Proof. vm_compute. reflexivity. Qed.

(* get_proxy_info("t.example", False, None, 0, None, None) with environment {'https_proxy': 'http://sp:1'}: (None, 0, None) *)
Example ex_37 :
  get_proxy_info [116; 46; 101; 120; 97; 109; 112; 108; 101] false None 0 None None [([104; 116; 116; 112; 115; 95; 112; 114; 111; 120; 121], [104; 116; 116; 112; 58; 47; 47; 115; 112; 58; 49])]
  = Ok (None, Some 0, None).
Proof. vm_compute. reflexivity. Qed.

(* get_proxy_info("t.example", True, None, 0, None, None) with environment {'HTTP_PROXY': 'http://hp:1'}: (None, 0, None) *)
Example ex_38 :
  get_proxy_info [116; 46; 101; 120; 97; 109; 112; 108; 101] true None 0 None None [([72; 84; 84; 80; 95; 80; 82; 79; 88; 89], [104; 116; 116; 112; 58; 47; 47; 104; 112; 58; 49])]
  = Ok (None, Some 0, None).
Proof. vm_compute. reflexivity. Qed.

(* get_proxy_info("t.example", False, 'opt', 8080, ('a', 'b'), None) with environment {'http_proxy': 'http://hp.example:3128', 'https_proxy': 'http://u:p@SP.example:8443/'}: ('opt', 8080, ('a', 'b')) *)
Example ex_39 :
  get_proxy_info [116; 46; 101; 120; 97; 109; 112; 108; 101] false (Some [111; 112; 116]) 8080 (Some ([97], [98])) None [([104; 116; 116; 112; 95; 112; 114; 111; 120; 121], [104; 116; 116; 112; 58; 47; 47; 104; 112; 46; 101; 120; 97; 109; 112; 108; 101; 58; 51; 49; 50; 56]); ([104; 116; 116; 112; 115; 95; 112; 114; 111; 120; 121], [104; 116; 116; 112; 58; 47; 47; 117; 58; 112; 64; 83; 80; 46; 101; 120; 97; 109; 112; 108; 101; 58; 56; 52; 52; 51; 47])]
  = Ok (Some [111; 112; 116], Some 8080, Some ([97], [98])).
Proof. vm_compute. reflexivity. Qed.

(* get_proxy_info("t.example", False, 'opt', 0, None, None) with environment {'http_proxy': 'http://hp.example:3128', 'https_proxy': 'http://u:p@SP.example:8443/'}: 'WebSocketProxyException' *)
Example ex_40 :
  get_proxy_info [116; 46; 101; 120; 97; 109; 112; 108; 101] false (Some [111; 112; 116]) 0 None None [([104; 116; 116; 112; 95; 112; 114; 111; 120; 121], [104; 116; 116; 112; 58; 47; 47; 104; 112; 46; 101; 120; 97; 109; 112; 108; 101; 58; 51; 49; 50; 56]); ([104; 116; 116; 112; 115; 95; 112; 114; 111; 120; 121], [104; 116; 116; 112; 58; 47; 47; 117; 58; 112; 64; 83; 80; 46; 101; 120; 97; 109; 112; 108; 101; 58; 56; 52; 52; 51; 47])]
  = Raise ProxyErr.
Proof. vm_compute. reflexivity. Qed.

(* get_proxy_info("t.example", False, 'opt', 8080, None, ['.example']) with environment {'http_proxy': 'http://hp.example:3128', 'https_proxy': 'http://u:p@SP.example:8443/'}: (None, 0, None) *)
Example ex_41 :
  get_proxy_info [116; 46; 101; 120; 97; 109; 112; 108; 101] false (Some [111; 112; 116]) 8080 None (Some [[46; 101; 120; 97; 109; 112; 108; 101]]) [([104; 116; 116; 112; 95; 112; 114; 111; 120; 121], [104; 116; 116; 112; 58; 47; 47; 104; 112; 46; 101; 120; 97; 109; 112; 108; 101; 58; 51; 49; 50; 56]); ([104; 116; 116; 112; 115; 95; 112; 114; 111; 120; 121], [104; 116; 116; 112; 58; 47; 47; 117; 58; 112; 64; 83; 80; 46; 101; 120; 97; 109; 112; 108; 101; 58; 56; 52; 52; 51; 47])]
  = Ok (None, Some 0, None).
Proof. vm_compute. reflexivity. Qed.

(* get_proxy_info("t.example", False, None, 0, None, None) with environment {'http_proxy': 'http://user@hp:3128'}: 'TypeError' *)
Example ex_42 :
  get_proxy_info [116; 46; 101; 120; 97; 109; 112; 108; 101] false None 0 None None [([104; 116; 116; 112; 95; 112; 114; 111; 120; 121], [104; 116; 116; 112; 58; 47; 47; 117; 115; 101; 114; 64; 104; 112; 58; 51; 49; 50; 56])]
  = Raise (Internal TypeErr).
Proof. vm_compute. reflexivity. Qed.

(* get_proxy_info("t.example", False, None, 0, None, None) with environment {'http_proxy': 'http://hp'}: ('hp', None, None) *)
Example ex_43 :
  get_proxy_info [116; 46; 101; 120; 97; 109; 112; 108; 101] false None 0 None None [([104; 116; 116; 112; 95; 112; 114; 111; 120; 121], [104; 116; 116; 112; 58; 47; 47; 104; 112])]
  = Ok (Some [104; 112], None, None).
Proof. vm_compute. reflexivity. Qed.

(* get_proxy_info("t.example", False, None, 0, None, None) with environment {'http_proxy': 'hp:8080'}: (None, None, None) *)
Example ex_44 :
  get_proxy_info [116; 46; 101; 120; 97; 109; 112; 108; 101] false None 0 None None [([104; 116; 116; 112; 95; 112; 114; 111; 120; 121], [104; 112; 58; 56; 48; 56; 48])]
  = Ok (None, None, None).
Proof. vm_compute. reflexivity. Qed.

(* a URL of the grammar, its text, and C18_parse applied to it *)
Definition p_example : url_parts :=
  mk_parts SWss (Some [85; 115; 101; 114; 58; 80; 119]) (HIPv6 [50; 48; 48; 49; 58; 68; 66; 56; 58; 58; 49]) (Some 8443) [47; 99; 104; 97; 116; 59; 118; 61; 49; 47; 114; 111; 111; 109; 59; 120] (Some [97; 61; 49; 38; 98; 61; 50]).
Example ex_render :
  wf_partsb p_example = true
  /\ render p_example = [119; 115; 115; 58; 47; 47; 85; 115; 101; 114; 58; 80; 119; 64; 91; 50; 48; 48; 49; 58; 68; 66; 56; 58; 58; 49; 93; 58; 56; 52; 52; 51; 47; 99; 104; 97; 116; 59; 118; 61; 49; 47; 114; 111; 111; 109; 59; 120; 63; 97; 61; 49; 38; 98; 61; 50]
  /\ expected p_example = ([50; 48; 48; 49; 58; 100; 98; 56; 58; 58; 49], 8443, [47; 99; 104; 97; 116; 59; 118; 61; 49; 47; 114; 111; 111; 109; 59; 120; 63; 97; 61; 49; 38; 98; 61; 50], true).
Proof. vm_compute. repeat split. Qed.
Example ex_render_parse : parse_url (render p_example) = Ok (expected p_example).
Proof. apply C18_parse. reflexivity. Qed.

(* ================================================================== *)
Print Assumptions C18_parse.
Print Assumptions C18_reject_no_colon.
Print Assumptions C18_reject_scheme.
Print Assumptions C18_reject_scheme_general.
Print Assumptions C18_reject_no_host.
Print Assumptions C18_default_ports.
Print Assumptions C18_trailing_semicolon_refuted.
Print Assumptions C19_exempt.
Print Assumptions C19_exempt_env.
Print Assumptions C19_exempt_any_source.
Print Assumptions C19_ip_host_domain_note.
Print Assumptions C19_decision.
Print Assumptions C19_direct.
Print Assumptions C19_proxied.
Print Assumptions C19_scheme_variable.
Print Assumptions C19_scheme_variable_secure.
Print Assumptions C19_env_value_form.
Print Assumptions split_on_split_all.
