(* The oracles that are extracted use a rotating key instead of an index modulo;
   they are equal to the spec's decoder / encoder on every input. *)
From Coq Require Import ZArith List Bool.
From WS Require Import Base.Bytes Spec.Frame Proofs.XorLemmas Proofs.XorFast.
Import ListNotations.
Open Scope Z_scope.

Definition decode_fast : bytes -> dec := decode_with xor_rot.
Definition encode_fast : wframe -> bytes := encode_with xor_rot.
Definition decode_all_fast := decode_all_with decode_fast.

Theorem decode_fast_eq s : decode_fast s = decode s.
Proof.
  unfold decode_fast, decode, decode_with.
  repeat match goal with
  | |- context [match ?x with _ => _ end] => destruct x eqn:?; try reflexivity
  end; rewrite ?xor_rot_cyc; reflexivity.
Qed.

Theorem encode_fast_eq f : encode_fast f = encode f.
Proof. unfold encode_fast, encode, encode_with. destruct (wkey f); rewrite ?xor_rot_cyc; reflexivity. Qed.

Theorem decode_all_fast_eq fuel s : decode_all_fast fuel s = decode_all fuel s.
Proof.
  unfold decode_all_fast, decode_all. revert s. induction fuel as [|k IH]; intro s; cbn [decode_all_with]; [reflexivity|].
  rewrite decode_fast_eq. destruct (decode s); try reflexivity; rewrite IH; reflexivity.
Qed.
